//! User-supplied pieces at the edges of what the traits allow - outside the domain of the Coq model
//! (whose identity laws make the conflict order total and whose concrete codec has 6-byte identities),
//! checked on the real crate only:
//!  * `TId`: an identity whose conflict order has ties - renew() changes a field the order ignores once
//!    the generation saturates.  C10: a renewed identity that does not WIN against the old one must not
//!    be adopted; the instance becomes Defunct.
//!  * `Tiny` + `TinyCodec`: one-byte identities and a header of four bytes.  C06: no panic with any
//!    non-panicking codec, however small its encodings.
use crate::falsify::{big_cfg, FOut};
use crate::json::J;
use crate::vid::VRng;
use bytes::{Buf, BufMut};
use foca::{AccumulatingRuntime, BincodeCodec, Codec, Foca, Header, Identity, Member, Message, NoCustomBroadcast, OwnedNotification, State};
use std::panic::{catch_unwind, AssertUnwindSafe};

#[derive(Clone, Debug, PartialEq, Eq, serde::Serialize, serde::Deserialize)]
pub struct TId {
    pub a: u16,
    pub gen: u8,
    pub nonce: u8,
}
impl Identity for TId {
    type Addr = u16;
    fn renew(&self) -> Option<Self> {
        Some(TId { a: self.a, gen: self.gen.saturating_add(1), nonce: self.nonce.wrapping_add(1) })
    }
    fn addr(&self) -> u16 {
        self.a
    }
    fn win_addr_conflict(&self, adv: &Self) -> bool {
        self.gen > adv.gen
    }
}

/// C10: learning Down(self) with a renewal that ties (generation saturated) must end Defunct under the
/// old identity; with a renewal that wins it must end renewed with Rejoin.
pub fn check_tie(seed: u64, out: &mut FOut) {
    for gen in [254u8, 255] {
        for how in 0..2u8 {
            for connected in [false, true] {
                let own = TId { a: 1, gen, nonce: 7 };
                let mut f: Foca<TId, _, _, NoCustomBroadcast> =
                    Foca::new(own.clone(), big_cfg().to_config(), VRng::new(seed ^ 0x71E), BincodeCodec(bincode::config::standard()));
                let mut rt: AccumulatingRuntime<TId> = AccumulatingRuntime::new();
                if connected {
                    let _ = f.apply_many(core::iter::once(Member::alive(TId { a: 2, gen: 0, nonce: 0 })), false, &mut rt);
                }
                let mut rt: AccumulatingRuntime<TId> = AccumulatingRuntime::new();
                let upd = if how == 0 { Member::new(own.clone(), 0, State::Down) } else { Member::new(own.clone(), u16::MAX, State::Suspect) };
                let r = f.apply_many(core::iter::once(upd), true, &mut rt);
                out.runs += 1;
                let mut notes = vec![];
                while let Some(n) = rt.to_notify() {
                    notes.push(n);
                }
                let rejoined = notes.iter().any(|n| matches!(n, OwnedNotification::Rejoin(_)));
                let defunct = notes.iter().any(|n| matches!(n, OwnedNotification::Defunct));
                let now = f.identity().clone();
                let what = format!(
                    "identity {own:?} (renewal {:?} {} against it), {} learns it is down by {}: result {r:?}, identity now {now:?}, notifications {notes:?}",
                    own.renew().unwrap(),
                    if gen == 255 { "does NOT win" } else { "wins" },
                    if connected { "connected" } else { "idle" },
                    if how == 0 { "a Down update" } else { "a suspicion at the maximum incarnation" }
                );
                if gen == 255 {
                    // the renewal does not win: it must not be adopted
                    if now != own || rejoined || !defunct {
                        out.hit("C10:adopted-a-renewed-identity-that-does-not-win", J::s(what));
                    }
                } else if !(now != own && now.win_addr_conflict(&own) && rejoined && !defunct) {
                    out.hit("C10:renewal-incomplete", J::s(what));
                }
            }
        }
    }
}

#[derive(Clone, Copy, Debug, PartialEq, Eq, PartialOrd, Ord, Hash)]
pub struct Tiny(pub u8);
impl Identity for Tiny {
    type Addr = u8;
    fn renew(&self) -> Option<Self> {
        None
    }
    fn addr(&self) -> u8 {
        self.0
    }
    fn win_addr_conflict(&self, _adv: &Self) -> bool {
        false
    }
}

#[derive(Debug, Clone, Copy, PartialEq, Eq)]
pub struct TinyErr;
impl core::fmt::Display for TinyErr {
    fn fmt(&self, f: &mut core::fmt::Formatter<'_>) -> core::fmt::Result {
        f.write_str("tiny codec error")
    }
}
impl std::error::Error for TinyErr {}

/// header: src(1) inc(1, or 255 hi lo) dst(1) tag(1) [id(1) num(1)] - four bytes for Announce / Feed / Gossip
#[derive(Clone, Copy, Debug, Default)]
pub struct TinyCodec;
fn put(b: &mut impl BufMut, x: u8) -> Result<(), TinyErr> {
    if b.has_remaining_mut() {
        b.put_u8(x);
        Ok(())
    } else {
        Err(TinyErr)
    }
}
fn get(b: &mut impl Buf) -> Result<u8, TinyErr> {
    if b.has_remaining() {
        Ok(b.get_u8())
    } else {
        Err(TinyErr)
    }
}
fn put_inc(b: &mut impl BufMut, i: u16) -> Result<(), TinyErr> {
    if i < 255 {
        put(b, i as u8)
    } else {
        put(b, 255)?;
        put(b, (i >> 8) as u8)?;
        put(b, i as u8)
    }
}
fn get_inc(b: &mut impl Buf) -> Result<u16, TinyErr> {
    let x = get(b)?;
    if x < 255 {
        Ok(x as u16)
    } else {
        let hi = get(b)? as u16;
        let lo = get(b)? as u16;
        Ok((hi << 8) | lo)
    }
}
impl Codec<Tiny> for TinyCodec {
    type Error = TinyErr;
    fn encode_header(&mut self, h: &Header<Tiny>, mut b: impl BufMut) -> Result<(), TinyErr> {
        put(&mut b, h.src.0)?;
        put_inc(&mut b, h.src_incarnation)?;
        put(&mut b, h.dst.0)?;
        let idn = |b: &mut dyn FnMut(u8) -> Result<(), TinyErr>, t: u8, i: &Tiny, n: u8| -> Result<(), TinyErr> {
            b(t)?;
            b(i.0)?;
            b(n)
        };
        let mut p = |x: u8| put(&mut b, x);
        match &h.message {
            Message::Ping(n) => {
                p(0)?;
                p(*n)
            }
            Message::Ack(n) => {
                p(1)?;
                p(*n)
            }
            Message::PingReq { target, probe_number } => idn(&mut p, 2, target, *probe_number),
            Message::IndirectPing { origin, probe_number } => idn(&mut p, 3, origin, *probe_number),
            Message::IndirectAck { target, probe_number } => idn(&mut p, 4, target, *probe_number),
            Message::ForwardedAck { origin, probe_number } => idn(&mut p, 5, origin, *probe_number),
            Message::Announce => p(6),
            Message::Feed => p(7),
            Message::Gossip => p(8),
            Message::Broadcast => p(9),
            Message::TurnUndead => p(10),
        }
    }
    fn decode_header(&mut self, mut b: impl Buf) -> Result<Header<Tiny>, TinyErr> {
        let src = Tiny(get(&mut b)?);
        let src_incarnation = get_inc(&mut b)?;
        let dst = Tiny(get(&mut b)?);
        let t = get(&mut b)?;
        let message = match t {
            0 => Message::Ping(get(&mut b)?),
            1 => Message::Ack(get(&mut b)?),
            2..=5 => {
                let i = Tiny(get(&mut b)?);
                let n = get(&mut b)?;
                match t {
                    2 => Message::PingReq { target: i, probe_number: n },
                    3 => Message::IndirectPing { origin: i, probe_number: n },
                    4 => Message::IndirectAck { target: i, probe_number: n },
                    _ => Message::ForwardedAck { origin: i, probe_number: n },
                }
            }
            6 => Message::Announce,
            7 => Message::Feed,
            8 => Message::Gossip,
            9 => Message::Broadcast,
            10 => Message::TurnUndead,
            _ => return Err(TinyErr),
        };
        Ok(Header { src, src_incarnation, dst, message })
    }
    fn encode_member(&mut self, m: &Member<Tiny>, mut b: impl BufMut) -> Result<(), TinyErr> {
        put(&mut b, m.id().0)?;
        put_inc(&mut b, m.incarnation())?;
        put(&mut b, match m.state() {
            State::Alive => 0,
            State::Suspect => 1,
            State::Down => 2,
        })
    }
    fn decode_member(&mut self, mut b: impl Buf) -> Result<Member<Tiny>, TinyErr> {
        let id = Tiny(get(&mut b)?);
        let inc = get_inc(&mut b)?;
        let st = match get(&mut b)? {
            0 => State::Alive,
            1 => State::Suspect,
            2 => State::Down,
            _ => return Err(TinyErr),
        };
        Ok(Member::new(id, inc, st))
    }
}

fn tiny_dgram(src: u8, dst: u8, m: Message<Tiny>, ups: &[Member<Tiny>]) -> Vec<u8> {
    let mut b = vec![];
    let mut c = TinyCodec;
    c.encode_header(&Header { src: Tiny(src), src_incarnation: 0, dst: Tiny(dst), message: m.clone() }, &mut b).unwrap();
    if !matches!(m, Message::Announce | Message::TurnUndead | Message::Broadcast) {
        b.extend([(ups.len() >> 8) as u8, ups.len() as u8]);
        for u in ups {
            c.encode_member(u, &mut b).unwrap();
        }
    }
    b
}

/// C06 with the smallest encodings: every kind of call on instances with 0..6 members and packet sizes
/// from one that fits nothing to ample, under catch_unwind.
pub fn check_tiny(seed: u64, out: &mut FOut) {
    for size in [4u128, 5, 6, 7, 8, 9, 10, 12, 16, 24, 64, 1400] {
        for n in [0u8, 1, 2, 6] {
            let mut cfg = big_cfg();
            cfg.max_packet_size = size;
            cfg.num_indirect_probes = 2;
            let mut f: Foca<Tiny, _, _, NoCustomBroadcast> = Foca::new(Tiny(1), cfg.to_config(), VRng::new(seed ^ size as u64 ^ n as u64), TinyCodec);
            let mut rt: AccumulatingRuntime<Tiny> = AccumulatingRuntime::new();
            let members: Vec<Member<Tiny>> = (0..n).map(|i| Member::alive(Tiny(10 + i))).collect();
            let _ = catch_unwind(AssertUnwindSafe(|| f.apply_many(members.clone().into_iter(), true, &mut rt)));
            let steps: Vec<(&str, Box<dyn Fn(&mut Foca<Tiny, TinyCodec, VRng, NoCustomBroadcast>, &mut AccumulatingRuntime<Tiny>)>)> = vec![
                ("Announce from a new member", Box::new(|f, rt| { let _ = f.handle_data(&tiny_dgram(2, 1, Message::Announce, &[]), rt); })),
                ("Announce from a known member", Box::new(|f, rt| { let _ = f.handle_data(&tiny_dgram(10, 1, Message::Announce, &[]), rt); })),
                ("Ping", Box::new(|f, rt| { let _ = f.handle_data(&tiny_dgram(2, 1, Message::Ping(3), &[]), rt); })),
                ("Gossip with updates", Box::new(|f, rt| { let _ = f.handle_data(&tiny_dgram(2, 1, Message::Gossip, &[Member::alive(Tiny(30)), Member::new(Tiny(1), 0, State::Suspect)]), rt); })),
                ("PingReq", Box::new(|f, rt| { let _ = f.handle_data(&tiny_dgram(2, 1, Message::PingReq { target: Tiny(10), probe_number: 1 }, &[]), rt); })),
                ("Feed", Box::new(|f, rt| { let _ = f.handle_data(&tiny_dgram(2, 1, Message::Feed, &[Member::alive(Tiny(40)), Member::alive(Tiny(41))]), rt); })),
                ("gossip()", Box::new(|f, rt| { let _ = f.gossip(rt); })),
                ("announce()", Box::new(|f, rt| { let _ = f.announce(Tiny(50), rt); })),
                ("probe round", Box::new(|f, rt| {
                    // fire whatever was scheduled so far, twice over
                    for _ in 0..2 {
                        let mut ts = vec![];
                        while let Some((_, t)) = rt.to_schedule() { ts.push(t); }
                        for t in ts { let _ = f.handle_timer(t, &mut *rt); }
                    }
                })),
                ("leave_cluster()", Box::new(|f, rt| { let _ = f.leave_cluster(rt); })),
            ];
            for (name, step) in &steps {
                out.runs += 1;
                let r = catch_unwind(AssertUnwindSafe(|| step(&mut f, &mut rt)));
                while rt.to_send().is_some() {}
                while rt.to_notify().is_some() {}
                if r.is_err() {
                    out.hit(
                        "C06:panic:tiny-codec",
                        J::s(format!("one-byte identities, four-byte headers, max_packet_size {size}, {n} members known: {name} panicked")),
                    );
                    break;
                }
            }
        }
    }
}

/// A broadcast handler that accepts every item, again and again, with an ASYMMETRIC invalidation (a key invalidates
/// the same topic at the same or a lower version) - the harness handler of the model never re-accepts an item.
/// C16: an item invalidated by a newly accepted key is never transmitted again, also when the newly accepted item
/// is byte-identical to one that is still pending.
#[derive(Clone, Copy, Debug, PartialEq, Eq)]
pub struct RKey {
    k: u8,
    v: u8,
}
impl foca::Invalidates for RKey {
    fn invalidates(&self, other: &Self) -> bool {
        self.k == other.k && self.v >= other.v
    }
}
#[derive(Debug, Default)]
pub struct Reaccept;
impl foca::BroadcastHandler<crate::vid::VId> for Reaccept {
    type Key = RKey;
    type Error = TinyErr;
    fn receive_item(&mut self, data: &[u8], _sender: Option<&crate::vid::VId>) -> Result<Option<RKey>, TinyErr> {
        if data.len() < 2 {
            return Err(TinyErr);
        }
        Ok(Some(RKey { k: data[0], v: data[1] }))
    }
}

pub fn check_reaccept(seed: u64, out: &mut FOut) {
    use crate::vid::{header_bytes, VCodec, VId};
    for local_first in [false, true] {
        let own = VId::new(9, 1, 0, 0);
        let peer = VId::new(2, 0, 0, 0);
        let mut f = Foca::with_custom_broadcast(own, big_cfg().to_config(), VRng::new(seed ^ 0x2EAC), VCodec, Reaccept);
        let mut rt: AccumulatingRuntime<VId> = AccumulatingRuntime::new();
        let _ = f.apply_many(core::iter::once(Member::alive(peer)), false, &mut rt);
        let newer: Vec<u8> = vec![7, 2];
        let older: Vec<u8> = vec![7, 1, 42];
        let mut dgram = header_bytes(&Header { src: peer, src_incarnation: 0, dst: own, message: Message::Broadcast });
        dgram.extend([0u8, newer.len() as u8]);
        dgram.extend(&newer);
        // the newer item arrives and is pending; the older one is accepted afterwards (it does not invalidate the
        // newer one); then the very same newer item arrives again: it is accepted again and invalidates the older one
        let r1 = f.handle_data(&dgram, &mut rt);
        let r2 = if local_first { f.add_broadcast(&older).map(|_| ()) } else {
            let mut d2 = header_bytes(&Header { src: peer, src_incarnation: 0, dst: own, message: Message::Broadcast });
            d2.extend([0u8, older.len() as u8]);
            d2.extend(&older);
            f.handle_data(&d2, &mut rt)
        };
        let r3 = f.handle_data(&dgram, &mut rt);
        while rt.to_send().is_some() {}
        out.runs += 1;
        let mut seen_older = 0usize;
        let mut rounds = 0;
        while f.custom_broadcast_backlog() > 0 && rounds < 400 {
            rounds += 1;
            let _ = f.broadcast(&mut rt);
            while let Some((_, data)) = rt.to_send() {
                if let Some((_, _, items)) = crate::model::split_datagram(&data) {
                    seen_older += items.iter().filter(|i| **i == older).count();
                }
            }
        }
        if r1.is_err() || r2.is_err() || r3.is_err() || seen_older > 0 {
            out.hit(
                "C16:item-not-pending-or-invalidated-or-over-limit",
                J::s(format!("item [7,2] pending, item [7,1,42] accepted ({}), the identical [7,2] accepted again (it invalidates [7,1,42]): results {r1:?} {r2:?} {r3:?}; [7,1,42] was transmitted {seen_older} more times", if local_first { "add_broadcast" } else { "from the peer" })),
            );
        }
    }
}
