//! Exhaustive / strided sweep of the std-only configuration constructors (f64 arithmetic):
//! Config::new_lan and Config::new_wan for cluster sizes in a shard of 1..=u32::MAX.
use crate::json::J;
use foca::Config;
use std::num::NonZeroU32;
use std::panic::{catch_unwind, AssertUnwindSafe};
use std::time::Duration;

fn check_one(n: u32) -> Result<(), String> {
    let nz = NonZeroU32::new(n).unwrap();
    for (name, c, period) in [
        ("new_lan", Config::new_lan(nz), Duration::from_secs(1)),
        ("new_wan", Config::new_wan(nz), Duration::from_secs(5)),
    ] {
        if c.probe_period != period || c.probe_rtt >= c.probe_period {
            return Err(format!("{name}({n}): probe timing {:?}/{:?}", c.probe_period, c.probe_rtt));
        }
        if c.suspect_to_down_after < c.probe_period || c.suspect_to_down_after > Duration::from_secs(3600) {
            return Err(format!("{name}({n}): suspect_to_down_after {:?}", c.suspect_to_down_after));
        }
        let tx = c.max_transmissions.get();
        if tx < 1 || tx > 40 {
            return Err(format!("{name}({n}): max_transmissions {tx}"));
        }
    }
    Ok(())
}

/// values shard, shard+shards*stride, ... plus, on shard 0, the neighbourhoods of powers of ten and two
pub fn run(shard: u64, shards: u64, stride: u64) -> J {
    let mut runs = 0u64;
    let mut hits: Vec<J> = vec![];
    let mut doit = |n: u32, runs: &mut u64, hits: &mut Vec<J>| {
        *runs += 1;
        match catch_unwind(AssertUnwindSafe(|| check_one(n))) {
            Ok(Ok(())) => {}
            Ok(Err(e)) => {
                if hits.len() < 5 {
                    hits.push(J::obj(vec![("signature", J::s("config-constructor-result")), ("detail", J::s(e))]));
                }
            }
            Err(_) => {
                if hits.len() < 5 {
                    hits.push(J::obj(vec![
                        ("signature", J::s("config-constructor-panic")),
                        ("detail", J::s(format!("Config::new_lan / new_wan panicked for cluster_size {n}"))),
                    ]));
                }
            }
        }
    };
    let step = shards * stride;
    let mut n = 1 + shard * stride;
    while n <= u32::MAX as u64 {
        doit(n as u32, &mut runs, &mut hits);
        n += step;
    }
    if shard == 0 {
        let mut p: u64 = 1;
        while p <= u32::MAX as u64 {
            for d in 0..3u64 {
                for v in [p.saturating_sub(d), p + d] {
                    if v >= 1 && v <= u32::MAX as u64 {
                        doit(v as u32, &mut runs, &mut hits);
                    }
                }
            }
            p = if p < 1024 { p + 1 } else { p + p / 7 };
        }
        for v in [u32::MAX, u32::MAX - 1, 1, 2, 9, 10, 11] {
            doit(v, &mut runs, &mut hits);
        }
    }
    J::obj(vec![
        ("runs", J::n(runs)),
        ("coverage", J::s(if stride == 1 { "every cluster_size of this shard's residue class".to_string() } else { format!("stride {stride}") })),
        ("hits", J::A(hits)),
    ])
}
