//! Input generators for single-instance histories: structured mostly-valid
//! datagrams, the instance's own timers (in and out of order, stale, forged),
//! every API call, and a separate malformed stream.  Everything derives from
//! one PRNG state.
use foca::{Header, Member, Message, State};

use crate::state::*;
use crate::vid::*;

#[derive(Clone, Debug)]
pub struct G(pub u64);
impl G {
    pub fn new(seed: u64) -> Self {
        G(seed.wrapping_mul(0xD1342543DE82EF95).wrapping_add(0x9E3779B97F4A7C15) | 1)
    }
    pub fn next(&mut self) -> u64 {
        let mut x = self.0;
        x ^= x << 13;
        x ^= x >> 7;
        x ^= x << 17;
        self.0 = x;
        x.wrapping_mul(0x2545F4914F6CDD1D) >> 11
    }
    pub fn below(&mut self, n: u64) -> u64 {
        if n == 0 {
            0
        } else {
            self.next() % n
        }
    }
    pub fn chance(&mut self, pct: u64) -> bool {
        self.below(100) < pct
    }
    pub fn pick<'a, T>(&mut self, v: &'a [T]) -> &'a T {
        &v[self.below(v.len() as u64) as usize]
    }
}

pub const MS: u128 = 1_000_000;

pub fn gen_cfg(g: &mut G) -> MCfg {
    let period = *g.pick(&[1000u128, 1500, 2000]) * MS;
    let rtt = *g.pick(&[200u128, 400, 500]) * MS;
    let per = |g: &mut G, f: u128| -> Option<(u128, u128)> {
        if g.chance(50) {
            Some((f * MS, 1 + g.below(3) as u128))
        } else {
            None
        }
    };
    MCfg {
        probe_period: period,
        probe_rtt: rtt,
        num_indirect_probes: 1 + g.below(3) as u128,
        max_transmissions: *g.pick(&[1u128, 2, 3, 5, 10, 255]),
        suspect_to_down_after: 3000 * MS,
        remove_down_after: 20000 * MS,
        max_packet_size: *g.pick(&[18u128, 23, 24, 26, 30, 37, 40, 48, 64, 80, 120, 200, 1400, 1400, 1400, 70000]),
        notify_down_members: g.chance(50),
        periodic_announce: per(g, 5000),
        periodic_announce_down: per(g, 7000),
        periodic_gossip: per(g, 300),
    }
}

pub fn gen_id(g: &mut G, own: &VId) -> VId {
    let a = if g.chance(12) { own.a } else { 1 + g.below(6) as u16 };
    VId { a, g: g.below(4) as u16, k: g.below(4) as u8, pad: if g.chance(85) { 0 } else { g.below(3) as u8 } }
}

pub fn gen_inc(g: &mut G, around: u128) -> u16 {
    match g.below(12) {
        0 => 0,
        1 => 1,
        2 => 65535,
        3 => 65534,
        10 => *g.pick(&[255u16, 256, 32767, 32768, 32769]),
        11 => g.below(65536) as u16,
        4 => around.saturating_sub(1) as u16,
        5 => (around + 1).min(65535) as u16,
        6 => g.below(4) as u16,
        _ => around as u16,
    }
}

/// an identity the instance probably knows (or a fresh one)
pub fn known_or_new(g: &mut G, s: &MState) -> VId {
    if !s.members.is_empty() && g.chance(70) {
        let m = *g.pick(&s.members);
        if g.chance(15) {
            // another generation of a known address
            VId { g: g.below(4) as u16, ..m.id }
        } else {
            m.id
        }
    } else {
        gen_id(g, &s.identity)
    }
}

pub fn gen_update(g: &mut G, s: &MState) -> MMember {
    let r = g.below(100);
    if r < 12 {
        // about ourselves
        MMember { id: s.identity, inc: gen_inc(g, s.incarnation), state: g.below(3) as u8 }
    } else if r < 20 {
        // our address, another identity
        let mut id = gen_id(g, &s.identity);
        id.a = s.identity.a;
        MMember { id, inc: gen_inc(g, 0), state: g.below(3) as u8 }
    } else {
        let id = known_or_new(g, s);
        let around = s.members.iter().find(|m| m.id == id).map(|m| m.inc as u128).unwrap_or(0);
        MMember { id, inc: gen_inc(g, around), state: *g.pick(&[0u8, 0, 0, 1, 1, 2]) }
    }
}

pub fn gen_item(g: &mut G) -> Vec<u8> {
    let mut v = vec![if g.chance(4) { 255 } else { g.below(5) as u8 }];
    let n = g.below(6);
    if n > 0 {
        v.push(g.below(4) as u8);
        for _ in 1..n {
            v.push(g.below(256) as u8);
        }
    }
    v
}

pub fn gen_message(g: &mut G, s: &MState) -> Message<VId> {
    let pn = match g.below(10) {
        0 => s.p_number.wrapping_sub(1) as u8,
        1 => (s.p_number + 1) as u8,
        2 => g.below(256) as u8,
        _ => s.p_number as u8,
    };
    let other = |g: &mut G| {
        if g.chance(8) {
            s.identity
        } else {
            known_or_new(g, s)
        }
    };
    match g.below(14) {
        0 | 1 => Message::Ping(pn),
        2 | 3 => Message::Ack(pn),
        4 => Message::PingReq { target: other(g), probe_number: pn },
        5 => Message::IndirectPing { origin: other(g), probe_number: pn },
        6 => Message::IndirectAck { target: other(g), probe_number: pn },
        7 => Message::ForwardedAck { origin: other(g), probe_number: pn },
        8 => Message::Announce,
        9 => Message::Feed,
        10 | 11 => Message::Gossip,
        12 => Message::Broadcast,
        _ => Message::TurnUndead,
    }
}

/// a structurally valid datagram (may still be rejected for semantic reasons)
pub fn gen_datagram(g: &mut G, s: &MState) -> Vec<u8> {
    let message = gen_message(g, s);
    let src = {
        // for acks prefer the probed member / asked helpers
        match (&message, &s.p_direct) {
            (Message::Ack(_), Some(d)) if g.chance(70) => d.id,
            (Message::ForwardedAck { .. }, _) if !s.p_indirect.is_empty() && g.chance(70) => *g.pick(&s.p_indirect),
            _ => {
                if g.chance(4) {
                    s.identity
                } else {
                    known_or_new(g, s)
                }
            }
        }
    };
    let around = s.members.iter().find(|m| m.id == src).map(|m| m.inc as u128).unwrap_or(0);
    let dst = if g.chance(90) {
        s.identity
    } else if g.chance(50) {
        VId { g: g.below(4) as u16, ..s.identity }
    } else {
        gen_id(g, &s.identity)
    };
    let h = Header { src, src_incarnation: gen_inc(g, around), dst, message: message.clone() };
    let mut b = header_bytes(&h);
    let piggy = !matches!(message, Message::Announce | Message::TurnUndead | Message::Broadcast);
    if piggy && g.chance(85) {
        let n = if g.chance(40) { 0 } else { 1 + g.below(5) };
        b.extend((n as u16).to_be_bytes());
        for _ in 0..n {
            b.extend(member_bytes(&gen_update(g, s).to_member()));
        }
    }
    if !matches!(message, Message::Announce | Message::TurnUndead) && (b.len() > header_bytes(&h).len() || !piggy) && g.chance(35) {
        for _ in 0..1 + g.below(3) {
            let it = gen_item(g);
            b.extend((it.len() as u16).to_be_bytes());
            b.extend(it);
        }
    }
    if matches!(message, Message::Announce | Message::TurnUndead) && g.chance(5) {
        b.push(7);
        b.push(7);
    }
    b
}

pub fn mutate(g: &mut G, mut b: Vec<u8>) -> Vec<u8> {
    match g.below(6) {
        0 => {
            let n = g.below(b.len() as u64 + 1) as usize;
            b.truncate(n);
        }
        1 => {
            if !b.is_empty() {
                let i = g.below(b.len() as u64) as usize;
                b[i] ^= 1 << g.below(8);
            }
        }
        2 => {
            for _ in 0..1 + g.below(4) {
                b.push(g.below(256) as u8);
            }
        }
        3 => {
            let n = g.below(40) as usize;
            b = (0..n).map(|_| g.below(256) as u8).collect();
        }
        4 => {
            if !b.is_empty() {
                let i = g.below(b.len() as u64) as usize;
                b[i] = g.below(256) as u8;
            }
        }
        _ => {
            if b.len() > 2 {
                let i = g.below(b.len() as u64 - 1) as usize;
                b.remove(i);
            }
        }
    }
    b
}

pub fn forged_timer(g: &mut G, s: &MState) -> MTimer {
    let tok = match g.below(4) {
        0 => s.token.wrapping_sub(1) & 255,
        1 => g.below(256) as u128,
        _ => s.token,
    };
    match g.below(7) {
        0 => MTimer::Probe(tok),
        1 => MTimer::Indirect(
            match &s.p_direct {
                Some(d) if g.chance(60) => d.id,
                _ => known_or_new(g, s),
            },
            tok,
        ),
        2 => {
            let id = known_or_new(g, s);
            let around = s.members.iter().find(|m| m.id == id).map(|m| m.inc as u128).unwrap_or(0);
            MTimer::SuspectToDown(id, gen_inc(g, around) as u128, tok)
        }
        3 => MTimer::Announce(tok),
        4 => MTimer::AnnounceDown(tok),
        5 => MTimer::Gossip(tok),
        _ => MTimer::RemoveDown(known_or_new(g, s)),
    }
}

/// pending: timers the instance scheduled, with their absolute deadlines
pub fn gen_input(g: &mut G, s: &MState, pending: &mut Vec<(u128, MTimer)>, base_cfg: &MCfg) -> Input {
    let r = g.below(100);
    if r < 38 {
        let d = gen_datagram(g, s);
        if g.chance(6) {
            Input::Data(mutate(g, d))
        } else {
            Input::Data(d)
        }
    } else if r < 42 {
        let d = gen_datagram(g, s);
        let d = mutate(g, d);
        Input::Data(if g.chance(30) { mutate(g, d) } else { d })
    } else if r < 70 {
        if !pending.is_empty() && g.chance(85) {
            let idx = if g.chance(75) {
                // earliest deadline
                let mut best = 0;
                for (i, p) in pending.iter().enumerate() {
                    if p.0 < pending[best].0 {
                        best = i;
                    }
                }
                best
            } else {
                g.below(pending.len() as u64) as usize
            };
            let t = pending[idx].1.clone();
            if !g.chance(5) {
                pending.swap_remove(idx); // 5%: duplicate delivery later
            }
            Input::Timer(t)
        } else {
            Input::Timer(forged_timer(g, s))
        }
    } else if r < 80 {
        let n = g.below(6);
        let l: Vec<MMember> = if g.chance(10) { s.members.clone() } else { (0..n).map(|_| gen_update(g, s)).collect() };
        Input::ApplyMany(l, g.chance(70))
    } else if r < 84 {
        Input::Announce(gen_id(g, &s.identity))
    } else if r < 87 {
        Input::Gossip
    } else if r < 89 {
        Input::Broadcast
    } else if r < 90 {
        Input::Leave
    } else if r < 92 {
        let mut id = gen_id(g, &s.identity);
        if g.chance(85) {
            id.a = s.identity.a;
        }
        if g.chance(10) {
            id = s.identity;
        }
        Input::ChangeIdentity(id)
    } else if r < 93 {
        Input::ReuseDown
    } else if r < 95 {
        // one to three simultaneous changes (so that a refused config may also differ in accepted fields)
        let mut c = s.cfg.clone();
        for _ in 0..1 + g.below(3) {
            match g.below(11) {
                0 => c.probe_period += MS,
                1 => c.periodic_gossip = Some((100 * MS, 1)),
                2 => c.periodic_gossip = None,
                3 => c.max_transmissions = 1 + g.below(5) as u128,
                4 => c.notify_down_members = !c.notify_down_members,
                5 => c.num_indirect_probes = 1 + g.below(3) as u128,
                6 | 7 => c.max_packet_size = *g.pick(&[30u128, 64, 100, 1400, base_cfg.max_packet_size]),
                8 => c.probe_rtt += MS,
                9 => c.periodic_announce_down = Some((900 * MS, 2)),
                _ => c.periodic_announce = None,
            }
        }
        Input::SetConfig(c)
    } else {
        let it = if g.chance(5) {
            vec![]
        } else if g.chance(3) {
            vec![1u8; (s.cfg.max_packet_size + 1).min(80000) as usize]
        } else if s.cfg.max_packet_size > 65535 && g.chance(15) {
            // longer than a u16 length prefix can describe
            let mut v = vec![g.below(5) as u8, g.below(4) as u8];
            v.resize(65536 + g.below(2000) as usize, 7);
            v
        } else {
            gen_item(g)
        };
        Input::AddBroadcast(it)
    }
}

pub fn _unused(_: Member<VId>, _: State) {}

/// Counter wrap-around preludes (u8 timer token, u8 probe number): driven before the
/// random part of a history so that states with counters at 254/255/0 are visited.
/// kind 0 = none; returns None when the prelude is over.
pub fn prelude_input(kind: u64, idx: u64, len: u64, pre: &MState) -> Option<Input> {
    if idx >= len {
        return None;
    }
    let x = VId::new(3, 1, 0, 0);
    match kind {
        1 => {
            // identity changes: one token bump each
            let mut id = pre.identity;
            id.pad = if id.pad == 0 { 1 } else { 0 };
            Some(Input::ChangeIdentity(id))
        }
        2 => {
            // leave / reuse: one bump each
            Some(if pre.conn == 2 { Input::ReuseDown } else { Input::Leave })
        }
        3 => {
            // probe rounds: the probe number wraps after 256 rounds
            if pre.conn != 1 {
                Some(Input::ApplyMany(vec![MMember { id: x, inc: 0, state: 0 }], idx % 2 == 0))
            } else if idx % 2 == 1 && pre.p_direct.is_some() && !pre.p_ack_ok {
                // the probed member answers with the round's own number: every number 0..=255 is acked once
                let d = pre.p_direct.as_ref().unwrap();
                let h = Header { src: d.id, src_incarnation: d.inc, dst: pre.identity, message: Message::Ack(pre.p_number as u8) };
                let mut b = header_bytes(&h);
                b.extend([0u8, 0]);
                Some(Input::Data(b))
            } else {
                Some(Input::Timer(MTimer::Probe(pre.token)))
            }
        }
        4 => {
            // the only member goes down and is forgotten again: Idle bumps the token
            match pre.members.iter().find(|m| m.id == x) {
                None => Some(Input::ApplyMany(vec![MMember { id: x, inc: 0, state: 0 }], false)),
                Some(m) if m.state != 2 => Some(Input::ApplyMany(vec![MMember { id: x, inc: 0, state: 2 }], false)),
                Some(_) => Some(Input::Timer(MTimer::RemoveDown(x))),
            }
        }
        _ => None,
    }
}

pub fn pick_prelude(g: &mut G) -> (u64, u64) {
    match g.below(20) {
        0 => (1, 250 + g.below(12)),
        1 => (2, 250 + g.below(12)),
        2 => (3, 2 * (252 + g.below(8))),
        3 => (4, 3 * (252 + g.below(6))),
        _ => (0, 0),
    }
}
