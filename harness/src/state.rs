//! Plain-data mirror of the model's state / input / output and their
//! integer serialisation (layout = /verif/coq/Ser.v).
use std::time::Duration;

use foca::{Config, Member, OwnedNotification, PeriodicParams, State, Timer, VerifSnapshot};

use crate::vid::{VHandler, VId, VKey};

pub type Nums = Vec<u128>;

#[derive(Clone, Debug, PartialEq, Eq)]
pub struct MCfg {
    pub probe_period: u128,
    pub probe_rtt: u128,
    pub num_indirect_probes: u128,
    pub max_transmissions: u128,
    pub suspect_to_down_after: u128,
    pub remove_down_after: u128,
    pub max_packet_size: u128,
    pub notify_down_members: bool,
    pub periodic_announce: Option<(u128, u128)>,
    pub periodic_announce_down: Option<(u128, u128)>,
    pub periodic_gossip: Option<(u128, u128)>,
}

fn pp(p: &Option<PeriodicParams>) -> Option<(u128, u128)> {
    p.as_ref().map(|p| (p.frequency.as_nanos(), p.num_members.get() as u128))
}
fn unpp(p: &Option<(u128, u128)>) -> Option<PeriodicParams> {
    p.map(|(f, n)| PeriodicParams {
        frequency: Duration::from_nanos(f as u64),
        num_members: std::num::NonZeroUsize::new(n as usize).unwrap(),
    })
}

impl MCfg {
    pub fn from_config(c: &Config) -> Self {
        MCfg {
            probe_period: c.probe_period.as_nanos(),
            probe_rtt: c.probe_rtt.as_nanos(),
            num_indirect_probes: c.num_indirect_probes.get() as u128,
            max_transmissions: c.max_transmissions.get() as u128,
            suspect_to_down_after: c.suspect_to_down_after.as_nanos(),
            remove_down_after: c.remove_down_after.as_nanos(),
            max_packet_size: c.max_packet_size.get() as u128,
            notify_down_members: c.notify_down_members,
            periodic_announce: pp(&c.periodic_announce),
            periodic_announce_down: pp(&c.periodic_announce_to_down_members),
            periodic_gossip: pp(&c.periodic_gossip),
        }
    }
    pub fn to_config(&self) -> Config {
        Config {
            probe_period: Duration::from_nanos(self.probe_period as u64),
            probe_rtt: Duration::from_nanos(self.probe_rtt as u64),
            num_indirect_probes: std::num::NonZeroUsize::new(self.num_indirect_probes as usize).unwrap(),
            max_transmissions: std::num::NonZeroU8::new(self.max_transmissions as u8).unwrap(),
            suspect_to_down_after: Duration::from_nanos(self.suspect_to_down_after as u64),
            remove_down_after: Duration::from_nanos(self.remove_down_after as u64),
            max_packet_size: std::num::NonZeroUsize::new(self.max_packet_size as usize).unwrap(),
            notify_down_members: self.notify_down_members,
            periodic_announce: unpp(&self.periodic_announce),
            periodic_announce_to_down_members: unpp(&self.periodic_announce_down),
            periodic_gossip: unpp(&self.periodic_gossip),
        }
    }
    pub fn nums(&self, o: &mut Nums) {
        o.extend([
            self.probe_period,
            self.probe_rtt,
            self.num_indirect_probes,
            self.max_transmissions,
            self.suspect_to_down_after,
            self.remove_down_after,
            self.max_packet_size,
            self.notify_down_members as u128,
        ]);
        for p in [&self.periodic_announce, &self.periodic_announce_down, &self.periodic_gossip] {
            match p {
                None => o.push(0),
                Some((f, n)) => o.extend([1, *f, *n]),
            }
        }
    }
}

#[derive(Clone, Copy, Debug, PartialEq, Eq, Hash, PartialOrd, Ord)]
pub struct MMember {
    pub id: VId,
    pub inc: u16,
    pub state: u8, // 0 alive 1 suspect 2 down
}
impl MMember {
    pub fn from(m: &Member<VId>) -> Self {
        MMember {
            id: *m.id(),
            inc: m.incarnation(),
            state: match m.state() {
                State::Alive => 0,
                State::Suspect => 1,
                State::Down => 2,
            },
        }
    }
    pub fn to_member(&self) -> Member<VId> {
        Member::new(
            self.id,
            self.inc,
            match self.state {
                0 => State::Alive,
                1 => State::Suspect,
                _ => State::Down,
            },
        )
    }
    pub fn nums(&self, o: &mut Nums) {
        o.extend(self.id.nums());
        o.push(self.inc as u128);
        o.push(self.state as u128);
    }
    pub fn active(&self) -> bool {
        self.state != 2
    }
}

#[derive(Clone, Debug, PartialEq, Eq)]
pub struct MState {
    pub identity: VId,
    pub incarnation: u128,
    pub cfg: MCfg,
    pub conn: u8,
    pub token: u128,
    pub members: Vec<MMember>,
    pub cursor: u128,
    pub num_active: u128,
    pub p_direct: Option<MMember>,
    pub p_indirect: Vec<VId>,
    pub p_number: u128,
    pub p_ack_ok: bool,
    pub p_count: u128,
    pub p_reached: bool,
    /// (remaining_tx, key addr, data) — sorted
    pub updates: Vec<(u128, u128, Vec<u8>)>,
    /// (remaining_tx, k, v, mode, data) — sorted
    pub customs: Vec<(u128, u8, u8, u8, Vec<u8>)>,
    pub h_mode: u8,
    pub h_mask: u8,
    pub h_seen: Vec<(u8, u8)>,
    pub send_cap: u128,
}

fn bytes_nums(b: &[u8], o: &mut Nums) {
    o.push(b.len() as u128);
    o.extend(b.iter().map(|x| *x as u128));
}

impl MState {
    /// `key_ok` false entries (key does not match the encoded member) get key addr 99999.
    pub fn from_snapshot(s: &VerifSnapshot<VId, VKey>, h: &VHandler) -> Self {
        let mut updates: Vec<(u128, u128, Vec<u8>)> = s
            .updates
            .iter()
            .map(|(tx, data, ok)| {
                let key = if *ok {
                    let mut b = &data[..];
                    crate::vid::dec_member(&mut b).map(|m| m.id().a as u128).unwrap_or(99999)
                } else {
                    99999
                };
                (*tx as u128, key, data.clone())
            })
            .collect();
        updates.sort();
        let mut customs: Vec<(u128, u8, u8, u8, Vec<u8>)> = s
            .custom_broadcasts
            .iter()
            .map(|(tx, data, k)| (*tx as u128, k.k, k.v, k.mode, data.clone()))
            .collect();
        customs.sort();
        MState {
            identity: s.identity,
            incarnation: s.incarnation as u128,
            cfg: MCfg::from_config(&s.config),
            conn: s.connection_state,
            token: s.timer_token as u128,
            members: s.members.iter().map(MMember::from).collect(),
            cursor: s.cursor as u128,
            num_active: s.num_active as u128,
            p_direct: s.probe.direct.as_ref().map(MMember::from),
            p_indirect: s.probe.indirect.clone(),
            p_number: s.probe.probe_number as u128,
            p_ack_ok: s.probe.direct_ack_ok,
            p_count: s.probe.indirect_ack_count as u128,
            p_reached: s.probe.reached_indirect_probe_stage,
            updates,
            customs,
            h_mode: h.mode,
            h_mask: h.mask,
            h_seen: h.seen.clone(),
            send_cap: s.send_buf_capacity as u128 + if s.scratch_len != 0 { 1 << 40 } else { 0 },
        }
    }

    pub fn canon(&mut self) {
        self.updates.sort();
        self.customs.sort();
    }

    pub fn nums(&self, o: &mut Nums) {
        o.extend(self.identity.nums());
        o.push(self.incarnation);
        self.cfg.nums(o);
        o.push(self.conn as u128);
        o.push(self.token);
        o.push(self.members.len() as u128);
        for m in &self.members {
            m.nums(o);
        }
        o.push(self.cursor);
        o.push(self.num_active);
        match &self.p_direct {
            None => o.push(0),
            Some(m) => {
                o.push(1);
                m.nums(o)
            }
        }
        o.push(self.p_indirect.len() as u128);
        for i in &self.p_indirect {
            o.extend(i.nums());
        }
        o.push(self.p_number);
        o.push(self.p_ack_ok as u128);
        o.push(self.p_count);
        o.push(self.p_reached as u128);
        o.push(self.updates.len() as u128);
        for (tx, a, d) in &self.updates {
            o.push(*tx);
            o.push(*a);
            bytes_nums(d, o);
        }
        o.push(self.customs.len() as u128);
        for (tx, k, v, m, d) in &self.customs {
            o.extend([*tx, *k as u128, *v as u128, *m as u128]);
            bytes_nums(d, o);
        }
        o.push(self.h_mode as u128);
        o.push(self.h_mask as u128);
        o.push(self.h_seen.len() as u128);
        for (k, v) in &self.h_seen {
            o.push(*k as u128);
            o.push(*v as u128);
        }
        o.push(self.send_cap);
    }

    /// names of the components in which two states differ
    pub fn diff(&self, o: &MState) -> Vec<&'static str> {
        let mut d = vec![];
        if self.identity != o.identity {
            d.push("identity");
        }
        if self.incarnation != o.incarnation {
            d.push("incarnation");
        }
        if self.cfg != o.cfg {
            d.push("config");
        }
        if self.conn != o.conn {
            d.push("conn");
        }
        if self.token != o.token {
            d.push("token");
        }
        let mut a = self.members.clone();
        let mut b = o.members.clone();
        a.sort();
        b.sort();
        if a != b || self.num_active != o.num_active {
            d.push("members");
        } else if self.members != o.members || self.cursor != o.cursor {
            d.push("order");
        }
        if self.p_direct != o.p_direct
            || self.p_indirect != o.p_indirect
            || self.p_number != o.p_number
            || self.p_ack_ok != o.p_ack_ok
            || self.p_count != o.p_count
            || self.p_reached != o.p_reached
        {
            d.push("probe");
        }
        if self.updates != o.updates {
            d.push("updates_backlog");
        }
        if self.customs != o.customs {
            d.push("custom_backlog");
        }
        if self.h_mode != o.h_mode || self.h_mask != o.h_mask || self.h_seen != o.h_seen {
            d.push("handler");
        }
        if self.send_cap != o.send_cap {
            d.push("send_cap");
        }
        d
    }
}

// ---------- parsing of the model's output ----------
pub struct Rd<'a> {
    pub v: &'a [u128],
    pub p: usize,
}
impl<'a> Rd<'a> {
    pub fn n(&mut self) -> Result<u128, String> {
        if self.p < self.v.len() {
            self.p += 1;
            Ok(self.v[self.p - 1])
        } else {
            Err("short model output".into())
        }
    }
    pub fn b(&mut self) -> Result<bool, String> {
        Ok(self.n()? != 0)
    }
    pub fn id(&mut self) -> Result<VId, String> {
        Ok(VId { a: self.n()? as u16, g: self.n()? as u16, k: self.n()? as u8, pad: self.n()? as u8 })
    }
    pub fn member(&mut self) -> Result<MMember, String> {
        Ok(MMember { id: self.id()?, inc: self.n()? as u16, state: self.n()? as u8 })
    }
    pub fn bytes(&mut self) -> Result<Vec<u8>, String> {
        let n = self.n()? as usize;
        let mut v = Vec::with_capacity(n);
        for _ in 0..n {
            v.push(self.n()? as u8);
        }
        Ok(v)
    }
    pub fn opt_pair(&mut self) -> Result<Option<(u128, u128)>, String> {
        if self.n()? == 0 {
            Ok(None)
        } else {
            Ok(Some((self.n()?, self.n()?)))
        }
    }
    pub fn cfg(&mut self) -> Result<MCfg, String> {
        Ok(MCfg {
            probe_period: self.n()?,
            probe_rtt: self.n()?,
            num_indirect_probes: self.n()?,
            max_transmissions: self.n()?,
            suspect_to_down_after: self.n()?,
            remove_down_after: self.n()?,
            max_packet_size: self.n()?,
            notify_down_members: self.b()?,
            periodic_announce: self.opt_pair()?,
            periodic_announce_down: self.opt_pair()?,
            periodic_gossip: self.opt_pair()?,
        })
    }
    pub fn timer(&mut self) -> Result<MTimer, String> {
        Ok(match self.n()? {
            0 => MTimer::Probe(self.n()?),
            1 => MTimer::Indirect(self.id()?, self.n()?),
            2 => MTimer::SuspectToDown(self.id()?, self.n()?, self.n()?),
            3 => MTimer::Announce(self.n()?),
            4 => MTimer::AnnounceDown(self.n()?),
            5 => MTimer::Gossip(self.n()?),
            _ => MTimer::RemoveDown(self.id()?),
        })
    }
    pub fn state(&mut self) -> Result<MState, String> {
        let identity = self.id()?;
        let incarnation = self.n()?;
        let cfg = self.cfg()?;
        let conn = self.n()? as u8;
        let token = self.n()?;
        let nm = self.n()? as usize;
        let mut members = vec![];
        for _ in 0..nm {
            members.push(self.member()?);
        }
        let cursor = self.n()?;
        let num_active = self.n()?;
        let p_direct = if self.n()? == 0 { None } else { Some(self.member()?) };
        let ni = self.n()? as usize;
        let mut p_indirect = vec![];
        for _ in 0..ni {
            p_indirect.push(self.id()?);
        }
        let p_number = self.n()?;
        let p_ack_ok = self.b()?;
        let p_count = self.n()?;
        let p_reached = self.b()?;
        let nu = self.n()? as usize;
        let mut updates = vec![];
        for _ in 0..nu {
            let tx = self.n()?;
            let a = self.n()?;
            updates.push((tx, a, self.bytes()?));
        }
        let nc = self.n()? as usize;
        let mut customs = vec![];
        for _ in 0..nc {
            let tx = self.n()?;
            let k = self.n()? as u8;
            let v = self.n()? as u8;
            let m = self.n()? as u8;
            customs.push((tx, k, v, m, self.bytes()?));
        }
        let h_mode = self.n()? as u8;
        let h_mask = self.n()? as u8;
        let ns = self.n()? as usize;
        let mut h_seen = vec![];
        for _ in 0..ns {
            h_seen.push((self.n()? as u8, self.n()? as u8));
        }
        let send_cap = self.n()?;
        let mut s = MState {
            identity,
            incarnation,
            cfg,
            conn,
            token,
            members,
            cursor,
            num_active,
            p_direct,
            p_indirect,
            p_number,
            p_ack_ok,
            p_count,
            p_reached,
            updates,
            customs,
            h_mode,
            h_mask,
            h_seen,
            send_cap,
        };
        s.canon();
        Ok(s)
    }
}

// ---------- timers / effects / inputs ----------
#[derive(Clone, Debug, PartialEq, Eq, Hash)]
pub enum MTimer {
    Probe(u128),
    Indirect(VId, u128),
    SuspectToDown(VId, u128, u128),
    Announce(u128),
    AnnounceDown(u128),
    Gossip(u128),
    RemoveDown(VId),
}
impl MTimer {
    pub fn from(t: &Timer<VId>) -> Self {
        match t {
            Timer::ProbeRandomMember(k) => MTimer::Probe(*k as u128),
            Timer::SendIndirectProbe { probed_id, token } => MTimer::Indirect(*probed_id, *token as u128),
            Timer::ChangeSuspectToDown { member_id, incarnation, token } => {
                MTimer::SuspectToDown(*member_id, *incarnation as u128, *token as u128)
            }
            Timer::PeriodicAnnounce(k) => MTimer::Announce(*k as u128),
            Timer::PeriodicAnnounceDown(k) => MTimer::AnnounceDown(*k as u128),
            Timer::PeriodicGossip(k) => MTimer::Gossip(*k as u128),
            Timer::RemoveDown(i) => MTimer::RemoveDown(*i),
        }
    }
    pub fn to_timer(&self) -> Timer<VId> {
        match self {
            MTimer::Probe(k) => Timer::ProbeRandomMember(*k as u8),
            MTimer::Indirect(i, k) => Timer::SendIndirectProbe { probed_id: *i, token: *k as u8 },
            MTimer::SuspectToDown(i, n, k) => {
                Timer::ChangeSuspectToDown { member_id: *i, incarnation: *n as u16, token: *k as u8 }
            }
            MTimer::Announce(k) => Timer::PeriodicAnnounce(*k as u8),
            MTimer::AnnounceDown(k) => Timer::PeriodicAnnounceDown(*k as u8),
            MTimer::Gossip(k) => Timer::PeriodicGossip(*k as u8),
            MTimer::RemoveDown(i) => Timer::RemoveDown(*i),
        }
    }
    pub fn nums(&self, o: &mut Nums) {
        match self {
            MTimer::Probe(k) => o.extend([0, *k]),
            MTimer::Indirect(i, k) => {
                o.push(1);
                o.extend(i.nums());
                o.push(*k)
            }
            MTimer::SuspectToDown(i, n, k) => {
                o.push(2);
                o.extend(i.nums());
                o.extend([*n, *k])
            }
            MTimer::Announce(k) => o.extend([3, *k]),
            MTimer::AnnounceDown(k) => o.extend([4, *k]),
            MTimer::Gossip(k) => o.extend([5, *k]),
            MTimer::RemoveDown(i) => {
                o.push(6);
                o.extend(i.nums())
            }
        }
    }
    pub fn token(&self) -> Option<u128> {
        match self {
            MTimer::Probe(k) | MTimer::Announce(k) | MTimer::AnnounceDown(k) | MTimer::Gossip(k) => Some(*k),
            MTimer::Indirect(_, k) | MTimer::SuspectToDown(_, _, k) => Some(*k),
            MTimer::RemoveDown(_) => None,
        }
    }
}

#[derive(Clone, Debug, PartialEq, Eq)]
pub enum MNote {
    Up(VId),
    Down(VId),
    Rename(VId, VId),
    Active,
    Idle,
    Defunct,
    Rejoin(VId),
}
impl MNote {
    pub fn from(n: &OwnedNotification<VId>) -> Self {
        match n {
            OwnedNotification::MemberUp(i) => MNote::Up(*i),
            OwnedNotification::MemberDown(i) => MNote::Down(*i),
            OwnedNotification::Rename(a, b) => MNote::Rename(*a, *b),
            OwnedNotification::Active => MNote::Active,
            OwnedNotification::Idle => MNote::Idle,
            OwnedNotification::Defunct => MNote::Defunct,
            OwnedNotification::Rejoin(i) => MNote::Rejoin(*i),
        }
    }
}

#[derive(Clone, Debug, PartialEq, Eq)]
pub enum Eff {
    Send(VId, Vec<u8>),
    Submit(MTimer, u128),
    Notify(MNote),
}

impl<'a> Rd<'a> {
    pub fn effect(&mut self) -> Result<Eff, String> {
        Ok(match self.n()? {
            0 => Eff::Send(self.id()?, self.bytes()?),
            1 => {
                let t = self.timer()?;
                Eff::Submit(t, self.n()?)
            }
            _ => Eff::Notify(match self.n()? {
                0 => MNote::Up(self.id()?),
                1 => MNote::Down(self.id()?),
                2 => MNote::Rename(self.id()?, self.id()?),
                3 => MNote::Active,
                4 => MNote::Idle,
                5 => MNote::Defunct,
                _ => MNote::Rejoin(self.id()?),
            }),
        })
    }
}

#[derive(Clone, Debug, PartialEq, Eq)]
pub enum Input {
    Data(Vec<u8>),
    Timer(MTimer),
    ApplyMany(Vec<MMember>, bool),
    Announce(VId),
    Gossip,
    Broadcast,
    Leave,
    ChangeIdentity(VId),
    ReuseDown,
    SetConfig(MCfg),
    AddBroadcast(Vec<u8>),
}
impl Input {
    pub fn kind(&self) -> &'static str {
        match self {
            Input::Data(_) => "data",
            Input::Timer(t) => match t {
                MTimer::Probe(_) => "timer.probe",
                MTimer::Indirect(..) => "timer.indirect",
                MTimer::SuspectToDown(..) => "timer.suspect_to_down",
                MTimer::Announce(_) => "timer.announce",
                MTimer::AnnounceDown(_) => "timer.announce_down",
                MTimer::Gossip(_) => "timer.gossip",
                MTimer::RemoveDown(_) => "timer.remove_down",
            },
            Input::ApplyMany(..) => "apply_many",
            Input::Announce(_) => "announce",
            Input::Gossip => "gossip",
            Input::Broadcast => "broadcast",
            Input::Leave => "leave_cluster",
            Input::ChangeIdentity(_) => "change_identity",
            Input::ReuseDown => "reuse_down_identity",
            Input::SetConfig(_) => "set_config",
            Input::AddBroadcast(_) => "add_broadcast",
        }
    }
    pub fn nums(&self, o: &mut Nums) {
        match self {
            Input::Data(b) => {
                o.push(0);
                bytes_nums(b, o)
            }
            Input::Timer(t) => {
                o.push(1);
                t.nums(o)
            }
            Input::ApplyMany(l, b) => {
                o.push(2);
                o.push(l.len() as u128);
                for m in l {
                    m.nums(o);
                }
                o.push(*b as u128)
            }
            Input::Announce(d) => {
                o.push(3);
                o.extend(d.nums())
            }
            Input::Gossip => o.push(4),
            Input::Broadcast => o.push(5),
            Input::Leave => o.push(6),
            Input::ChangeIdentity(d) => {
                o.push(7);
                o.extend(d.nums())
            }
            Input::ReuseDown => o.push(8),
            Input::SetConfig(c) => {
                o.push(9);
                c.nums(o)
            }
            Input::AddBroadcast(b) => {
                o.push(10);
                bytes_nums(b, o)
            }
        }
    }
}

/// 0 Done | 1 DoneBool | 2 Failed(e) | 3 Panicked(site)
#[derive(Clone, Debug, PartialEq, Eq)]
pub enum Outcome {
    Done,
    DoneBool(bool),
    Failed(u8),
    Panicked(u8),
}

pub const ERR_NAMES: [&str; 12] = [
    "DataTooBig",
    "NotUndead",
    "SameIdentity",
    "NotConnected",
    "IncompleteProbeCycle",
    "DataFromOurselves",
    "IndirectForOurselves",
    "MalformedPacket",
    "Encode",
    "Decode",
    "CustomBroadcast",
    "InvalidConfig",
];

pub fn err_code(e: &foca::Error) -> u8 {
    use foca::Error::*;
    match e {
        DataTooBig => 0,
        NotUndead => 1,
        SameIdentity => 2,
        NotConnected => 3,
        IncompleteProbeCycle => 4,
        DataFromOurselves => 5,
        IndirectForOurselves => 6,
        MalformedPacket => 7,
        Encode(_) => 8,
        Decode(_) => 9,
        CustomBroadcast(_) => 10,
        InvalidConfig => 11,
    }
}

pub struct ModelOut {
    pub outcome: Outcome,
    pub requests: u128,
    pub effects: Vec<Eff>,
    pub state: MState,
}

pub fn parse_model_out(v: &[u128]) -> Result<ModelOut, String> {
    if v == [777] {
        return Err("model could not parse the request".into());
    }
    let mut r = Rd { v, p: 0 };
    let outcome = match r.n()? {
        0 => Outcome::Done,
        1 => Outcome::DoneBool(r.b()?),
        2 => Outcome::Failed(r.n()? as u8),
        _ => Outcome::Panicked(r.n()? as u8),
    };
    let requests = r.n()?;
    let ne = r.n()? as usize;
    let mut effects = vec![];
    for _ in 0..ne {
        effects.push(r.effect()?);
    }
    let state = r.state()?;
    if r.p != v.len() {
        return Err("trailing model output".into());
    }
    Ok(ModelOut { outcome, requests, effects, state })
}
