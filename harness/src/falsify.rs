//! Falsifiers: monitors written from the property texts, evaluated on the
//! real implementation only (independent of the Coq model).  A hit is a
//! concrete input / history on which the property fails.
use std::collections::{BTreeMap, HashSet};

use crate::gen::*;
use crate::json::J;
use crate::model::*;
use crate::state::*;
use crate::vid::*;

pub struct Hit {
    pub signature: String,
    pub detail: J,
}

#[derive(Default)]
pub struct FOut {
    pub runs: u64,
    pub distinct: HashSet<u64>,
    pub hits: Vec<Hit>,
    pub samples: Vec<J>,
    pub rule: String,
    pub extra: Vec<(String, J)>,
}

impl FOut {
    pub fn hit(&mut self, sig: &str, detail: J) {
        if self.hits.len() < 20 {
            self.hits.push(Hit { signature: sig.to_string(), detail });
        }
    }
    pub fn to_json(&self) -> J {
        let mut v = vec![
            ("runs".to_string(), J::n(self.runs)),
            ("distinct_nontrivial".to_string(), J::n(self.distinct.len())),
            ("rule".to_string(), J::s(self.rule.clone())),
            (
                "hits".to_string(),
                J::A(self
                    .hits
                    .iter()
                    .map(|h| J::obj(vec![("signature", J::s(h.signature.clone())), ("detail", h.detail.clone())]))
                    .collect()),
            ),
            ("samples".to_string(), J::A(self.samples.clone())),
        ];
        v.extend(self.extra.iter().cloned());
        J::O(v)
    }
}

pub fn hash_of<T: std::fmt::Debug>(x: &T) -> u64 {
    use std::hash::{Hash, Hasher};
    let mut h = std::collections::hash_map::DefaultHasher::new();
    format!("{x:?}").hash(&mut h);
    h.finish()
}

pub fn big_cfg() -> MCfg {
    MCfg {
        probe_period: 1000 * MS,
        probe_rtt: 400 * MS,
        num_indirect_probes: 3,
        max_transmissions: 3,
        suspect_to_down_after: 3000 * MS,
        remove_down_after: 20000 * MS,
        max_packet_size: 1400,
        notify_down_members: false,
        periodic_announce: None,
        periodic_announce_down: None,
        periodic_gossip: None,
    }
}

/// view of the membership state as address -> (identity, state, incarnation unless Down)
pub fn view_of(inst: &mut Inst) -> BTreeMap<u16, (VId, u8, u16)> {
    let mut m = BTreeMap::new();
    for r in inst.foca.iter_membership_state() {
        let mm = MMember::from(r);
        m.insert(mm.id.a, (mm.id, mm.state, if mm.state == 2 { 0 } else { mm.inc }));
    }
    m
}

fn apply_all(inst: &mut Inst, ups: &[MMember], chunked: bool, bcast: bool) -> bool {
    if chunked {
        for u in ups {
            let (_e, o) = run_real(&mut inst.foca, &Input::ApplyMany(vec![*u], bcast));
            if o != Outcome::Done {
                return false;
            }
        }
        true
    } else {
        run_real(&mut inst.foca, &Input::ApplyMany(ups.to_vec(), bcast)).1 == Outcome::Done
    }
}

/// C01: order / multiplicity independence, re-applying own state, pairwise exchange
pub fn c01(seed: u64, budget: u64) -> FOut {
    let mut out = FOut::default();
    out.rule = "random update multisets over 4 addresses x 4 generations x incarnations {0,1,2,3,255,256,2^15-1,2^15,2^15+1,2^15+2,MAX-1,MAX, random u16} x 3 states (plus other identities of the instance's own address), sizes 1..10; each applied in 6 random permutations with random duplications through the real apply_many (whole list or one by one); views compared as address maps modulo the incarnation next to Down; then re-apply own state; then exchange between two instances. distinct = distinct sorted multisets with at least two updates on one address".into();
    let mut g = G::new(seed ^ 0xC01);
    let own = VId::new(9, 1, 0, 0);
    let incs = [0u16, 1, 2, 3, 255, 256, 32767, 32768, 32769, 32770, 65534, 65535];
    for run in 0..budget {
        let n = 1 + g.below(10) as usize;
        let mut ups: Vec<MMember> = (0..n)
            .map(|_| {
                let a = if g.chance(10) { 9 } else { 1 + g.below(4) as u16 };
                let mut id = VId::new(a, g.below(4) as u16, g.below(2) as u8, 0);
                if id == own {
                    id.g = 0;
                }
                let inc = if g.chance(15) { g.below(65536) as u16 } else { *g.pick(&incs) };
                MMember { id, inc, state: g.below(3) as u8 }
            })
            .collect();
        let mut sorted = ups.clone();
        sorted.sort();
        let nontrivial = sorted.windows(2).any(|w| w[0].id.a == w[1].id.a);
        if nontrivial {
            out.distinct.insert(hash_of(&sorted));
        }
        out.runs += 1;
        // reference: in generation order
        let base_seed = g.next();
        let mut reference: Option<BTreeMap<u16, (VId, u8, u16)>> = None;
        let mut ref_order = vec![];
        for perm in 0..6 {
            let mut inst = Inst::new(own, &big_cfg(), base_seed.wrapping_add(perm), 0, 255);
            let mut l = ups.clone();
            if perm > 0 {
                // shuffle + duplicate
                for i in (1..l.len()).rev() {
                    let j = g.below(i as u64 + 1) as usize;
                    l.swap(i, j);
                }
                let dups = g.below(4);
                for _ in 0..dups {
                    let x = *g.pick(&l);
                    let at = g.below(l.len() as u64 + 1) as usize;
                    l.insert(at, x);
                }
            }
            if !apply_all(&mut inst, &l, g.chance(50), g.chance(50)) {
                out.hit("C01:apply_many-error", J::s(format!("{l:?}")));
                continue;
            }
            let v = view_of(&mut inst);
            match &reference {
                None => {
                    reference = Some(v.clone());
                    ref_order = l.clone();
                }
                Some(r) => {
                    if *r != v {
                        out.hit(
                            "C01:order-dependence",
                            J::obj(vec![
                                ("order_a", J::s(format!("{ref_order:?}"))),
                                ("order_b", J::s(format!("{l:?}"))),
                                ("view_a", J::s(format!("{r:?}"))),
                                ("view_b", J::s(format!("{v:?}"))),
                            ]),
                        );
                    }
                }
            }
            // re-applying own state changes nothing
            let before = inst.snapshot();
            let own_state = before.members.clone();
            let (effs, o) = run_real(&mut inst.foca, &Input::ApplyMany(own_state.clone(), true));
            let after = inst.snapshot();
            let only_connect = effs.iter().all(|e| matches!(e, Eff::Submit(MTimer::Probe(_), _) | Eff::Notify(MNote::Active)));
            if o != Outcome::Done
                || before.members != after.members
                || before.updates != after.updates
                || before.incarnation != after.incarnation
                || before.identity != after.identity
                || !only_connect
            {
                out.hit(
                    "C01:reapply-own-state-changes",
                    J::obj(vec![("state", J::s(format!("{own_state:?}"))), ("effects", J::s(format!("{effs:?}")))]),
                );
            }
        }
        // exchange between two instances
        let id_b = VId::new(8, 1, 0, 0);
        let mut a = Inst::new(own, &big_cfg(), base_seed ^ 1, 0, 255);
        let mut b = Inst::new(id_b, &big_cfg(), base_seed ^ 2, 0, 255);
        let half = ups.len() / 2;
        let (ua, ub) = ups.split_at_mut(half);
        apply_all(&mut a, ua, false, true);
        apply_all(&mut b, ub, false, true);
        let sa = a.snapshot().members;
        let sb = b.snapshot().members;
        apply_all(&mut a, &sb, false, true);
        apply_all(&mut b, &sa, false, true);
        let (mut va, mut vb) = (view_of(&mut a), view_of(&mut b));
        for k in [8u16, 9] {
            va.remove(&k);
            vb.remove(&k);
        }
        if va != vb {
            out.hit(
                "C01:exchange-disagree",
                J::obj(vec![
                    ("a_initial", J::s(format!("{sa:?}"))),
                    ("b_initial", J::s(format!("{sb:?}"))),
                    ("a_final", J::s(format!("{va:?}"))),
                    ("b_final", J::s(format!("{vb:?}"))),
                ]),
            );
        }
        if run < 2 {
            out.samples.push(J::s(format!("{ups:?}")));
        }
    }
    out
}

/// A seeded single-instance history on the real crate (no model): calls `mon`
/// after every call with (pre-state, input, effects, outcome, post-state).
pub fn history(
    seed: u64,
    steps: u64,
    cfg_tweak: impl Fn(&mut MCfg, &mut G),
    mut mon: impl FnMut(&MState, &Input, &[Eff], &Outcome, &MState, &StepReport) -> bool,
) {
    let mut g = G::new(seed);
    let mut cfg = gen_cfg(&mut g);
    cfg_tweak(&mut cfg, &mut g);
    let id = VId { a: 9, g: 1 + g.below(2) as u16, k: g.below(4) as u8, pad: 0 };
    let mut inst = Inst::new(id, &cfg, g.next(), g.below(4) as u8, g.below(256) as u8);
    let mut pending: Vec<(u128, MTimer)> = vec![];
    let mut now: u128 = 0;
    let (pk, plen) = pick_prelude(&mut g);
    for stepno in 0..steps + plen {
        let pre = inst.snapshot();
        let input = match prelude_input(pk, stepno, plen, &pre) {
            Some(i) => i,
            None => gen_input(&mut g, &pre, &mut pending, &cfg),
        };
        if let Input::Timer(_) = &input {
            now += 50 * MS;
        }
        let rep = checked_step(&mut inst, &input, None);
        for e in &rep.effects {
            if let Eff::Submit(t, after) = e {
                pending.push((now + after, t.clone()));
            }
        }
        if inst.poisoned {
            break;
        }
        let post = rep.post.clone().unwrap();
        if !mon(&pre, &input, &rep.effects, &rep.outcome, &post, &rep) {
            break;
        }
    }
}

/// C19: Foca never chooses its own address as a destination
pub fn c19(seed: u64, budget: u64) -> FOut {
    let mut out = FOut::default();
    out.rule = "seeded single-instance histories (300 calls each) in which the instance keeps learning older/newer identities of its own address; every Send destination of every call is compared with the instance's address, except relays to a target named by a peer (IndirectPing after PingReq, ForwardedAck after IndirectAck) and the destination the user passes to announce(); distinct = histories in which at least one own-address record was stored".into();
    for h in 0..budget {
        let mut saw_own = false;
        let mut hits: Vec<(String, J)> = vec![];
        history(
            seed.wrapping_mul(7919).wrapping_add(h),
            300,
            |c, g| {
                // all eight combinations of periodic tasks
                let m = g.below(8);
                c.periodic_announce = if m & 1 != 0 { Some((5000 * MS, 2)) } else { None };
                c.periodic_announce_down = if m & 2 != 0 { Some((7000 * MS, 2)) } else { None };
                c.periodic_gossip = if m & 4 != 0 { Some((300 * MS, 2)) } else { None };
                if c.max_packet_size < 40 {
                    c.max_packet_size = 200;
                }
            },
            |pre, input, effs, _o, post, _r| {
                if post.members.iter().any(|m| m.id.a == post.identity.a) {
                    saw_own = true;
                }
                // B3: identity changes keep the address
                if let Input::ChangeIdentity(n) = input {
                    if n.a != pre.identity.a {
                        return false;
                    }
                }
                let relay_target: Option<VId> = match input {
                    Input::Data(b) => match dec_header(&mut &b[..]) {
                        Ok(h) => match h.message {
                            foca::Message::PingReq { target, .. } => Some(target),
                            foca::Message::IndirectAck { target, .. } => Some(target),
                            _ => None,
                        },
                        Err(_) => None,
                    },
                    Input::Announce(d) => Some(*d),
                    // a (forged) suspicion timer names its member: the courtesy TurnUndead goes there
                    Input::Timer(MTimer::SuspectToDown(d, _, _)) => Some(*d),
                    _ => None,
                };
                for e in effs {
                    if let Eff::Send(d, b) = e {
                        if d.a == pre.identity.a && Some(*d) != relay_target {
                            let kind = split_datagram(b).map(|x| format!("{:?}", x.0.message)).unwrap_or_default();
                            let kind = kind.split(|c| c == '(' || c == ' ').next().unwrap_or("").to_string();
                            hits.push((
                                format!("C19:own-address-destination:{}:{}", input.kind(), kind),
                                J::obj(vec![
                                    ("identity", J::s(format!("{:?}", pre.identity))),
                                    ("destination", J::s(format!("{d:?}"))),
                                    ("input", J::s(format!("{input:?}"))),
                                    ("members", J::s(format!("{:?}", pre.members))),
                                ]),
                            ));
                        }
                    }
                }
                true
            },
        );
        out.runs += 1;
        if saw_own {
            out.distinct.insert(h);
        }
        for (s, d) in hits {
            out.hit(&s, d);
        }
        if h < 1 {
            out.samples.push(J::s(format!("history seed {} (300 calls)", seed.wrapping_mul(7919).wrapping_add(h))));
        }
    }
    out
}

/// C06: no panic on any input, schedule or configuration
pub fn c06(seed: u64, budget: u64) -> FOut {
    let mut out = FOut::default();
    out.rule = "seeded single-instance histories (400 calls) with a heavy malformed stream (random bytes, truncations, bit flips of valid datagrams), forged/stale/duplicated timers, every API call incl. set_config between sends and packet sizes 18..70000, incarnations at MAX, run under catch_unwind on the debug-assertion build; plus Config::new_lan/new_wan on boundaries, powers of ten +-1 and random u32 values. distinct = distinct (input kind, outcome) pairs plus constructor arguments".into();
    let mut kinds: HashSet<String> = HashSet::new();
    for h in 0..budget {
        let hs = seed.wrapping_mul(104729).wrapping_add(h);
        let mut g2 = G::new(hs ^ 0xABCD);
        let mut last: Option<(String, String)> = None;
        let mut steps = 0u64;
        // a second, hostile stream interleaved with the structured one
        let mut g = G::new(hs);
        let cfg = gen_cfg(&mut g);
        let id = VId { a: 9, g: 1 + g.below(2) as u16, k: g.below(4) as u8, pad: 0 };
        let mut inst = Inst::new(id, &cfg, g.next(), g.below(4) as u8, g.below(256) as u8);
        let mut pending: Vec<(u128, MTimer)> = vec![];
        let (pk, plen) = pick_prelude(&mut g2);
        for stepno in 0..400 + plen {
            let pre = inst.snapshot();
            let input = if let Some(i) = prelude_input(pk, stepno, plen, &pre) {
                i
            } else if g2.chance(25) {
                match g2.below(4) {
                    0 => Input::Data((0..g2.below(2 * pre.cfg.max_packet_size.min(200) as u64 + 2)).map(|_| g2.below(256) as u8).collect()),
                    1 => {
                        let d = gen_datagram(&mut g2, &pre);
                        let d = mutate(&mut g2, d);
                        Input::Data(mutate(&mut g2, d))
                    }
                    2 => Input::Timer(forged_timer(&mut g2, &pre)),
                    _ => Input::ApplyMany(
                        (0..g2.below(4)).map(|_| MMember { id: pre.identity, inc: *g2.pick(&[0u16, 65534, 65535]), state: 1 }).collect(),
                        true,
                    ),
                }
            } else {
                gen_input(&mut g, &pre, &mut pending, &cfg)
            };
            let (effs, o) = run_real(&mut inst.foca, &input);
            steps += 1;
            for e in &effs {
                if let Eff::Submit(t, after) = e {
                    pending.push((*after, t.clone()));
                }
            }
            kinds.insert(format!("{}:{:?}", input.kind(), o));
            if let Outcome::Panicked(_) = o {
                last = Some((input.kind().to_string(), format!("{input:?}")));
                out.hit(
                    &format!("C06:panic:{}", input.kind()),
                    J::obj(vec![("history_seed", J::n(hs)), ("step", J::n(steps)), ("input", J::s(format!("{input:?}"))), ("pre_state", J::s(format!("{pre:?}")))]),
                );
                break;
            }
        }
        let _ = last;
        out.runs += 1;
        if h < 1 {
            out.samples.push(J::s(format!("history seed {hs}: {steps} calls, no panic")));
        }
    }
    // configuration constructors
    let mut args: Vec<u32> = vec![1, 2, 3, 9, 10, 11, 99, 100, 101, 999, 1000, 1001, u32::MAX, u32::MAX - 1, 1 << 31];
    let mut p = 1u64;
    while p < u32::MAX as u64 {
        for d in [-1i64, 0, 1] {
            let v = p as i64 + d;
            if v >= 1 && v <= u32::MAX as i64 {
                args.push(v as u32);
            }
        }
        p *= 10;
    }
    let mut g = G::new(seed ^ 0xC06);
    for _ in 0..(budget * 50) {
        args.push(1 + g.below(u32::MAX as u64) as u32);
    }
    let mut ctor_runs = 0u64;
    for a in args {
        let n = std::num::NonZeroU32::new(a).unwrap();
        let r = std::panic::catch_unwind(|| {
            let c1 = foca::Config::new_lan(n);
            let c2 = foca::Config::new_wan(n);
            (c1.max_transmissions.get(), c2.suspect_to_down_after)
        });
        ctor_runs += 1;
        if r.is_err() {
            out.hit("C06:panic:config-constructor", J::n(a));
        }
    }
    for k in kinds {
        out.distinct.insert(hash_of(&k));
    }
    out.extra.push(("config_constructor_calls".into(), J::n(ctor_runs)));
    out
}

/// C11: suspicion timeout takes effect iff unrefuted; Down final until forgotten
pub fn c11(seed: u64, budget: u64) -> FOut {
    let mut out = FOut::default();
    out.rule = "exhaustive case table on the real crate: stored record {absent, Alive, Suspect, Down} x stored incarnation vs timer incarnation {<,=,>} x timer identity generation {older, same} vs stored x token {current, stale} x notify_down_members {on,off} x duplicate delivery, with a second active member keeping the instance connected; expected: effect iff token current, same identity, same incarnation, record active; otherwise no effect at all. Then random histories checking that a Down identity never becomes active again before its RemoveDown fires (or a newer identity supersedes it). distinct = distinct table rows + histories with at least one Down record".into();
    let own = VId::new(9, 1, 0, 0);
    let other = VId::new(2, 0, 0, 0);
    for notify in [false, true] {
        for stored in 0..4u8 {
            // 0 absent, 1 alive, 2 suspect, 3 down
            for (sinc, tinc) in [(5u16, 4u16), (5, 5), (5, 6), (0, 0), (65535, 65535)] {
                for tgen in [0u16, 1] {
                    for stale in [false, true] {
                        let mut cfg = big_cfg();
                        cfg.notify_down_members = notify;
                        let mut inst = Inst::new(own, &cfg, seed, 0, 255);
                        let x_stored = VId::new(1, 1, 0, 0);
                        let x_timer = VId::new(1, tgen, 0, 0);
                        let mut ups = vec![MMember { id: other, inc: 0, state: 0 }];
                        if stored > 0 {
                            ups.push(MMember { id: x_stored, inc: sinc, state: stored - 1 });
                        }
                        run_real(&mut inst.foca, &Input::ApplyMany(ups, false));
                        let pre = inst.snapshot();
                        let tok = if stale { (pre.token + 1) & 255 } else { pre.token };
                        let input = Input::Timer(MTimer::SuspectToDown(x_timer, tinc as u128, tok));
                        let (effs, o) = run_real(&mut inst.foca, &input);
                        let post = inst.snapshot();
                        out.runs += 1;
                        out.distinct.insert(hash_of(&(notify, stored, sinc, tinc, tgen, stale)));
                        let should = !stale && (stored == 1 || stored == 2) && x_timer == x_stored && sinc == tinc;
                        let row = format!("notify={notify} stored={stored} stored_inc={sinc} timer_inc={tinc} timer_gen={tgen} stale={stale}");
                        if o != Outcome::Done {
                            out.hit("C11:timer-error", J::s(row.clone()));
                        }
                        if should {
                            let down_now = post.members.iter().any(|m| m.id == x_stored && m.state == 2 && m.inc == sinc);
                            let notified = effs.contains(&Eff::Notify(MNote::Down(x_stored)));
                            let forget = effs.iter().any(|e| matches!(e, Eff::Submit(MTimer::RemoveDown(i), d) if *i == x_stored && *d == cfg.remove_down_after));
                            let tu = effs.iter().filter(|e| matches!(e, Eff::Send(d, b) if *d == x_stored && split_datagram(b).map(|x| x.0.message == foca::Message::TurnUndead).unwrap_or(false))).count();
                            let gossiped = post.updates.iter().any(|(tx, a, d)| *a == 1 && *tx == cfg.max_transmissions && dec_member(&mut &d[..]).map(|m| m.state() == foca::State::Down && *m.id() == x_stored).unwrap_or(false));
                            if !(down_now && notified && forget && gossiped && tu == notify as usize) {
                                out.hit("C11:effective-timeout-incomplete", J::obj(vec![("row", J::s(row)), ("effects", J::s(format!("{effs:?}")))]));
                            }
                        } else if !effs.is_empty() || post != pre {
                            out.hit(
                                "C11:cancelled-timeout-has-effect",
                                J::obj(vec![("row", J::s(row)), ("effects", J::s(format!("{effs:?}"))), ("state_changed", J::B(post != pre))]),
                            );
                        }
                        if out.samples.len() < 2 {
                            out.samples.push(J::s(format!("{input:?} on {:?}", pre.members)));
                        }
                    }
                }
            }
        }
    }
    // Down is final until forgotten
    for h in 0..budget {
        let mut down: std::collections::HashMap<VId, ()> = Default::default();
        let mut bad: Option<J> = None;
        let mut any = false;
        history(seed.wrapping_mul(31337).wrapping_add(h), 300, |_, _| {}, |pre, input, _effs, _o, post, _r| {
            for m in &pre.members {
                if m.state == 2 {
                    down.insert(m.id, ());
                    any = true;
                }
            }
            // forgetting: RemoveDown for exactly that identity, or superseded by a newer identity of that address
            for (id, _) in down.clone() {
                let now = post.members.iter().find(|m| m.id.a == id.a);
                match now {
                    Some(m) if m.id == id && m.state != 2 => {
                        bad = Some(J::obj(vec![("identity", J::s(format!("{id:?}"))), ("input", J::s(format!("{input:?}")))]));
                    }
                    Some(m) if m.id == id => {}
                    _ => {
                        down.remove(&id);
                    }
                }
                if now.is_none() && !matches!(input, Input::Timer(MTimer::RemoveDown(i)) if *i == id) {
                    bad = Some(J::obj(vec![("removed_without_forget_timer", J::s(format!("{id:?}"))), ("input", J::s(format!("{input:?}")))]));
                }
            }
            bad.is_none()
        });
        out.runs += 1;
        if any {
            out.distinct.insert(h);
        }
        if let Some(b) = bad {
            out.hit("C11:down-not-final", b);
        }
    }
    out
}

pub fn run(prop: &str, seed: u64, budget: u64) -> Option<FOut> {
    match prop {
        "C01" => Some(c01(seed, budget)),
        "C19" => Some(c19(seed, budget)),
        "C06" => Some(c06(seed, budget)),
        "C11" => Some(c11(seed, budget)),
        _ => None,
    }
}
