//! Falsifiers: monitors written from the property texts, evaluated on the
//! real implementation only (independent of the Coq model).  A hit is a
//! concrete input / history on which the property fails.
use std::collections::{BTreeMap, HashSet};

use crate::gen::*;
use crate::json::J;
use crate::model::*;
use crate::state::*;
use crate::vid::*;

pub struct Hit {
    pub signature: String,
    pub detail: J,
}

#[derive(Default)]
pub struct FOut {
    pub runs: u64,
    pub distinct: HashSet<u64>,
    pub hits: Vec<Hit>,
    pub samples: Vec<J>,
    pub rule: String,
    pub extra: Vec<(String, J)>,
}

impl FOut {
    pub fn hit(&mut self, sig: &str, detail: J) {
        // at most 5 per signature (40 in all): a frequent class - a known finding, say - must not crowd out others
        if self.hits.len() < 40 && self.hits.iter().filter(|h| h.signature == sig).count() < 5 {
            self.hits.push(Hit { signature: sig.to_string(), detail });
        }
    }
    pub fn to_json(&self) -> J {
        let mut v = vec![
            ("runs".to_string(), J::n(self.runs)),
            ("distinct_nontrivial".to_string(), J::n(self.distinct.len())),
            ("rule".to_string(), J::s(self.rule.clone())),
            (
                "hits".to_string(),
                J::A(self
                    .hits
                    .iter()
                    .map(|h| J::obj(vec![("signature", J::s(h.signature.clone())), ("detail", h.detail.clone())]))
                    .collect()),
            ),
            ("samples".to_string(), J::A(self.samples.clone())),
        ];
        v.extend(self.extra.iter().cloned());
        J::O(v)
    }
}

pub fn hash_of<T: std::fmt::Debug>(x: &T) -> u64 {
    use std::hash::{Hash, Hasher};
    let mut h = std::collections::hash_map::DefaultHasher::new();
    format!("{x:?}").hash(&mut h);
    h.finish()
}

pub fn big_cfg() -> MCfg {
    MCfg {
        probe_period: 1000 * MS,
        probe_rtt: 400 * MS,
        num_indirect_probes: 3,
        max_transmissions: 3,
        suspect_to_down_after: 3000 * MS,
        remove_down_after: 20000 * MS,
        max_packet_size: 1400,
        notify_down_members: false,
        periodic_announce: None,
        periodic_announce_down: None,
        periodic_gossip: None,
    }
}

/// view of the membership state as address -> (identity, state, incarnation unless Down)
pub fn view_of(inst: &mut Inst) -> BTreeMap<u16, (VId, u8, u16)> {
    let mut m = BTreeMap::new();
    for r in inst.foca.iter_membership_state() {
        let mm = MMember::from(r);
        m.insert(mm.id.a, (mm.id, mm.state, if mm.state == 2 { 0 } else { mm.inc }));
    }
    m
}

fn apply_all(inst: &mut Inst, ups: &[MMember], chunked: bool, bcast: bool) -> bool {
    if chunked {
        for u in ups {
            let (_e, o) = run_real(&mut inst.foca, &Input::ApplyMany(vec![*u], bcast));
            if o != Outcome::Done {
                return false;
            }
        }
        true
    } else {
        run_real(&mut inst.foca, &Input::ApplyMany(ups.to_vec(), bcast)).1 == Outcome::Done
    }
}

const WIRE_SENDER_ADDR: u16 = 7;

/// the same updates delivered as Gossip datagrams (1..3 updates each) from an active member
fn apply_wire(inst: &mut Inst, ups: &[MMember], g: &mut G) -> bool {
    let sender = VId::new(WIRE_SENDER_ADDR, 0, 0, 0);
    let own = inst.snapshot().identity;
    let mut i = 0;
    while i < ups.len() {
        let n = (1 + g.below(3) as usize).min(ups.len() - i);
        let mut d = header_bytes(&foca::Header { src: sender, src_incarnation: 0, dst: own, message: foca::Message::Gossip });
        d.extend([(n >> 8) as u8, n as u8]);
        for u in &ups[i..i + n] {
            d.extend(member_bytes(&u.to_member()));
        }
        if run_real(&mut inst.foca, &Input::Data(d)).1 != Outcome::Done {
            return false;
        }
        i += n;
    }
    true
}

/// C01: order / multiplicity independence, re-applying own state, pairwise exchange
pub fn c01(seed: u64, budget: u64) -> FOut {
    let mut out = FOut::default();
    out.rule = "random update multisets over 4 addresses x 4 generations x incarnations {0,1,2,3,255,256,2^15-1,2^15,2^15+1,2^15+2,MAX-1,MAX, random u16} x 3 states (plus other identities of the instance's own address), sizes 1..10; each applied in 6 random permutations with random duplications - five through the real apply_many (whole list or one by one), one over the wire as Gossip datagrams through handle_data; views compared as address maps modulo the incarnation next to Down; then forget-timers of other identities of a Down record's address (must leave it alone); then re-apply own state; then exchange between two instances. distinct = distinct sorted multisets with at least two updates on one address".into();
    let mut g = G::new(seed ^ 0xC01);
    let own = VId::new(9, 1, 0, 0);
    let incs = [0u16, 1, 2, 3, 255, 256, 32767, 32768, 32769, 32770, 65534, 65535];
    for run in 0..budget {
        let n = 1 + g.below(10) as usize;
        let mut ups: Vec<MMember> = (0..n)
            .map(|_| {
                let a = if g.chance(10) { 9 } else { 1 + g.below(4) as u16 };
                let mut id = VId::new(a, g.below(4) as u16, g.below(2) as u8, 0);
                if id == own {
                    id.g = 0;
                }
                let inc = if g.chance(15) { g.below(65536) as u16 } else { *g.pick(&incs) };
                MMember { id, inc, state: g.below(3) as u8 }
            })
            .collect();
        let mut sorted = ups.clone();
        sorted.sort();
        let nontrivial = sorted.windows(2).any(|w| w[0].id.a == w[1].id.a);
        if nontrivial {
            out.distinct.insert(hash_of(&sorted));
        }
        out.runs += 1;
        // a sixth of the multisets also says that the instance itself is down (its identity cannot renew: it goes
        // defunct at that point of the batch) - what it knows about the others must not depend on where that is
        let mut ups_p = ups.clone();
        if g.chance(16) {
            let at = g.below(ups_p.len() as u64 + 1) as usize;
            ups_p.insert(at, if g.chance(70) { MMember { id: own, inc: *g.pick(&[0u16, 1, 65535]), state: 2 } } else { MMember { id: own, inc: 65535, state: 1 } });
        }
        // reference: in generation order
        let base_seed = g.next();
        let mut reference: Option<BTreeMap<u16, (VId, u8, u16)>> = None;
        let mut ref_order = vec![];
        for perm in 0..6 {
            let mut inst = Inst::new(own, &big_cfg(), base_seed.wrapping_add(perm), 0, 255);
            let mut l = ups_p.clone();
            if perm > 0 {
                // shuffle + duplicate
                for i in (1..l.len()).rev() {
                    let j = g.below(i as u64 + 1) as usize;
                    l.swap(i, j);
                }
                let dups = g.below(4);
                for _ in 0..dups {
                    let x = *g.pick(&l);
                    let at = g.below(l.len() as u64 + 1) as usize;
                    l.insert(at, x);
                }
            }
            // the last permutation arrives over the wire (Gossip datagrams from a member outside the
            // address range used), the others through apply_many
            let wire = perm == 5;
            if wire {
                if !apply_wire(&mut inst, &l, &mut g) {
                    out.hit("C01:handle_data-error", J::s(format!("{l:?}")));
                    continue;
                }
            } else if !apply_all(&mut inst, &l, g.chance(50), g.chance(50)) {
                out.hit("C01:apply_many-error", J::s(format!("{l:?}")));
                continue;
            }
            let mut v = view_of(&mut inst);
            v.remove(&WIRE_SENDER_ADDR);
            match &reference {
                None => {
                    reference = Some(v.clone());
                    ref_order = l.clone();
                }
                Some(r) => {
                    if *r != v {
                        out.hit(
                            "C01:order-dependence",
                            J::obj(vec![
                                ("order_a", J::s(format!("{ref_order:?}"))),
                                ("order_b", J::s(format!("{l:?}"))),
                                ("view_a", J::s(format!("{r:?}"))),
                                ("view_b", J::s(format!("{v:?}"))),
                            ]),
                        );
                    }
                }
            }
            // Down is final until THAT member is forgotten: the forget-timer of any other identity of the
            // address (an older or a newer generation) leaves the record alone
            {
                let before = inst.snapshot();
                for m in before.members.iter().filter(|m| m.state == 2) {
                    for dg in [1u16, 2, 3] {
                        let other = VId { g: m.id.g.wrapping_add(dg) % 4, ..m.id };
                        if other == m.id {
                            continue;
                        }
                        let (effs, _) = run_real(&mut inst.foca, &Input::Timer(MTimer::RemoveDown(other)));
                        let after = inst.snapshot();
                        if after.members != before.members || !effs.is_empty() {
                            out.hit(
                                "C01:down-record-forgotten-by-another-identity's-timer",
                                J::obj(vec![("record", J::s(format!("{m:?}"))), ("timer", J::s(format!("RemoveDown({other:?})"))), ("members_after", J::s(format!("{:?}", after.members)))]),
                            );
                        }
                    }
                }
            }
            // re-applying own state changes nothing
            let before = inst.snapshot();
            let own_state = before.members.clone();
            let (effs, o) = run_real(&mut inst.foca, &Input::ApplyMany(own_state.clone(), true));
            let after = inst.snapshot();
            let only_connect = effs.iter().all(|e| matches!(e, Eff::Submit(MTimer::Probe(_), _) | Eff::Notify(MNote::Active)));
            if o != Outcome::Done
                || before.members != after.members
                || before.updates != after.updates
                || before.incarnation != after.incarnation
                || before.identity != after.identity
                || !only_connect
            {
                out.hit(
                    "C01:reapply-own-state-changes",
                    J::obj(vec![("state", J::s(format!("{own_state:?}"))), ("effects", J::s(format!("{effs:?}")))]),
                );
            }
        }
        // exchange between two instances
        let id_b = VId::new(8, 1, 0, 0);
        let mut a = Inst::new(own, &big_cfg(), base_seed ^ 1, 0, 255);
        let mut b = Inst::new(id_b, &big_cfg(), base_seed ^ 2, 0, 255);
        let half = ups.len() / 2;
        let (ua, ub) = ups.split_at_mut(half);
        apply_all(&mut a, ua, false, true);
        apply_all(&mut b, ub, false, true);
        let sa = a.snapshot().members;
        let sb = b.snapshot().members;
        apply_all(&mut a, &sb, false, true);
        apply_all(&mut b, &sa, false, true);
        let (mut va, mut vb) = (view_of(&mut a), view_of(&mut b));
        for k in [8u16, 9] {
            va.remove(&k);
            vb.remove(&k);
        }
        if va != vb {
            out.hit(
                "C01:exchange-disagree",
                J::obj(vec![
                    ("a_initial", J::s(format!("{sa:?}"))),
                    ("b_initial", J::s(format!("{sb:?}"))),
                    ("a_final", J::s(format!("{va:?}"))),
                    ("b_final", J::s(format!("{vb:?}"))),
                ]),
            );
        }
        if run < 2 {
            out.samples.push(J::s(format!("{ups:?}")));
        }
    }
    // records only move forward along EVERY call of a history - datagrams, API calls, timers, the end of a probe
    // round included; only the forget-timer of exactly the recorded Down identity takes a record away
    for h in 0..(budget / 4).max(2) {
        let hs = seed.wrapping_mul(48271).wrapping_add(h);
        let mut bad: Option<J> = None;
        history(hs, 300, |c, _| { if c.max_packet_size < 64 { c.max_packet_size = 200; } }, |pre, input, _effs, _o, post, _rep| {
            if let Input::ChangeIdentity(n) = input {
                if n.a != pre.identity.a {
                    return false; // B3
                }
            }
            use foca::Identity;
            for m in &pre.members {
                if m.id.a == pre.identity.a || m.id.a == post.identity.a {
                    continue;
                }
                let ok = match post.members.iter().find(|x| x.id.a == m.id.a) {
                    None => m.state == 2 && matches!(input, Input::Timer(MTimer::RemoveDown(i)) if *i == m.id),
                    Some(x) if x.id == m.id => {
                        if m.state == 2 { x.state == 2 } else { x.state == 2 || x.inc > m.inc || (x.inc == m.inc && x.state >= m.state) }
                    }
                    Some(x) => x.id.win_addr_conflict(&m.id),
                };
                if !ok {
                    bad = Some(J::s(format!("history {hs}: record {m:?} became {:?} on {input:?}", post.members.iter().find(|x| x.id.a == m.id.a))));
                }
            }
            bad.is_none()
        });
        out.runs += 1;
        if let Some(b) = bad {
            out.hit("C01:record-moved-backward", b);
        }
    }
    out
}

/// A seeded single-instance history on the real crate (no model): calls `mon`
/// after every call with (pre-state, input, effects, outcome, post-state).
pub fn history(
    seed: u64,
    steps: u64,
    cfg_tweak: impl Fn(&mut MCfg, &mut G),
    mut mon: impl FnMut(&MState, &Input, &[Eff], &Outcome, &MState, &StepReport) -> bool,
) {
    let mut g = G::new(seed);
    let mut cfg = gen_cfg(&mut g);
    cfg_tweak(&mut cfg, &mut g);
    let id = VId { a: 9, g: 1 + g.below(2) as u16, k: g.below(4) as u8, pad: 0 };
    let mut inst = Inst::new(id, &cfg, g.next(), g.below(6) as u8, g.below(256) as u8);
    let mut pending: Vec<(u128, MTimer)> = vec![];
    let mut now: u128 = 0;
    let (pk, plen) = pick_prelude(&mut g);
    for stepno in 0..steps + plen {
        let pre = inst.snapshot();
        let input = match prelude_input(pk, stepno, plen, &pre) {
            Some(i) => i,
            None => gen_input(&mut g, &pre, &mut pending, &cfg),
        };
        if let Input::Timer(_) = &input {
            now += 50 * MS;
        }
        let rep = checked_step(&mut inst, &input, None);
        for e in &rep.effects {
            if let Eff::Submit(t, after) = e {
                pending.push((now + after, t.clone()));
            }
        }
        if inst.poisoned {
            break;
        }
        let post = rep.post.clone().unwrap();
        if !mon(&pre, &input, &rep.effects, &rep.outcome, &post, &rep) {
            break;
        }
    }
}

/// C19: Foca never chooses its own address as a destination
pub fn c19(seed: u64, budget: u64) -> FOut {
    let mut out = FOut::default();
    out.rule = "seeded single-instance histories (300 calls each) in which the instance keeps learning older/newer identities of its own address; every Send destination of every call is compared with the instance's address, except relays to a target named by a peer (IndirectPing after PingReq, ForwardedAck after IndirectAck) and the destination the user passes to announce(); distinct = histories in which at least one own-address record was stored".into();
    // the instance moved to an address nobody uses (beyond boundary B3, where the crate still keeps the rule): news
    // about / a datagram from another identity of the NEW own address, a Down record of it - then it originates
    // traffic of every kind: never to its own address
    for variant in 0..3u8 {
        let own = VId::new(9, 1, 0, 0);
        let mut cfg = big_cfg();
        cfg.periodic_announce_down = Some((7000 * MS, 2));
        cfg.periodic_announce = Some((5000 * MS, 2));
        let mut a = Inst::new(own, &cfg, seed ^ (0x190B + variant as u64), 0, 255);
        run_real(&mut a.foca, &Input::ApplyMany(vec![MMember { id: VId::new(2, 0, 0, 0), inc: 0, state: 0 }, MMember { id: VId::new(3, 0, 0, 0), inc: 0, state: 0 }], false));
        let new_own = VId::new(20, 0, 0, 0);
        run_real(&mut a.foca, &Input::ChangeIdentity(new_own));
        let mut all: Vec<Eff> = vec![];
        match variant {
            0 => { all.extend(run_real(&mut a.foca, &Input::ApplyMany(vec![MMember { id: VId::new(20, 1, 0, 0), inc: 0, state: 0 }, MMember { id: VId::new(4, 0, 0, 0), inc: 0, state: 0 }], true)).0); }
            1 => { all.extend(run_real(&mut a.foca, &Input::Data(mk_dgram_ups(VId::new(20, 2, 0, 0), 0, new_own, foca::Message::Ping(1), &[MMember { id: VId::new(4, 0, 0, 0), inc: 0, state: 0 }]))).0); }
            _ => { all.extend(run_real(&mut a.foca, &Input::ApplyMany(vec![MMember { id: VId::new(20, 1, 0, 0), inc: 0, state: 2 }, MMember { id: VId::new(4, 0, 0, 0), inc: 0, state: 0 }], true)).0); }
        }
        all.extend(run_real(&mut a.foca, &Input::ApplyMany(vec![MMember { id: VId::new(5, 0, 0, 0), inc: 0, state: 0 }], true)).0);
        all.extend(run_real(&mut a.foca, &Input::Gossip).0);
        all.extend(run_real(&mut a.foca, &Input::Broadcast).0);
        for _ in 0..6 {
            let tok = a.snapshot().token;
            for t in [MTimer::Probe(tok), MTimer::Announce(tok), MTimer::AnnounceDown(tok)] {
                let (e, _) = run_real(&mut a.foca, &Input::Timer(t));
                for x in &e {
                    if let Eff::Submit(t2 @ MTimer::Indirect(..), _) = x {
                        all.extend(run_real(&mut a.foca, &Input::Timer(t2.clone())).0);
                    }
                }
                all.extend(e);
            }
        }
        out.runs += 1;
        let bad: Vec<String> = all.iter().filter_map(|e| if let Eff::Send(d, b) = e { if d.a == 20 { Some(format!("{:?} to {d:?}", hdr_of(b).map(|h| h.message))) } else { None } } else { None }).collect();
        if !bad.is_empty() {
            out.hit("C19:own-address-destination:moved", J::s(format!("after moving to {new_own:?} (variant {variant}: 0 news about another identity of that address, 1 a datagram from one, 2 a Down record of one): datagrams to the own address: {bad:?}")));
        }
    }
    for h in 0..budget {
        let mut saw_own = false;
        let mut hits: Vec<(String, J)> = vec![];
        history(
            seed.wrapping_mul(7919).wrapping_add(h),
            300,
            |c, g| {
                // all eight combinations of periodic tasks
                let m = g.below(8);
                c.periodic_announce = if m & 1 != 0 { Some((5000 * MS, 2)) } else { None };
                c.periodic_announce_down = if m & 2 != 0 { Some((7000 * MS, 2)) } else { None };
                c.periodic_gossip = if m & 4 != 0 { Some((300 * MS, 2)) } else { None };
                if c.max_packet_size < 40 {
                    c.max_packet_size = 200;
                }
            },
            |pre, input, effs, _o, post, _r| {
                if post.members.iter().any(|m| m.id.a == post.identity.a) {
                    saw_own = true;
                }
                // B3: identity changes keep the address
                if let Input::ChangeIdentity(n) = input {
                    if n.a != pre.identity.a {
                        return false;
                    }
                }
                let relay_target: Option<VId> = match input {
                    Input::Data(b) => match dec_header(&mut &b[..]) {
                        Ok(h) => match h.message {
                            foca::Message::PingReq { target, .. } => Some(target),
                            foca::Message::IndirectAck { target, .. } => Some(target),
                            _ => None,
                        },
                        Err(_) => None,
                    },
                    Input::Announce(d) => Some(*d),
                    // a (forged) suspicion timer names its member: the courtesy TurnUndead goes there
                    Input::Timer(MTimer::SuspectToDown(d, _, _)) => Some(*d),
                    _ => None,
                };
                for e in effs {
                    if let Eff::Send(d, b) = e {
                        if d.a == pre.identity.a && Some(*d) != relay_target {
                            let kind = split_datagram(b).map(|x| format!("{:?}", x.0.message)).unwrap_or_default();
                            let kind = kind.split(|c| c == '(' || c == ' ').next().unwrap_or("").to_string();
                            hits.push((
                                format!("C19:own-address-destination:{}:{}", input.kind(), kind),
                                J::obj(vec![
                                    ("identity", J::s(format!("{:?}", pre.identity))),
                                    ("destination", J::s(format!("{d:?}"))),
                                    ("input", J::s(format!("{input:?}"))),
                                    ("members", J::s(format!("{:?}", pre.members))),
                                ]),
                            ));
                        }
                    }
                }
                true
            },
        );
        out.runs += 1;
        if saw_own {
            out.distinct.insert(h);
        }
        for (s, d) in hits {
            out.hit(&s, d);
        }
        if h < 1 {
            out.samples.push(J::s(format!("history seed {} (300 calls)", seed.wrapping_mul(7919).wrapping_add(h))));
        }
    }
    out
}

/// C06: no panic on any input, schedule or configuration
pub fn c06(seed: u64, budget: u64) -> FOut {
    let mut out = FOut::default();
    out.rule = "seeded single-instance histories (400 calls) with a heavy malformed stream (random bytes, truncations, bit flips of valid datagrams), forged/stale/duplicated timers, every API call incl. set_config between sends and packet sizes 18..70000, incarnations at MAX, run under catch_unwind on the debug-assertion build; plus Config::new_lan/new_wan on boundaries, powers of ten +-1 and random u32 values. distinct = distinct (input kind, outcome) pairs plus constructor arguments".into();
    // the smallest encodings a codec may have (one-byte identities, four-byte headers): real crate only
    crate::altid::check_tiny(seed, &mut out);
    let mut kinds: HashSet<String> = HashSet::new();
    for h in 0..budget {
        let hs = seed.wrapping_mul(104729).wrapping_add(h);
        let mut g2 = G::new(hs ^ 0xABCD);
        let mut last: Option<(String, String)> = None;
        let mut steps = 0u64;
        // a second, hostile stream interleaved with the structured one
        let mut g = G::new(hs);
        let cfg = gen_cfg(&mut g);
        let id = VId { a: 9, g: 1 + g.below(2) as u16, k: g.below(4) as u8, pad: 0 };
        let mut inst = Inst::new(id, &cfg, g.next(), g.below(6) as u8, g.below(256) as u8);
        let mut pending: Vec<(u128, MTimer)> = vec![];
        let (pk, plen) = pick_prelude(&mut g2);
        for stepno in 0..400 + plen {
            let pre = inst.snapshot();
            let input = if let Some(i) = prelude_input(pk, stepno, plen, &pre) {
                i
            } else if g2.chance(25) {
                match g2.below(4) {
                    0 => Input::Data((0..g2.below(2 * pre.cfg.max_packet_size.min(200) as u64 + 2)).map(|_| g2.below(256) as u8).collect()),
                    1 => {
                        let d = gen_datagram(&mut g2, &pre);
                        let d = mutate(&mut g2, d);
                        Input::Data(mutate(&mut g2, d))
                    }
                    2 => Input::Timer(forged_timer(&mut g2, &pre)),
                    _ => Input::ApplyMany(
                        (0..g2.below(4)).map(|_| MMember { id: pre.identity, inc: *g2.pick(&[0u16, 65534, 65535]), state: 1 }).collect(),
                        true,
                    ),
                }
            } else {
                gen_input(&mut g, &pre, &mut pending, &cfg)
            };
            let (effs, o) = run_real(&mut inst.foca, &input);
            steps += 1;
            for e in &effs {
                if let Eff::Submit(t, after) = e {
                    pending.push((*after, t.clone()));
                }
            }
            kinds.insert(format!("{}:{:?}", input.kind(), o));
            if let Outcome::Panicked(_) = o {
                last = Some((input.kind().to_string(), format!("{input:?}")));
                out.hit(
                    &format!("C06:panic:{}", input.kind()),
                    J::obj(vec![("history_seed", J::n(hs)), ("step", J::n(steps)), ("input", J::s(format!("{input:?}"))), ("pre_state", J::s(format!("{pre:?}")))]),
                );
                break;
            }
        }
        let _ = last;
        out.runs += 1;
        if h < 1 {
            out.samples.push(J::s(format!("history seed {hs}: {steps} calls, no panic")));
        }
    }
    // configuration constructors
    let mut args: Vec<u32> = vec![1, 2, 3, 9, 10, 11, 99, 100, 101, 999, 1000, 1001, u32::MAX, u32::MAX - 1, 1 << 31];
    let mut p = 1u64;
    while p < u32::MAX as u64 {
        for d in [-1i64, 0, 1] {
            let v = p as i64 + d;
            if v >= 1 && v <= u32::MAX as i64 {
                args.push(v as u32);
            }
        }
        p *= 10;
    }
    let mut g = G::new(seed ^ 0xC06);
    for _ in 0..(budget * 50) {
        args.push(1 + g.below(u32::MAX as u64) as u32);
    }
    let mut ctor_runs = 0u64;
    for a in args {
        let n = std::num::NonZeroU32::new(a).unwrap();
        let r = std::panic::catch_unwind(|| {
            let c1 = foca::Config::new_lan(n);
            let c2 = foca::Config::new_wan(n);
            (c1.max_transmissions.get(), c2.suspect_to_down_after)
        });
        ctor_runs += 1;
        if r.is_err() {
            out.hit("C06:panic:config-constructor", J::n(a));
        }
    }
    for k in kinds {
        out.distinct.insert(hash_of(&k));
    }
    out.extra.push(("config_constructor_calls".into(), J::n(ctor_runs)));
    out
}

/// C11: suspicion timeout takes effect iff unrefuted; Down final until forgotten
pub fn c11(seed: u64, budget: u64) -> FOut {
    let mut out = FOut::default();
    out.rule = "exhaustive case table on the real crate: stored record {absent, Alive, Suspect, Down} x stored incarnation vs timer incarnation {<,=,>} x timer identity generation {older, same} vs stored x token {current, stale} x notify_down_members {on,off} x duplicate delivery, with a second active member keeping the instance connected; expected: effect iff token current, same identity, same incarnation, record active; otherwise no effect at all. Then genuine timers: the suspicion is raised by a real failed probe round (instance 0..2 refutations ahead of the member, member at incarnation 0/1/7, in half of the rows the same suspicion also arrives by gossip while the round is open) and the timer the instance scheduled itself is fired, unrefuted (must take effect) or after a header with a higher incarnation (must have none). Then epochs: a timeout scheduled before leave_cluster / TurnUndead / Down(self) / change_identity fires afterwards with the record still Suspect (must have no effect). Then random histories checking that a Down identity never becomes active again before its RemoveDown fires (or a newer identity supersedes it). distinct = distinct table rows + histories with at least one Down record".into();
    let own = VId::new(9, 1, 0, 0);
    let other = VId::new(2, 0, 0, 0);
    for notify in [false, true] {
        for stored in 0..4u8 {
            // 0 absent, 1 alive, 2 suspect, 3 down
            for (sinc, tinc) in [(5u16, 4u16), (5, 5), (5, 6), (0, 0), (65535, 65535)] {
                for tgen in [0u16, 1] {
                    for stale in [false, true] {
                      for alone in [false, true] {
                        let mut cfg = big_cfg();
                        cfg.notify_down_members = notify;
                        let mut inst = Inst::new(own, &cfg, seed, 0, 255);
                        let x_stored = VId::new(1, 1, 0, 0);
                        let x_timer = VId::new(1, tgen, 0, 0);
                        // alone: the member is the LAST active one - the instance goes idle in the same call
                        let mut ups = if alone { vec![] } else { vec![MMember { id: other, inc: 0, state: 0 }] };
                        if stored > 0 {
                            ups.push(MMember { id: x_stored, inc: sinc, state: stored - 1 });
                        }
                        run_real(&mut inst.foca, &Input::ApplyMany(ups, false));
                        let pre = inst.snapshot();
                        let tok = if stale { (pre.token + 1) & 255 } else { pre.token };
                        let input = Input::Timer(MTimer::SuspectToDown(x_timer, tinc as u128, tok));
                        let (effs, o) = run_real(&mut inst.foca, &input);
                        let post = inst.snapshot();
                        out.runs += 1;
                        out.distinct.insert(hash_of(&(notify, stored, sinc, tinc, tgen, stale, alone)));
                        let should = !stale && (stored == 1 || stored == 2) && x_timer == x_stored && sinc == tinc;
                        let row = format!("notify={notify} stored={stored} stored_inc={sinc} timer_inc={tinc} timer_gen={tgen} stale={stale} last_active_member={alone}");
                        if o != Outcome::Done {
                            out.hit("C11:timer-error", J::s(row.clone()));
                        }
                        if should {
                            let down_now = post.members.iter().any(|m| m.id == x_stored && m.state == 2 && m.inc == sinc);
                            let notified = effs.contains(&Eff::Notify(MNote::Down(x_stored)));
                            let forget = effs.iter().any(|e| matches!(e, Eff::Submit(MTimer::RemoveDown(i), d) if *i == x_stored && *d == cfg.remove_down_after));
                            let tu = effs.iter().filter(|e| matches!(e, Eff::Send(d, b) if *d == x_stored && split_datagram(b).map(|x| x.0.message == foca::Message::TurnUndead).unwrap_or(false))).count();
                            let gossiped = post.updates.iter().any(|(tx, a, d)| *a == 1 && *tx == cfg.max_transmissions && dec_member(&mut &d[..]).map(|m| m.state() == foca::State::Down && *m.id() == x_stored).unwrap_or(false));
                            if !(down_now && notified && forget && gossiped && tu == notify as usize) {
                                out.hit("C11:effective-timeout-incomplete", J::obj(vec![("row", J::s(row)), ("effects", J::s(format!("{effs:?}")))]));
                            }
                        } else if !effs.is_empty() || post != pre {
                            out.hit(
                                "C11:cancelled-timeout-has-effect",
                                J::obj(vec![("row", J::s(row)), ("effects", J::s(format!("{effs:?}"))), ("state_changed", J::B(post != pre))]),
                            );
                        }
                        if out.samples.len() < 2 {
                            out.samples.push(J::s(format!("{input:?} on {:?}", pre.members)));
                        }
                      }
                    }
                }
            }
        }
    }
    // genuine timers: the suspicion is raised by a real failed probe round and the timer fired is the
    // one the instance scheduled itself (own incarnation 0..2 refutations ahead, member at 0 / 1 / 7)
    for own_bumps in 0..3u16 {
        for minc in [0u16, 1, 7] {
            for refute in [false, true] {
                for (notify, heard) in [(false, false), (true, false), (false, true), (true, true)] {
                    use foca::Message as Mg;
                    let mut cfg = big_cfg();
                    cfg.notify_down_members = notify;
                    let mut a = Inst::new(own, &cfg, seed ^ (own_bumps as u64 * 31 + minc as u64), 0, 255);
                    for k in 0..own_bumps {
                        run_real(&mut a.foca, &Input::ApplyMany(vec![MMember { id: own, inc: k, state: 1 }], false));
                    }
                    let b = VId::new(1, 0, 0, 0);
                    run_real(&mut a.foca, &Input::ApplyMany(vec![MMember { id: b, inc: minc, state: 0 }, MMember { id: other, inc: 0, state: 0 }], false));
                    let mut timer: Option<MTimer> = None;
                    let mut failed_b = false;
                    for _round in 0..12 {
                        let tok = a.snapshot().token;
                        let (e, _) = run_real(&mut a.foca, &Input::Timer(MTimer::Probe(tok)));
                        if failed_b {
                            timer = e.iter().find_map(|x| if let Eff::Submit(t @ MTimer::SuspectToDown(i, _, _), _) = x { if *i == b { Some(t.clone()) } else { None } } else { None });
                            break;
                        }
                        let mut ind = None;
                        for x in &e {
                            match x {
                                Eff::Send(d, bytes) => {
                                    if let Some(h) = hdr_of(bytes) {
                                        if let Mg::Ping(k) = h.message {
                                            if *d == b {
                                                failed_b = true; // no answer from b in this round
                                                if heard {
                                                    // the suspicion also arrives by gossip while the round is open (gossip arms no
                                                    // timer): the instance's own failed round must still arm the timeout
                                                    run_real(&mut a.foca, &Input::ApplyMany(vec![MMember { id: b, inc: minc, state: 1 }], false));
                                                }
                                            } else {
                                                run_real(&mut a.foca, &Input::Data(mk_dgram(*d, 0, own, Mg::Ack(k))));
                                            }
                                        }
                                    }
                                }
                                Eff::Submit(t @ MTimer::Indirect(..), _) => ind = Some(t.clone()),
                                _ => {}
                            }
                        }
                        if let Some(t) = ind {
                            run_real(&mut a.foca, &Input::Timer(t));
                        }
                    }
                    out.runs += 1;
                    out.distinct.insert(hash_of(&("genuine", own_bumps, minc, refute, notify, heard)));
                    let row = format!("genuine timer: own refutations={own_bumps} member incarnation={minc} refuted={refute} notify={notify} suspicion also heard by gossip mid-round={heard}");
                    let Some(t) = timer else {
                        out.hit("C11:no-suspicion-timeout-after-failed-round", J::s(row));
                        continue;
                    };
                    if refute {
                        run_real(&mut a.foca, &Input::Data(mk_dgram(b, minc + 1, own, Mg::Gossip)));
                    }
                    // in half of the rows a later round lost its indirect-stage timer while the timeout was pending:
                    // the next round starts on the recovery path (IncompleteProbeCycle) - the instance stayed
                    // connected all along, so the epoch is the same and the pending timeout keeps its force
                    let lossy = (own_bumps + minc) % 2 == 1;
                    if lossy {
                        for _ in 0..2 {
                            let tok = a.snapshot().token;
                            let (e, _) = run_real(&mut a.foca, &Input::Timer(MTimer::Probe(tok)));
                            for x in &e {
                                if let Eff::Send(d, bytes) = x {
                                    if let Some(h) = hdr_of(bytes) {
                                        if let Mg::Ping(k) = h.message {
                                            if *d != b {
                                                run_real(&mut a.foca, &Input::Data(mk_dgram(*d, 0, own, Mg::Ack(k))));
                                            }
                                        }
                                    }
                                }
                            }
                        }
                    }
                    let row = if lossy { format!("{row} (a later round lost its indirect-stage timer)") } else { row };
                    let pre = a.snapshot();
                    let (effs, _) = run_real(&mut a.foca, &Input::Timer(t.clone()));
                    let post = a.snapshot();
                    if refute {
                        if !effs.is_empty() || post != pre {
                            out.hit("C11:cancelled-timeout-has-effect", J::obj(vec![("row", J::s(row)), ("effects", J::s(format!("{effs:?}")))]));
                        }
                    } else {
                        let down_now = post.members.iter().any(|m| m.id == b && m.state == 2);
                        if !down_now || !effs.contains(&Eff::Notify(MNote::Down(b))) {
                            out.hit("C11:unrefuted-genuine-timeout-ineffective", J::obj(vec![("row", J::s(row)), ("timer", J::s(format!("{t:?}"))), ("record", J::s(format!("{:?}", pre.members))), ("effects", J::s(format!("{effs:?}")))]));
                        }
                    }
                }
            }
        }
    }
    // epochs: a timeout scheduled before the instance went idle / defunct / changed identity must have no
    // effect when it fires afterwards (the record being still Suspect at the same incarnation)
    for how in 0..4u8 {
        for notify in [false, true] {
            let mut cfg = big_cfg();
            cfg.notify_down_members = notify;
            // renew mode 0 of the harness identity: not renewable (k = 0)
            let mut a = Inst::new(own, &cfg, seed ^ (77 + how as u64), 0, 255);
            let b = VId::new(1, 0, 0, 0);
            run_real(&mut a.foca, &Input::ApplyMany(vec![MMember { id: b, inc: 3, state: 0 }, MMember { id: other, inc: 0, state: 0 }], false));
            // b becomes Suspect through gossip; the timeout is the one a failed round would have scheduled
            run_real(&mut a.foca, &Input::ApplyMany(vec![MMember { id: b, inc: 3, state: 1 }], false));
            let tok = a.snapshot().token;
            let t = MTimer::SuspectToDown(b, 3, tok);
            let what = match how {
                0 => {
                    run_real(&mut a.foca, &Input::Leave);
                    "leave_cluster"
                }
                1 => {
                    run_real(&mut a.foca, &Input::Data(mk_dgram(other, 0, own, foca::Message::TurnUndead)));
                    "TurnUndead received (identity not renewable)"
                }
                2 => {
                    run_real(&mut a.foca, &Input::ApplyMany(vec![MMember { id: own, inc: 0, state: 2 }], false));
                    "Down(self) learnt (identity not renewable)"
                }
                _ => {
                    run_real(&mut a.foca, &Input::ChangeIdentity(VId { g: own.g + 1, ..own }));
                    "change_identity"
                }
            };
            let pre = a.snapshot();
            let still_suspect = pre.members.iter().any(|m| m.id == b && m.state == 1 && m.inc == 3);
            let (effs, _) = run_real(&mut a.foca, &Input::Timer(t.clone()));
            let post = a.snapshot();
            out.runs += 1;
            out.distinct.insert(hash_of(&("epoch", how, notify)));
            if still_suspect && (!effs.is_empty() || post != pre) {
                out.hit(
                    "C11:timeout-of-an-earlier-epoch-has-effect",
                    J::obj(vec![("after", J::s(what)), ("notify", J::B(notify)), ("timer", J::s(format!("{t:?}"))), ("token_now", J::n(pre.token)), ("conn", J::n(pre.conn)), ("effects", J::s(format!("{effs:?}")))]),
                );
            }
        }
    }
    // forgetting: the forget-timer of exactly the recorded Down identity removes the record in every connection
    // state (connected, idle, defunct, resumed), the timer of another generation of that address does not
    for state in 0..4u8 {
        for exact in [true, false] {
            let cfg = big_cfg();
            let mut a = Inst::new(own, &cfg, seed ^ (0xF0 + state as u64), 0, 255);
            let x = VId::new(1, 1, 0, 0);
            let mut ups = vec![MMember { id: x, inc: 2, state: 2 }];
            if state != 1 {
                ups.push(MMember { id: other, inc: 0, state: 0 });
            }
            run_real(&mut a.foca, &Input::ApplyMany(ups, false));
            if state >= 2 {
                run_real(&mut a.foca, &Input::Leave);
            }
            if state == 3 {
                run_real(&mut a.foca, &Input::ReuseDown);
            }
            let pre = a.snapshot();
            let t = if exact { x } else { VId::new(1, 0, 0, 0) };
            let (effs, o) = run_real(&mut a.foca, &Input::Timer(MTimer::RemoveDown(t)));
            let post = a.snapshot();
            out.runs += 1;
            out.distinct.insert(hash_of(&("forget", state, exact)));
            let still = post.members.iter().any(|m| m.id.a == 1);
            let what = ["connected", "idle", "defunct (after leave_cluster)", "resumed by reuse_down_identity"][state as usize];
            if exact && (still || o != Outcome::Done) {
                out.hit("C11:forget-timer-ineffective", J::s(format!("instance {what} (conn {}): RemoveDown({x:?}) -> {o:?}, record still there: {:?}", pre.conn, post.members)));
            }
            if !exact && (!still || !effs.is_empty()) {
                out.hit("C11:forget-timer-of-another-identity-has-effect", J::s(format!("instance {what}: RemoveDown({t:?}) with {x:?} recorded: {:?} {effs:?}", post.members)));
            }
        }
    }
    // Down is final until forgotten
    for h in 0..budget {
        let mut down: std::collections::HashMap<VId, ()> = Default::default();
        let mut bad: Option<J> = None;
        let mut any = false;
        history(seed.wrapping_mul(31337).wrapping_add(h), 300, |_, _| {}, |pre, input, _effs, _o, post, _r| {
            for m in &pre.members {
                if m.state == 2 {
                    down.insert(m.id, ());
                    any = true;
                }
            }
            // forgetting: RemoveDown for exactly that identity, or superseded by a newer identity of that address
            for (id, _) in down.clone() {
                let now = post.members.iter().find(|m| m.id.a == id.a);
                match now {
                    Some(m) if m.id == id && m.state != 2 => {
                        bad = Some(J::obj(vec![("identity", J::s(format!("{id:?}"))), ("input", J::s(format!("{input:?}")))]));
                    }
                    Some(m) if m.id == id => {}
                    _ => {
                        down.remove(&id);
                    }
                }
                if now.is_none() && !matches!(input, Input::Timer(MTimer::RemoveDown(i)) if *i == id) {
                    bad = Some(J::obj(vec![("removed_without_forget_timer", J::s(format!("{id:?}"))), ("input", J::s(format!("{input:?}")))]));
                }
            }
            // ... and the forget-timer of exactly the recorded Down identity does remove it, whatever the connection state
            if let Input::Timer(MTimer::RemoveDown(i)) = input {
                if pre.members.iter().any(|m| m.id == *i && m.state == 2) && post.members.iter().any(|m| m.id == *i) {
                    bad = Some(J::obj(vec![("forget_timer_did_not_remove", J::s(format!("{i:?}"))), ("conn", J::n(pre.conn))]));
                }
            }
            bad.is_none()
        });
        out.runs += 1;
        if any {
            out.distinct.insert(h);
        }
        if let Some(b) = bad {
            out.hit("C11:down-not-final", b);
        }
    }
    out
}

/// C09: one record per address; identities move forward; own address never active; discard
pub fn c09(seed: u64, budget: u64) -> FOut {
    let mut out = FOut::default();
    out.rule = "seeded single-instance histories (300 calls, several generations per address incl. the instance's own); after every call: no two records share an address, no active record bears the own address, number of records <= distinct addresses told so far, every Rename(a,b) has b winning against a, the identity stored for an address only changes to one that wins (until the address is forgotten), an address loses its record only through the forget-timer of exactly the (Down) identity recorded, a datagram changes only records of addresses it names itself (sender, member section), and a datagram whose sender is not active after header processing (Down or superseded) leaves every other record untouched and reaches the handler with no item. distinct = histories with at least one Rename or own-address record".into();
    // a defunct instance, a sender it holds Down (or superseded), every message kind incl. TurnUndead with an update
    // section: the payload is discarded - no record added or changed, nothing queued
    for superseded in [false, true] {
        for kind in 0..3u8 {
            let own = VId::new(9, 1, 0, 0);
            let cfg = { let mut c = big_cfg(); c.notify_down_members = kind != 2; c };
            let mut a = Inst::new(own, &cfg, seed ^ 0xDEF0, 0, 255);
            let x_known = VId::new(2, 3, 0, 0);
            run_real(&mut a.foca, &Input::ApplyMany(vec![MMember { id: x_known, inc: 0, state: if superseded { 0 } else { 2 } }, MMember { id: VId::new(5, 0, 0, 0), inc: 0, state: 0 }], false));
            run_real(&mut a.foca, &Input::Leave);
            let pre = a.snapshot();
            let sender = if superseded { VId::new(2, 1, 0, 0) } else { x_known };
            let msg = [foca::Message::TurnUndead, foca::Message::Gossip, foca::Message::TurnUndead][kind as usize].clone();
            let d = mk_dgram_ups(sender, 0, own, msg.clone(), &[MMember { id: VId::new(7, 0, 0, 0), inc: 0, state: 0 }, MMember { id: VId::new(5, 0, 0, 0), inc: 0, state: 2 }]);
            let (_, o) = run_real(&mut a.foca, &Input::Data(d));
            let post = a.snapshot();
            out.runs += 1;
            if post.members != pre.members || post.updates != pre.updates {
                out.hit("C09:payload-of-inactive-sender-applied", J::s(format!("a defunct instance applied the payload of a {msg:?} from {sender:?} ({}): {o:?}; members {:?} -> {:?}", if superseded { "superseded by the recorded identity" } else { "held Down" }, pre.members, post.members)));
            }
        }
    }
    // the instance moved to an address nobody uses (change_identity to a different address: beyond boundary B3 of
    // the theorems, but the rule still holds there): another identity of the NEW own address is never stored
    // active and is refused as a sender; the OLD address is an ordinary address again
    for connected in [false, true] {
        let own = VId::new(9, 1, 0, 0);
        let cfg = big_cfg();
        let mut a = Inst::new(own, &cfg, seed ^ 0x90B3, 0, 255);
        if connected {
            run_real(&mut a.foca, &Input::ApplyMany(vec![MMember { id: VId::new(2, 0, 0, 0), inc: 0, state: 0 }, MMember { id: VId::new(3, 0, 0, 0), inc: 0, state: 0 }], false));
        }
        let new_own = VId::new(20, 0, 0, 0);
        run_real(&mut a.foca, &Input::ChangeIdentity(new_own));
        run_real(&mut a.foca, &Input::ApplyMany(vec![MMember { id: VId::new(20, 1, 0, 0), inc: 0, state: 0 }, MMember { id: VId::new(4, 0, 0, 0), inc: 0, state: 0 }], true));
        let s1 = a.snapshot();
        let (_, o2) = run_real(&mut a.foca, &Input::Data(mk_dgram_ups(VId::new(20, 2, 0, 0), 0, new_own, foca::Message::Gossip, &[MMember { id: VId::new(5, 0, 0, 0), inc: 0, state: 0 }])));
        let s2 = a.snapshot();
        run_real(&mut a.foca, &Input::ApplyMany(vec![MMember { id: VId::new(9, 5, 0, 0), inc: 0, state: 0 }], true));
        let s3 = a.snapshot();
        out.runs += 1;
        let own_active = |s: &MState| s.members.iter().any(|m| m.id.a == 20 && m.state != 2);
        if s1.identity != new_own || own_active(&s1) || own_active(&s2) || o2 == Outcome::Done || s2.members.iter().any(|m| m.id.a == 5) {
            out.hit("C09:own-address-active", J::s(format!("moved to an address nobody uses ({new_own:?}): after news about another identity of it {:?}; after a datagram from another identity of it ({o2:?}) {:?}", s1.members, s2.members)));
        }
        if !s3.members.iter().any(|m| m.id == VId::new(9, 5, 0, 0) && m.state == 0) {
            out.hit("C09:old-address-not-released", J::s(format!("after moving to {new_own:?} an Alive update about the old address is not stored: {:?}", s3.members)));
        }
    }
    for h in 0..budget {
        let mut hits: Vec<(String, J)> = vec![];
        let mut told: HashSet<u16> = HashSet::new();
        let mut interesting = false;
        history(seed.wrapping_mul(6151).wrapping_add(h), 300, |c, _| { if c.max_packet_size < 64 { c.max_packet_size = 200; } }, |pre, input, effs, _o, post, rep| {
            if let Input::ChangeIdentity(n) = input {
                if n.a != pre.identity.a {
                    return false; // B3
                }
            }
            match input {
                Input::Data(b) => {
                    if let Some((h, ups, _)) = split_datagram(b) {
                        told.insert(h.src.a);
                        for u in ups {
                            if let Ok(m) = dec_member(&mut &u[..]) {
                                told.insert(m.id().a);
                            }
                        }
                    } else {
                        // not a well-formed datagram as a whole (e.g. a malformed custom-broadcast tail): the
                        // header and a fully decodable member section may still have been applied
                        let mut cur = &b[..];
                        if let Ok(h) = dec_header(&mut cur) {
                            told.insert(h.src.a);
                            if cur.len() >= 2 {
                                let cnt = u16::from_be_bytes([cur[0], cur[1]]);
                                cur = &cur[2..];
                                for _ in 0..cnt {
                                    match dec_member(&mut cur) {
                                        Ok(m) => {
                                            told.insert(m.id().a);
                                        }
                                        Err(_) => break,
                                    }
                                }
                            }
                        }
                    }
                }
                Input::ApplyMany(l, _) => {
                    for m in l {
                        told.insert(m.id.a);
                    }
                }
                _ => {}
            }
            let mut seen = HashSet::new();
            for m in &post.members {
                if !seen.insert(m.id.a) {
                    hits.push(("C09:duplicate-address".into(), J::s(format!("{:?} after {:?}", post.members, input))));
                }
                if m.id.a == post.identity.a {
                    interesting = true;
                    if m.state != 2 {
                        hits.push(("C09:own-address-active".into(), J::s(format!("{:?} after {:?}", m, input))));
                    }
                }
            }
            if post.members.len() > told.len() {
                hits.push(("C09:more-records-than-addresses".into(), J::s(format!("{:?}; records {:?}; addresses told so far {:?}", input, post.members, told))));
            }
            for e in effs {
                if let Eff::Notify(MNote::Rename(a, b)) = e {
                    interesting = true;
                    use foca::Identity;
                    if a.a != b.a || !b.win_addr_conflict(a) {
                        hits.push(("C09:rename-to-loser".into(), J::s(format!("{a:?} -> {b:?} on {input:?}"))));
                    }
                }
            }
            for m in &pre.members {
                if !post.members.iter().any(|x| x.id.a == m.id.a) {
                    // the address lost its record: only the forget-timer of exactly that (Down) identity may do that
                    let own_timer = matches!(input, Input::Timer(MTimer::RemoveDown(i)) if *i == m.id);
                    if !(own_timer && m.state == 2) {
                        hits.push(("C09:record-removed-without-its-own-forget-timer".into(), J::s(format!("{m:?} vanished on {input:?}"))));
                    }
                }
            }
            for m in &pre.members {
                if let Some(n) = post.members.iter().find(|x| x.id.a == m.id.a) {
                    use foca::Identity;
                    if n.id != m.id && !n.id.win_addr_conflict(&m.id) {
                        hits.push(("C09:identity-fallback".into(), J::s(format!("{:?} -> {:?} on {input:?}", m.id, n.id))));
                    }
                    let from_old = effs.iter().any(|e| matches!(e, Eff::Notify(MNote::Rename(a, _)) if *a == m.id));
                    let to_new = effs.iter().any(|e| matches!(e, Eff::Notify(MNote::Rename(_, b)) if *b == n.id));
                    if n.id != m.id && !(from_old && to_new) {
                        hits.push(("C09:replacement-without-rename".into(), J::s(format!("{:?} -> {:?} on {input:?}", m.id, n.id))));
                    }
                }
            }
            // an address loses its record only through the forget-timer of exactly the (Down) identity recorded, a datagram changes only records of addresses it names itself (its sender, its member section)
            if let Input::Data(b) = input {
                let mut named: HashSet<u16> = HashSet::new();
                let mut cur = &b[..];
                if let Ok(h) = dec_header(&mut cur) {
                    named.insert(h.src.a);
                    if cur.len() >= 2 {
                        let cnt = u16::from_be_bytes([cur[0], cur[1]]);
                        cur = &cur[2..];
                        for _ in 0..cnt {
                            match dec_member(&mut cur) {
                                Ok(m) => {
                                    named.insert(m.id().a);
                                }
                                Err(_) => break,
                            }
                        }
                    }
                }
                let changed: Vec<u16> = pre.members.iter().filter(|m| !post.members.contains(m)).map(|m| m.id.a)
                    .chain(post.members.iter().filter(|m| !pre.members.contains(m)).map(|m| m.id.a)).collect();
                if let Some(a) = changed.iter().find(|a| !named.contains(a)) {
                    hits.push(("C09:record-change-not-named-by-datagram".into(), J::s(format!("address {a} changed on {input:?}: pre={:?} post={:?}", pre.members, post.members))));
                }
            }
            // discard
            if let Input::Data(b) = input {
                if let Ok(hd) = dec_header(&mut &b[..]) {
                    use foca::Identity;
                    let accepted = rep.outcome == Outcome::Done || matches!(rep.outcome, Outcome::Failed(_));
                    // activity of the sender right after its header has been processed,
                    // derived from the record held before the call
                    let rec = pre.members.iter().find(|m| m.id.a == hd.src.a);
                    let inactive = match rec {
                        Some(m) if m.id == hd.src => m.state == 2,
                        Some(m) => m.id.win_addr_conflict(&hd.src),
                        None => false,
                    };
                    let processed = accepted && hd.src.a != pre.identity.a && (hd.dst == pre.identity);
                    if inactive && processed && hd.message != foca::Message::TurnUndead {
                        let others_same = pre.members.iter().filter(|m| m.id.a != hd.src.a).all(|m| post.members.contains(m))
                            && post.members.iter().filter(|m| m.id.a != hd.src.a).all(|m| pre.members.contains(m));
                        if !others_same || !rep.handler_log.is_empty() || post.customs != pre.customs || post.identity != pre.identity {
                            hits.push(("C09:payload-of-inactive-sender-processed".into(), J::s(format!("{input:?} pre={:?} post={:?} handler={:?}", pre.members, post.members, rep.handler_log))));
                        }
                    }
                }
            }
            true
        });
        out.runs += 1;
        if interesting {
            out.distinct.insert(h);
        }
        for (s, d) in hits {
            out.hit(&s, d);
        }
        if h < 1 {
            out.samples.push(J::s(format!("history seed {} (300 calls)", seed.wrapping_mul(6151).wrapping_add(h))));
        }
    }
    out
}

/// C13: timer epochs with an exactly-once runtime
pub fn c13(seed: u64, budget: u64) -> FOut {
    let mut out = FOut::default();
    out.rule = "histories (300 calls) on the real crate with an exactly-once timer runtime: every timer delivered comes from the pending set (earliest deadline first - ties in the order of Timer's own Ord, the clock being exact or coarse (deadlines rounded up to a tick of 1 or 3 probe periods) - in 'ordered' histories, random order otherwise), interleaved with datagrams and API calls that flip connection state / identity and with set_config; all 8 combinations of periodic tasks. After every call: connected => exactly one pending probe timer and exactly one pending timer per enabled periodic task carrying the current token (at most one when the task is currently disabled); not connected => no pending token-carrying timer with the current token; a delivered timer with a stale token has no effect; ordered delivery never errors; any order yields Ok or IncompleteProbeCycle; plus one long-lived instance through 300 epochs (more than the u8 token has values): the timers of the epoch that just ended are ignored in every epoch. distinct = histories with at least 3 connection-epoch changes".into();
    // long-lived instance: 300 connection epochs in a row (more than the 256 values of the u8 token).
    // Every round: become active (timers of the epoch are submitted), change identity (an epoch change by
    // definition, whatever the token does), then deliver every timer of the epoch that just ended: each must
    // be ignored - Ok, no effect, no state change.
    {
        let mut cfg = big_cfg();
        cfg.periodic_announce = Some((5000 * MS, 2));
        cfg.periodic_gossip = Some((300 * MS, 2));
        let peer = VId::new(2, 0, 0, 0);
        let mut inst = Inst::new(VId { a: 9, g: 1, k: 2, pad: 0 }, &cfg, seed ^ 0xE90C, 0, 255);
        let mut carried: Vec<MTimer> = vec![];
        let mut hit: Option<(String, J)> = None;
        'rounds: for round in 0..300u32 {
            let mut of_epoch: Vec<MTimer> = std::mem::take(&mut carried);
            let (effs, _) = run_real(&mut inst.foca, &Input::ApplyMany(vec![MMember { id: peer, inc: round as u16, state: 0 }], false));
            of_epoch.extend(effs.iter().filter_map(|e| if let Eff::Submit(t, _) = e { Some(t.clone()) } else { None }));
            let cur = inst.snapshot().identity;
            let next = VId { a: 9, g: 1, k: 2, pad: cur.pad.wrapping_add(1) };
            let (effs, o) = run_real(&mut inst.foca, &Input::ChangeIdentity(next));
            if !matches!(o, Outcome::Done) {
                break;
            }
            // what the new epoch submitted belongs to the next round
            carried.extend(effs.iter().filter_map(|e| if let Eff::Submit(t, _) = e { Some(t.clone()) } else { None }));
            for t in of_epoch.into_iter().filter(|t| t.token().is_some()) {
                let pre = inst.snapshot();
                let (effs, o) = run_real(&mut inst.foca, &Input::Timer(t.clone()));
                let post = inst.snapshot();
                if !matches!(o, Outcome::Done) || !effs.is_empty() || post != pre {
                    hit = Some(("C13:stale-timer-has-effect".into(), J::s(format!("epoch {round} of a long-lived instance (one identity change per epoch): {t:?} of the epoch that ended -> {o:?}, effects {effs:?}, token now {}", pre.token))));
                    break 'rounds;
                }
            }
            out.runs += 1;
        }
        if let Some((s, d)) = hit {
            out.hit(&s, d);
        }
    }
    for h in 0..budget {
        let hs = seed.wrapping_mul(50021).wrapping_add(h);
        let mut g = G::new(hs);
        let mut cfg = gen_cfg(&mut g);
        let m = g.below(8);
        cfg.periodic_announce = if m & 1 != 0 { Some((5000 * MS, 2)) } else { None };
        cfg.periodic_announce_down = if m & 2 != 0 { Some((7000 * MS, 2)) } else { None };
        cfg.periodic_gossip = if m & 4 != 0 { Some((300 * MS, 2)) } else { None };
        if cfg.max_packet_size < 64 {
            cfg.max_packet_size = 200;
        }
        let ordered = g.chance(50);
        // clock granularity of the simulated runtime: exact, or coarse enough that the two probe
        // timers of a round can fall due in the same tick (then Timer's Ord decides)
        let gran: u128 = match g.below(4) {
            0 | 1 => 1,
            2 => cfg.probe_period.max(1),
            _ => (cfg.probe_period * 3).max(1),
        };
        let id = VId { a: 9, g: 1, k: g.below(4) as u8, pad: 0 };
        let mut inst = Inst::new(id, &cfg, g.next(), 0, 255);
        let mut pending: Vec<(u128, u64, MTimer)> = vec![]; // deadline, seqno, timer
        let mut seqno = 0u64;
        let mut now: u128 = 0;
        let mut epochs = 0u64;
        let mut dummy: Vec<(u128, MTimer)> = vec![];
        let mut hit: Option<(String, J)> = None;
        for step in 0..300 {
            let pre = inst.snapshot();
            let deliver = !pending.is_empty() && g.chance(45);
            let input = if deliver {
                let idx = if ordered {
                    // earliest deadline first; equal deadlines in the order of Timer's own Ord
                    // (src/runtime.rs), then in submission order
                    let mut best = 0;
                    for (i, p) in pending.iter().enumerate() {
                        let b = &pending[best];
                        let ord = p.0.cmp(&b.0).then_with(|| p.2.to_timer().cmp(&b.2.to_timer())).then(p.1.cmp(&b.1));
                        if ord == std::cmp::Ordering::Less {
                            best = i;
                        }
                    }
                    best
                } else {
                    g.below(pending.len() as u64) as usize
                };
                let (dl, _, t) = pending.swap_remove(idx);
                if dl > now {
                    now = dl;
                }
                Input::Timer(t)
            } else {
                loop {
                    let i = gen_input(&mut g, &pre, &mut dummy, &cfg);
                    match i {
                        Input::Timer(_) => continue,
                        Input::ChangeIdentity(n) if n.a != pre.identity.a => continue,
                        _ => break i,
                    }
                }
            };
            let (effs, o) = run_real(&mut inst.foca, &input);
            if inst.poisoned || matches!(o, Outcome::Panicked(_)) {
                break;
            }
            let post = inst.snapshot();
            if post.token != pre.token {
                epochs += 1;
            }
            if epochs > 200 {
                break;
            }
            for e in &effs {
                if let Eff::Submit(t, after) = e {
                    seqno += 1;
                    // the runtime's clock may be coarse: deadlines rounded up to a multiple of `gran`
                    let dl = now + after;
                    pending.push(((dl + gran - 1) / gran * gran, seqno, t.clone()));
                }
            }
            if let Input::Timer(t) = &input {
                if let Some(k) = t.token() {
                    if k != pre.token && (!effs.is_empty() || post != pre) {
                        hit = Some(("C13:stale-timer-has-effect".into(), J::s(format!("{t:?} token now {} effects {effs:?}", pre.token))));
                    }
                }
                match &o {
                    Outcome::Done => {}
                    Outcome::Failed(4) if !ordered => {}
                    other => {
                        hit = Some((format!("C13:timer-error:{}", if ordered { "ordered" } else { "any-order" }), J::s(format!("{t:?} -> {other:?} (history {hs} step {step})"))));
                    }
                }
            }
            // accounting
            let cur = |f: &dyn Fn(&MTimer) -> bool| pending.iter().filter(|p| f(&p.2)).count();
            let tok = post.token;
            let probe = cur(&|t| matches!(t, MTimer::Probe(k) if *k == tok));
            let ann = cur(&|t| matches!(t, MTimer::Announce(k) if *k == tok));
            let annd = cur(&|t| matches!(t, MTimer::AnnounceDown(k) if *k == tok));
            let gos = cur(&|t| matches!(t, MTimer::Gossip(k) if *k == tok));
            let other_tok = cur(&|t| matches!(t, MTimer::Indirect(_, k) | MTimer::SuspectToDown(_, _, k) if *k == tok));
            if post.conn == 1 {
                let chk = |n: usize, enabled: bool, started: bool| if enabled { n == 1 } else { n <= 1 && (started || n == 0) };
                if probe != 1
                    || !chk(ann, post.cfg.periodic_announce.is_some(), cfg.periodic_announce.is_some())
                    || !chk(annd, post.cfg.periodic_announce_down.is_some(), cfg.periodic_announce_down.is_some())
                    || !chk(gos, post.cfg.periodic_gossip.is_some(), cfg.periodic_gossip.is_some())
                {
                    hit = Some(("C13:loop-count-while-active".into(), J::s(format!("probe={probe} announce={ann} announce_down={annd} gossip={gos} after {input:?} (history {hs} step {step}) cfg={:?}", post.cfg))));
                }
            } else if probe + ann + annd + gos + other_tok != 0 {
                hit = Some(("C13:effective-timer-while-inactive".into(), J::s(format!("probe={probe} announce={ann} announce_down={annd} gossip={gos} other={other_tok} conn={} after {input:?} (history {hs} step {step})", post.conn))));
            }
            if hit.is_some() {
                break;
            }
        }
        out.runs += 1;
        if epochs >= 3 {
            out.distinct.insert(h);
        }
        if let Some((s, d)) = hit {
            out.hit(&s, d);
        }
        if h < 1 {
            out.samples.push(J::s(format!("history seed {hs}: ordered={ordered} periodic mask={m} epochs={epochs}")));
        }
    }
    out
}

/// rejected inputs of every class, relative to the current state
pub fn gen_rejected(g: &mut G, s: &MState) -> Input {
    loop {
        match g.below(11) {
            0 => return Input::Data(vec![7u8; s.cfg.max_packet_size as usize + 1 + g.below(5) as usize]),
            1 => {
                // undecodable header
                let n = g.below(12) as usize;
                let b: Vec<u8> = (0..n).map(|_| g.below(256) as u8).collect();
                if b.len() <= s.cfg.max_packet_size as usize && dec_header(&mut &b[..]).is_err() {
                    return Input::Data(b);
                }
            }
            2 => {
                // own identity / own address as source
                let mut d = gen_datagram(g, s);
                if let Ok(h) = dec_header(&mut &d[..]) {
                    let mut h2 = h.clone();
                    h2.src = if g.chance(50) { s.identity } else { VId { g: g.below(4) as u16, ..s.identity } };
                    let old = header_bytes(&h).len();
                    let mut nb = header_bytes(&h2);
                    nb.extend_from_slice(&d[old..]);
                    d = nb;
                    if d.len() <= s.cfg.max_packet_size as usize {
                        return Input::Data(d);
                    }
                }
            }
            3 => {
                // wrong destination (not an Announce to our address)
                let d = gen_datagram(g, s);
                if let Ok(h) = dec_header(&mut &d[..]) {
                    if h.src.a != s.identity.a && h.message != foca::Message::Announce {
                        let mut h2 = h.clone();
                        // another address - or a former identity of ours (same address, another generation): only an
                        // Announce may be accepted on the address alone
                        h2.dst = if g.chance(50) { VId { a: 7, g: 0, k: 0, pad: 0 } } else { VId { g: s.identity.g.wrapping_add(1 + g.below(3) as u16), ..s.identity } };
                        if g.chance(30) {
                            let mut nb = header_bytes(&foca::Header { message: foca::Message::TurnUndead, ..h2.clone() });
                            if g.chance(30) {
                                nb.extend([0u8, 0]);
                            }
                            if nb.len() <= s.cfg.max_packet_size as usize {
                                return Input::Data(nb);
                            }
                        }
                        let mut nb = header_bytes(&h2);
                        let rest = &d[header_bytes(&h).len()..];
                        if rest.len() != 1 {
                            nb.extend_from_slice(rest);
                            if nb.len() <= s.cfg.max_packet_size as usize {
                                return Input::Data(nb);
                            }
                        }
                    }
                }
            }
            4 => {
                // exactly one byte after the header
                let d = gen_datagram(g, s);
                if let Ok(h) = dec_header(&mut &d[..]) {
                    if h.src.a != s.identity.a {
                        let mut nb = header_bytes(&h);
                        nb.push(g.below(256) as u8);
                        if nb.len() <= s.cfg.max_packet_size as usize {
                            return Input::Data(nb);
                        }
                    }
                }
            }
            5 => {
                let t = forged_timer(g, s);
                if let Some(k) = t.token() {
                    if k != s.token {
                        return Input::Timer(t);
                    }
                }
            }
            6 => {
                if s.conn != 2 {
                    return Input::ReuseDown;
                }
            }
            7 => return Input::ChangeIdentity(s.identity),
            8 => {
                // a config that must be refused (timing change, or a periodic task switched on) and that also
                // differs in fields a valid config may change (packet size, transmissions, ...)
                let mut c = s.cfg.clone();
                match g.below(4) {
                    0 => c.probe_period += MS,
                    1 => c.probe_rtt += MS,
                    2 if c.periodic_gossip.is_none() => c.periodic_gossip = Some((100 * MS, 1)),
                    3 if c.periodic_announce.is_none() => c.periodic_announce = Some((5000 * MS, 1)),
                    _ => c.probe_period += 2 * MS,
                }
                if g.chance(70) {
                    c.max_packet_size = *g.pick(&[40u128, 64, 100, 700, 1400, 3000]);
                }
                if g.chance(30) {
                    c.max_transmissions = 1 + g.below(6) as u128;
                }
                if g.chance(30) {
                    c.notify_down_members = !c.notify_down_members;
                }
                return Input::SetConfig(c);
            }
            9 => return Input::AddBroadcast(vec![]),
            _ => {
                // undecodable member list: a well-formed header addressed to us from somebody else, a count,
                // some members that decode (carrying news about unknown identities) and then one that does not
                let src = s.members.iter().find(|m| m.state != 2).map(|m| (m.id, m.inc)).unwrap_or((VId::new(4, 0, 0, 0), 0));
                if src.0.a == s.identity.a {
                    continue;
                }
                let msg = g.pick(&[foca::Message::Gossip, foca::Message::Ping(3), foca::Message::Feed, foca::Message::Ack(1)]).clone();
                let mut b = header_bytes(&foca::Header { src: src.0, src_incarnation: src.1, dst: s.identity, message: msg });
                let good = 1 + g.below(3) as u16;
                b.extend((good + 1).to_be_bytes());
                for j in 0..good {
                    let id = VId::new(20 + g.below(30) as u16 + j, g.below(3) as u16, 0, 0);
                    b.extend(member_bytes(&foca::Member::new(id, g.below(4) as u16, if g.chance(30) { foca::State::Suspect } else { foca::State::Alive })));
                }
                // a member whose state byte is invalid (or that is cut short)
                let mut bad = member_bytes(&foca::Member::new(VId::new(60, 0, 0, 0), 0, foca::State::Alive));
                if g.chance(50) {
                    let n = bad.len();
                    bad[n - 1] = 9;
                } else {
                    bad.truncate(bad.len() - 1);
                }
                b.extend(bad);
                let mut cur = &b[..];
                let ok_hdr = dec_header(&mut cur).is_ok();
                let mut fails = false;
                if ok_hdr && cur.len() >= 2 {
                    cur = &cur[2..];
                    for _ in 0..=good {
                        if dec_member(&mut cur).is_err() {
                            fails = true;
                            break;
                        }
                    }
                }
                if fails && b.len() <= s.cfg.max_packet_size as usize {
                    return Input::Data(b);
                }
            }
        }
    }
}

/// a TurnUndead addressed to a FORMER identity of the instance (same address, older generation) from an active
/// member or from a member held Down: nobody declared the current identity down - nothing may happen
pub fn stale_turn_undead(seed: u64, out: &mut FOut, signature: &str) {
    for kind in [0u8, 1] {
        for from_down in [false, true] {
            for tail in [false, true] {
                let own = VId::new(9, 2, kind, 0);
                let former = VId::new(9, 1, kind, 0);
                let cfg = { let mut c = big_cfg(); c.notify_down_members = true; c };
                let mut a = Inst::new(own, &cfg, seed ^ 0x57A1E, 0, 255);
                let peer = VId::new(2, 0, 0, 0);
                run_real(&mut a.foca, &Input::ApplyMany(vec![MMember { id: peer, inc: 0, state: if from_down { 2 } else { 0 } }, MMember { id: VId::new(3, 0, 0, 0), inc: 0, state: 0 }], false));
                let pre = a.snapshot();
                let mut d = header_bytes(&foca::Header { src: peer, src_incarnation: 0, dst: former, message: foca::Message::TurnUndead });
                if tail {
                    d.extend([0u8, 0]);
                }
                let (effs, o) = run_real(&mut a.foca, &Input::Data(d));
                let post = a.snapshot();
                out.runs += 1;
                if !effs.is_empty() || post != pre {
                    out.hit(signature, J::s(format!("TurnUndead from {peer:?} ({}) addressed to the former identity {former:?} of {own:?}: {o:?}, effects {effs:?}, state changed in {:?}", if from_down { "held Down" } else { "active" }, pre.diff(&post))));
                }
            }
        }
    }
}

/// C17: twin runs with and without rejected inputs
pub fn c17(seed: u64, budget: u64) -> FOut {
    let mut out = FOut::default();
    crate::eqid::check(seed, &mut out);
    stale_turn_undead(seed, &mut out, "C17:rejected-input-leaves-trace");
    out.rule = "twin runs on the real crate: a seeded base history (200 calls) is replayed on a second identical instance with rejected inputs of every class (oversize, undecodable header, member list that stops decoding after some good members, own identity/address source, wrong destination, one trailing byte, stale-epoch timers, NotUndead, SameIdentity, InvalidConfig, empty add_broadcast) inserted at random points; every effect list and result of the base inputs and the final full state (incl. RNG position) must be identical, and each inserted input must itself produce no effect; also the same history twice gives identical streams; and, with an identity type whose PartialEq ignores a metadata field, a change_identity call rejected with SameIdentity leaves the stored identity (metadata included) untouched. distinct = twin runs with at least 5 insertions of at least 3 classes".into();
    // add_broadcast refused with DataTooBig through the u16 framing limit (an item between 65536 and max_packet_size
    // bytes, packets larger than 65535): nothing may have happened - the handler must not even have seen the item
    for len in [65536usize, 65600, 69999] {
        let own = VId::new(9, 1, 0, 0);
        let mut cfg = big_cfg();
        cfg.max_packet_size = 70000;
        let mut a = Inst::new(own, &cfg, seed ^ 0xB16, 0, 255);
        run_real(&mut a.foca, &Input::ApplyMany(vec![MMember { id: VId::new(2, 0, 0, 0), inc: 0, state: 0 }], false));
        let pre = a.snapshot();
        let mut item = vec![7u8, 9];
        item.resize(len, 1);
        let (effs, o) = run_real(&mut a.foca, &Input::AddBroadcast(item));
        let post = a.snapshot();
        out.runs += 1;
        if matches!(o, Outcome::Failed(_)) && (post != pre || !effs.is_empty()) {
            out.hit("C17:rejected-input-leaves-trace", J::s(format!("add_broadcast of {len} bytes with max_packet_size 70000 -> {o:?}, but the state changed in {:?} (handler saw {:?} before, {:?} after)", pre.diff(&post), pre.h_seen, post.h_seen)));
        }
    }
    for h in 0..budget {
        let hs = seed.wrapping_mul(92821).wrapping_add(h);
        // run A, recording inputs
        let mut g = G::new(hs);
        let cfg = gen_cfg(&mut g);
        let id = VId { a: 9, g: 1, k: g.below(4) as u8, pad: 0 };
        let rng_seed = g.next();
        let (mode, mask) = (g.below(6) as u8, g.below(256) as u8);
        let mut a = Inst::new(id, &cfg, rng_seed, mode, mask);
        let mut pending: Vec<(u128, MTimer)> = vec![];
        let mut inputs: Vec<Input> = vec![];
        let mut obs_a: Vec<(Vec<Eff>, Outcome)> = vec![];
        for _ in 0..200 {
            let pre = a.snapshot();
            let input = gen_input(&mut g, &pre, &mut pending, &cfg);
            let (effs, o) = run_real(&mut a.foca, &input);
            for e in &effs {
                if let Eff::Submit(t, after) = e {
                    pending.push((*after, t.clone()));
                }
            }
            inputs.push(input);
            let stop = matches!(o, Outcome::Panicked(_));
            obs_a.push((effs, o));
            if stop {
                break;
            }
        }
        let final_a = a.snapshot();
        let rng_a = a.foca.verif_rng().clone();
        // run A' (same history again): determinism
        let mut a2 = Inst::new(id, &cfg, rng_seed, mode, mask);
        for (i, input) in inputs.iter().enumerate() {
            let r = run_real(&mut a2.foca, input);
            if r != obs_a[i] {
                out.hit("C17:nondeterministic", J::s(format!("history {hs} step {i} {input:?}")));
                break;
            }
        }
        // run B with insertions
        let mut b = Inst::new(id, &cfg, rng_seed, mode, mask);
        let mut g2 = G::new(hs ^ 0x5555);
        let mut inserted = 0u64;
        let mut classes: HashSet<&'static str> = HashSet::new();
        let mut bad: Option<(String, J)> = None;
        'outer: for (i, input) in inputs.iter().enumerate() {
            while g2.chance(20) {
                let pre = b.snapshot();
                let rj = gen_rejected(&mut g2, &pre);
                let rng0 = b.foca.verif_rng().clone();
                let (effs, o) = run_real(&mut b.foca, &rj);
                let post = b.snapshot();
                inserted += 1;
                classes.insert(rj.kind());
                if !effs.is_empty() || post != pre || *b.foca.verif_rng() != rng0 || matches!(o, Outcome::Panicked(_)) {
                    bad = Some(("C17:rejected-input-leaves-trace".into(), J::s(format!("history {hs}: {rj:?} -> {o:?} effects {effs:?} state_changed={}", post != pre))));
                    break 'outer;
                }
            }
            let r = run_real(&mut b.foca, input);
            if r != obs_a[i] {
                bad = Some(("C17:insertion-changes-history".into(), J::s(format!("history {hs} step {i} {input:?}: {:?} vs {:?}", r, obs_a[i]))));
                break;
            }
        }
        if bad.is_none() && !b.poisoned && !a.poisoned {
            let final_b = b.snapshot();
            if final_b != final_a || *b.foca.verif_rng() != rng_a {
                bad = Some(("C17:insertion-changes-final-state".into(), J::s(format!("history {hs}"))));
            }
        }
        out.runs += 1;
        if inserted >= 5 && classes.len() >= 3 {
            out.distinct.insert(h);
        }
        if let Some((s, d)) = bad {
            out.hit(&s, d);
        }
        if h < 1 {
            out.samples.push(J::s(format!("history seed {hs}: {} base calls, {inserted} rejected inputs inserted ({classes:?})", inputs.len())));
        }
    }
    out
}

/// C14: round-robin probing within 2n-1 rounds
pub fn c14(seed: u64, budget: u64) -> FOut {
    let mut out = FOut::default();
    out.rule = "real Foca with a stable membership: n = 1..12 active members and 0..6 Down records (in a third of the layouts also Alive / Suspect news about an older and / or newer identity of the instance's own address, which must be stored Down and never probed) inserted in random order (random positions via the insertion swap), random RNG seed, starting cursor reached by 0..n prior rounds / joins / forgets; 20n probe rounds driven by the probe timers (never answering, never delivering suspicion timeouts: members stay active as Suspect); each round must ping exactly one active member (never Down, never self) and every window of 2n-1 consecutive rounds must contain every active member. distinct = distinct (n, downs, seed) layouts".into();
    let mut g = G::new(seed ^ 0xC14);
    for run in 0..budget {
        let n = 1 + g.below(12) as u16;
        let downs = g.below(7) as u16;
        let own = VId::new(99, 1, 0, 0);
        let mut cfg = big_cfg();
        cfg.num_indirect_probes = 1 + g.below(3) as u128;
        let mut inst = Inst::new(own, &cfg, g.next(), 0, 255);
        let mut ups: Vec<MMember> = (0..n).map(|i| MMember { id: VId::new(i + 1, 0, 0, 0), inc: 0, state: g.below(2) as u8 }).collect();
        ups.extend((0..downs).map(|i| MMember { id: VId::new(100 + i + 1, 0, 0, 0), inc: 0, state: 2 }));
        // in a third of the layouts the cluster also talks about other identities of the instance's own
        // address (an older and / or a newer generation), Alive or Suspect: they are stored Down, never probed
        let mut own_addr_ids = 0;
        if g.chance(35) {
            for gen in [0u16, 2] {
                if g.chance(60) {
                    ups.push(MMember { id: VId::new(99, gen, 0, 0), inc: g.below(3) as u16, state: g.below(2) as u8 });
                    own_addr_ids += 1;
                }
            }
        }
        let _ = own_addr_ids;
        for i in (1..ups.len()).rev() {
            let j = g.below(i as u64 + 1) as usize;
            ups.swap(i, j);
        }
        // some members join later (after a few rounds)
        let late = if ups.len() > 2 { g.below(3) as usize } else { 0 };
        let (first, later) = ups.split_at(ups.len() - late);
        run_real(&mut inst.foca, &Input::ApplyMany(first.to_vec(), false));
        let active: Vec<VId> = ups.iter().filter(|m| m.state != 2 && m.id.a != own.a).map(|m| m.id).collect();
        let mut pings: Vec<VId> = vec![];
        let mut bad: Option<J> = None;
        let warm = g.below(n as u64 + 1);
        let total = warm + 20 * n as u64;
        // a third of the layouts: the runtime loses some SendIndirectProbe timers - the next round then starts on
        // the recovery path (it reports IncompleteProbeCycle) and must still ping the next member in turn
        let lossy = g.chance(33);
        // 40% of the layouts: between the rounds the instance also gossips, announces and broadcasts - sending
        // must not disturb the rotation (the member set stays the same)
        let chatty = g.chance(40);
        for round in 0..total {
            if round == warm && late > 0 {
                run_real(&mut inst.foca, &Input::ApplyMany(later.to_vec(), false));
                if g.chance(50) && downs > 0 {
                    // forgetting a Down member before the window starts is fine
                    let d = ups.iter().find(|m| m.state == 2).unwrap().id;
                    run_real(&mut inst.foca, &Input::Timer(MTimer::RemoveDown(d)));
                }
                pings.clear();
            }
            if round == warm {
                pings.clear();
            }
            let pre = inst.snapshot();
            if pre.conn != 1 {
                break;
            }
            if chatty && round >= warm {
                match g.below(4) {
                    0 => { run_real(&mut inst.foca, &Input::Gossip); }
                    1 => { run_real(&mut inst.foca, &Input::Announce(active[g.below(active.len() as u64) as usize])); }
                    2 => { run_real(&mut inst.foca, &Input::Broadcast); }
                    _ => {
                        // identity changes between rounds (same address, a generation nobody talks about): the member
                        // set is the same, the rotation must go on where it was
                        if g.chance(25) {
                            let cur = inst.snapshot().identity;
                            run_real(&mut inst.foca, &Input::ChangeIdentity(VId { g: cur.g + 10, ..cur }));
                            run_real(&mut inst.foca, &Input::ApplyMany(vec![], false));
                        }
                    }
                }
            }
            let tok_now = inst.snapshot().token; // an identity change above moved the epoch
            let (effs, _o) = run_real(&mut inst.foca, &Input::Timer(MTimer::Probe(tok_now)));
            let mut this_round = vec![];
            for e in &effs {
                if let Eff::Send(d, b) = e {
                    if let Some((h, _, _)) = split_datagram(b) {
                        if let foca::Message::Ping(_) = h.message {
                            this_round.push(*d);
                        }
                    }
                }
                if let Eff::Submit(MTimer::Indirect(i, k), _) = e {
                    // deliver the indirect stage right away so that the probe cycle is valid
                    let t = Input::Timer(MTimer::Indirect(*i, *k));
                    let _ = t;
                }
            }
            for e in &effs {
                if let Eff::Submit(MTimer::Indirect(i, k), _) = e {
                    if lossy && g.chance(45) {
                        continue;
                    }
                    run_real(&mut inst.foca, &Input::Timer(MTimer::Indirect(*i, *k)));
                }
            }
            if this_round.len() != 1 {
                bad = Some(J::s(format!("round {round}: pings {this_round:?}")));
                break;
            }
            let d = this_round[0];
            if !active.contains(&d) && round >= warm {
                bad = Some(J::s(format!("round {round}: pinged {d:?}, not an active member")));
                break;
            }
            pings.push(d);
        }
        if bad.is_none() && late == 0 || bad.is_none() {
            let w = 2 * active.len() - 1;
            if pings.len() >= w {
                for start in 0..=(pings.len() - w) {
                    for a in &active {
                        if !pings[start..start + w].contains(a) {
                            bad = Some(J::s(format!("n={} downs={downs}: {a:?} missing from rounds {start}..{} of {:?}", active.len(), start + w, &pings[start..start + w])));
                        }
                    }
                    if bad.is_some() {
                        break;
                    }
                }
            }
        }
        out.runs += 1;
        out.distinct.insert(hash_of(&(n, downs, run)));
        if let Some(b) = bad {
            out.hit("C14:window-or-target", b);
        }
        if run < 1 {
            out.samples.push(J::s(format!("n={n} downs={downs}: first pings {:?}", &pings[..pings.len().min(8)])));
        }
    }
    out
}

/// C07: every emitted datagram is well-formed, bounded and accepted by its peer
pub fn c07(seed: u64, budget: u64) -> FOut {
    let mut out = FOut::default();
    out.rule = "seeded histories (300 calls) over a sweep of packet sizes (just-fits-a-header .. 70000, every remainder mod the member size), fixed- and variable-length identities (pad 0..2), custom items of several sizes; every datagram handed to the runtime is checked by an independent parser: length <= max_packet_size, header src = current identity/incarnation, header dst = destination, kind-specific layout (Announce/TurnUndead nothing, Broadcast no member section, count = number of members, items non-empty and exactly framed, nothing else), Feed lists only active members other than receiver and sender; then it is delivered to a fresh peer whose identity is the destination: no Decode / MalformedPacket / DataTooBig. distinct = distinct (message kind, number of updates, number of items) shapes seen".into();
    let mut shapes: HashSet<(String, usize, usize)> = HashSet::new();
    for h in 0..budget {
        let hs = seed.wrapping_mul(7877).wrapping_add(h);
        let mut hits: Vec<(String, J)> = vec![];
        let sizes = [16u128, 17, 18, 19, 20, 21, 22, 23, 24, 25, 26, 27, 28, 29, 30, 31, 32, 33, 34, 35, 36, 40, 45, 50, 63, 64, 65, 100, 127, 128, 129, 255, 256, 257, 300, 1400, 65535, 65536, 70000];
        let size = sizes[(h as usize) % sizes.len()];
        history(hs, 300, |c, _| { c.max_packet_size = size; }, |pre, input, effs, _o, post, _rep| {
            if let Input::ChangeIdentity(n) = input {
                if n.a != pre.identity.a {
                    return false;
                }
            }
            for e in effs {
                if let Eff::Send(d, b) = e {
                    let ctx = |what: &str| J::s(format!("{what}: dst={d:?} bytes={b:?} on {input:?} (history {hs}, max_packet_size {})", pre.cfg.max_packet_size));
                    if b.len() as u128 > pre.cfg.max_packet_size.max(post.cfg.max_packet_size) {
                        hits.push(("C07:too-long".into(), ctx("too long")));
                        continue;
                    }
                    let Some((hd, ups, cus)) = split_datagram(b) else {
                        hits.push(("C07:does-not-parse".into(), ctx("does not parse")));
                        continue;
                    };
                    // the identity may be renewed (even more than once) inside one call: every
                    // identity on the renewal chain from the one held before the call is "current"
                    // at some point of the call
                    let mut chain = vec![pre.identity];
                    {
                        use foca::Identity;
                        let mut cur = pre.identity;
                        for _ in 0..6 {
                            match cur.renew() {
                                Some(nx) if nx != cur => {
                                    chain.push(nx);
                                    cur = nx;
                                }
                                _ => break,
                            }
                        }
                    }
                    if let Input::ChangeIdentity(n) = input {
                        chain.push(*n);
                    }
                    let src_ok = (hd.src == pre.identity && hd.src_incarnation as u128 >= pre.incarnation)
                        || (hd.src == post.identity && hd.src_incarnation as u128 <= post.incarnation)
                        || (hd.src != pre.identity && hd.src != post.identity && chain.contains(&hd.src));
                    if !src_ok || hd.dst != *d {
                        hits.push(("C07:wrong-header".into(), ctx("header src/dst")));
                    }
                    let kind = format!("{:?}", hd.message);
                    let kind = kind.split(|c| c == '(' || c == ' ').next().unwrap_or("").to_string();
                    shapes.insert((kind.clone(), ups.len(), cus.len()));
                    use foca::Message as Mg;
                    let hdr_len = header_bytes(&hd).len();
                    match hd.message {
                        Mg::Announce | Mg::TurnUndead => {
                            if b.len() != hdr_len {
                                hits.push(("C07:payload-on-header-only-kind".into(), ctx("extra bytes")));
                            }
                        }
                        Mg::Broadcast => {
                            if !ups.is_empty() {
                                hits.push(("C07:broadcast-with-members".into(), ctx("member section")));
                            }
                        }
                        Mg::Feed => {
                            for u in &ups {
                                if let Ok(m) = dec_member(&mut &u[..]) {
                                    let known_active = post.members.iter().chain(pre.members.iter()).any(|x| x.id == *m.id() && x.active());
                                    if !known_active || m.id() == d || m.id().a == pre.identity.a || m.state() == foca::State::Down {
                                        hits.push(("C07:feed-lists-wrong-member".into(), ctx(&format!("feed member {m:?}"))));
                                    }
                                }
                            }
                        }
                        _ => {}
                    }
                    // deliver to a fresh peer that is the destination
                    let mut peer = Inst::new(*d, &post.cfg, 1, post.h_mode, 255);
                    let (_e2, o2) = run_real(&mut peer.foca, &Input::Data(b.clone()));
                    if matches!(o2, Outcome::Failed(0) | Outcome::Failed(7) | Outcome::Failed(9) | Outcome::Panicked(_)) {
                        // a handler error for key 255 items is the handler's, not Foca's
                        hits.push(("C07:peer-rejects".into(), ctx(&format!("peer result {o2:?}"))));
                    }
                }
            }
            true
        });
        out.runs += 1;
        for (s, d) in hits {
            out.hit(&s, d);
        }
        if h < 1 {
            out.samples.push(J::s(format!("history seed {hs}, max_packet_size {size}")));
        }
    }
    for sh in shapes {
        out.distinct.insert(hash_of(&sh));
    }
    out
}

/// C10: incarnation discipline, self-refutation, reaction to own death
pub fn c10(seed: u64, budget: u64) -> FOut {
    let mut out = FOut::default();
    out.rule = "seeded histories (300 calls) over incarnations {0,1,2,2^15 boundary,MAX-1,MAX,random}, suspicions older/equal/newer than the own incarnation, the four renew kinds (none / bump / same / losing); monitors after every call: a new identity starts at incarnation 0, the own incarnation never decreases while the identity is kept (except reuse_down_identity), grows only when the input carried Suspect(self, i >= own) and then exceeds i, every header carries the current identity with an incarnation between the values before and after the call, no update ever leaves with an incarnation above the highest one told for that identity (0 for locally created Down records), and learning Down(self) (update, TurnUndead, Suspect at MAX) ends in a renewed winning identity with Rejoin or in Defunct - never still connected under the dead identity. distinct = histories with at least one self-suspicion and one Down(self)".into();
    // an identity whose conflict order has ties (outside the model's identity laws): real crate only
    crate::altid::check_tie(seed, &mut out);
    // learning Down(self) in every connection state a live instance can be in: fresh (the very first datagram),
    // idle again, connected; by a Down update, a TurnUndead, a suspicion at the maximum incarnation
    for state in 0..3u8 {
        for how in 0..3u8 {
            let own = VId::new(9, 3, 1, 0);
            let peer = VId::new(2, 0, 0, 0);
            let cfg = big_cfg();
            let mut a = Inst::new(own, &cfg, seed ^ (state as u64 * 7 + how as u64), 0, 255);
            match state {
                0 => {}
                1 => {
                    // connected once, idle again
                    run_real(&mut a.foca, &Input::ApplyMany(vec![MMember { id: VId::new(3, 0, 0, 0), inc: 0, state: 0 }], false));
                    run_real(&mut a.foca, &Input::ApplyMany(vec![MMember { id: VId::new(3, 0, 0, 0), inc: 0, state: 2 }], false));
                }
                _ => {
                    run_real(&mut a.foca, &Input::ApplyMany(vec![MMember { id: peer, inc: 0, state: 0 }, MMember { id: VId::new(3, 0, 0, 0), inc: 0, state: 0 }], false));
                }
            }
            let pre = a.snapshot();
            let input = match how {
                0 => Input::Data(mk_dgram_ups(peer, 0, own, foca::Message::Gossip, &[MMember { id: own, inc: 0, state: 2 }])),
                1 => Input::Data(mk_dgram(peer, 0, own, foca::Message::TurnUndead)),
                _ => Input::Data(mk_dgram_ups(peer, 0, own, foca::Message::Gossip, &[MMember { id: own, inc: 65535, state: 1 }])),
            };
            let (effs, o) = run_real(&mut a.foca, &input);
            let post = a.snapshot();
            out.runs += 1;
            out.distinct.insert(hash_of(&("down-self", state, how)));
            use foca::Identity;
            let renewed = post.identity != own && post.identity.win_addr_conflict(&own) && post.incarnation == 0 && effs.iter().any(|e| matches!(e, Eff::Notify(MNote::Rejoin(_))));
            let is_down_old = |d: &[u8]| dec_member(&mut &d[..]).map(|m| *m.id() == own && m.state() == foca::State::Down).unwrap_or(false);
            let pending = post.updates.iter().any(|(_, _, d)| is_down_old(d));
            let carried = effs.iter().any(|e| matches!(e, Eff::Send(_, b) if split_datagram(b).map(|(_, ups, _)| ups.iter().any(|u| is_down_old(u))).unwrap_or(false)));
            if o != Outcome::Done || !renewed || !(pending || carried) {
                out.hit(
                    "C10:renewal-incomplete",
                    J::s(format!("instance in connection state {} (scenario {state}) learns it is down by {}: outcome {o:?}, identity {:?} -> {:?} inc {}, Rejoin notified={}, Down(old identity) pending={pending} carried={carried}",
                        pre.conn, ["a Down update", "TurnUndead", "a suspicion at the maximum incarnation"][how as usize], own, post.identity, post.incarnation,
                        effs.iter().any(|e| matches!(e, Eff::Notify(MNote::Rejoin(_)))))),
                );
            }
        }
    }
    for h in 0..budget {
        let hs = seed.wrapping_mul(2750159).wrapping_add(h);
        let mut told: BTreeMap<VId, u16> = BTreeMap::new();
        let mut hits: Vec<(String, J)> = vec![];
        let (mut saw_susp, mut saw_down) = (false, false);
        history(hs, 300, |c, _| { if c.max_packet_size < 64 { c.max_packet_size = 200; } }, |pre, input, effs, o, post, _rep| {
            if let Input::ChangeIdentity(n) = input {
                if n.a != pre.identity.a {
                    return false;
                }
            }
            let ctx = |w: &str| J::s(format!("{w} on {input:?} (history {hs}); identity {:?} inc {} -> {:?} inc {}", pre.identity, pre.incarnation, post.identity, post.incarnation));
            // what the input tells
            let mut self_updates: Vec<MMember> = vec![];
            let mut all_updates: Vec<MMember> = vec![];
            let mut note = |m: &MMember, told: &mut BTreeMap<VId, u16>| {
                let e = told.entry(m.id).or_insert(0);
                if m.inc > *e {
                    *e = m.inc;
                }
            };
            let mut turn_undead = false;
            match input {
                Input::Data(b) => {
                    if let Some((hd, ups, _)) = split_datagram(b) {
                        note(&MMember { id: hd.src, inc: hd.src_incarnation, state: 0 }, &mut told);
                        let processed = hd.src.a != pre.identity.a && (hd.dst == pre.identity || (hd.message == foca::Message::Announce && hd.dst.a == pre.identity.a)) && b.len() as u128 <= pre.cfg.max_packet_size;
                        let sender_rec = pre.members.iter().find(|m| m.id.a == hd.src.a);
                        use foca::Identity;
                        let sender_inactive = match sender_rec {
                            Some(m) if m.id == hd.src => m.state == 2,
                            Some(m) => m.id.win_addr_conflict(&hd.src),
                            None => false,
                        };
                        if processed && hd.message == foca::Message::TurnUndead {
                            turn_undead = true;
                        }
                        for u in ups {
                            if let Ok(m) = dec_member(&mut &u[..]) {
                                let mm = MMember::from(&m);
                                note(&mm, &mut told);
                                all_updates.push(mm);
                                if processed && !sender_inactive && mm.id == pre.identity {
                                    self_updates.push(mm);
                                }
                            }
                        }
                    } else {
                        let mut buf = &b[..];
                        if let Ok(hd) = dec_header(&mut buf) {
                            note(&MMember { id: hd.src, inc: hd.src_incarnation, state: 0 }, &mut told);
                            // the member section may have been decoded (and applied) even though
                            // something after it is malformed: take whatever decodes
                            if buf.len() >= 2 {
                                let n = ((buf[0] as usize) << 8) | buf[1] as usize;
                                buf = &buf[2..];
                                for _ in 0..n {
                                    match dec_member(&mut buf) {
                                        Ok(m) => note(&MMember::from(&m), &mut told),
                                        Err(_) => break,
                                    }
                                }
                            }
                        }
                        return true;
                    }
                }
                Input::ApplyMany(l, _) => {
                    for m in l {
                        note(m, &mut told);
                        all_updates.push(*m);
                        if m.id == pre.identity {
                            self_updates.push(*m);
                        }
                    }
                }
                Input::Timer(MTimer::SuspectToDown(i, n, _)) => note(&MMember { id: *i, inc: *n as u16, state: 2 }, &mut told),
                _ => {}
            }
            let same_id = pre.identity == post.identity;
            // (a) monotone
            if same_id && post.incarnation < pre.incarnation && !matches!(input, Input::ReuseDown) {
                hits.push(("C10:incarnation-decreased".into(), ctx("decrease")));
            }
            // (a') a new identity starts at incarnation 0 (it can only have grown within the same call if the
            // input also carried a suspicion about the new identity)
            if !same_id && post.incarnation != 0 && !all_updates.iter().any(|m| m.id == post.identity && m.state == 1) {
                hits.push(("C10:new-identity-does-not-start-at-zero".into(), ctx("identity change")));
            }
            // (b) growth cause
            let relevant: Vec<&MMember> = self_updates.iter().filter(|m| m.state == 1 && m.inc as u128 >= pre.incarnation).collect();
            if same_id && post.incarnation > pre.incarnation && relevant.is_empty() {
                hits.push(("C10:incarnation-grew-without-suspicion".into(), ctx("growth")));
            }
            if !relevant.is_empty() {
                saw_susp = true;
            }
            // (c) refutation: still the same identity and not defunct => strictly above every such suspicion
            if same_id && post.conn != 2 {
                for m in &relevant {
                    if (m.inc as u128) < 65535 && post.incarnation <= m.inc as u128 && !self_updates.iter().any(|x| x.state == 2) {
                        hits.push(("C10:suspicion-not-refuted".into(), ctx(&format!("suspected at {}", m.inc))));
                    }
                }
            }
            // (d) headers
            for e in effs {
                if let Eff::Send(_, b) = e {
                    if let Some((hd, ups, _)) = split_datagram(b) {
                        if hd.src == pre.identity && same_id && !((hd.src_incarnation as u128) >= pre.incarnation && (hd.src_incarnation as u128) <= post.incarnation) {
                            hits.push(("C10:header-incarnation-not-current".into(), ctx(&format!("header inc {}", hd.src_incarnation))));
                        }
                        // (e) no fabrication
                        for u in ups {
                            if let Ok(m) = dec_member(&mut &u[..]) {
                                let mm = MMember::from(&m);
                                if mm.id.a == pre.identity.a {
                                    continue; // own (former) identities: created locally at incarnation 0 or told
                                }
                                let t = told.get(&mm.id).copied();
                                if t.map(|t| mm.inc > t).unwrap_or(true) {
                                    hits.push(("C10:fabricated-incarnation".into(), ctx(&format!("sent {mm:?}, told {t:?}"))));
                                }
                            }
                        }
                    }
                }
            }
            // (f) own death
            let told_down = turn_undead || self_updates.iter().any(|m| m.state == 2 || (m.state == 1 && m.inc == 65535)) || (relevant.iter().any(|_| false));
            if told_down && matches!(o, Outcome::Done | Outcome::Failed(_)) {
                saw_down = true;
                use foca::Identity;
                let renewed = !same_id && post.identity.win_addr_conflict(&pre.identity) && effs.iter().any(|e| matches!(e, Eff::Notify(MNote::Rejoin(_))));
                let defunct = post.conn == 2 && (effs.contains(&Eff::Notify(MNote::Defunct)) || pre.conn == 2);
                if !(renewed || defunct) && matches!(o, Outcome::Done) {
                    hits.push(("C10:carries-on-under-dead-identity".into(), ctx("Down(self)")));
                }
                // ... gossiping the old identity as Down: after a single renewal, with no other news about the
                // own address in the same input, Down(old identity) is pending in the backlog or was carried by
                // a datagram of this very call
                let single = pre.identity.renew() == Some(post.identity);
                let other_own = all_updates.iter().any(|m| m.id.a == pre.identity.a && m.id != pre.identity);
                if renewed && single && !other_own && pre.conn != 2 && matches!(o, Outcome::Done) {
                    let is_down_old = |d: &[u8]| dec_member(&mut &d[..]).map(|m| *m.id() == pre.identity && m.state() == foca::State::Down).unwrap_or(false);
                    let pending = post.updates.iter().any(|(_, _, d)| is_down_old(d));
                    let carried = effs.iter().any(|e| matches!(e, Eff::Send(_, b) if split_datagram(b).map(|(_, ups, _)| ups.iter().any(|u| is_down_old(u))).unwrap_or(false)));
                    if !pending && !carried {
                        hits.push(("C10:old-identity-not-gossiped-as-down".into(), ctx(&format!("renewed while conn={} but Down(old identity) is neither pending nor sent;", pre.conn))));
                    }
                }
            }
            hits.is_empty()
        });
        out.runs += 1;
        if saw_susp && saw_down {
            out.distinct.insert(h);
        }
        for (s, d) in hits.into_iter().take(2) {
            out.hit(&s, d);
        }
        if h < 1 {
            out.samples.push(J::s(format!("history seed {hs}")));
        }
    }
    out
}

fn msg_kind(m: &foca::Message<VId>) -> &'static str {
    use foca::Message::*;
    match m {
        Ping(_) => "Ping",
        Ack(_) => "Ack",
        PingReq { .. } => "PingReq",
        IndirectPing { .. } => "IndirectPing",
        IndirectAck { .. } => "IndirectAck",
        ForwardedAck { .. } => "ForwardedAck",
        Announce => "Announce",
        Feed => "Feed",
        Gossip => "Gossip",
        Broadcast => "Broadcast",
        TurnUndead => "TurnUndead",
    }
}

/// C15: dissemination accounting of cluster updates
pub fn c15(seed: u64, budget: u64) -> FOut {
    let mut out = FOut::default();
    out.rule = "seeded histories (300 calls) with max_transmissions in {1,2,3,10,255} and packet sizes from one-update-fits to everything-fits, fixed and variable update sizes; a per-address ledger (data, transmissions left) is kept from the emitted update sections alone and compared with the real backlog after every call: at most one entry per address, every piggybacked update is a pending one, each appears on at most max_transmissions datagrams and leaves after exactly that many, a replaced entry restarts, updates are written in non-increasing (transmissions left, length) order, a pending update that would still fit in the room left is never omitted, Feed/Announce/TurnUndead/Broadcast consume nothing, apply_many(.., false) leaves the backlog untouched. distinct = histories in which at least 10 update items were piggybacked".into();
    for h in 0..budget {
        let hs = seed.wrapping_mul(15485863).wrapping_add(h);
        let mut ledger: BTreeMap<u128, (Vec<u8>, u128)> = BTreeMap::new(); // addr -> (data, remaining)
        let mut hits: Vec<(String, J)> = vec![];
        let mut items_seen = 0u64;
        let sizes = [26u128, 30, 35, 37, 40, 46, 48, 55, 64, 80, 120, 200, 1400];
        history(hs, 300, |c, g| {
            c.max_packet_size = sizes[(h as usize) % sizes.len()];
            c.max_transmissions = *g.pick(&[1u128, 2, 3, 10, 255]);
        }, |pre, input, effs, o, post, _rep| {
            if let Input::SetConfig(_) = input {
                // keep max_transmissions fixed so that the ledger needs no history of configs
                if post.cfg.max_transmissions != pre.cfg.max_transmissions || post.cfg.max_packet_size != pre.cfg.max_packet_size {
                    return false;
                }
            }
            let maxtx = pre.cfg.max_transmissions;
            let ctx = |what: &str| J::s(format!("{what} on {input:?} (history {hs}); backlog before {:?} after {:?}", pre.updates, post.updates));
            // (a) one entry per address
            let mut seen = HashSet::new();
            for (_, a, _) in &post.updates {
                if !seen.insert(*a) {
                    hits.push(("C15:two-updates-for-one-address".into(), ctx("duplicate address")));
                }
            }
            // calls that only send (nothing can be accepted before their datagrams are built)
            let pure_send = matches!(input, Input::Gossip | Input::Timer(MTimer::Gossip(_)) | Input::Timer(MTimer::Announce(_)) | Input::Timer(MTimer::AnnounceDown(_)) | Input::Timer(MTimer::Indirect(..)) | Input::Broadcast | Input::Announce(_));
            // walk the datagrams of this call
            let mut appeared: BTreeMap<u128, u128> = BTreeMap::new();
            for e in effs {
                let Eff::Send(_d, b) = e else { continue };
                let Some((hd, ups, _cus)) = split_datagram(b) else { continue };
                let kind = msg_kind(&hd.message);
                let consumes = !matches!(kind, "Feed" | "Announce" | "TurnUndead" | "Broadcast");
                if !consumes {
                    continue;
                }
                let hdr_len = header_bytes(&hd).len() as u128;
                let upd_len: u128 = ups.iter().map(|u| u.len() as u128).sum();
                let room_left = pre.cfg.max_packet_size.saturating_sub(hdr_len + 2 + upd_len);
                let has_count = b.len() as u128 >= hdr_len + 2;
                let mut last_prio: Option<(u128, usize)> = None;
                let mut written: HashSet<u128> = HashSet::new();
                for u in &ups {
                    items_seen += 1;
                    let Ok(m) = dec_member(&mut &u[..]) else { continue };
                    let a = m.id().a as u128;
                    written.insert(a);
                    *appeared.entry(a).or_default() += 1;
                    match ledger.get_mut(&a) {
                        Some((data, rem)) if data == u && *rem > 0 => {
                            let pr = (*rem, u.len());
                            if let Some(lp) = last_prio {
                                if pr > lp && pure_send {
                                    hits.push(("C15:precedence".into(), ctx(&format!("update for address {a} with {pr:?} written after one with {lp:?}"))));
                                }
                            }
                            last_prio = Some(pr);
                            *rem -= 1;
                        }
                        _ => {
                            // accepted earlier in this very call (or replaced): starts a fresh count
                            ledger.insert(a, (u.clone(), maxtx - 1));
                            last_prio = None;
                        }
                    }
                }
                if has_count && pure_send {
                    // maximality w.r.t. entries known before the call and untouched by it so far
                    for (a, (data, rem)) in ledger.iter() {
                        if *rem > 0 && !written.contains(a) && (data.len() as u128) <= room_left && ups.len() < 65535 {
                            // only entries that were pending before this call and are still there afterwards unchanged
                            let still = post.updates.iter().any(|(tx, aa, d)| aa == a && d == data && *tx == *rem);
                            let before = pre.updates.iter().any(|(_, aa, d)| aa == a && d == data);
                            if still && before {
                                hits.push(("C15:fitting-update-omitted".into(), ctx(&format!("address {a} ({} bytes) fits in the {room_left} bytes left of a {kind}", data.len()))));
                            }
                        }
                    }
                }
            }
            ledger.retain(|_, v| v.1 > 0);
            // Down(own identity / previous identity) is re-enqueued with identical bytes by
            // leave_cluster / change_identity: indistinguishable on the wire from the pending one,
            // so entries of the own address are taken from the backlog as they are
            for own in [pre.identity.a as u128, post.identity.a as u128] {
                ledger.remove(&own);
                if let Some((tx, a, d)) = post.updates.iter().find(|x| x.1 == own) {
                    ledger.insert(*a, (d.clone(), *tx));
                }
            }
            // reconcile with the real backlog
            for (tx, a, d) in &post.updates {
                match ledger.get(a) {
                    Some((data, rem)) if data == d && rem == tx => {}
                    _ => {
                        // (re-)accepted somewhere in this call: it restarted at max_transmissions and
                        // may have been carried by some of this call's later datagrams
                        let ap = *appeared.get(a).unwrap_or(&0);
                        if pure_send || *tx > maxtx || *tx + ap < maxtx {
                            hits.push(("C15:counter-mismatch".into(), ctx(&format!("address {a}: backlog says {tx} of {maxtx} left, {ap} appearances in this call, ledger {:?}", ledger.get(a).map(|x| x.1)))));
                        }
                        ledger.insert(*a, (d.clone(), *tx));
                    }
                }
            }
            let gone: Vec<u128> = ledger.keys().filter(|a| !post.updates.iter().any(|(_, aa, _)| aa == *a)).cloned().collect();
            for a in gone {
                hits.push(("C15:entry-left-early".into(), ctx(&format!("address {a} left with {} transmissions to go", ledger[&a].1))));
                ledger.remove(&a);
            }
            // (g) news about the own address (the previous identity declared Down by leave_cluster / change_identity,
            // a stale identity of the own address stored Down) is accepted like any other: counted from max_transmissions
            if *o == Outcome::Done {
                let own_a = pre.identity.a as u128;
                let ap = *appeared.get(&own_a).unwrap_or(&0);
                let expect: Option<VId> = match input {
                    Input::Leave => Some(pre.identity),
                    Input::ChangeIdentity(n) if pre.conn != 2 && *n != pre.identity => Some(pre.identity),
                    Input::Data(_) | Input::ApplyMany(_, true) if pre.identity == post.identity => {
                        let was = pre.members.iter().find(|m| m.id.a == pre.identity.a);
                        match post.members.iter().find(|m| m.id.a == pre.identity.a) {
                            Some(m) if Some(m) != was && m.state == 2 => Some(m.id),
                            _ => None,
                        }
                    }
                    _ => None,
                };
                if let Some(x) = expect {
                    let ok = match post.updates.iter().find(|u| u.1 == own_a) {
                        Some((tx, _, d)) => dec_member(&mut &d[..]).map(|m| *m.id() == x && m.state() == foca::State::Down).unwrap_or(false) && *tx + ap >= maxtx,
                        None => ap >= maxtx,
                    };
                    if !ok {
                        hits.push(("C15:accepted-own-address-update-did-not-restart".into(), ctx(&format!("Down({x:?}) accepted in this call, {ap} appearances since, max_transmissions {maxtx}"))));
                    }
                }
            }
            // (f) no broadcast
            if let Input::ApplyMany(l, false) = input {
                if *o == Outcome::Done && !l.iter().any(|m| m.id == pre.identity) && post.updates != pre.updates {
                    hits.push(("C15:no-broadcast-touched-backlog".into(), ctx("apply_many(.., false)")));
                }
            }
            hits.is_empty()
        });
        out.runs += 1;
        if items_seen >= 10 {
            out.distinct.insert(h);
        }
        for (s, d) in hits.into_iter().take(2) {
            out.hit(&s, d);
        }
        if h < 1 {
            out.samples.push(J::s(format!("history seed {hs}: {items_seen} piggybacked update items")));
        }
    }
    out
}

/// C16: custom broadcasts
pub fn c16(seed: u64, budget: u64) -> FOut {
    let mut out = FOut::default();
    out.rule = "seeded histories (300 calls) with table-driven handlers (4 invalidation modes, random recipient masks), items of 1..40 bytes, all packet sizes/kinds; a ledger of accepted items (bytes, key, transmissions left) is kept from add_broadcast results, handler calls and emitted custom sections: every item on the wire is a pending one, whole and exactly framed, on at most max_transmissions datagrams, never on Announce/TurnUndead, never to a member the handler refuses, never after a newly accepted key invalidated it; every datagram is delivered to a fresh receiver whose handler must see exactly the framed items, in order, once each, with the sender's identity; broadcast() emits only Broadcast datagrams without member section to at most num_indirect_probes members, nothing when the backlog is empty. distinct = histories with at least 5 custom items on the wire".into();
    // a handler that accepts the same item again (outside the model's handler, real crate only)
    crate::altid::check_reaccept(seed, &mut out);
    // exact-fit: an item of L bytes with L, L+1, L+2, L+3 bytes of room after the header - the frame needs L + 2:
    // with less the item stays in the backlog untouched, with enough it is sent whole; never a panic
    for l in [1usize, 2, 5, 17, 40] {
        for d in 0..4u128 {
            let own = VId::new(9, 1, 0, 0);
            let peer = VId::new(2, 0, 0, 0);
            let hdr = header_bytes(&foca::Header { src: own, src_incarnation: 0, dst: peer, message: foca::Message::Broadcast }).len() as u128;
            let mut cfg = big_cfg();
            cfg.max_packet_size = hdr + l as u128 + d;
            cfg.max_transmissions = 3;
            let mut a = Inst::new(own, &cfg, seed ^ 0xF17, 0, 255);
            run_real(&mut a.foca, &Input::ApplyMany(vec![MMember { id: peer, inc: 0, state: 0 }], false));
            let item: Vec<u8> = (0..l).map(|i| if i == 0 { 7 } else { i as u8 }).collect();
            run_real(&mut a.foca, &Input::AddBroadcast(item.clone()));
            let pre = a.snapshot();
            let (effs, o) = run_real(&mut a.foca, &Input::Broadcast);
            out.runs += 1;
            let row = format!("item of {l} bytes, {} bytes of room after the header: broadcast() -> {o:?}", l as u128 + d);
            if matches!(o, Outcome::Panicked(_)) {
                out.hit("C16:item-not-framed-whole", J::s(format!("{row} (panic)")));
                continue;
            }
            let post = a.snapshot();
            let sent: Vec<Vec<Vec<u8>>> = effs.iter().filter_map(|e| if let Eff::Send(_, b) = e { split_datagram(b).map(|x| x.2) } else { None }).collect();
            if d >= 2 {
                if sent != vec![vec![item.clone()]] || post.customs.iter().any(|c| c.0 != 2) {
                    out.hit("C16:item-not-framed-whole", J::s(format!("{row}; custom sections sent {sent:?}, backlog {:?}", post.customs)));
                }
            } else if sent.iter().any(|s| !s.is_empty()) || post.customs != pre.customs {
                out.hit("C16:item-not-framed-whole", J::s(format!("{row}; custom sections sent {sent:?}, backlog before {:?} after {:?}", pre.customs, post.customs)));
            }
        }
    }
    // items around the u16 frame limit with a packet size that would hold them: an item add_broadcast
    // accepts must reach the peer whole (the frame prefix is a u16), one it refuses must leave no trace
    for l in [65535usize, 65536, 65537, 70000] {
        let own = VId::new(9, 1, 0, 0);
        let peer = VId::new(2, 0, 0, 0);
        let mut cfg = big_cfg();
        cfg.max_packet_size = 80000;
        let mut a = Inst::new(own, &cfg, seed ^ 0xB16, 0, 255);
        run_real(&mut a.foca, &Input::ApplyMany(vec![MMember { id: peer, inc: 0, state: 0 }], false));
        let item: Vec<u8> = (0..l).map(|i| if i == 0 { 7 } else { (i % 251) as u8 }).collect();
        let pre = a.snapshot();
        let (_, o1) = run_real(&mut a.foca, &Input::AddBroadcast(item.clone()));
        out.runs += 1;
        let row = format!("item of {l} bytes, max_packet_size 80000: add_broadcast -> {o1:?}");
        if matches!(o1, Outcome::Panicked(_)) || a.poisoned {
            out.hit("C16:item-not-framed-whole", J::s(format!("{row} (panic)")));
            continue;
        }
        if !matches!(o1, Outcome::DoneBool(true)) {
            if a.snapshot().customs != pre.customs {
                out.hit("C16:item-not-framed-whole", J::s(format!("{row}: refused but the backlog changed")));
            }
            continue;
        }
        let (effs, o) = run_real(&mut a.foca, &Input::Broadcast);
        if matches!(o, Outcome::Panicked(_)) {
            out.hit("C16:item-not-framed-whole", J::s(format!("{row}, accepted; broadcast() -> {o:?} (panic)")));
            continue;
        }
        let sent: Vec<Vec<Vec<u8>>> = effs.iter().filter_map(|e| if let Eff::Send(_, b) = e { split_datagram(b).map(|x| x.2) } else { None }).collect();
        if sent != vec![vec![item.clone()]] {
            let lens: Vec<Vec<usize>> = sent.iter().map(|s| s.iter().map(|i| i.len()).collect()).collect();
            out.hit("C16:item-not-framed-whole", J::s(format!("{row}, accepted; broadcast() -> {o:?}; lengths of the items framed on the wire: {lens:?}")));
        }
    }
    for h in 0..budget {
        let hs = seed.wrapping_mul(32452843).wrapping_add(h);
        let mut hits: Vec<(String, J)> = vec![];
        let mut wire_items = 0u64;
        // ledger of pending items: (data, key, remaining)
        let mut ledger: Vec<(Vec<u8>, VKey, u128)> = vec![];
        let mut fixed_tx: Option<u128> = None;
        history(hs, 300, |c, _| { if c.max_packet_size < 40 { c.max_packet_size = 64; } }, |pre, input, effs, o, post, rep| {
            if let Input::SetConfig(_) = input {
                if post.cfg.max_transmissions != pre.cfg.max_transmissions {
                    return false;
                }
            }
            if let Input::ChangeIdentity(n) = input {
                if n.a != pre.identity.a {
                    return false; // B3
                }
            }
            let maxtx = *fixed_tx.get_or_insert(pre.cfg.max_transmissions);
            let ctx = |what: &str| J::s(format!("{what} on {input:?} (history {hs}); customs before {:?} after {:?}", pre.customs, post.customs));
            // datagrams built before the received custom items are handled (gossip triggered by the
            // updates) versus after (the reply to the message)
            let n_sends = effs.iter().filter(|e| matches!(e, Eff::Send(..))).count();
            let reply_is_last = match input {
                Input::Data(b) => match dec_header(&mut &b[..]) {
                    Ok(hd) => {
                        let want = match msg_kind(&hd.message) {
                            "Ping" => "Ack",
                            "PingReq" => "IndirectPing",
                            "IndirectPing" => "IndirectAck",
                            "IndirectAck" => "ForwardedAck",
                            "Announce" => "Feed",
                            _ => "",
                        };
                        let last = effs.iter().rev().find_map(|e| if let Eff::Send(_, b) = e { split_datagram(b) } else { None });
                        !want.is_empty() && last.map(|x| msg_kind(&x.0.message) == want).unwrap_or(false)
                    }
                    Err(_) => false,
                },
                _ => false,
            };
            let _ = o;
            let pre_accept_sends = if let Input::Data(_) = input { if reply_is_last { n_sends.saturating_sub(1) } else { n_sends } } else { 0 };
            let accept = |ledger: &mut Vec<(Vec<u8>, VKey, u128)>, data: &[u8], mode: u8| {
                let key = VKey { k: data[0], v: if data.len() > 1 { data[1] } else { 0 }, mode };
                use foca::Invalidates;
                ledger.retain(|(_, k, _)| !key.invalidates(k));
                ledger.push((data.to_vec(), key, maxtx));
            };
            // handler calls of this step tell which received items were accepted: reconstruct with the same rule
            // (fresh iff unseen key or higher version) using the pre-state handler table
            let mut seen = pre.h_seen.clone();
            let mut fresh = |data: &[u8]| -> Option<bool> {
                if data.is_empty() || data[0] == 255 {
                    return None;
                }
                let (k, v) = (data[0], if data.len() > 1 { data[1] } else { 0 });
                match seen.iter().position(|x| x.0 == k) {
                    None => {
                        seen.push((k, v));
                        Some(true)
                    }
                    Some(p) if seen[p].1 < v => {
                        seen[p] = (k, v);
                        Some(true)
                    }
                    _ => Some(false),
                }
            };
            let mut accepted_done = false;
            let mut do_accepts = |ledger: &mut Vec<(Vec<u8>, VKey, u128)>| {
                for (data, _sender) in &rep.handler_log {
                    match fresh(data) {
                        Some(true) => accept(ledger, data, pre.h_mode),
                        Some(false) => {}
                        None => break,
                    }
                }
            };
            if pre_accept_sends == 0 {
                do_accepts(&mut ledger);
                accepted_done = true;
            }
            if let Input::AddBroadcast(_) = input {
                // handler_log already covers it
                let _ = o;
            }
            if let Input::Broadcast = input {
                let sends: Vec<&Eff> = effs.iter().filter(|e| matches!(e, Eff::Send(..))).collect();
                if pre.customs.is_empty() && !effs.is_empty() {
                    hits.push(("C16:broadcast-with-empty-backlog".into(), ctx("effects")));
                }
                if sends.len() as u128 > pre.cfg.num_indirect_probes {
                    hits.push(("C16:broadcast-too-many".into(), ctx("more datagrams than num_indirect_probes")));
                }
                for e in &sends {
                    if let Eff::Send(d, b) = e {
                        match split_datagram(b) {
                            Some((hd, ups, _)) if hd.message == foca::Message::Broadcast && ups.is_empty() => {
                                if (pre.h_mask >> (d.a % 8)) & 1 == 0 {
                                    hits.push(("C16:broadcast-to-refused-member".into(), ctx(&format!("{d:?}"))));
                                }
                            }
                            _ => hits.push(("C16:broadcast-wrong-kind".into(), ctx("not a plain Broadcast datagram"))),
                        }
                    }
                }
            }
            let mut send_no = 0usize;
            for e in effs {
                let Eff::Send(d, b) = e else { continue };
                if send_no == pre_accept_sends && !accepted_done {
                    do_accepts(&mut ledger);
                    accepted_done = true;
                }
                send_no += 1;
                let Some((hd, _ups, cus)) = split_datagram(b) else {
                    hits.push(("C16:unparsable-datagram".into(), ctx("split")));
                    continue;
                };
                let kind = msg_kind(&hd.message);
                if !cus.is_empty() {
                    if matches!(kind, "Announce" | "TurnUndead") {
                        hits.push(("C16:items-on-forbidden-kind".into(), ctx(kind)));
                    }
                    if (pre.h_mask >> (d.a % 8)) & 1 == 0 {
                        hits.push(("C16:items-to-refused-member".into(), ctx(&format!("{d:?}"))));
                    }
                }
                let mut used: Vec<usize> = vec![];
                for it in &cus {
                    wire_items += 1;
                    match ledger.iter().enumerate().position(|(i, (data, _, rem))| data == it && *rem > 0 && !used.contains(&i)) {
                        Some(i) => {
                            used.push(i);
                            ledger[i].2 -= 1;
                        }
                        None => {
                            // a datagram built after the received items were handled although it is not 'the reply'
                            // (a TurnUndead from an active sender makes the instance renew and gossip AFTER its
                            // custom-broadcast tail was accepted): an unknown item on the wire proves that the
                            // acceptances of this call have happened - take them now and look again
                            let mut found = None;
                            if !accepted_done {
                                do_accepts(&mut ledger);
                                accepted_done = true;
                                found = ledger.iter().enumerate().position(|(i, (data, _, rem))| data == it && *rem > 0 && !used.contains(&i));
                            }
                            match found {
                                Some(i) => {
                                    used.push(i);
                                    ledger[i].2 -= 1;
                                }
                                None => hits.push(("C16:item-not-pending-or-invalidated-or-over-limit".into(), ctx(&format!("item {it:?} in a {kind}; ledger {ledger:?}")))),
                            }
                        }
                    }
                }
                // the receiver sees exactly the items
                let mut peer = Inst::new(*d, &post.cfg, 1, 0, 255);
                let (_e2, _o2) = run_real(&mut peer.foca, &Input::Data(b.clone()));
                let log = peer.foca.verif_handler().log.clone();
                let mut expect: Vec<(Vec<u8>, Option<VId>)> = vec![];
                for it in &cus {
                    expect.push((it.clone(), Some(hd.src)));
                    if it[0] == 255 {
                        break;
                    }
                }
                let delivered = hd.src.a != d.a && matches!(_o2, Outcome::Done | Outcome::Failed(10) | Outcome::Failed(6) | Outcome::Failed(8));
                if delivered && log != expect {
                    hits.push(("C16:receiver-sees-different-items".into(), ctx(&format!("sent {cus:?}, handler saw {log:?}"))));
                }
            }
            if !accepted_done {
                do_accepts(&mut ledger);
            }
            ledger.retain(|x| x.2 > 0);
            // reconcile
            let mut real: Vec<(Vec<u8>, u128)> = post.customs.iter().map(|(tx, _, _, _, d)| (d.clone(), *tx)).collect();
            let mut mine: Vec<(Vec<u8>, u128)> = ledger.iter().map(|(d, _, r)| (d.clone(), *r)).collect();
            real.sort();
            mine.sort();
            if real != mine {
                hits.push(("C16:backlog-differs-from-ledger".into(), ctx(&format!("ledger {mine:?} vs backlog {real:?}"))));
            }
            hits.is_empty()
        });
        out.runs += 1;
        if wire_items >= 5 {
            out.distinct.insert(h);
        }
        for (s, d) in hits.into_iter().take(2) {
            out.hit(&s, d);
        }
        if h < 1 {
            out.samples.push(J::s(format!("history seed {hs}: {wire_items} custom items on the wire")));
        }
    }
    out
}

fn hdr_of(b: &[u8]) -> Option<foca::Header<VId>> {
    dec_header(&mut &b[..]).ok()
}
fn mk_dgram(src: VId, inc: u16, dst: VId, m: foca::Message<VId>) -> Vec<u8> {
    let mut b = header_bytes(&foca::Header { src, src_incarnation: inc, dst, message: m.clone() });
    if !matches!(m, foca::Message::Announce | foca::Message::TurnUndead | foca::Message::Broadcast) {
        b.extend([0u8, 0]);
    }
    b
}

fn mk_dgram_ups(src: VId, inc: u16, dst: VId, m: foca::Message<VId>, ups: &[MMember]) -> Vec<u8> {
    let mut b = header_bytes(&foca::Header { src, src_incarnation: inc, dst, message: m });
    b.extend([(ups.len() >> 8) as u8, ups.len() as u8]);
    for u in ups {
        b.extend(member_bytes(&u.to_member()));
    }
    b
}

/// C12: probe evidence and indirect routing
pub fn c12(seed: u64, budget: u64) -> FOut {
    use foca::Message as Mg;
    let mut out = FOut::default();
    out.rule = "real instance A with n = 2..6 members (a quarter of them already Suspect through gossip) and fan-out 1..3, in half of the layouts with a packet size too small for a full Feed and an Announce from a non-target member answered in the middle of the round: one probe round is driven by its own timers; an Ack or ForwardedAck is injected from {target, asked helper, unasked member, unknown} x probe number {previous, current, next} x arrival {before the indirect stage, after it, after the next round started} (exhaustive per layout, random layouts/seeds); expected: the next round raises no suspicion iff the evidence is genuine (Ack: target+current+in time; ForwardedAck: asked helper+current+after the indirect stage+in time), otherwise the target becomes Suspect and exactly one suspicion timeout is scheduled; PingReq only when no valid Ack came before probe_rtt, to <= num_indirect_probes distinct active members other than the target; also: after the genuine Ack of a round a stray Ack (previous number from the target / current number from another member, before or after the indirect stage) must change nothing; then a full four-instance relay chain A->C->B->C->A must preserve origin/target/number and complete the probe. distinct = table rows".into();
    let mut g = G::new(seed ^ 0xC12);
    // evidence is kept: after the genuine Ack of the round, a stray Ack (old number from the target, or the
    // current number from another member) before or after the indirect stage changes nothing - no PingReq,
    // no suspicion, no timeout
    for stray_from_target in [true, false] {
        for stray_after_indirect in [false, true] {
            for fan in 1..=3u128 {
                let a_id = VId::new(50, 1, 0, 0);
                let mut cfg = big_cfg();
                cfg.num_indirect_probes = fan;
                let mut a = Inst::new(a_id, &cfg, seed ^ 0x51A7, 0, 255);
                let members: Vec<MMember> = (1..=4u16).map(|i| MMember { id: VId::new(i, 0, 0, 0), inc: 0, state: 0 }).collect();
                run_real(&mut a.foca, &Input::ApplyMany(members.clone(), false));
                // two rounds, so that an 'old' probe number exists
                let mut target: Option<(VId, u8)> = None;
                let mut indirect: Option<MTimer> = None;
                for round in 0..2 {
                    let tok = a.snapshot().token;
                    let (e, _) = run_real(&mut a.foca, &Input::Timer(MTimer::Probe(tok)));
                    target = None;
                    indirect = None;
                    for x in &e {
                        match x {
                            Eff::Send(d, b) => {
                                if let Some(h) = hdr_of(b) {
                                    if let Mg::Ping(k) = h.message {
                                        target = Some((*d, k));
                                    }
                                }
                            }
                            Eff::Submit(t @ MTimer::Indirect(..), _) => indirect = Some(t.clone()),
                            _ => {}
                        }
                    }
                    if round == 0 {
                        if let (Some((t, k)), Some(it)) = (target, indirect.clone()) {
                            run_real(&mut a.foca, &Input::Data(mk_dgram(t, 0, a_id, Mg::Ack(k))));
                            run_real(&mut a.foca, &Input::Timer(it));
                        }
                    }
                }
                let (Some((t, k)), Some(it)) = (target, indirect) else { continue };
                out.runs += 1;
                out.distinct.insert(hash_of(&("stray", stray_from_target, stray_after_indirect, fan)));
                // the genuine evidence
                run_real(&mut a.foca, &Input::Data(mk_dgram(t, 0, a_id, Mg::Ack(k))));
                let other = members.iter().map(|m| m.id).find(|i| *i != t).unwrap();
                let stray = if stray_from_target { mk_dgram(t, 0, a_id, Mg::Ack(k.wrapping_sub(1))) } else { mk_dgram(other, 0, a_id, Mg::Ack(k)) };
                let mut sent_req = false;
                if !stray_after_indirect {
                    run_real(&mut a.foca, &Input::Data(stray.clone()));
                }
                let (e2, _) = run_real(&mut a.foca, &Input::Timer(it));
                sent_req |= e2.iter().any(|x| matches!(x, Eff::Send(_, b) if hdr_of(b).map(|h| matches!(h.message, Mg::PingReq { .. })).unwrap_or(false)));
                if stray_after_indirect {
                    run_real(&mut a.foca, &Input::Data(stray));
                }
                let tok = a.snapshot().token;
                let (e3, _) = run_real(&mut a.foca, &Input::Timer(MTimer::Probe(tok)));
                let post = a.snapshot();
                let suspected = post.members.iter().any(|m| m.id == t && m.state != 0);
                let timeout = e3.iter().any(|x| matches!(x, Eff::Submit(MTimer::SuspectToDown(i, _, _), _) if *i == t));
                if sent_req || suspected || timeout {
                    out.hit(
                        "C12:stray-ack-undoes-genuine-evidence",
                        J::s(format!("fan-out {fan}, genuine Ack({k}) from {t:?}, then a stray Ack {} {} the indirect stage: PingReq sent={sent_req} target suspected={suspected} timeout scheduled={timeout}",
                            if stray_from_target { "with the previous number from the target" } else { "with the current number from another member" },
                            if stray_after_indirect { "after" } else { "before" })),
                    );
                }
            }
        }
    }
    // aborted rounds: the identity changes (manually, or by renewal after Down(self) / TurnUndead) or the instance
    // goes idle while a round is open, before or after its indirect stage; once connected again the first round
    // of the new epoch must start cleanly: no error, no suspicion, no suspicion timeout
    for how in 0..4u8 {
        for after_indirect in [false, true] {
            for fan in 1..=2u128 {
                let a_id = VId::new(50, 1, 1, 0);
                let mut cfg = big_cfg();
                cfg.num_indirect_probes = fan;
                let mut a = Inst::new(a_id, &cfg, seed ^ (0xAB0 + how as u64), 0, 255);
                let members: Vec<MMember> = (1..=3u16).map(|i| MMember { id: VId::new(i, 0, 0, 0), inc: 0, state: 0 }).collect();
                run_real(&mut a.foca, &Input::ApplyMany(members.clone(), false));
                let tok = a.snapshot().token;
                let (e, _) = run_real(&mut a.foca, &Input::Timer(MTimer::Probe(tok)));
                let target = e.iter().find_map(|x| if let Eff::Send(d, b) = x { hdr_of(b).and_then(|h| if let Mg::Ping(_) = h.message { Some(*d) } else { None }) } else { None });
                let ind = e.iter().find_map(|x| if let Eff::Submit(t @ MTimer::Indirect(..), _) = x { Some(t.clone()) } else { None });
                let (Some(target), Some(ind)) = (target, ind) else { continue };
                if after_indirect {
                    run_real(&mut a.foca, &Input::Timer(ind));
                }
                let helper = members.iter().map(|m| m.id).find(|i| *i != target).unwrap();
                let what = match how {
                    0 => {
                        run_real(&mut a.foca, &Input::ChangeIdentity(VId { g: a_id.g + 5, ..a_id }));
                        "change_identity"
                    }
                    1 => {
                        run_real(&mut a.foca, &Input::Data(mk_dgram_ups(helper, 0, a_id, Mg::Gossip, &[MMember { id: a_id, inc: 0, state: 2 }])));
                        "renewal after a Down update about itself"
                    }
                    2 => {
                        run_real(&mut a.foca, &Input::Data(mk_dgram(helper, 0, a_id, Mg::TurnUndead)));
                        "renewal after TurnUndead"
                    }
                    _ => {
                        run_real(&mut a.foca, &Input::ApplyMany(members.iter().map(|m| MMember { state: 2, ..*m }).collect(), false));
                        "going idle (every member Down)"
                    }
                };
                // connected again: a new member is learnt (identity changes keep the member list)
                run_real(&mut a.foca, &Input::ApplyMany(vec![MMember { id: VId::new(7, 0, 0, 0), inc: 0, state: 0 }], false));
                let s1 = a.snapshot();
                out.runs += 1;
                out.distinct.insert(hash_of(&("aborted", how, after_indirect, fan)));
                if s1.conn != 1 {
                    out.hit("C12:not-connected-after-abort", J::s(format!("{what}: connection state {} with members {:?}", s1.conn, s1.members)));
                    continue;
                }
                let (e3, o3) = run_real(&mut a.foca, &Input::Timer(MTimer::Probe(s1.token)));
                let s2 = a.snapshot();
                let newly_suspect: Vec<VId> = s2.members.iter().filter(|m| m.state == 1 && s1.members.iter().any(|x| x.id == m.id && x.state == 0)).map(|m| m.id).collect();
                let timeouts = e3.iter().filter(|x| matches!(x, Eff::Submit(MTimer::SuspectToDown(..), _))).count();
                if o3 != Outcome::Done || !newly_suspect.is_empty() || timeouts > 0 {
                    out.hit(
                        "C12:aborted-round-not-abandoned",
                        J::s(format!("round with target {target:?} aborted {} its indirect stage by {what}; first round afterwards: {o3:?}, newly Suspect {newly_suspect:?}, suspicion timeouts scheduled {timeouts}", if after_indirect { "after" } else { "before" })),
                    );
                }
            }
        }
    }
    // set_config in the middle of a round (another fan-out, other transmissions): a configuration change is neither
    // going idle nor changing identity - the round goes on: evidence already received still counts, evidence that
    // arrives afterwards counts, and without evidence the target is suspected with exactly one timeout
    for before_indirect in [true, false] {
        for evidence in 0..3u8 {
            // 0 none, 1 Ack before set_config, 2 Ack after set_config
            let a_id = VId::new(50, 1, 0, 0);
            let mut cfg = big_cfg();
            cfg.num_indirect_probes = 2;
            let mut a = Inst::new(a_id, &cfg, seed ^ (0x5E7C + evidence as u64), 0, 255);
            let members: Vec<MMember> = (1..=4u16).map(|i| MMember { id: VId::new(i, 0, 0, 0), inc: 0, state: 0 }).collect();
            run_real(&mut a.foca, &Input::ApplyMany(members.clone(), false));
            // one acked round first, so that probe numbers are not at their initial value
            for round in 0..2 {
                let tok = a.snapshot().token;
                let (e, _) = run_real(&mut a.foca, &Input::Timer(MTimer::Probe(tok)));
                let ping = e.iter().find_map(|x| if let Eff::Send(d, b) = x { hdr_of(b).and_then(|h| if let Mg::Ping(k) = h.message { Some((*d, k)) } else { None }) } else { None });
                let ind = e.iter().find_map(|x| if let Eff::Submit(t @ MTimer::Indirect(..), _) = x { Some(t.clone()) } else { None });
                let (Some((t, k)), Some(it)) = (ping, ind) else { break };
                if round == 0 {
                    run_real(&mut a.foca, &Input::Data(mk_dgram(t, 0, a_id, Mg::Ack(k))));
                    run_real(&mut a.foca, &Input::Timer(it));
                    continue;
                }
                out.runs += 1;
                out.distinct.insert(hash_of(&("set_config-mid-round", before_indirect, evidence)));
                let mut reqs = 0usize;
                if !before_indirect {
                    let (e2, _) = run_real(&mut a.foca, &Input::Timer(it.clone()));
                    reqs += e2.iter().filter(|x| matches!(x, Eff::Send(_, b) if hdr_of(b).map(|h| matches!(h.message, Mg::PingReq { .. })).unwrap_or(false))).count();
                }
                if evidence == 1 {
                    run_real(&mut a.foca, &Input::Data(mk_dgram(t, 0, a_id, Mg::Ack(k))));
                }
                let mut c2 = cfg.clone();
                c2.num_indirect_probes = 3;
                c2.max_transmissions = 4;
                let (_, oc) = run_real(&mut a.foca, &Input::SetConfig(c2));
                if evidence == 2 {
                    run_real(&mut a.foca, &Input::Data(mk_dgram(t, 0, a_id, Mg::Ack(k))));
                }
                if before_indirect {
                    let (e2, _) = run_real(&mut a.foca, &Input::Timer(it));
                    reqs += e2.iter().filter(|x| matches!(x, Eff::Send(_, b) if hdr_of(b).map(|h| matches!(h.message, Mg::PingReq { .. })).unwrap_or(false))).count();
                }
                let tok = a.snapshot().token;
                let (e3, o3) = run_real(&mut a.foca, &Input::Timer(MTimer::Probe(tok)));
                let s3 = a.snapshot();
                let suspected = s3.members.iter().any(|m| m.id == t && m.state == 1);
                let timeouts = e3.iter().filter(|x| matches!(x, Eff::Submit(MTimer::SuspectToDown(i, _, _), _) if *i == t)).count();
                let acked_in_time = evidence != 0;
                // indirect requests go out iff no valid Ack had arrived when the indirect stage fired
                let want_reqs = if before_indirect { evidence == 0 } else { true };
                let ok = oc == Outcome::Done && o3 == Outcome::Done && suspected == !acked_in_time && timeouts == (!acked_in_time) as usize && (reqs > 0) == want_reqs;
                if !ok {
                    out.hit(
                        "C12:set_config-disturbs-the-round",
                        J::s(format!("set_config (fan-out 2 -> 3) {} the indirect stage of a round probing {t:?}, evidence case {evidence} (0 none, 1 Ack before, 2 Ack after): set_config {oc:?}, next round {o3:?}, PingReq sent {reqs}, target suspected {suspected}, timeouts {timeouts}", if before_indirect { "before" } else { "after" })),
                    );
                }
            }
        }
    }
    // a probe-protocol datagram whose custom-broadcast tail the handler rejects is still acted on (the error is
    // reported after the reaction): Ping is acked, the relay hops are forwarded, a genuine Ack still counts
    {
        let bad_tail = [0u8, 1, 255]; // one framed item the harness handler refuses
        let with_tail = |mut d: Vec<u8>| -> Vec<u8> { d.extend(bad_tail); d };
        let a_id = VId::new(50, 1, 0, 0);
        let cfg = big_cfg();
        let members: Vec<MMember> = (1..=3u16).map(|i| MMember { id: VId::new(i, 0, 0, 0), inc: 0, state: 0 }).collect();
        let m1 = members[0].id;
        let m2 = members[1].id;
        let sends_kind = |e: &Vec<Eff>, to: VId, want: &dyn Fn(&foca::Message<VId>) -> bool| e.iter().any(|x| matches!(x, Eff::Send(d, b) if *d == to && hdr_of(b).map(|h| want(&h.message)).unwrap_or(false)));
        for case in 0..4u8 {
            let mut a = Inst::new(a_id, &cfg, seed ^ (0xBAD0 + case as u64), 0, 255);
            run_real(&mut a.foca, &Input::ApplyMany(members.clone(), false));
            out.runs += 1;
            out.distinct.insert(hash_of(&("bad-tail", case)));
            let (what, ok) = match case {
                0 => {
                    let (e, _) = run_real(&mut a.foca, &Input::Data(with_tail(mk_dgram(m1, 0, a_id, Mg::Ping(7)))));
                    ("Ping(7) not answered by Ack(7)", sends_kind(&e, m1, &|m| *m == Mg::Ack(7)))
                }
                1 => {
                    let (e, _) = run_real(&mut a.foca, &Input::Data(with_tail(mk_dgram(m1, 0, a_id, Mg::PingReq { target: m2, probe_number: 9 }))));
                    ("PingReq not relayed as IndirectPing", sends_kind(&e, m2, &|m| *m == (Mg::IndirectPing { origin: m1, probe_number: 9 })))
                }
                2 => {
                    let (e, _) = run_real(&mut a.foca, &Input::Data(with_tail(mk_dgram(m1, 0, a_id, Mg::IndirectAck { target: m2, probe_number: 9 }))));
                    ("IndirectAck not relayed as ForwardedAck", sends_kind(&e, m2, &|m| *m == (Mg::ForwardedAck { origin: m1, probe_number: 9 })))
                }
                _ => {
                    // a round whose genuine Ack carries a refused tail: no PingReq, no suspicion
                    let tok = a.snapshot().token;
                    let (e, _) = run_real(&mut a.foca, &Input::Timer(MTimer::Probe(tok)));
                    let ping = e.iter().find_map(|x| if let Eff::Send(d, b) = x { hdr_of(b).and_then(|h| if let Mg::Ping(k) = h.message { Some((*d, k)) } else { None }) } else { None });
                    let ind = e.iter().find_map(|x| if let Eff::Submit(t @ MTimer::Indirect(..), _) = x { Some(t.clone()) } else { None });
                    match (ping, ind) {
                        (Some((t, k)), Some(it)) => {
                            run_real(&mut a.foca, &Input::Data(with_tail(mk_dgram(t, 0, a_id, Mg::Ack(k)))));
                            let (e2, _) = run_real(&mut a.foca, &Input::Timer(it));
                            let req = e2.iter().any(|x| matches!(x, Eff::Send(_, b) if hdr_of(b).map(|h| matches!(h.message, Mg::PingReq { .. })).unwrap_or(false)));
                            let tok = a.snapshot().token;
                            let (e3, _) = run_real(&mut a.foca, &Input::Timer(MTimer::Probe(tok)));
                            let susp = a.snapshot().members.iter().any(|m| m.id == t && m.state != 0) || e3.iter().any(|x| matches!(x, Eff::Submit(MTimer::SuspectToDown(..), _)));
                            ("a timely Ack with the current number was not recorded", !req && !susp)
                        }
                        _ => ("no probe round", false),
                    }
                }
            };
            if !ok {
                out.hit("C12:rejected-custom-tail-suppresses-reaction", J::s(format!("datagram with a custom-broadcast item the handler refuses: {what}")));
            }
        }
    }
    for run in 0..budget {
        let n = 2 + g.below(5) as u16;
        let fan = 1 + g.below(3) as u128;
        let a_id = VId::new(50, 1, 0, 0);
        let mut cfg = big_cfg();
        cfg.num_indirect_probes = fan;
        // half of the layouts: unrelated traffic during the round - A answers an Announce from a
        // member other than the target with a Feed that does not fit the (small) packet size,
        // gossips and broadcasts; none of it is evidence about the target
        let noise = g.below(2) == 0;
        if noise {
            cfg.max_packet_size = 36 + g.below(12) as u128;
        }
        // a quarter of the members are already under suspicion (learnt through gossip: no timer of A's own is pending for them)
        let members: Vec<MMember> = (1..=n).map(|i| MMember { id: VId::new(i, 0, 0, 0), inc: g.below(3) as u16, state: (g.below(4) == 0) as u8 }).collect();
        let rseed = g.next();
        // one layout in five: the probe number is driven around its u8 range first (253..257 successful
        // rounds), so that the rounds examined carry the numbers 254, 255, 0, 1, 2; another fifth: a few
        // successful rounds; every third warm-up round succeeds through a helper's ForwardedAck only
        let warm_rounds = match g.below(5) { 0 => 253 + g.below(5), 1 => 3 + g.below(6), _ => 0 };
        for kind_fwd in [false, true] {
            for who in 0..4u8 {
                // 0 target, 1 asked helper, 2 unasked member, 3 unknown
                for num in [-1i32, 0, 1] {
                    for when in 0..3u8 {
                        let mut a = Inst::new(a_id, &cfg, rseed, 0, 255);
                        run_real(&mut a.foca, &Input::ApplyMany(members.clone(), false));
                        for wr in 0..warm_rounds {
                            let tok = a.snapshot().token;
                            let (e, _) = run_real(&mut a.foca, &Input::Timer(MTimer::Probe(tok)));
                            let mut ind = None;
                            let mut pinged: Option<(VId, u8)> = None;
                            // every third round succeeds through the indirect path only (no direct Ack)
                            let via_helper = wr % 3 == 2 && members.len() >= 2;
                            for x in &e {
                                match x {
                                    Eff::Send(d, b) => {
                                        if let Some(h) = hdr_of(b) {
                                            if let Mg::Ping(k) = h.message {
                                                pinged = Some((*d, k));
                                                if !via_helper {
                                                    let inc = members.iter().find(|m| m.id == *d).map(|m| m.inc).unwrap_or(0);
                                                    run_real(&mut a.foca, &Input::Data(mk_dgram(*d, inc, a_id, Mg::Ack(k))));
                                                }
                                            }
                                        }
                                    }
                                    Eff::Submit(t @ MTimer::Indirect(..), _) => ind = Some(t.clone()),
                                    _ => {}
                                }
                            }
                            if let Some(t) = ind {
                                let (e2, _) = run_real(&mut a.foca, &Input::Timer(t));
                                if via_helper {
                                    if let Some((tgt, k)) = pinged {
                                        let helper = e2.iter().find_map(|x| if let Eff::Send(d, b) = x { hdr_of(b).and_then(|h| if matches!(h.message, Mg::PingReq { .. }) { Some(*d) } else { None }) } else { None });
                                        if let Some(hp) = helper {
                                            let inc = members.iter().find(|m| m.id == hp).map(|m| m.inc).unwrap_or(0);
                                            run_real(&mut a.foca, &Input::Data(mk_dgram(hp, inc, a_id, Mg::ForwardedAck { origin: tgt, probe_number: k })));
                                        } else {
                                            // nobody to ask (single member): fall back to the direct ack
                                            let inc = members.iter().find(|m| m.id == tgt).map(|m| m.inc).unwrap_or(0);
                                            run_real(&mut a.foca, &Input::Data(mk_dgram(tgt, inc, a_id, Mg::Ack(k))));
                                        }
                                    }
                                }
                            }
                        }
                        if warm_rounds > 0 && a.snapshot().members.iter().any(|m| m.state != members.iter().find(|x| x.id == m.id).map(|x| x.state).unwrap_or(0)) {
                            out.hit("C12:suspicion-despite-evidence", J::s(format!("during {warm_rounds} acked warm-up rounds a member changed state: {:?}", a.snapshot().members)));
                        }
                        let s0 = a.snapshot();
                        // round start
                        let (e1, _) = run_real(&mut a.foca, &Input::Timer(MTimer::Probe(s0.token)));
                        let ping = e1.iter().find_map(|e| if let Eff::Send(d, b) = e { hdr_of(b).and_then(|h| if let Mg::Ping(k) = h.message { Some((*d, k)) } else { None }) } else { None });
                        let Some((target, pn)) = ping else {
                            out.hit("C12:no-ping", J::s(format!("{e1:?}")));
                            continue;
                        };
                        let ind_timer = e1.iter().find_map(|e| if let Eff::Submit(t @ MTimer::Indirect(..), _) = e { Some(t.clone()) } else { None });
                        let number = (pn as i32 + num).rem_euclid(256) as u8;
                        let mut asked: Vec<VId> = vec![];
                        let mut pingreq_count = 0usize;
                        let inject = |a: &mut Inst, asked: &Vec<VId>| -> Option<(VId, bool)> {
                            // returns (sender, is it an asked helper at injection time)
                            let sender = match who {
                                0 => target,
                                1 => {
                                    if let Some(h) = asked.first() { *h } else { members.iter().map(|m| m.id).find(|i| *i != target)? }
                                }
                                2 => members.iter().map(|m| m.id).find(|i| *i != target && !asked.contains(i))?,
                                _ => VId::new(77, 0, 0, 0),
                            };
                            let m = if kind_fwd { Mg::ForwardedAck { origin: target, probe_number: number } } else { Mg::Ack(number) };
                            let inc = members.iter().find(|m| m.id == sender).map(|m| m.inc).unwrap_or(0);
                            let d = mk_dgram(sender, inc, a_id, m);
                            let was_asked = asked.contains(&sender);
                            run_real(&mut a.foca, &Input::Data(d));
                            Some((sender, was_asked))
                        };
                        let mut injected: Option<(VId, bool)> = None;
                        if noise {
                            if let Some(other) = members.iter().map(|m| m.id).find(|i| *i != target) {
                                let inc = members.iter().find(|m| m.id == other).map(|m| m.inc).unwrap_or(0);
                                run_real(&mut a.foca, &Input::Data(mk_dgram(other, inc, a_id, Mg::Announce)));
                            }
                        }
                        if when == 0 {
                            injected = inject(&mut a, &asked);
                        }
                        // indirect stage
                        if let Some(t) = ind_timer {
                            let known_now: Vec<VId> = a.snapshot().members.iter().filter(|m| m.active()).map(|m| m.id).collect();
                            let (e2, _) = run_real(&mut a.foca, &Input::Timer(t));
                            for e in &e2 {
                                if let Eff::Send(d, b) = e {
                                    if let Some(h) = hdr_of(b) {
                                        if let Mg::PingReq { target: t2, probe_number } = h.message {
                                            pingreq_count += 1;
                                            if t2 != target || probe_number != pn || *d == target || asked.contains(d) || !known_now.contains(d) {
                                                out.hit("C12:bad-pingreq", J::s(format!("to {d:?}: {h:?}; target {target:?}")));
                                            }
                                            asked.push(*d);
                                        }
                                    }
                                }
                            }
                        }
                        if asked.len() as u128 > fan {
                            out.hit("C12:too-many-pingreq", J::s(format!("{asked:?} fan-out {fan}")));
                        }
                        let valid_before = when == 0 && !kind_fwd && who == 0 && num == 0;
                        if valid_before && pingreq_count > 0 {
                            out.hit("C12:pingreq-despite-ack", J::s(format!("{asked:?}")));
                        }
                        if !valid_before && n > 1 && pingreq_count == 0 && members.len() > 1 {
                            out.hit("C12:no-pingreq-without-ack", J::s(format!("n={n} fan={fan} when={when} who={who} num={num} fwd={kind_fwd}")));
                        }
                        if when == 1 {
                            injected = inject(&mut a, &asked);
                        }
                        // next round
                        let s1 = a.snapshot();
                        let (e3, o3) = run_real(&mut a.foca, &Input::Timer(MTimer::Probe(s1.token)));
                        if when == 2 {
                            injected = inject(&mut a, &asked);
                        }
                        let s2 = a.snapshot();
                        let timeouts = e3.iter().filter(|e| matches!(e, Eff::Submit(MTimer::SuspectToDown(i, _, _), _) if *i == target)).count();
                        // the timeout must carry the snapshot the suspicion is about: the member's identity and
                        // incarnation as recorded when it was raised, and the current epoch
                        for e in &e3 {
                            if let Eff::Submit(MTimer::SuspectToDown(i, tinc, ttok), _) = e {
                                let rec_inc = s2.members.iter().find(|m| m.id == *i).map(|m| m.inc as u128);
                                if rec_inc != Some(*tinc as u128) || *ttok as u128 != s2.token {
                                    out.hit("C12:suspicion-timeout-snapshot-wrong", J::s(format!("timer for {i:?} carries incarnation {tinc} token {ttok}; record {rec_inc:?}, token {}", s2.token)));
                                }
                            }
                        }
                        let rec = s2.members.iter().find(|m| m.id == target).cloned();
                        let suspected = rec.map(|m| m.state == 1).unwrap_or(false);
                        let genuine = match injected {
                            Some((_snd, was_asked)) if when < 2 && num == 0 => {
                                if kind_fwd { who == 1 && was_asked && when == 1 } else { who == 0 }
                            }
                            _ => false,
                        };
                        out.runs += 1;
                        out.distinct.insert(hash_of(&(n, fan, kind_fwd, who, num, when)));
                        let row = format!("n={n} fan={fan} fwd={kind_fwd} who={who} num={num} when={when} target={target:?} asked={asked:?} result={o3:?}");
                        let was_suspect = members.iter().any(|m| m.id == target && m.state == 1);
                        if genuine && ((suspected && !was_suspect) || timeouts > 0) {
                            out.hit("C12:suspicion-despite-evidence", J::s(row.clone()));
                        }
                        if !genuine && !(suspected && timeouts == 1) && injected.is_some() {
                            out.hit("C12:no-suspicion-without-evidence", J::s(format!("{row} suspected={suspected} timeouts={timeouts}")));
                        }
                        if out.samples.len() < 2 {
                            out.samples.push(J::s(row));
                        }
                    }
                }
            }
        }
        // relay chain with four real instances
        let b_id = VId::new(1, 0, 0, 0);
        let c_id = VId::new(2, 0, 0, 0);
        let mut a = Inst::new(a_id, &cfg, rseed ^ 1, 0, 255);
        let mut b = Inst::new(b_id, &cfg, rseed ^ 2, 0, 255);
        let mut c = Inst::new(c_id, &cfg, rseed ^ 3, 0, 255);
        let all = |me: VId| -> Vec<MMember> { [a_id, b_id, c_id].iter().filter(|i| **i != me).map(|i| MMember { id: *i, inc: 0, state: 0 }).collect() };
        run_real(&mut a.foca, &Input::ApplyMany(all(a_id), false));
        run_real(&mut b.foca, &Input::ApplyMany(all(b_id), false));
        run_real(&mut c.foca, &Input::ApplyMany(all(c_id), false));
        let pn = 9u8;
        let first = |effs: &Vec<Eff>| effs.iter().find_map(|e| if let Eff::Send(d, bb) = e { Some((*d, bb.clone())) } else { None });
        let req = mk_dgram(a_id, 0, c_id, Mg::PingReq { target: b_id, probe_number: pn });
        let (ec, _) = run_real(&mut c.foca, &Input::Data(req));
        let ok = (|| {
            let (d1, b1) = first(&ec)?;
            let h1 = hdr_of(&b1)?;
            if d1 != b_id || h1.message != (Mg::IndirectPing { origin: a_id, probe_number: pn }) { return None; }
            let (eb, _) = run_real(&mut b.foca, &Input::Data(b1));
            let (d2, b2) = first(&eb)?;
            let h2 = hdr_of(&b2)?;
            if d2 != c_id || h2.message != (Mg::IndirectAck { target: a_id, probe_number: pn }) { return None; }
            let (ec2, _) = run_real(&mut c.foca, &Input::Data(b2));
            let (d3, b3) = first(&ec2)?;
            let h3 = hdr_of(&b3)?;
            if d3 != a_id || h3.message != (Mg::ForwardedAck { origin: b_id, probe_number: pn }) { return None; }
            let (_ea, oa) = run_real(&mut a.foca, &Input::Data(b3));
            if oa != Outcome::Done { return None; }
            Some(())
        })();
        if ok.is_none() {
            out.hit("C12:relay-chain-broken", J::s(format!("seed {rseed}")));
        }
        // requests naming the instance itself
        for m in [Mg::PingReq { target: c_id, probe_number: 1 }, Mg::IndirectPing { origin: c_id, probe_number: 1 }, Mg::IndirectAck { target: c_id, probe_number: 1 }, Mg::ForwardedAck { origin: c_id, probe_number: 1 }] {
            let (e, o) = run_real(&mut c.foca, &Input::Data(mk_dgram(a_id, 0, c_id, m.clone())));
            if o != Outcome::Failed(6) || e.iter().any(|x| matches!(x, Eff::Send(..))) {
                out.hit("C12:indirect-for-ourselves-not-rejected", J::s(format!("{m:?} -> {o:?} {e:?}")));
            }
        }
        let _ = run;
    }
    out
}

pub fn run(prop: &str, seed: u64, budget: u64) -> Option<FOut> {
    match prop {
        "C01" => Some(c01(seed, budget)),
        "C19" => Some(c19(seed, budget)),
        "C06" => Some(c06(seed, budget)),
        "C11" => Some(c11(seed, budget)),
        "C09" => Some(c09(seed, budget)),
        "C14" => Some(c14(seed, budget)),
        "C07" => Some(c07(seed, budget)),
        "C15" => Some(c15(seed, budget)),
        "C12" => Some(c12(seed, budget)),
        "C10" => Some(c10(seed, budget)),
        "C16" => Some(c16(seed, budget)),
        "C13" => Some(c13(seed, budget)),
        "C17" => Some(c17(seed, budget)),
        _ => None,
    }
}

/// debugging aid: print the calls of one history
pub fn dump_history(hs: u64, sizes_idx: Option<u128>, maxtx: Option<u128>, filter: &str) {
    history(hs, 300, |c, g| {
        if let Some(s) = sizes_idx { c.max_packet_size = s; }
        if let Some(m) = maxtx { c.max_transmissions = m; } else { c.max_transmissions = *g.pick(&[1u128, 2, 3, 10, 255]); }
    }, |pre, input, effs, o, post, _rep| {
        if input.kind().contains(filter) {
            println!("INPUT {input:?}\n  pre.updates {:?}\n  cfg {:?}\n  effects {effs:?}\n  outcome {o:?}\n  post.updates {:?}", pre.updates, pre.cfg, post.updates);
        }
        true
    });
}
