//! Minimal JSON value + writer (no external crates available offline for this).
use std::fmt::Write;

#[derive(Clone, Debug)]
pub enum J {
    Null,
    B(bool),
    N(i128),
    F(f64),
    S(String),
    A(Vec<J>),
    O(Vec<(String, J)>),
}

impl J {
    pub fn obj(v: Vec<(&str, J)>) -> J {
        J::O(v.into_iter().map(|(k, v)| (k.to_string(), v)).collect())
    }
    pub fn s(x: impl Into<String>) -> J {
        J::S(x.into())
    }
    pub fn n(x: impl TryInto<i128>) -> J {
        J::N(x.try_into().ok().unwrap_or(-1))
    }
    pub fn nums(v: &[u128]) -> J {
        J::A(v.iter().map(|x| J::N(*x as i128)).collect())
    }
    pub fn write(&self, o: &mut String) {
        match self {
            J::Null => o.push_str("null"),
            J::B(b) => o.push_str(if *b { "true" } else { "false" }),
            J::N(n) => {
                let _ = write!(o, "{n}");
            }
            J::F(f) => {
                let _ = write!(o, "{f:.3}");
            }
            J::S(s) => {
                o.push('"');
                for c in s.chars() {
                    match c {
                        '"' => o.push_str("\\\""),
                        '\\' => o.push_str("\\\\"),
                        '\n' => o.push_str("\\n"),
                        c if (c as u32) < 32 => {
                            let _ = write!(o, "\\u{:04x}", c as u32);
                        }
                        c => o.push(c),
                    }
                }
                o.push('"');
            }
            J::A(v) => {
                o.push('[');
                for (i, x) in v.iter().enumerate() {
                    if i > 0 {
                        o.push(',');
                    }
                    x.write(o);
                }
                o.push(']');
            }
            J::O(v) => {
                o.push('{');
                for (i, (k, x)) in v.iter().enumerate() {
                    if i > 0 {
                        o.push(',');
                    }
                    J::S(k.clone()).write(o);
                    o.push(':');
                    x.write(o);
                }
                o.push('}');
            }
        }
    }
    pub fn to_string(&self) -> String {
        let mut s = String::new();
        self.write(&mut s);
        s
    }
}
