//! The concrete user-supplied pieces: identity, codec, broadcast handler, rng.
//! Mirrored by /verif/coq/Concrete.v byte for byte.
use bytes::{Buf, BufMut};
use foca::{BroadcastHandler, Codec, Header, Identity, Invalidates, Member, Message, State};
use rand::RngCore;

#[derive(Clone, Copy, Debug, PartialEq, Eq, Hash, PartialOrd, Ord)]
pub struct VId {
    pub a: u16,
    pub g: u16,
    pub k: u8,
    pub pad: u8,
}

impl VId {
    pub fn new(a: u16, g: u16, k: u8, pad: u8) -> Self {
        VId { a, g, k, pad }
    }
    pub fn nums(&self) -> [u128; 4] {
        [self.a as u128, self.g as u128, self.k as u128, self.pad as u128]
    }
}

impl Identity for VId {
    type Addr = u16;
    fn renew(&self) -> Option<Self> {
        match self.k {
            0 => None,
            1 => {
                if self.g < 65535 {
                    Some(VId { g: self.g + 1, ..*self })
                } else {
                    None
                }
            }
            2 => Some(*self),
            _ => Some(VId { g: self.g.saturating_sub(1), ..*self }),
        }
    }
    fn addr(&self) -> u16 {
        self.a
    }
    fn win_addr_conflict(&self, adv: &Self) -> bool {
        (self.g, self.k, self.pad) > (adv.g, adv.k, adv.pad)
    }
}

#[derive(Debug, Clone, Copy, PartialEq, Eq)]
pub struct CodecErr;
impl core::fmt::Display for CodecErr {
    fn fmt(&self, f: &mut core::fmt::Formatter<'_>) -> core::fmt::Result {
        f.write_str("codec error")
    }
}
impl std::error::Error for CodecErr {}

#[derive(Clone, Copy, Debug, Default)]
pub struct VCodec;

fn put(buf: &mut impl BufMut, b: u8) -> Result<(), CodecErr> {
    // byte at a time: leaves the buffer dirty when running out of room,
    // like the bundled bincode codec does
    if buf.has_remaining_mut() {
        buf.put_u8(b);
        Ok(())
    } else {
        Err(CodecErr)
    }
}
fn put_all(buf: &mut impl BufMut, bs: &[u8]) -> Result<(), CodecErr> {
    for b in bs {
        put(buf, *b)?;
    }
    Ok(())
}
fn get(buf: &mut impl Buf) -> Result<u8, CodecErr> {
    if buf.has_remaining() {
        Ok(buf.get_u8())
    } else {
        Err(CodecErr)
    }
}

pub fn id_bytes(i: &VId) -> Vec<u8> {
    let mut v = vec![(i.a >> 8) as u8, i.a as u8, (i.g >> 8) as u8, i.g as u8, i.k, i.pad];
    v.extend(std::iter::repeat(238u8).take(i.pad as usize));
    v
}
pub fn member_bytes(m: &Member<VId>) -> Vec<u8> {
    let mut v = id_bytes(m.id());
    v.push((m.incarnation() >> 8) as u8);
    v.push(m.incarnation() as u8);
    v.push(match m.state() {
        State::Alive => 0,
        State::Suspect => 1,
        State::Down => 2,
    });
    v
}
pub fn msg_bytes(m: &Message<VId>) -> Vec<u8> {
    let idn = |t: u8, i: &VId, n: u8| {
        let mut v = vec![t];
        v.extend(id_bytes(i));
        v.push(n);
        v
    };
    match m {
        Message::Ping(n) => vec![0, *n],
        Message::Ack(n) => vec![1, *n],
        Message::PingReq { target, probe_number } => idn(2, target, *probe_number),
        Message::IndirectPing { origin, probe_number } => idn(3, origin, *probe_number),
        Message::IndirectAck { target, probe_number } => idn(4, target, *probe_number),
        Message::ForwardedAck { origin, probe_number } => idn(5, origin, *probe_number),
        Message::Announce => vec![6],
        Message::Feed => vec![7],
        Message::Gossip => vec![8],
        Message::Broadcast => vec![9],
        Message::TurnUndead => vec![10],
    }
}
pub fn header_bytes(h: &Header<VId>) -> Vec<u8> {
    let mut v = id_bytes(&h.src);
    v.push((h.src_incarnation >> 8) as u8);
    v.push(h.src_incarnation as u8);
    v.extend(id_bytes(&h.dst));
    v.extend(msg_bytes(&h.message));
    v
}

fn dec_id(buf: &mut impl Buf) -> Result<VId, CodecErr> {
    let a1 = get(buf)?;
    let a0 = get(buf)?;
    let g1 = get(buf)?;
    let g0 = get(buf)?;
    let k = get(buf)?;
    let pad = get(buf)?;
    if k >= 4 {
        return Err(CodecErr);
    }
    if buf.remaining() < pad as usize {
        return Err(CodecErr);
    }
    for _ in 0..pad {
        if get(buf)? != 238 {
            return Err(CodecErr);
        }
    }
    Ok(VId { a: ((a1 as u16) << 8) | a0 as u16, g: ((g1 as u16) << 8) | g0 as u16, k, pad })
}

pub fn dec_member(buf: &mut impl Buf) -> Result<Member<VId>, CodecErr> {
    let id = dec_id(buf)?;
    let i1 = get(buf)?;
    let i0 = get(buf)?;
    let s = match get(buf)? {
        0 => State::Alive,
        1 => State::Suspect,
        2 => State::Down,
        _ => return Err(CodecErr),
    };
    Ok(Member::new(id, ((i1 as u16) << 8) | i0 as u16, s))
}

pub fn dec_header(buf: &mut impl Buf) -> Result<Header<VId>, CodecErr> {
    let src = dec_id(buf)?;
    let i1 = get(buf)?;
    let i0 = get(buf)?;
    let dst = dec_id(buf)?;
    let t = get(buf)?;
    let message = match t {
        0 => Message::Ping(get(buf)?),
        1 => Message::Ack(get(buf)?),
        2..=5 => {
            let i = dec_id(buf)?;
            let n = get(buf)?;
            match t {
                2 => Message::PingReq { target: i, probe_number: n },
                3 => Message::IndirectPing { origin: i, probe_number: n },
                4 => Message::IndirectAck { target: i, probe_number: n },
                _ => Message::ForwardedAck { origin: i, probe_number: n },
            }
        }
        6 => Message::Announce,
        7 => Message::Feed,
        8 => Message::Gossip,
        9 => Message::Broadcast,
        10 => Message::TurnUndead,
        _ => return Err(CodecErr),
    };
    Ok(Header { src, src_incarnation: ((i1 as u16) << 8) | i0 as u16, dst, message })
}

impl Codec<VId> for VCodec {
    type Error = CodecErr;
    fn encode_header(&mut self, h: &Header<VId>, mut buf: impl BufMut) -> Result<(), CodecErr> {
        put_all(&mut buf, &header_bytes(h))
    }
    fn decode_header(&mut self, mut buf: impl Buf) -> Result<Header<VId>, CodecErr> {
        dec_header(&mut buf)
    }
    fn encode_member(&mut self, m: &Member<VId>, mut buf: impl BufMut) -> Result<(), CodecErr> {
        put_all(&mut buf, &member_bytes(m))
    }
    fn decode_member(&mut self, mut buf: impl Buf) -> Result<Member<VId>, CodecErr> {
        dec_member(&mut buf)
    }
}

// ---- broadcast handler ----
#[derive(Clone, Copy, Debug, PartialEq, Eq, PartialOrd, Ord)]
pub struct VKey {
    pub k: u8,
    pub v: u8,
    pub mode: u8,
}
impl Invalidates for VKey {
    fn invalidates(&self, other: &Self) -> bool {
        match self.mode {
            0 => self.k == other.k,
            1 => self.k == other.k && other.v <= self.v,
            2 => false,
            3 => true,
            4 => other.k <= self.k,
            _ => self.k % 2 == other.k % 2,
        }
    }
}

#[derive(Debug, Clone, Copy)]
pub struct HandlerErr;
impl core::fmt::Display for HandlerErr {
    fn fmt(&self, f: &mut core::fmt::Formatter<'_>) -> core::fmt::Result {
        f.write_str("handler error")
    }
}
impl std::error::Error for HandlerErr {}

#[derive(Clone, Debug, Default, PartialEq, Eq)]
pub struct VHandler {
    pub mode: u8,
    pub mask: u8,
    pub seen: Vec<(u8, u8)>,
    /// every receive_item call: (data, sender)
    pub log: Vec<(Vec<u8>, Option<VId>)>,
}

impl BroadcastHandler<VId> for VHandler {
    type Key = VKey;
    type Error = HandlerErr;
    fn receive_item(&mut self, data: &[u8], sender: Option<&VId>) -> Result<Option<VKey>, HandlerErr> {
        self.log.push((data.to_vec(), sender.copied()));
        if data.is_empty() {
            return Err(HandlerErr);
        }
        let k = data[0];
        if k == 255 {
            return Err(HandlerErr);
        }
        let v = if data.len() > 1 { data[1] } else { 0 };
        let pos = self.seen.iter().position(|(kk, _)| *kk == k);
        let fresh = match pos {
            None => true,
            Some(p) => self.seen[p].1 < v,
        };
        if fresh {
            match pos {
                None => self.seen.push((k, v)),
                Some(p) => self.seen[p] = (k, v),
            }
            Ok(Some(VKey { k, v, mode: self.mode }))
        } else {
            Ok(None)
        }
    }
    fn should_add_broadcast_data(&self, member: &VId) -> bool {
        (self.mask >> (member.a % 8)) & 1 == 1
    }
}

// ---- rng ----
#[derive(Clone, Debug, PartialEq, Eq)]
pub struct VRng(pub u64);
impl VRng {
    pub fn new(seed: u64) -> Self {
        VRng(seed.wrapping_mul(0x9E3779B97F4A7C15) | 1)
    }
}
impl RngCore for VRng {
    fn next_u32(&mut self) -> u32 {
        (self.next_u64() >> 32) as u32
    }
    fn next_u64(&mut self) -> u64 {
        let mut x = self.0;
        x ^= x >> 12;
        x ^= x << 25;
        x ^= x >> 27;
        self.0 = x;
        x.wrapping_mul(0x2545F4914F6CDD1D)
    }
    fn fill_bytes(&mut self, dest: &mut [u8]) {
        for chunk in dest.chunks_mut(8) {
            let v = self.next_u64().to_le_bytes();
            chunk.copy_from_slice(&v[..chunk.len()]);
        }
    }
}
