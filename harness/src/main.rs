mod cfgsweep;
mod cluster;
mod codecs;
mod eqid;
mod altid;
mod falsify;
mod gen;
mod json;
mod mirror;
mod model;
mod sim;
mod state;
mod vid;

use std::collections::hash_map::DefaultHasher;
use std::collections::{BTreeMap, HashSet};
use std::hash::{Hash, Hasher};

use gen::*;
use json::J;
use model::*;
use state::*;
use vid::*;

fn arg(args: &[String], name: &str, default: &str) -> String {
    args.iter().position(|a| a == name).and_then(|i| args.get(i + 1).cloned()).unwrap_or(default.to_string())
}

pub fn report_json(hist: u64, step: u64, r: &StepReport) -> J {
    let mut pre = vec![];
    r.pre.nums(&mut pre);
    J::obj(vec![
        ("kind", J::s("refinement-step")),
        ("history", J::n(hist)),
        ("step", J::n(step)),
        ("input_kind", J::s(r.input.kind())),
        ("input", J::s(format!("{:?}", r.input))),
        ("diffs", J::A(r.diffs.iter().map(|d| J::s(d.clone())).collect())),
        ("impl_outcome", J::s(format!("{:?}", r.outcome))),
        ("model_outcome", J::s(format!("{:?}", r.model_outcome))),
        ("impl_effects", J::s(format!("{:?}", r.effects))),
        ("model_effects", J::s(format!("{:?}", r.model_effects))),
        ("impl_post", J::s(format!("{:?}", r.post))),
        ("pre_state", J::s(format!("{:?}", r.pre))),
        ("model_request", J::nums(&r.request)),
        ("oracle_answers", J::A(r.answers.iter().map(|(q, a)| J::A(vec![J::nums(q), J::nums(a)])).collect())),
        ("model_output", J::nums(&r.model_output)),
    ])
}

fn refine(args: &[String]) {
    let seed: u64 = arg(args, "--seed", "1").parse().unwrap();
    let histories: u64 = arg(args, "--histories", "20").parse().unwrap();
    let steps: u64 = arg(args, "--steps", "200").parse().unwrap();
    let model_path = arg(args, "--model", "/verif/coq/extracted/model_driver");
    let max_report: usize = arg(args, "--max-report", "5").parse().unwrap();
    let coq_sample: usize = arg(args, "--coq-sample", "0").parse().unwrap();
    let coq_out = arg(args, "--coq-out", "");
    let first_history: u64 = arg(args, "--first-history", "0").parse().unwrap();
    let mut coq_cases: Vec<String> = vec![];
    let mut model = Model::new(&model_path);
    let mut by_kind: BTreeMap<&'static str, u64> = BTreeMap::new();
    let mut by_outcome: BTreeMap<String, u64> = BTreeMap::new();
    let mut states: HashSet<u64> = HashSet::new();
    let mut total = 0u64;
    let mut oracle_q = 0u64;
    let mut mismatches: Vec<J> = vec![];
    let mut n_mismatch = 0u64;
    let mut diff_hist: BTreeMap<String, u64> = BTreeMap::new();
    let mut samples: Vec<J> = vec![];
    // correspondence of Timer's Ord (src/runtime.rs) with the model's timer_seq: every pair out of a
    // set with two timers of each kind must compare the same way on both sides
    if first_history == 0 {
        let ia = VId { a: 3, g: 1, k: 0, pad: 0 };
        let ib = VId { a: 200, g: 7, k: 2, pad: 0 };
        let ts = vec![
            MTimer::Probe(0), MTimer::Probe(9),
            MTimer::Indirect(ia, 0), MTimer::Indirect(ib, 200),
            MTimer::SuspectToDown(ia, 0, 0), MTimer::SuspectToDown(ib, 65535, 255),
            MTimer::Announce(0), MTimer::Announce(77),
            MTimer::AnnounceDown(0), MTimer::AnnounceDown(5),
            MTimer::Gossip(0), MTimer::Gossip(254),
            MTimer::RemoveDown(ia), MTimer::RemoveDown(ib),
        ];
        let mut seqs = vec![];
        let mut err = None;
        for t in &ts {
            match model.timer_seq(t) {
                Ok(x) => seqs.push(x),
                Err(e) => {
                    err = Some(e);
                    break;
                }
            }
        }
        let mut bad: Vec<String> = vec![];
        if let Some(e) = err {
            bad.push(format!("model_error:{e}"));
        } else {
            for (i, a) in ts.iter().enumerate() {
                for (j, b) in ts.iter().enumerate() {
                    let real = a.to_timer().cmp(&b.to_timer());
                    let modelled = seqs[i].cmp(&seqs[j]);
                    if real != modelled && bad.len() < 3 {
                        bad.push(format!("{a:?} vs {b:?}: Timer::cmp gives {real:?}, the model's timer_seq gives {modelled:?}"));
                    }
                }
            }
        }
        total += (ts.len() * ts.len()) as u64;
        *by_kind.entry("timer.order").or_default() += (ts.len() * ts.len()) as u64;
        if !bad.is_empty() {
            n_mismatch += 1;
            let comp = if bad[0].starts_with("model_error") { bad[0].clone() } else { "timers.order".to_string() };
            *diff_hist.entry(format!("timer.order:{comp}")).or_default() += 1;
            mismatches.push(J::obj(vec![
                ("kind", J::s("timer-order")),
                ("history", J::n(0u64)),
                ("step", J::n(0u64)),
                ("input_kind", J::s("timer.order")),
                ("input", J::s("pairs of timers compared with Timer's Ord and with the model's timer_seq")),
                ("diffs", J::A(vec![J::s(comp)])),
                ("detail", J::A(bad.iter().map(|b| J::s(b.clone())).collect())),
            ]));
        }
    }
    for h in first_history..first_history + histories {
        let mut g = G::new(seed.wrapping_mul(1_000_003).wrapping_add(h));
        let cfg = gen_cfg(&mut g);
        let id = VId { a: 9, g: 1 + g.below(2) as u16, k: g.below(4) as u8, pad: if g.chance(80) { 0 } else { 2 } };
        let mut inst = Inst::new(id, &cfg, g.next(), g.below(6) as u8, g.below(256) as u8);
        let mut pending: Vec<(u128, MTimer)> = vec![];
        let mut now: u128 = 0;
        let (pk, plen) = pick_prelude(&mut g);
        for s in 0..steps + plen {
            let pre = inst.snapshot();
            let input = match prelude_input(pk, s, plen, &pre) {
                Some(i) => i,
                None => gen_input(&mut g, &pre, &mut pending, &cfg),
            };
            if let Input::Timer(_) = &input {
                now += 50 * MS;
            }
            let rep = checked_step(&mut inst, &input, Some(&mut model));
            total += 1;
            oracle_q += rep.answers.len() as u64;
            *by_kind.entry(input.kind()).or_default() += 1;
            let ok = match &rep.outcome {
                Outcome::Done | Outcome::DoneBool(_) => "ok".to_string(),
                Outcome::Failed(e) => format!("err.{}", ERR_NAMES[*e as usize]),
                Outcome::Panicked(_) => format!("panic.{:?}@{}", rep.model_outcome, input.kind()),
            };
            *by_outcome.entry(ok).or_default() += 1;
            let mut hs = DefaultHasher::new();
            format!("{:?}", rep.pre).hash(&mut hs);
            states.insert(hs.finish());
            for e in &rep.effects {
                if let Eff::Submit(t, after) = e {
                    pending.push((now + after, t.clone()));
                }
            }
            if samples.len() < 3 && s == 7 {
                samples.push(J::obj(vec![
                    ("input", J::s(format!("{:?}", rep.input))),
                    ("outcome", J::s(format!("{:?}", rep.outcome))),
                    ("effects", J::s(format!("{:?}", rep.effects))),
                ]));
            }
            if coq_cases.len() < coq_sample
                && rep.request.len() < 3000
                && rep.model_output.len() < 3000
                && (total % 37 == 1 || !rep.answers.is_empty() && total % 5 == 1)
            {
                let l = |v: &[u128]| v.iter().map(|x| x.to_string()).collect::<Vec<_>>().join(";");
                let ans = rep.answers.iter().map(|(_, a)| format!("[{}]", l(a))).collect::<Vec<_>>().join(";");
                coq_cases.push(format!("([{}], [{}], [{}])", l(&rep.request), ans, l(&rep.model_output)));
            }
            if !rep.diffs.is_empty() {
                n_mismatch += 1;
                for d in &rep.diffs {
                    *diff_hist.entry(format!("{}:{}", input.kind(), d)).or_default() += 1;
                }
                if mismatches.len() < max_report {
                    mismatches.push(report_json(h, s, &rep));
                }
            }
            if inst.poisoned {
                break;
            }
        }
    }
    if !coq_out.is_empty() {
        let mut v = String::from("(* generated by the harness: steps the extracted model answered, re-evaluated inside Coq *)\nFrom Foca Require Import Ser.\nOpen Scope N_scope.\nDefinition cases : list (list N * list (list N) * list N) := [\n");
        v.push_str(&coq_cases.join(";\n"));
        v.push_str("\n].\nDefinition ok (c : list N * list (list N) * list N) : bool :=\n  let '(i, a, o) := c in list_eqb N.eqb (run_step_ser (list_oracle a) i) o.\nEval vm_compute in (forallb ok cases, length cases).\n");
        std::fs::write(&coq_out, v).unwrap();
    }
    let out = J::obj(vec![
        ("steps", J::n(total)),
        ("coq_cases", J::n(coq_cases.len())),
        ("distinct_states", J::n(states.len())),
        ("oracle_questions", J::n(oracle_q)),
        ("by_input_kind", J::O(by_kind.iter().map(|(k, v)| (k.to_string(), J::n(*v))).collect())),
        ("by_outcome", J::O(by_outcome.iter().map(|(k, v)| (k.clone(), J::n(*v))).collect())),
        ("mismatching_steps", J::n(n_mismatch)),
        ("mismatch_histogram", J::O(diff_hist.iter().map(|(k, v)| (k.clone(), J::n(*v))).collect())),
        ("mismatches", J::A(mismatches)),
        ("samples", J::A(samples)),
    ]);
    println!("{}", out.to_string());
}

fn main() {
    std::panic::set_hook(Box::new(|_| {}));
    let args: Vec<String> = std::env::args().collect();
    match args.get(1).map(|s| s.as_str()) {
        Some("refine") => refine(&args[2..]),
        Some("dump") => {
            let hs: u64 = arg(&args, "--history", "1").parse().unwrap();
            let size = arg(&args, "--size", "");
            let tx = arg(&args, "--tx", "");
            falsify::dump_history(hs, size.parse().ok(), tx.parse().ok(), &arg(&args, "--filter", ""));
        }
        Some("falsify") => {
            let prop = args.get(2).cloned().unwrap_or_default();
            let seed: u64 = arg(&args, "--seed", "1").parse().unwrap();
            let budget: u64 = arg(&args, "--budget", "100").parse().unwrap();
            match falsify::run(&prop, seed, budget).or_else(|| cluster::run(&prop, seed, budget)).or_else(|| if prop == "C20" { Some(codecs::c20(seed, budget)) } else if prop == "C08" { Some(mirror::c08(seed, budget)) } else { None }) {
                Some(mut o) if prop == "C02" => {
                    // a fault-free exchange between members whose identities differ a lot in encoded size
                    codecs::hid_exchange(seed, &mut o, "C02:false-suspicion-or-error");
                    println!("{}", o.to_json().to_string())
                }
                Some(mut o) if prop == "C07" => {
                    codecs::c07_serde(seed, 1 + budget / 25, &mut o);
                    println!("{}", o.to_json().to_string())
                }
                Some(o) => println!("{}", o.to_json().to_string()),
                None => {
                    eprintln!("no falsifier for {prop}");
                    std::process::exit(2);
                }
            }
        }
        Some("allocprobe") => {
            // child process of the C20 falsifier: decode a member whose string length prefix is isize::MAX
            let k: u64 = args.get(2).and_then(|x| x.parse().ok()).unwrap_or(0);
            println!("{}", codecs::alloc_probe(k));
        }
        Some("cfgsweep") => {
            let shard: u64 = arg(&args, "--shard", "0").parse().unwrap();
            let shards: u64 = arg(&args, "--shards", "1").parse().unwrap();
            let stride: u64 = arg(&args, "--stride", "1").parse().unwrap();
            println!("{}", cfgsweep::run(shard, shards, stride).to_string());
        }
        _ => {
            eprintln!("usage: harness refine --seed N --histories H --steps L");
            std::process::exit(2);
        }
    }
}
