//! Cluster-level falsifiers (C02-C05, C18) on the discrete-event simulator.
use std::collections::{BTreeSet, HashSet};

use crate::falsify::{hash_of, FOut};
use crate::gen::{G, MS};
use crate::json::J;
use crate::model::Inst;
use crate::sim::*;
use crate::state::*;
use crate::vid::*;

pub const P: u128 = 1000 * MS; // probe period
pub const R: u128 = 400 * MS; // probe rtt

pub fn cluster_cfg(g: &mut G, n: usize) -> MCfg {
    let per = |g: &mut G, f: u128| if g.chance(50) { Some((f, 1 + g.below(2) as u128)) } else { None };
    MCfg {
        probe_period: P,
        probe_rtt: R,
        num_indirect_probes: 1 + g.below(3) as u128,
        max_transmissions: 1 + g.below(10) as u128,
        suspect_to_down_after: 3 * P,
        remove_down_after: 60 * P,
        // a Feed of the whole cluster fits: header 17 + 2 + 9 per member
        max_packet_size: if g.chance(50) { 1400 } else { (19 + 9 * n as u128 + g.below(40) as u128).max(64) },
        notify_down_members: g.chance(50),
        periodic_announce: per(g, 5 * P),
        periodic_announce_down: None,
        periodic_gossip: per(g, 300 * MS),
    }
}

fn bad_notes(sim: &Sim, live: &dyn Fn(usize) -> bool) -> Vec<String> {
    let mut v = vec![];
    for (i, nd) in sim.nodes.iter().enumerate() {
        if !live(i) {
            continue;
        }
        for (t, n) in &nd.notes {
            match n {
                MNote::Down(x) if live(x.a as usize - 1) => v.push(format!("node {i} at {}ms: MemberDown({x:?})", t / MS)),
                MNote::Idle | MNote::Defunct => v.push(format!("node {i} at {}ms: {n:?}", t / MS)),
                MNote::Rejoin(_) => v.push(format!("node {i} at {}ms: {n:?}", t / MS)),
                _ => {}
            }
        }
        for (t, e) in &nd.errors {
            v.push(format!("node {i} at {}ms: error {e}", t / MS));
        }
    }
    v
}

/// C02: fault-free cluster
pub fn c02(seed: u64, budget: u64, with_model: bool) -> FOut {
    let mut out = FOut::default();
    out.rule = "discrete-event simulation of n = 2..8 real instances: join orders (all through one seed member / chain / different random existing members; simultaneous or staggered), per-message latencies in [1,90] ms < probe_rtt/4 = 100 ms, fan-out 1..3, max_transmissions 1..10, periodic gossip/announce on or off, packet sizes from just-feeds-the-cluster to 1400 (and, for the safety clause, smaller); exactly-once timers at their deadlines; in a third of the runs the application adds well-formed custom broadcasts of 1..6 bytes at random members. Monitors: no Suspect/Down record of a live member, no MemberDown/Idle/Defunct, no error from any call, full mutual discovery within (4n+8) probe periods + one announce period. distinct = distinct (n, join mode, config) tuples".into();
    let mut g = G::new(seed ^ 0xC02);
    let mut steps = 0u64;
    let mut mismatches: Vec<String> = vec![];
    for _run in 0..budget {
        // one run in eight is a long one on a small cluster: more than 256 probe rounds per instance,
        // so that the u8 probe number and everything else that only shows after many rounds is covered
        let long_run = g.chance(12);
        let n = if long_run { 2 + g.below(2) as usize } else { 2 + g.below(7) as usize };
        let mut cfg = cluster_cfg(&mut g, n);
        let small_packets = g.chance(15);
        if small_packets {
            cfg.max_packet_size = 30 + g.below(20) as u128;
        }
        let mode = g.below(3);
        let staggered = g.chance(50);
        let mut sim = Sim::new(n, &cfg, g.next(), 0, with_model);
        let mut concurrent_joiners_diff_seeds = false;
        // node 0 is the initial member; the others announce
        let mut seeds_used = BTreeSet::new();
        for i in 1..n {
            let seed_node = match mode {
                0 => 0,
                1 => i - 1,
                _ => g.below(i as u64) as usize,
            };
            seeds_used.insert(seed_node);
            let at = if staggered { (i as u128) * (P / 2) + g.below(300) as u128 * MS } else { g.below(50) as u128 * MS };
            let sid = VId::new(seed_node as u16 + 1, 0, 0, 0);
            sim.push(at, Ev::Api { node: i, what: 0, arg: sid.nums() });
        }
        if n >= 3 && seeds_used.len() >= 2 {
            concurrent_joiners_diff_seeds = true;
        }
        let join_end = if staggered { n as u128 * P / 2 + 300 * MS } else { 50 * MS };
        // in a third of the runs the application uses custom broadcasts (well-formed items of 1..6 bytes)
        if g.chance(35) {
            for _ in 0..1 + g.below(5) {
                let mut item = vec![g.below(5) as u8];
                let extra = g.below(6);
                if extra > 0 {
                    item.push(g.below(4) as u8);
                    for _ in 1..extra {
                        item.push(g.below(256) as u8);
                    }
                }
                let packed = item.iter().enumerate().fold(0u128, |a, (i, b)| a | ((*b as u128) << (8 * i)));
                let at = join_end + g.below(8) as u128 * P + g.below(1000) as u128 * MS;
                sim.push(at, Ev::Api { node: g.below(n as u64) as usize, what: 3, arg: [item.len() as u128, packed, 0, 0] });
            }
        }
        let freq = cfg.periodic_announce.map(|x| x.0).unwrap_or(0);
        // "linear in the cluster size": the property fixes no constant; 4n+8 periods (+ one announce
        // period) is far above what fault-free runs need, so exceeding it means something is wrong
        let bound = join_end + (4 * n as u128 + 8) * P + freq;
        let mut discovered_at: Option<u128> = None;
        let mut t = 0;
        let run_for = if long_run { bound + 270 * P } else { bound + 4 * P };
        while t < run_for {
            t += P / 4;
            sim.run_until(t);
            if discovered_at.is_none() && sim.fully_connected() {
                discovered_at = Some(sim.now);
            }
        }
        steps += sim.steps;
        mismatches.extend(sim.mismatches.drain(..));
        out.runs += 1;
        out.distinct.insert(hash_of(&(n, mode, staggered, format!("{cfg:?}"))));
        let ctx = format!("n={n} mode={mode} staggered={staggered} small_packets={small_packets} cfg={cfg:?}");
        // safety
        let bad = bad_notes(&sim, &|_| true);
        let mut non_alive = vec![];
        for i in 0..n {
            for m in sim.view(i) {
                if m.state != 0 {
                    non_alive.push(format!("node {i} holds {m:?}"));
                }
            }
        }
        if !bad.is_empty() || !non_alive.is_empty() {
            out.hit("C02:false-suspicion-or-error", J::s(format!("{ctx}: {:?} {:?}", &bad[..bad.len().min(3)], &non_alive[..non_alive.len().min(3)])));
        }
        // discovery (not required when a Feed cannot hold the cluster)
        if !small_packets {
            match discovered_at {
                Some(at) if at <= bound => {}
                Some(at) => {
                    let sig = if cfg.periodic_announce.is_none() && concurrent_joiners_diff_seeds {
                        "C02:discovery-incomplete:concurrent-joiners-different-seeds-no-periodic-announce"
                    } else {
                        "C02:discovery-late"
                    };
                    out.hit(sig, J::s(format!("{ctx}: full view at {}ms, bound {}ms", at / MS, bound / MS)))
                }
                None => {
                    let sig = if cfg.periodic_announce.is_none() && concurrent_joiners_diff_seeds {
                        "C02:discovery-incomplete:concurrent-joiners-different-seeds-no-periodic-announce"
                    } else {
                        "C02:discovery-incomplete"
                    };
                    out.hit(sig, J::s(ctx.clone()));
                }
            }
        }
        if out.samples.len() < 2 {
            out.samples.push(J::s(format!("{ctx}: discovered at {:?} ms, {} datagrams {:?}", discovered_at.map(|x| x / MS), sim.sent, sim.kinds_sent)));
        }
    }
    out.extra.push(("instance_steps".into(), J::n(steps)));
    out.extra.push(("refinement_mismatches".into(), J::A(mismatches.iter().take(5).map(|m| J::s(m.clone())).collect())));
    if !mismatches.is_empty() {
        out.hit("C02:refinement-mismatch-in-simulation", J::s(format!("{:?}", &mismatches[..mismatches.len().min(3)])));
    }
    out
}

fn formed(g: &mut G, n: usize, cfg: &MCfg, renew: u8) -> Sim {
    let mut sim = Sim::new(n, cfg, g.next(), renew, false);
    sim.form_instantly();
    sim
}

/// C03, departure of an instance that is momentarily Disconnected while others list it as active:
/// (a) it announced, the member registered it, and it leaves before the Feed arrives;
/// (b) its only known peer left gracefully (it went Idle) while a third member still lists it.
/// The leaver must end defunct and whoever listed it must report it Down within the bound.
fn leave_while_disconnected(g: &mut G, out: &mut FOut) {
    let n = 3 + g.below(3) as usize;
    let mut cfg = cluster_cfg(g, n);
    cfg.max_packet_size = 1400;
    let mut sim = Sim::new(n, &cfg, g.next(), 0, false);
    let variant_a = g.chance(50);
    let leaver = n - 1;
    let id = |sim: &mut Sim, j: usize| sim.id_of(j);
    if variant_a {
        // nodes 0..n-2 know each other; the last one is fresh
        for i in 0..n - 1 {
            let others: Vec<MMember> = (0..n - 1).filter(|j| *j != i).map(|j| MMember { id: VId::new(j as u16 + 1, 0, 0, 0), inc: 0, state: 0 }).collect();
            sim.now = g.below(1000) as u128 * MS;
            sim.call(i, Input::ApplyMany(others, false));
        }
        sim.now = 0;
        sim.run_until((2 + g.below(3)) as u128 * P);
        let seed_node = g.below((n - 1) as u64) as usize;
        let dst = id(&mut sim, seed_node);
        sim.call(leaver, Input::Announce(dst));
        // until the member has registered the joiner (its Feed is then in flight)
        let mut guard = 0;
        while guard < 10_000 && !sim.view(seed_node).iter().any(|m| m.id.a as usize == leaver + 1 && m.active()) {
            if !sim.step(u128::MAX) {
                break;
            }
            guard += 1;
        }
    } else {
        // the leaver knows only node 0; node 0 and the others know everybody; node 0 leaves first
        for i in 0..n - 1 {
            let others: Vec<MMember> = (0..n).filter(|j| *j != i).map(|j| MMember { id: VId::new(j as u16 + 1, 0, 0, 0), inc: 0, state: 0 }).collect();
            sim.now = g.below(1000) as u128 * MS;
            sim.call(i, Input::ApplyMany(others, false));
        }
        sim.now = g.below(1000) as u128 * MS;
        sim.call(leaver, Input::ApplyMany(vec![MMember { id: VId::new(1, 0, 0, 0), inc: 0, state: 0 }], false));
        sim.now = 0;
        // no settling: the leaver must not learn anybody else before node 0 leaves
        sim.call(0, Input::Leave);
        let mut guard = 0;
        while guard < 10_000 && sim.nodes[leaver].inst.snapshot().conn == 1 {
            if !sim.step(u128::MAX) {
                break;
            }
            guard += 1;
        }
    }
    let conn_before = sim.nodes[leaver].inst.snapshot().conn;
    let t0 = sim.now;
    let listed: Vec<bool> = (0..n).map(|i| i != leaver && sim.view(i).iter().any(|m| m.id.a as usize == leaver + 1 && m.active())).collect();
    sim.call(leaver, Input::Leave);
    let bound = t0 + (2 * n as u128 + 1) * P + cfg.suspect_to_down_after + 300 * MS;
    sim.run_until(bound);
    out.runs += 1;
    out.distinct.insert(hash_of(&("leave-while-disconnected", n, variant_a, conn_before, format!("{cfg:?}"))));
    let ctx = format!("n={n} leaver={leaver} variant={} connection state at leave={conn_before} cfg={cfg:?}", if variant_a { "leave-racing-the-feed" } else { "leave-while-idle" });
    if conn_before != 0 {
        return; // the race was not produced (the leaver was connected again): the ordinary scenario covers it
    }
    if sim.nodes[leaver].inst.snapshot().conn != 2 {
        out.hit("C03:leaver-not-defunct", J::s(format!("{ctx}: connection state {} at the end", sim.nodes[leaver].inst.snapshot().conn)));
    }
    for i in 0..n {
        if i == leaver || (!variant_a && i == 0) || !listed[i] {
            continue;
        }
        let got = sim.nodes[i].notes.iter().any(|(t, nn)| *t >= t0 && matches!(nn, MNote::Down(x) if x.a as usize == leaver + 1));
        if !got {
            out.hit("C03:leaver-not-reported-down-in-time", J::s(format!("{ctx}: node {i} listed the leaver as active and never notified MemberDown by {} ms", bound / MS)));
        }
    }
}

/// C03: crashed or departed members are reported Down everywhere, bounded
pub fn c03(seed: u64, budget: u64) -> FOut {
    let mut out = FOut::default();
    out.rule = "formed clusters of n = 2..7 real instances (fault-free settling first), then a non-empty proper subset crashes or leaves gracefully at a random event index; latencies < probe_rtt/4; monitors: every survivor that listed a failed member as active notifies MemberDown for it within (2n+1) probe periods + suspect_to_down_after (+ latency slack), no survivor is declared Down / goes Defunct, a leaver is reported Down at once by the members it told, and after leaving it sends nothing but TurnUndead; one run in five: an instance leaves while momentarily Disconnected (it announced and leaves before the Feed arrives; or its only known peer just left and a third member still lists it) - it must end defunct and be reported Down within the bound by whoever listed it. distinct = distinct (n, subset, crash|leave, config)".into();
    // no survivor is declared Down: a member that refuted a suspicion (incarnation i -> i+1) and is under a NEW
    // suspicion at its newer incarnation when the timeout of the refuted one fires stays as it is
    for notify in [false, true] {
        let own = VId::new(9, 1, 0, 0);
        let mut cfg = crate::falsify::big_cfg();
        cfg.notify_down_members = notify;
        let mut a = Inst::new(own, &cfg, seed ^ 0xC03D, 0, 255);
        let s_id = VId::new(2, 0, 0, 0);
        crate::model::run_real(&mut a.foca, &Input::ApplyMany(vec![MMember { id: s_id, inc: 0, state: 1 }, MMember { id: VId::new(3, 0, 0, 0), inc: 0, state: 0 }], false));
        let tok = a.snapshot().token;
        // refuted, then suspected again at the newer incarnation (gossip from another member)
        crate::model::run_real(&mut a.foca, &Input::ApplyMany(vec![MMember { id: s_id, inc: 1, state: 0 }], false));
        crate::model::run_real(&mut a.foca, &Input::ApplyMany(vec![MMember { id: s_id, inc: 1, state: 1 }], false));
        let pre = a.snapshot();
        let (effs, o) = crate::model::run_real(&mut a.foca, &Input::Timer(MTimer::SuspectToDown(s_id, 0, tok)));
        let post = a.snapshot();
        out.runs += 1;
        if !effs.is_empty() || post != pre {
            out.hit("C03:survivor-declared-down-by-a-stale-timeout", J::s(format!("{s_id:?} refuted the suspicion at incarnation 0 and is Suspect at 1; the timeout for incarnation 0 fires: {o:?}, effects {effs:?}, record now {:?}", post.members.iter().find(|m| m.id == s_id))));
        }
    }
    let mut g = G::new(seed ^ 0xC03);
    for _run in 0..budget {
        if g.chance(20) {
            leave_while_disconnected(&mut g, &mut out);
            continue;
        }
        let n = 2 + g.below(6) as usize;
        let mut cfg = cluster_cfg(&mut g, n);
        cfg.max_packet_size = 1400;
        let leave = g.chance(40);
        let mut sim = formed(&mut g, n, &cfg, 0);
        let settle = (2 + g.below(4)) as u128 * P + g.below(1000) as u128 * MS;
        sim.run_until(settle);
        // choose the failing subset
        let k = 1 + g.below((n - 1) as u64) as usize;
        let mut failing: Vec<usize> = (0..n).collect();
        for i in (1..failing.len()).rev() {
            let j = g.below(i as u64 + 1) as usize;
            failing.swap(i, j);
        }
        failing.truncate(if leave { 1 } else { k });
        let t0 = sim.now;
        let listed: Vec<Vec<bool>> = (0..n).map(|i| { let v = sim.view(i); (0..n).map(|x| v.iter().any(|m| m.id.a as usize == x + 1 && m.active())).collect() }).collect();
        let sent_before = sim.sent;
        let mut told: Vec<usize> = vec![];
        for &f in &failing {
            if leave {
                sim.call(f, Input::Leave);
                sim.nodes[f].notes.clear();
            } else {
                sim.nodes[f].crashed = true;
            }
        }
        let _ = sent_before;
        let bound = t0 + (2 * n as u128 + 1) * P + cfg.suspect_to_down_after + 300 * MS;
        sim.run_until(bound);
        let is_failed = |i: usize| failing.contains(&i);
        out.runs += 1;
        out.distinct.insert(hash_of(&(n, failing.clone(), leave, format!("{cfg:?}"))));
        let ctx = format!("n={n} failing={failing:?} leave={leave} cfg={cfg:?}");
        for i in 0..n {
            if is_failed(i) {
                continue;
            }
            for &f in &failing {
                if listed[i][f] {
                    let got = sim.nodes[i].notes.iter().any(|(t, nn)| *t >= t0 && matches!(nn, MNote::Down(x) if x.a as usize == f + 1));
                    if !got {
                        out.hit(if leave { "C03:leaver-not-reported-down-in-time" } else { "C03:crash-not-detected-in-time" }, J::s(format!("{ctx}: survivor {i} never notified MemberDown({}) by {} ms", f + 1, bound / MS)));
                    }
                }
            }
            for (t, nn) in &sim.nodes[i].notes {
                if *t < t0 { continue; }
                match nn {
                    MNote::Down(x) if !is_failed(x.a as usize - 1) => out.hit("C03:survivor-declared-down", J::s(format!("{ctx}: node {i} MemberDown({x:?}) at {} ms", t / MS))),
                    MNote::Defunct | MNote::Rejoin(_) => out.hit("C03:survivor-told-down", J::s(format!("{ctx}: node {i} {nn:?} at {} ms", t / MS))),
                    _ => {}
                }
            }
        }
        told.clear();
        if out.samples.len() < 2 {
            out.samples.push(J::s(ctx));
        }
    }
    out
}

/// C04: a single lost datagram never gets a live member declared Down
pub fn c04(seed: u64, budget: u64) -> FOut {
    let mut out = FOut::default();
    out.rule = "formed clusters of n = 2..5 (probe_period 1000 ms >= 2*probe_rtt 400 ms, latencies < probe_rtt/4, suspect_to_down_after 3 periods, and 0.6 / 1 / 1.5 periods in two-member clusters; packet sizes of exactly a Ping plus one piggybacked update, +0..2, in two-member clusters), notify_down_members on/off, renewable and non-renewable identities; for a seeded configuration EVERY datagram index in a window of 2n+2 probe periods is dropped in turn (one fresh run per index); monitors: no MemberDown / Defunct / Rejoin anywhere, and 2n+4 periods + suspect_to_down_after later every instance lists every other as Alive. distinct = distinct (configuration, dropped index, dropped kind)".into();
    let mut g = G::new(seed ^ 0xC04);
    let mut cfgs = 0u64;
    while out.runs < budget {
        let n = 2 + g.below(4) as usize;
        let mut cfg = cluster_cfg(&mut g, n);
        cfg.max_packet_size = 1400;
        if n == 2 && g.chance(60) {
            // two members: the suspicion reaches the suspect with the very next Ping, so a timeout shorter
            // than a probe period (but longer than a round trip) is still safe
            cfg.suspect_to_down_after = *g.pick(&[600 * MS, 1000 * MS, 1500 * MS]);
        }
        if n == 2 && g.chance(40) {
            // packet sizes around 'a Ping / Ack plus exactly one piggybacked update': the suspicion must
            // still reach the suspected member whenever it fits at all
            let hdr = header_bytes(&foca::Header { src: VId::new(1, 0, 0, 0), src_incarnation: 0, dst: VId::new(2, 0, 0, 0), message: foca::Message::Ping(0) }).len() as u128;
            let mem = member_bytes(&MMember { id: VId::new(2, 0, 0, 0), inc: 0, state: 1 }.to_member()).len() as u128;
            cfg.max_packet_size = hdr + 2 + mem + g.below(3) as u128;
            cfg.periodic_gossip = None;
            cfg.periodic_announce = None;
        }
        let renew = if g.chance(50) { 1 } else { 0 };
        let sim_seed = g.next();
        // reference run to count datagrams in the window
        let window_from = 2 * P;
        let window_to = window_from + (2 * n as u128 + 2) * P;
        let mk = |drop: Option<u64>| {
            let mut gg = G::new(sim_seed);
            let mut sim = Sim::new(n, &cfg, gg.next(), renew, false);
            sim.form_instantly();
            sim.drop_index = drop;
            sim
        };
        let mut refsim = mk(None);
        refsim.run_until(window_from);
        let first = refsim.sent + 1;
        refsim.run_until(window_to);
        let last = refsim.sent;
        cfgs += 1;
        // quick tier: a stride over the window; the stride is 1 when the budget allows
        let total = last.saturating_sub(first) + 1;
        let remaining = budget - out.runs;
        let stride = ((total + remaining - 1) / remaining.max(1)).max(1);
        let mut k = first + g.below(stride);
        while k <= last && out.runs < budget {
            let mut sim = mk(Some(k));
            let end = window_to + (2 * n as u128 + 4) * P + cfg.suspect_to_down_after;
            sim.run_until(end);
            out.runs += 1;
            let dropped = sim.dropped.clone();
            out.distinct.insert(hash_of(&(cfgs, k)));
            let ctx = format!("n={n} renew={renew} dropped #{k} {dropped:?} cfg={cfg:?}");
            let bad = bad_notes(&sim, &|_| true);
            if !bad.is_empty() {
                out.hit("C04:single-loss-declares-live-member-down", J::s(format!("{ctx}: {:?}", &bad[..bad.len().min(3)])));
            }
            let mut non_alive = vec![];
            for i in 0..n {
                let v = sim.view(i);
                for x in 0..n {
                    if x != i && !v.iter().any(|m| m.id.a as usize == x + 1 && m.state == 0) {
                        non_alive.push(format!("node {i} does not list {} as Alive: {v:?}", x + 1));
                    }
                }
            }
            if !non_alive.is_empty() && bad.is_empty() {
                out.hit("C04:not-all-alive-again", J::s(format!("{ctx}: {:?}", &non_alive[..1])));
            }
            if out.samples.len() < 2 {
                out.samples.push(J::s(ctx));
            }
            k += stride;
        }
    }
    out.extra.push(("configurations".into(), J::n(cfgs)));
    out
}

/// C05: auto-rejoin after a healed partition
pub fn c05(seed: u64, budget: u64) -> FOut {
    let mut out = FOut::default();
    out.rule = "clusters of n = 3..7 real instances with renewable identities, notify_down_members and periodic_announce_to_down_members; every two-sided split shape (random sides), partition held until both sides declared each other Down (checked), heal at a random instant; in a quarter of the runs a second outage of the same nodes timed so that the forget-timers of the first outage fire while the second partition is on; also the asymmetric case (one live member falsely declared Down through a forged suspicion timeout); monitors: every instance told it is down reports Rejoin (never Defunct) with an identity that wins against the previous one and Active afterwards; within 6n+10 announce-to-down periods every live instance lists every other under its current identity, provided one side kept >= 2 members. distinct = distinct (n, split, config)".into();
    // the announcer's Down record may name a FORMER identity of the target (it renewed just before the partition
    // completed): an Announce from a member held Down, addressed to the current or to a former identity of the
    // receiver, is answered by exactly one TurnUndead - the only way the announcer learns that it is down
    for former in [false, true] {
        for kind in [0u8, 1] {
            let own = VId::new(3, 2, kind, 0);
            let mut cfg = crate::falsify::big_cfg();
            cfg.notify_down_members = true;
            let mut b = Inst::new(own, &cfg, seed ^ 0xC05D, 0, 255);
            let a_id = VId::new(1, 0, 1, 0);
            crate::model::run_real(&mut b.foca, &Input::ApplyMany(vec![MMember { id: a_id, inc: 0, state: 2 }, MMember { id: VId::new(2, 0, 0, 0), inc: 0, state: 0 }], false));
            let dst = if former { VId::new(3, 1, kind, 0) } else { own };
            let d = header_bytes(&foca::Header { src: a_id, src_incarnation: 0, dst, message: foca::Message::Announce });
            let (effs, o) = crate::model::run_real(&mut b.foca, &Input::Data(d));
            out.runs += 1;
            let told = effs.iter().filter(|e| matches!(e, Eff::Send(to, bytes) if *to == a_id && crate::model::split_datagram(bytes).map(|x| x.0.message == foca::Message::TurnUndead).unwrap_or(false))).count();
            if told != 1 {
                out.hit("C05:down-sender-not-told", J::s(format!("{own:?} holds {a_id:?} Down; an Announce from it addressed to {dst:?} ({}): {o:?}, TurnUndead replies {told}, effects {effs:?}", if former { "a former identity of the receiver" } else { "the receiver" })));
            }
        }
    }
    let mut g = G::new(seed ^ 0xC05);
    let mut second_outages = 0u64;
    for _run in 0..budget {
        let n = 3 + g.below(5) as usize;
        let mut cfg = cluster_cfg(&mut g, n);
        cfg.max_packet_size = 1400;
        cfg.notify_down_members = true;
        cfg.periodic_announce_down = Some((4 * P + g.below(2000) as u128 * MS, 1 + g.below(3) as u128));
        let two_cycles = g.chance(25);
        cfg.remove_down_after = if two_cycles { 150 * P } else { 400 * P };
        let aligned = g.chance(20);
        let mut sim = if aligned {
            let mut s0 = Sim::new(n, &cfg, g.next(), 1, false);
            s0.form_aligned();
            s0.lat_min = 20 * MS;
            s0.lat_max = 20 * MS;
            s0
        } else {
            formed(&mut g, n, &cfg, 1)
        };
        sim.run_until(3 * P);
        let asym = !aligned && g.chance(20);
        let ka = 1 + g.below((n - 1) as u64) as usize;
        let side_a: BTreeSet<u16> = if asym { [1u16].into_iter().collect() } else { (0..ka as u16).map(|x| x + 1).collect() };
        let t_cut = sim.now;
        if asym {
            // everyone else declares node 0 down through a (forged) suspicion timeout; node 0 hears nothing of it for a while
            for i in 1..n {
                let tok = sim.nodes[i].inst.snapshot().token;
                let id0 = sim.id_of(0);
                sim.cut = Some(side_a.clone());
                sim.call(i, Input::Timer(MTimer::SuspectToDown(id0, 0, tok)));
            }
            sim.run_until(t_cut + 2 * P);
        } else {
            sim.cut = Some(side_a.clone());
            let hold = (2 * n as u128 + 2) * P + cfg.suspect_to_down_after + 2 * P;
            sim.run_until(t_cut + hold);
            // mutual Down?
            let mut mutual = true;
            for i in 0..n {
                let v = sim.view(i);
                for x in 0..n {
                    let other_side = side_a.contains(&(i as u16 + 1)) != side_a.contains(&(x as u16 + 1));
                    if other_side && !v.iter().any(|m| m.id.a as usize == x + 1 && m.state == 2) {
                        mutual = false;
                    }
                }
            }
            if !mutual {
                continue; // precondition of the property not met
            }
        }
        sim.cut = None;
        for nd in sim.nodes.iter_mut() {
            nd.notes.clear();
            nd.errors.clear();
        }
        let mut heal = sim.now + g.below(3000) as u128 * MS;
        sim.run_until(heal);
        let freq = cfg.periodic_announce_down.unwrap().0;
        let mut converge = |sim: &mut Sim, heal: u128| -> Option<u128> {
            let bound = heal + (6 * n as u128 + 10) * freq;
            let mut t = heal;
            while t < bound {
                t += freq / 2;
                sim.run_until(t);
                if sim.fully_connected() {
                    return Some(sim.now);
                }
            }
            None
        };
        let mut converged_at = converge(&mut sim, heal);
        // a second outage of the same nodes, timed so that the forget-timers of the first one fire
        // while the second partition is on (the Down records then belong to the renewed identities)
        let mut second_cycle = false;
        if two_cycles && !asym && converged_at.is_some() {
            let due = sim.pending_remove_down_times();
            let declared_after = (2 * n as u128 + 2) * P + cfg.suspect_to_down_after + 2 * P;
            if let (Some(first), Some(last)) = (due.iter().min(), due.iter().max()) {
                if *first > sim.now + declared_after + 2 * P {
                    second_cycle = true;
                    second_outages += 1;
                    let t_cut2 = *first - declared_after;
                    sim.run_until(t_cut2);
                    sim.cut = Some(side_a.clone());
                    sim.run_until(*last + 2 * P);
                    sim.cut = None;
                    for nd in sim.nodes.iter_mut() {
                        nd.notes.clear();
                        nd.errors.clear();
                    }
                    heal = sim.now + g.below(3000) as u128 * MS;
                    sim.run_until(heal);
                    converged_at = converge(&mut sim, heal);
                }
            }
        }
        out.runs += 1;
        out.distinct.insert(hash_of(&(n, side_a.clone(), asym, format!("{cfg:?}"))));
        let ctx = format!("n={n} side_a={side_a:?} asym={asym} aligned_timers={aligned} second_outage={second_cycle} cfg={cfg:?}");
        for i in 0..n {
            let mut last_rejoin: Option<VId> = None;
            for (t, nn) in &sim.nodes[i].notes {
                match nn {
                    MNote::Defunct => out.hit("C05:defunct-instead-of-rejoin", J::s(format!("{ctx}: node {i} at {} ms", t / MS))),
                    MNote::Rejoin(x) => {
                        use foca::Identity;
                        if let Some(prev) = last_rejoin {
                            if !x.win_addr_conflict(&prev) {
                                out.hit("C05:renewed-identity-does-not-win", J::s(format!("{ctx}: {prev:?} -> {x:?}")));
                            }
                        }
                        last_rejoin = Some(*x);
                    }
                    _ => {}
                }
            }
        }
        let big_side = side_a.len().max(n - side_a.len()) >= 2;
        if converged_at.is_none() && big_side {
            // classify: global silence (everybody Disconnected, nothing in flight that could wake them)
            let all_disc = (0..n).all(|i| sim.nodes[i].inst.snapshot().conn == 0);
            let sig = if all_disc { "C05:no-convergence:global-silence-after-simultaneous-renewals" } else { "C05:no-convergence" };
            let views: Vec<String> = (0..n).map(|i| format!("{}: conn={} {:?}", i, sim.nodes[i].inst.snapshot().conn, sim.view(i).iter().map(|m| (m.id.a, m.id.g, m.state)).collect::<Vec<_>>())).collect();
            out.hit(sig, J::s(format!("{ctx}: {views:?}")));
        }
        if out.samples.len() < 2 {
            out.samples.push(J::s(format!("{ctx}: converged at {:?} ms after heal at {} ms", converged_at.map(|x| x / MS), heal / MS)));
        }
    }
    out.extra.push(("runs_with_second_outage".into(), J::n(second_outages)));
    out
}

/// C18: reply cascades terminate
pub fn c18(seed: u64, budget: u64) -> FOut {
    let mut out = FOut::default();
    out.rule = "pairs and triples of real instances put into arbitrary mutual-knowledge states (alive / suspect / down / superseded identity; active, idle or defunct themselves) by seeded apply_many / leave / identity changes, renewable or not (including identities whose renewal loses the address conflict, with 1500 generations to go), notify_down_members on/off; timers frozen; one initial datagram of every kind is injected and all resulting datagrams are delivered (random order) until the network is empty; more than 2000 deliveries = a storm; then seeded single-instance histories (300 calls, large member lists, small packets) on which every delivered datagram must cause at most k * num_indirect_probes + 1 new datagrams, k = member updates it carries about the receiver's own address (+1 for a TurnUndead); in particular at most one for a datagram that says nothing about the receiver. distinct = distinct (states, initial datagram) pairs".into();
    let mut g = G::new(seed ^ 0xC18);
    for _run in 0..budget {
        let n = 2 + g.below(2) as usize;
        let mut cfg = cluster_cfg(&mut g, n);
        cfg.max_packet_size = 1400;
        let renew = *g.pick(&[0u8, 0, 1, 2, 3]);
        let mut sim = Sim::new(n, &cfg, g.next(), renew, false);
        if renew == 3 && g.chance(50) {
            // identities whose renewal LOSES the address conflict, with a long way down (generation 1500): an
            // instance that adopted such renewals would renew on every TurnUndead for thousands of rounds
            for i in 0..n {
                let id = VId::new(i as u16 + 1, 1500, 3, 0);
                sim.nodes[i].inst = Inst::new(id, &cfg, g.next(), 0, 255);
            }
        }
        sim.timers_frozen = true;
        // mutual knowledge
        for i in 0..n {
            let mut ups = vec![];
            for x in 0..n {
                if x != i && g.chance(85) {
                    let base_gen = sim.id_of(x).g;
                    ups.push(MMember { id: VId::new(x as u16 + 1, if g.chance(20) { base_gen + 1 } else { base_gen }, renew, 0), inc: *g.pick(&[0u16, 0, 1, 65535]), state: g.below(3) as u8 });
                }
            }
            if g.chance(30) {
                // what it heard about itself
                let me = sim.id_of(i);
                ups.push(MMember { id: me, inc: *g.pick(&[0u16, 1, 65535]), state: g.below(3) as u8 });
            }
            sim.call(i, Input::ApplyMany(ups, g.chance(80)));
            if g.chance(15) {
                sim.call(i, Input::Leave);
            }
        }
        // drop whatever the setup produced, then inject
        sim.queue.clear();
        let from = g.below(n as u64) as usize;
        let to = (from + 1 + g.below((n - 1) as u64) as usize) % n;
        let (src, dst) = (sim.id_of(from), sim.id_of(to));
        let third = sim.id_of((to + 1) % n);
        use foca::Message as Mg;
        let msg = match g.below(11) {
            0 => Mg::Ping(3),
            1 => Mg::Ack(3),
            2 => Mg::PingReq { target: third, probe_number: 3 },
            3 => Mg::IndirectPing { origin: third, probe_number: 3 },
            4 => Mg::IndirectAck { target: third, probe_number: 3 },
            5 => Mg::ForwardedAck { origin: third, probe_number: 3 },
            6 => Mg::Announce,
            7 => Mg::Feed,
            8 => Mg::Gossip,
            9 => Mg::Broadcast,
            _ => Mg::TurnUndead,
        };
        let mut b = header_bytes(&foca::Header { src, src_incarnation: *g.pick(&[0u16, 1, 65535]), dst, message: msg.clone() });
        if !matches!(msg, Mg::Announce | Mg::TurnUndead | Mg::Broadcast) {
            let k = g.below(3);
            b.extend((k as u16).to_be_bytes());
            for _ in 0..k {
                let about = sim.id_of(g.below(n as u64) as usize);
                b.extend(member_bytes(&MMember { id: about, inc: *g.pick(&[0u16, 1, 65535]), state: g.below(3) as u8 }.to_member()));
            }
        }
        sim.push(0, Ev::Deliver { to: dst.a, data: b.clone(), from: src.a });
        let mut deliveries = 0u64;
        while sim.step(u128::MAX) {
            deliveries += 1;
            if deliveries > 2000 {
                break;
            }
        }
        out.runs += 1;
        out.distinct.insert(hash_of(&(n, renew, format!("{msg:?}"), deliveries, sim.sent)));
        if deliveries > 2000 {
            let conns: Vec<u8> = (0..n).map(|i| sim.nodes[i].inst.snapshot().conn).collect();
            let sig = if sim.kinds_sent.get("TurnUndead").copied().unwrap_or(0) > 1500 { "C18:storm:turnundead-ping-pong" } else { "C18:storm" };
            out.hit(sig, J::s(format!("n={n} renew={renew} notify={} initial {msg:?} from {src:?} to {dst:?}; kinds {:?}; conn {conns:?}", cfg.notify_down_members, sim.kinds_sent)));
        }
        if out.samples.len() < 2 {
            out.samples.push(J::s(format!("n={n} renew={renew} initial {msg:?}: {deliveries} deliveries, kinds {:?}", sim.kinds_sent)));
        }
    }
    // the per-delivery bound of theorem C18_delivery_fanout_sharp on single-instance histories (large
    // member lists, small packets, truncated Feeds, refutations): one delivered datagram with k member updates
    // about the receiver's own address (plus one if it is a TurnUndead) causes at most k * num_indirect_probes + 1 new datagrams
    for h in 0..(budget / 3).max(3) {
        let hs = seed.wrapping_mul(7919).wrapping_add(h);
        let mut hit: Option<J> = None;
        crate::falsify::history(hs, 300, |_, _| {}, |pre, input, effs, _o, _post, _rep| {
            if let Input::Data(b) = input {
                let sends = effs.iter().filter(|e| matches!(e, Eff::Send(..))).count() as u128;
                // k: member updates about the receiver's own address; plus one for a TurnUndead
                let mut k = 0u128;
                let mut cur = &b[..];
                if let Ok(h) = crate::vid::dec_header(&mut cur) {
                    if matches!(h.message, foca::Message::TurnUndead) {
                        k += 1;
                    }
                    if cur.len() >= 2 {
                        let cnt = u16::from_be_bytes([cur[0], cur[1]]);
                        cur = &cur[2..];
                        for _ in 0..cnt {
                            match crate::vid::dec_member(&mut cur) {
                                Ok(m) => {
                                    if m.id().a == pre.identity.a {
                                        k += 1;
                                    }
                                }
                                Err(_) => break,
                            }
                        }
                    }
                }
                let bound = k * pre.cfg.num_indirect_probes + 1;
                if sends > bound {
                    hit = Some(J::s(format!("history seed {hs}: {sends} datagrams sent on one delivery that carries {k} updates about the receiver's own address / TurnUndead (bound {bound}, num_indirect_probes {}): {input:?}", pre.cfg.num_indirect_probes)));
                    return false;
                }
            }
            true
        });
        out.runs += 1;
        if let Some(d) = hit {
            out.hit("C18:delivery-fan-out-exceeds-bound", d);
        }
    }
    out
}

pub fn run(prop: &str, seed: u64, budget: u64) -> Option<FOut> {
    match prop {
        "C02" => Some(c02(seed, budget, false)),
        "C03" => Some(c03(seed, budget)),
        "C04" => Some(c04(seed, budget)),
        "C05" => Some(c05(seed, budget)),
        "C18" => Some(c18(seed, budget)),
        _ => None,
    }
}

pub fn _unused(_: HashSet<u8>) {}
