//! C08: notifications mirror membership and connection state; AccumulatingRuntime is faithful.
//! Monitors written from the property text, on the real crate only.
use std::collections::BTreeSet;
use std::panic::{catch_unwind, AssertUnwindSafe};

use foca::{AccumulatingRuntime, Identity, OwnedNotification, Runtime};

use crate::falsify::{hash_of, FOut};
use crate::gen::*;
use crate::json::J;
use crate::model::*;
use crate::state::*;
use crate::vid::*;

fn call<R: Runtime<VId>>(f: &mut RealFoca, input: &Input, rt: R) -> Outcome {
    let unit = |r: Result<(), foca::Error>| match r {
        Ok(()) => Outcome::Done,
        Err(e) => Outcome::Failed(err_code(&e)),
    };
    match input {
        Input::Data(b) => unit(f.handle_data(b, rt)),
        Input::Timer(t) => unit(f.handle_timer(t.to_timer(), rt)),
        Input::ApplyMany(l, b) => unit(f.apply_many(l.iter().map(|m| m.to_member()), *b, rt)),
        Input::Announce(d) => unit(f.announce(*d, rt)),
        Input::Gossip => unit(f.gossip(rt)),
        Input::Broadcast => unit(f.broadcast(rt)),
        Input::Leave => unit(f.leave_cluster(rt)),
        Input::ChangeIdentity(d) => unit(f.change_identity(*d, rt)),
        Input::ReuseDown => unit(f.reuse_down_identity()),
        Input::SetConfig(c) => unit(f.set_config(c.to_config())),
        Input::AddBroadcast(b) => match f.add_broadcast(b) {
            Ok(x) => Outcome::DoneBool(x),
            Err(e) => Outcome::Failed(err_code(&e)),
        },
    }
}

#[derive(Clone, Copy, PartialEq, Eq, Debug)]
enum Mode {
    Idle,
    Active,
    Defunct,
}

/// does the input possibly tell the instance that its identity is Down / under suspicion?
fn mentions_own_death(input: &Input, own: &VId) -> bool {
    match input {
        Input::Leave => true,
        Input::ApplyMany(l, _) => l.iter().any(|m| m.id == *own && m.state != 0),
        Input::Data(b) => {
            let Ok(h) = dec_header(&mut &b[..]) else { return false };
            if matches!(h.message, foca::Message::TurnUndead) {
                return true;
            }
            match split_datagram(b) {
                Some((_, ups, _)) => ups.iter().any(|u| dec_member(&mut &u[..]).map(|m| m.id() == own && !matches!(m.state(), foca::State::Alive)).unwrap_or(true)),
                None => true, // partially parseable: some updates may have been applied
            }
        }
        _ => false,
    }
}

pub fn c08(seed: u64, budget: u64) -> FOut {
    let mut out = FOut::default();
    out.rule = "seeded single-instance histories (300 calls: structured and corrupted datagrams over a small identity/incarnation domain with address conflicts, own timers in any order, every API call incl. change_identity / leave / reuse_down_identity) on the real crate; a set S is maintained from MemberUp / MemberDown / Rename(a,b: replace a by b if present) alone and after EVERY call S must equal the ids of Foca::iter_members() and |S| = num_members(); MemberUp for a member in S / MemberDown for one not in S is a hit; a mode {Idle,Active,Defunct} is maintained from Active / Idle / Defunct / Rejoin (and the API calls that change identity) alone: Active only from Idle with S non-empty at that point of the effect sequence, Idle only from Active with S empty, at the end of every call Active implies S non-empty and the mode agrees with the hook's connection_state; Defunct / Rejoin only in calls whose input mentions the own identity as Suspect/Down, is a TurnUndead or is leave_cluster, and always (Rejoin or Defunct) when a member held Down sends a TurnUndead to the current identity - also when already defunct; Rejoin(n) iff the identity changed in a call other than change_identity, n is the new identity and wins against the old one; after Defunct no Active until an identity change; a table (renew kinds x own incarnation x Suspect at own / MAX-1 / MAX or Down told about the own identity): irrefutable news ends in exactly one Defunct (identity kept, defunct) or one Rejoin(n) (n the new, winning identity), refutable news in neither; a twin instance with the same seed driven through AccumulatingRuntime must return the same results and yield the same sends, timers and notifications in the same order (per queue) after every call. distinct = distinct (input kind, notification multiset) pairs".into();
    crate::falsify::stale_turn_undead(seed, &mut out, "C08:rejoin-or-defunct-without-being-told-down");
    let mut total_calls = 0u64;
    let mut note_calls = 0u64;
    let mut idle_nonempty = 0u64;
    // 'Defunct or Rejoin when and only when the instance learns its identity is Down or can no longer
    // refute a suspicion': a table over renew kinds x own incarnation x news about the own identity
    for k in 0..4u8 {
        for bumps in [0u16, 1, 3] {
            for (ustate, uinc_sel) in [(1u8, 0u8), (1, 1), (1, 2), (2, 0), (2, 2)] {
                // uinc_sel: 0 = own incarnation (refutable when Suspect), 1 = MAX-1 (refutable), 2 = MAX
                let own = VId { a: 9, g: 1, k, pad: 0 };
                let mut inst = Inst::new(own, &crate::falsify::big_cfg(), seed ^ 0xC08, 0, 255);
                let mut rec = Rec(vec![]);
                let _ = call(&mut inst.foca, &Input::ApplyMany(vec![MMember { id: VId { a: 2, g: 0, k: 0, pad: 0 }, inc: 0, state: 0 }], false), &mut rec);
                for i in 0..bumps {
                    let _ = call(&mut inst.foca, &Input::ApplyMany(vec![MMember { id: own, inc: i, state: 1 }], false), &mut rec);
                }
                let pre = inst.snapshot();
                let uinc: u16 = match uinc_sel { 0 => pre.incarnation as u16, 1 => 65534, _ => 65535 };
                let mut rec = Rec(vec![]);
                let input = Input::ApplyMany(vec![MMember { id: own, inc: uinc, state: ustate }], false);
                let r = catch_unwind(AssertUnwindSafe(|| call(&mut inst.foca, &input, &mut rec)));
                total_calls += 1;
                if r.is_err() {
                    continue; // panics are C06's business
                }
                let post = inst.snapshot();
                let irrefutable = ustate == 2 || uinc == 65535;
                let defunct = rec.0.iter().filter(|e| matches!(e, Eff::Notify(MNote::Defunct))).count();
                let rejoin: Vec<VId> = rec.0.iter().filter_map(|e| if let Eff::Notify(MNote::Rejoin(n)) = e { Some(*n) } else { None }).collect();
                let row = format!("renew kind {k}, own incarnation {}, told {} at incarnation {uinc}: notifications {:?}, identity {:?} -> {:?}", pre.incarnation,
                    if ustate == 1 { "Suspect" } else { "Down" }, rec.0.iter().filter(|e| matches!(e, Eff::Notify(_))).collect::<Vec<_>>(), pre.identity, post.identity);
                out.distinct.insert(hash_of(&("table", k, bumps, ustate, uinc_sel)));
                if irrefutable {
                    use foca::Identity;
                    let ok = (defunct == 1 && rejoin.is_empty() && post.identity == pre.identity && post.conn == 2)
                        || (defunct == 0 && rejoin.len() == 1 && rejoin[0] == post.identity && post.identity != pre.identity && post.identity.win_addr_conflict(&pre.identity));
                    if !ok {
                        out.hit("C08:irrefutable-news-without-defunct-or-rejoin", J::s(row));
                    }
                } else if defunct + rejoin.len() != 0 || post.identity != pre.identity {
                    out.hit("C08:defunct-or-rejoin-on-refutable-news", J::s(row));
                }
            }
        }
    }
    for h in 0..budget {
        let hseed = seed.wrapping_mul(104729).wrapping_add(h);
        let mut g = G::new(hseed);
        let mut cfg = gen_cfg(&mut g);
        if cfg.max_packet_size < 64 {
            cfg.max_packet_size = 200;
        }
        let id = VId { a: 9, g: 1 + g.below(2) as u16, k: g.below(4) as u8, pad: 0 };
        let (iseed, hm, hk) = (g.next(), g.below(6) as u8, g.below(256) as u8);
        let mut inst = Inst::new(id, &cfg, iseed, hm, hk);
        let mut twin = Inst::new(id, &cfg, iseed, hm, hk);
        let mut acc: AccumulatingRuntime<VId> = AccumulatingRuntime::new();
        let mut pending: Vec<(u128, MTimer)> = vec![];
        let mut now: u128 = 0;
        let (pk, plen) = pick_prelude(&mut g);
        let mut set: BTreeSet<VId> = BTreeSet::new();
        let mut mode = Mode::Idle;
        let mut hit = |out: &mut FOut, sig: &str, d: String| out.hit(sig, J::s(format!("history seed {hseed}: {d}")));
        for stepno in 0..300 + plen {
            let pre = inst.snapshot();
            let input = match prelude_input(pk, stepno, plen, &pre) {
                Some(i) => i,
                None => gen_input(&mut g, &pre, &mut pending, &cfg),
            };
            if let Input::Timer(_) = &input {
                now += 50 * MS;
            }
            let mut rec = Rec(vec![]);
            let r1 = catch_unwind(AssertUnwindSafe(|| call(&mut inst.foca, &input, &mut rec)));
            let r2 = catch_unwind(AssertUnwindSafe(|| call(&mut twin.foca, &input, &mut acc)));
            let (Ok(o1), Ok(o2)) = (r1, r2) else { break }; // panics are C06's business
            total_calls += 1;
            let effs = rec.0;
            for e in &effs {
                if let Eff::Submit(t, after) = e {
                    pending.push((now + after, t.clone()));
                }
            }
            // (c) AccumulatingRuntime
            if o1 != o2 {
                hit(&mut out, "C08:accumulating-runtime-result-differs", format!("step {stepno} {input:?}: {o1:?} vs {o2:?}"));
            }
            let mut sends = vec![];
            while let Some((to, data)) = acc.to_send() {
                sends.push(Eff::Send(to, data.to_vec()));
            }
            let mut timers = vec![];
            while let Some((after, t)) = acc.to_schedule() {
                timers.push(Eff::Submit(MTimer::from(&t), after.as_nanos()));
            }
            let mut notes = vec![];
            while let Some(n) = acc.to_notify() {
                notes.push(Eff::Notify(MNote::from(&n)));
            }
            let pick = |f: fn(&Eff) -> bool| -> Vec<Eff> { effs.iter().filter(|e| f(e)).cloned().collect() };
            if sends != pick(|e| matches!(e, Eff::Send(..))) || timers != pick(|e| matches!(e, Eff::Submit(..))) || notes != pick(|e| matches!(e, Eff::Notify(..))) {
                hit(&mut out, "C08:accumulating-runtime-effects-differ", format!("step {stepno} {input:?}: direct {effs:?} vs queued {sends:?} {timers:?} {notes:?}"));
            }
            // (a) + (b): replay the notification stream
            let own_before = pre.identity;
            let mut rejoined: Option<VId> = None;
            let mut kinds: Vec<u8> = vec![];
            for e in &effs {
                let Eff::Notify(n) = e else { continue };
                match n {
                    MNote::Up(x) => {
                        kinds.push(0);
                        if !set.insert(*x) {
                            hit(&mut out, "C08:member-up-for-member-already-up", format!("step {stepno} {input:?}: {x:?}; effects {effs:?}"));
                        }
                    }
                    MNote::Down(x) => {
                        kinds.push(1);
                        if !set.remove(x) {
                            hit(&mut out, "C08:member-down-for-member-not-up", format!("step {stepno} {input:?}: {x:?}; effects {effs:?}"));
                        }
                    }
                    MNote::Rename(a, b) => {
                        kinds.push(2);
                        if set.remove(a) && !set.insert(*b) {
                            hit(&mut out, "C08:rename-onto-member-already-up", format!("step {stepno} {input:?}: {a:?}->{b:?}"));
                        }
                    }
                    MNote::Active => {
                        kinds.push(3);
                        if mode != Mode::Idle {
                            hit(&mut out, "C08:active-not-from-idle", format!("step {stepno} {input:?}: mode {mode:?}; effects {effs:?}"));
                        }
                        if set.is_empty() {
                            hit(&mut out, "C08:active-without-active-member", format!("step {stepno} {input:?}; effects {effs:?}"));
                        }
                        mode = Mode::Active;
                    }
                    MNote::Idle => {
                        kinds.push(4);
                        if mode != Mode::Active {
                            hit(&mut out, "C08:idle-not-from-active", format!("step {stepno} {input:?}: mode {mode:?}; effects {effs:?}"));
                        }
                        if !set.is_empty() {
                            hit(&mut out, "C08:idle-with-active-members", format!("step {stepno} {input:?}: {set:?}; effects {effs:?}"));
                        }
                        mode = Mode::Idle;
                    }
                    MNote::Defunct => {
                        kinds.push(5);
                        if !mentions_own_death(&input, &own_before) {
                            hit(&mut out, "C08:defunct-without-cause", format!("step {stepno} {input:?}"));
                        }
                        mode = Mode::Defunct;
                    }
                    MNote::Rejoin(n) => {
                        kinds.push(6);
                        if !mentions_own_death(&input, &own_before) {
                            hit(&mut out, "C08:rejoin-without-cause", format!("step {stepno} {input:?}"));
                        }
                        rejoined = Some(*n);
                        mode = Mode::Idle;
                    }
                }
            }
            // the 'when' direction in the one situation that needs no model: a TurnUndead addressed to the
            // current identity from a member held Down (so its payload is discarded but the TurnUndead is
            // honoured) must end in Rejoin or Defunct - also when the instance is already defunct
            if let Input::Data(b) = &input {
                if let Ok(hd) = dec_header(&mut &b[..]) {
                    let from_down = pre.members.iter().any(|m| m.id == hd.src && m.state == 2);
                    if matches!(hd.message, foca::Message::TurnUndead) && hd.dst == own_before && hd.src.a != own_before.a
                        && b.len() as u128 <= pre.cfg.max_packet_size && split_datagram(b).is_some() && from_down
                        && matches!(o1, Outcome::Done)
                        && !effs.iter().any(|e| matches!(e, Eff::Notify(MNote::Defunct) | Eff::Notify(MNote::Rejoin(_))))
                    {
                        hit(&mut out, "C08:told-down-but-neither-rejoin-nor-defunct", format!("step {stepno} {input:?}: conn {} effects {effs:?}", pre.conn));
                    }
                }
            }
            if !kinds.is_empty() {
                note_calls += 1;
                kinds.sort();
                out.distinct.insert(hash_of(&(input.kind(), kinds)));
            }
            // silent mode changes through the API
            let own_after = *inst.foca.identity();
            match &input {
                Input::ChangeIdentity(_) | Input::ReuseDown if matches!(o1, Outcome::Done) => {
                    // change_identity / reuse_down_identity restart the life cycle: whatever was notified
                    // during the call (Active after re-connecting) already moved the mode from Idle
                    if !effs.iter().any(|e| matches!(e, Eff::Notify(MNote::Active))) {
                        mode = Mode::Idle;
                    }
                }
                _ => {}
            }
            if !matches!(input, Input::ChangeIdentity(_)) {
                match (own_after != own_before, rejoined) {
                    (true, Some(n)) => {
                        if n != own_after || !own_after.win_addr_conflict(&own_before) || own_after.a != own_before.a {
                            hit(&mut out, "C08:rejoin-identity-wrong", format!("step {stepno} {input:?}: {own_before:?} -> {own_after:?}, notified {n:?}"));
                        }
                    }
                    (true, None) => hit(&mut out, "C08:identity-switched-without-rejoin", format!("step {stepno} {input:?}: {own_before:?} -> {own_after:?}")),
                    (false, Some(n)) => hit(&mut out, "C08:rejoin-without-identity-switch", format!("step {stepno} {input:?}: {n:?}")),
                    (false, None) => {}
                }
            }
            // end-of-call comparisons with the public API
            let members: BTreeSet<VId> = inst.foca.iter_members().map(|m| *m.id()).collect();
            let n_pub = inst.foca.num_members();
            if members != set || n_pub != set.len() || inst.foca.iter_members().count() != n_pub {
                hit(&mut out, "C08:replayed-set-differs-from-iter-members", format!("step {stepno} {input:?}: replayed {set:?} vs iter_members {members:?} num_members {n_pub}; effects {effs:?}"));
                set = members.clone(); // resynchronise: report each divergence once
            }
            if mode == Mode::Active && set.is_empty() {
                hit(&mut out, "C08:still-active-after-last-member-disappeared", format!("step {stepno} {input:?}; effects {effs:?}"));
            }
            if mode == Mode::Idle && !set.is_empty() {
                idle_nonempty += 1;
            }
            let post = inst.snapshot();
            let conn_mode = match post.conn { 0 => Mode::Idle, 1 => Mode::Active, _ => Mode::Defunct };
            if conn_mode != mode {
                hit(&mut out, "C08:mode-from-notifications-differs-from-connection-state", format!("step {stepno} {input:?}: notifications say {mode:?}, connection_state {conn_mode:?}; effects {effs:?}"));
                mode = conn_mode;
            }
            if out.hits.len() >= 20 {
                break;
            }
        }
        out.runs += 1;
        if out.samples.len() < 2 {
            out.samples.push(J::s(format!("history seed {hseed}: final mode {mode:?}, replayed set {set:?}")));
        }
    }
    out.extra.push(("calls".into(), J::n(total_calls)));
    out.extra.push(("calls_with_notifications".into(), J::n(note_calls)));
    out.extra.push(("call_boundaries_idle_with_members".into(), J::n(idle_nonempty)));
    out
}
