//! Discrete-event simulation of a cluster of real Foca instances (one per address),
//! with per-message latencies, exactly-once timers, crashes, a single loss and partitions.
//! Every instance step can optionally go through the refinement check.
use std::cmp::Reverse;
use std::collections::{BTreeSet, BinaryHeap};

use crate::gen::{G, MS};
use crate::model::*;
use crate::state::*;
use crate::vid::*;

#[derive(Clone, Debug, PartialEq, Eq, PartialOrd, Ord)]
pub enum Ev {
    Deliver { to: u16, data: Vec<u8>, from: u16 },
    Timer { node: usize, timer_nums: Vec<u128> },
    Api { node: usize, what: u8, arg: [u128; 4] }, // 0 announce(arg id) 1 leave 2 crash 3 add_broadcast(arg len, packed bytes)
}

pub struct Node {
    pub inst: Inst,
    pub crashed: bool,
    pub notes: Vec<(u128, MNote)>,
    pub errors: Vec<(u128, String)>,
}

pub struct Sim {
    pub nodes: Vec<Node>,
    pub now: u128,
    pub seq: u64,
    pub queue: BinaryHeap<Reverse<(u128, u64, Ev)>>,
    pub g: G,
    pub lat_min: u128,
    pub lat_max: u128,
    pub sent: u64,
    pub drop_index: Option<u64>,
    pub dropped: Option<(u16, u16, String)>,
    pub cut: Option<BTreeSet<u16>>, // addresses on side A while partitioned
    pub model: Option<Model>,
    pub mismatches: Vec<String>,
    pub steps: u64,
    pub timers_frozen: bool,
    pub kinds_sent: std::collections::BTreeMap<&'static str, u64>,
}

fn timer_to_nums(t: &MTimer) -> Vec<u128> {
    let mut v = vec![];
    t.nums(&mut v);
    v
}
fn timer_from_nums(v: &[u128]) -> MTimer {
    let mut r = Rd { v, p: 0 };
    r.timer().unwrap()
}

pub fn kind_of(b: &[u8]) -> &'static str {
    use foca::Message::*;
    match dec_header(&mut &b[..]).map(|h| h.message) {
        Ok(Ping(_)) => "Ping",
        Ok(Ack(_)) => "Ack",
        Ok(PingReq { .. }) => "PingReq",
        Ok(IndirectPing { .. }) => "IndirectPing",
        Ok(IndirectAck { .. }) => "IndirectAck",
        Ok(ForwardedAck { .. }) => "ForwardedAck",
        Ok(Announce) => "Announce",
        Ok(Feed) => "Feed",
        Ok(Gossip) => "Gossip",
        Ok(Broadcast) => "Broadcast",
        Ok(TurnUndead) => "TurnUndead",
        Err(_) => "?",
    }
}

impl Sim {
    /// node i has address i+1
    pub fn new(n: usize, cfg: &MCfg, seed: u64, renew_kind: u8, with_model: bool) -> Sim {
        let mut g = G::new(seed);
        let nodes = (0..n)
            .map(|i| Node {
                inst: Inst::new(VId::new(i as u16 + 1, 0, renew_kind, 0), cfg, g.next(), 0, 255),
                crashed: false,
                notes: vec![],
                errors: vec![],
            })
            .collect();
        Sim {
            nodes,
            now: 0,
            seq: 0,
            queue: BinaryHeap::new(),
            g,
            lat_min: 1 * MS,
            lat_max: 90 * MS,
            sent: 0,
            drop_index: None,
            dropped: None,
            cut: None,
            model: if with_model { Some(Model::new("/verif/coq/extracted/model_driver")) } else { None },
            mismatches: vec![],
            steps: 0,
            timers_frozen: false,
            kinds_sent: Default::default(),
        }
    }

    pub fn push(&mut self, at: u128, ev: Ev) {
        self.seq += 1;
        self.queue.push(Reverse((at, self.seq, ev)));
    }

    pub fn id_of(&mut self, node: usize) -> VId {
        *self.nodes[node].inst.foca.identity()
    }

    fn route(&mut self, from_node: usize, effs: &[Eff]) {
        for e in effs {
            match e {
                Eff::Send(dst, b) => {
                    let from = from_node as u16 + 1;
                    self.sent += 1;
                    *self.kinds_sent.entry(kind_of(b)).or_default() += 1;
                    if self.drop_index == Some(self.sent) {
                        self.dropped = Some((from, dst.a, kind_of(b).to_string()));
                        continue;
                    }
                    if let Some(side) = &self.cut {
                        if side.contains(&from) != side.contains(&dst.a) {
                            continue;
                        }
                    }
                    let lat = self.lat_min + self.g.below((self.lat_max - self.lat_min + 1) as u64) as u128;
                    self.push(self.now + lat, Ev::Deliver { to: dst.a, data: b.clone(), from });
                }
                Eff::Submit(t, after) => {
                    if !self.timers_frozen {
                        self.push(self.now + after, Ev::Timer { node: from_node, timer_nums: timer_to_nums(t) });
                    }
                }
                Eff::Notify(n) => self.nodes[from_node].notes.push((self.now, n.clone())),
            }
        }
    }

    pub fn call(&mut self, node: usize, input: Input) -> Outcome {
        if self.nodes[node].crashed {
            return Outcome::Done;
        }
        self.steps += 1;
        let rep = checked_step(&mut self.nodes[node].inst, &input, self.model.as_mut());
        if !rep.diffs.is_empty() && self.mismatches.len() < 5 {
            self.mismatches.push(format!("node {node} {:?}: {:?}", input.kind(), rep.diffs));
        }
        if let Outcome::Failed(e) = rep.outcome {
            self.nodes[node].errors.push((self.now, format!("{} on {}", ERR_NAMES[e as usize], input.kind())));
        }
        if let Outcome::Panicked(_) = rep.outcome {
            self.nodes[node].errors.push((self.now, format!("PANIC on {}", input.kind())));
            self.nodes[node].crashed = true;
        }
        let effs = rep.effects.clone();
        self.route(node, &effs);
        rep.outcome
    }

    /// process the next event; false when the queue is empty or `until` is reached
    pub fn step(&mut self, until: u128) -> bool {
        let Some(Reverse((at, _, _))) = self.queue.peek() else { return false };
        if *at > until {
            return false;
        }
        let Reverse((at, _, ev)) = self.queue.pop().unwrap();
        self.now = at;
        match ev {
            Ev::Deliver { to, data, .. } => {
                let node = to as usize - 1;
                if node < self.nodes.len() {
                    self.call(node, Input::Data(data));
                }
            }
            Ev::Timer { node, timer_nums } => {
                self.call(node, Input::Timer(timer_from_nums(&timer_nums)));
            }
            Ev::Api { node, what, arg } => match what {
                0 => {
                    let dst = VId::new(arg[0] as u16, arg[1] as u16, arg[2] as u8, arg[3] as u8);
                    self.call(node, Input::Announce(dst));
                }
                1 => {
                    self.call(node, Input::Leave);
                }
                3 => {
                    // add_broadcast: arg[0] = length, arg[1] = the bytes packed little-endian
                    let item: Vec<u8> = (0..arg[0] as usize).map(|i| ((arg[1] >> (8 * i)) & 255) as u8).collect();
                    self.call(node, Input::AddBroadcast(item));
                }
                _ => self.nodes[node].crashed = true,
            },
        }
        true
    }

    /// due times of the forget-timers (RemoveDown) currently pending anywhere
    pub fn pending_remove_down_times(&self) -> Vec<u128> {
        self.queue
            .iter()
            .filter_map(|std::cmp::Reverse((at, _, ev))| match ev {
                Ev::Timer { timer_nums, .. } if matches!(timer_from_nums(timer_nums), MTimer::RemoveDown(_)) => Some(*at),
                _ => None,
            })
            .collect()
    }

    pub fn run_until(&mut self, until: u128) {
        while self.step(until) {}
        if self.now < until {
            self.now = until;
        }
    }

    /// addresses node `i` lists as active, with states
    pub fn view(&mut self, i: usize) -> Vec<MMember> {
        self.nodes[i].inst.snapshot().members
    }

    /// every live node lists exactly every other live node as active (under its current identity)
    pub fn fully_connected(&mut self) -> bool {
        let live: Vec<usize> = (0..self.nodes.len()).filter(|i| !self.nodes[*i].crashed).collect();
        let ids: Vec<VId> = live.iter().map(|i| *self.nodes[*i].inst.foca.identity()).collect();
        for (k, i) in live.iter().enumerate() {
            let v = self.view(*i);
            let act: BTreeSet<VId> = v.iter().filter(|m| m.active()).map(|m| m.id).collect();
            let want: BTreeSet<VId> = ids.iter().enumerate().filter(|(j, _)| *j != k).map(|(_, x)| *x).collect();
            if act != want {
                return false;
            }
        }
        true
    }

    /// half of the formed clusters start with members that already refuted 0..2 suspicions each
    /// (own incarnations differ from one another and from 0), as after earlier lost datagrams
    fn incarnations_for_formation(&mut self) -> Vec<u16> {
        let n = self.nodes.len();
        let vary = self.g.chance(50);
        let mut incs = vec![];
        for i in 0..n {
            if vary {
                for _ in 0..self.g.below(3) {
                    let id = self.id_of(i);
                    let inc = self.nodes[i].inst.snapshot().incarnation as u16;
                    self.now = 0;
                    self.call(i, Input::ApplyMany(vec![MMember { id, inc, state: 1 }], false));
                }
            }
            incs.push(self.nodes[i].inst.snapshot().incarnation as u16);
        }
        incs
    }

    /// form a cluster quickly: everybody learns everybody through apply_many, then settle
    pub fn form_aligned(&mut self) {
        let n = self.nodes.len();
        let incs = self.incarnations_for_formation();
        for i in 0..n {
            let others: Vec<MMember> =
                (0..n).filter(|j| *j != i).map(|j| MMember { id: VId::new(j as u16 + 1, 0, self.nodes[j].inst.foca.identity().k, 0), inc: incs[j], state: 0 }).collect();
            self.now = 0;
            self.call(i, Input::ApplyMany(others, false));
        }
    }

    pub fn form_instantly(&mut self) {
        let n = self.nodes.len();
        let incs = self.incarnations_for_formation();
        for i in 0..n {
            let others: Vec<MMember> =
                (0..n).filter(|j| *j != i).map(|j| MMember { id: VId::new(j as u16 + 1, 0, self.nodes[j].inst.foca.identity().k, 0), inc: incs[j], state: 0 }).collect();
            // stagger the start of the probe loops
            let at = self.g.below(1000) as u128 * MS;
            self.now = at;
            self.call(i, Input::ApplyMany(others, false));
        }
        self.now = 0;
    }
}
