//! C17 with an identity whose equality is not structural: `renewable` is metadata that PartialEq
//! ignores (the crate's documentation allows this and its own test identity does it).  A
//! change_identity call rejected with SameIdentity must leave the stored identity untouched,
//! metadata included.
use crate::falsify::{big_cfg, FOut};
use crate::json::J;
use crate::vid::VRng;
use foca::{AccumulatingRuntime, BincodeCodec, Foca, Identity, NoCustomBroadcast};

#[derive(Clone, Debug, serde::Serialize, serde::Deserialize)]
pub struct EId {
    pub a: u16,
    pub bump: u8,
    pub renewable: bool,
}
impl PartialEq for EId {
    fn eq(&self, o: &Self) -> bool {
        self.a == o.a && self.bump == o.bump
    }
}
impl Eq for EId {}
impl Identity for EId {
    type Addr = u16;
    fn renew(&self) -> Option<Self> {
        if self.renewable {
            Some(EId { bump: self.bump.wrapping_add(1), ..self.clone() })
        } else {
            None
        }
    }
    fn addr(&self) -> u16 {
        self.a
    }
    fn win_addr_conflict(&self, adv: &Self) -> bool {
        self.bump > adv.bump
    }
}

pub fn check(seed: u64, out: &mut FOut) {
    for renewable in [false, true] {
        for connected in [false, true] {
            let own = EId { a: 1, bump: 0, renewable };
            let mut f: Foca<EId, _, _, NoCustomBroadcast> =
                Foca::new(own.clone(), big_cfg().to_config(), VRng::new(seed ^ 0xE1D), BincodeCodec(bincode::config::standard()));
            let mut rt: AccumulatingRuntime<EId> = AccumulatingRuntime::new();
            if connected {
                let _ = f.apply_many(core::iter::once(foca::Member::alive(EId { a: 2, bump: 0, renewable: false })), false, &mut rt);
            }
            let mut rt: AccumulatingRuntime<EId> = AccumulatingRuntime::new();
            let before = format!("{:?}", f.identity());
            let arg = EId { a: 1, bump: 0, renewable: !renewable };
            let r = f.change_identity(arg.clone(), &mut rt);
            let after = format!("{:?}", f.identity());
            out.runs += 1;
            let quiet = rt.to_send().is_none() && rt.to_schedule().is_none() && rt.to_notify().is_none();
            if !matches!(r, Err(foca::Error::SameIdentity)) {
                continue; // not the rejected case
            }
            if before != after || !quiet {
                out.hit(
                    "C17:rejected-input-leaves-trace",
                    J::s(format!("change_identity({arg:?}) returned SameIdentity but the stored identity went from {before} to {after} (effects emitted: {})", !quiet)),
                );
            }
        }
    }
}
