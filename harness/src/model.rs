//! The per-step refinement check: run one call on the real crate and on the
//! extracted Coq model from the same snapshot, answer the model's oracle
//! questions with the real `rand` algorithms on a clone of the instance rng,
//! compare everything.
use std::io::{BufRead, BufReader, Write};
use std::panic::{catch_unwind, AssertUnwindSafe};
use std::process::{Child, ChildStdin, ChildStdout, Command, Stdio};
use std::time::Duration;

use bytes::Buf;
use foca::{Foca, Message, Notification, Runtime, Timer};
use rand::seq::{IteratorRandom, SliceRandom};
use rand::Rng;

use crate::state::*;
use crate::vid::*;

pub type RealFoca = Foca<VId, VCodec, VRng, VHandler>;

pub struct Rec(pub Vec<Eff>);
impl Runtime<VId> for Rec {
    fn notify(&mut self, n: Notification<'_, VId>) {
        self.0.push(Eff::Notify(MNote::from(&n.to_owned())));
    }
    fn send_to(&mut self, to: VId, data: &[u8]) {
        self.0.push(Eff::Send(to, data.to_vec()));
    }
    fn submit_after(&mut self, event: Timer<VId>, after: Duration) {
        self.0.push(Eff::Submit(MTimer::from(&event), after.as_nanos()));
    }
}

pub struct Model {
    _child: Child,
    stdin: ChildStdin,
    stdout: BufReader<ChildStdout>,
}

fn join(tag: &str, v: &[u128]) -> String {
    let mut s = String::with_capacity(v.len() * 4 + 2);
    s.push_str(tag);
    for x in v {
        s.push(' ');
        s.push_str(&x.to_string());
    }
    s.push('\n');
    s
}

impl Model {
    pub fn new(path: &str) -> Self {
        let mut child = Command::new(path)
            .stdin(Stdio::piped())
            .stdout(Stdio::piped())
            .spawn()
            .unwrap_or_else(|e| panic!("cannot start model driver {path}: {e}"));
        let stdin = child.stdin.take().unwrap();
        let stdout = BufReader::new(child.stdout.take().unwrap());
        Model { _child: child, stdin, stdout }
    }

    /// the model's order key (timer_seq) of a timer
    pub fn timer_seq(&mut self, t: &crate::state::MTimer) -> Result<u128, String> {
        let mut req = vec![];
        t.nums(&mut req);
        self.stdin.write_all(join("T", &req).as_bytes()).map_err(|e| e.to_string())?;
        self.stdin.flush().map_err(|e| e.to_string())?;
        let mut line = String::new();
        self.stdout.read_line(&mut line).map_err(|e| e.to_string())?;
        let mut it = line.split_whitespace();
        match (it.next(), it.next()) {
            (Some("R"), Some(x)) => x.parse::<u128>().map_err(|e| e.to_string()),
            _ => Err(format!("unexpected driver line: {}", line.trim())),
        }
    }

    /// returns (output numbers, oracle answers given)
    pub fn step(
        &mut self,
        req: &[u128],
        mut answer: impl FnMut(u128, u128, u128) -> Vec<u128>,
    ) -> Result<(Vec<u128>, Vec<(Vec<u128>, Vec<u128>)>), String> {
        self.stdin.write_all(join("S", req).as_bytes()).map_err(|e| e.to_string())?;
        self.stdin.flush().map_err(|e| e.to_string())?;
        let mut qa = vec![];
        loop {
            let mut line = String::new();
            let n = self.stdout.read_line(&mut line).map_err(|e| e.to_string())?;
            if n == 0 {
                return Err("model driver closed its output".into());
            }
            let mut it = line.split_whitespace();
            match it.next() {
                Some("Q") => {
                    let q: Vec<u128> = it.map(|x| x.parse().unwrap()).collect();
                    let a = answer(q[0], q[1], q[2]);
                    self.stdin.write_all(join("A", &a).as_bytes()).map_err(|e| e.to_string())?;
                    self.stdin.flush().map_err(|e| e.to_string())?;
                    qa.push((q, a));
                }
                Some("R") => {
                    let r: Vec<u128> = it.map(|x| x.parse().unwrap()).collect();
                    return Ok((r, qa));
                }
                Some("E") => return Err(format!("model driver error: {}", line.trim())),
                _ => return Err(format!("unexpected driver line: {}", line.trim())),
            }
        }
    }
}

pub struct Inst {
    pub foca: RealFoca,
    pub poisoned: bool,
}

impl Inst {
    pub fn new(id: VId, cfg: &MCfg, seed: u64, mode: u8, mask: u8) -> Self {
        let h = VHandler { mode, mask, seen: vec![], log: vec![] };
        Inst {
            foca: Foca::with_custom_broadcast(id, cfg.to_config(), VRng::new(seed), VCodec, h),
            poisoned: false,
        }
    }
    pub fn snapshot(&mut self) -> MState {
        let s = self.foca.verif_snapshot();
        let h = self.foca.verif_handler().clone();
        MState::from_snapshot(&s, &h)
    }
}

/// run one call on the real instance
pub fn run_real(f: &mut RealFoca, input: &Input) -> (Vec<Eff>, Outcome) {
    let mut rt = Rec(vec![]);
    let r = catch_unwind(AssertUnwindSafe(|| -> Outcome {
        let unit = |r: Result<(), foca::Error>| match r {
            Ok(()) => Outcome::Done,
            Err(e) => Outcome::Failed(err_code(&e)),
        };
        match input {
            Input::Data(b) => unit(f.handle_data(b, &mut rt)),
            Input::Timer(t) => unit(f.handle_timer(t.to_timer(), &mut rt)),
            Input::ApplyMany(l, b) => unit(f.apply_many(l.iter().map(|m| m.to_member()), *b, &mut rt)),
            Input::Announce(d) => unit(f.announce(*d, &mut rt)),
            Input::Gossip => unit(f.gossip(&mut rt)),
            Input::Broadcast => unit(f.broadcast(&mut rt)),
            Input::Leave => unit(f.leave_cluster(&mut rt)),
            Input::ChangeIdentity(d) => unit(f.change_identity(*d, &mut rt)),
            Input::ReuseDown => unit(f.reuse_down_identity()),
            Input::SetConfig(c) => unit(f.set_config(c.to_config())),
            Input::AddBroadcast(b) => match f.add_broadcast(b) {
                Ok(x) => Outcome::DoneBool(x),
                Err(e) => Outcome::Failed(err_code(&e)),
            },
        }
    }));
    match r {
        Ok(o) => (rt.0, o),
        Err(_) => (rt.0, Outcome::Panicked(255)),
    }
}

/// split a datagram produced by Foca into (header, update items, custom items);
/// None when it does not follow the documented layout.
pub fn split_datagram(b: &[u8]) -> Option<(foca::Header<VId>, Vec<Vec<u8>>, Vec<Vec<u8>>)> {
    let mut buf = b;
    let h = dec_header(&mut buf).ok()?;
    let mut ups = vec![];
    let piggy = !matches!(h.message, Message::Announce | Message::TurnUndead | Message::Broadcast);
    if piggy && buf.remaining() >= 2 {
        let n = buf.get_u16();
        for _ in 0..n {
            let before = buf;
            dec_member(&mut buf).ok()?;
            ups.push(before[..before.len() - buf.len()].to_vec());
        }
    }
    let mut cus = vec![];
    while buf.remaining() > 2 {
        let l = buf.get_u16() as usize;
        if l == 0 || buf.remaining() < l {
            return None;
        }
        cus.push(buf[..l].to_vec());
        buf.advance(l);
    }
    if buf.has_remaining() {
        return None;
    }
    Some((h, ups, cus))
}

#[derive(Clone, Debug)]
pub struct StepReport {
    pub input: Input,
    pub pre: MState,
    pub post: Option<MState>,
    pub effects: Vec<Eff>,
    pub outcome: Outcome,
    pub model_effects: Vec<Eff>,
    pub model_outcome: Option<Outcome>,
    pub request: Vec<u128>,
    pub answers: Vec<(Vec<u128>, Vec<u128>)>,
    pub model_output: Vec<u128>,
    /// component names in which model and implementation disagree (empty = agree)
    pub diffs: Vec<String>,
    pub handler_log: Vec<(Vec<u8>, Option<VId>)>,
}

/// One refinement-checked call.
pub fn checked_step(inst: &mut Inst, input: &Input, model: Option<&mut Model>) -> StepReport {
    let pre = inst.snapshot();
    inst.foca.verif_handler().log.clear();
    let rng0 = inst.foca.verif_rng().clone();
    let (effects, outcome) = run_real(&mut inst.foca, input);
    let panicked = matches!(outcome, Outcome::Panicked(_));
    if panicked {
        inst.poisoned = true;
    }
    let handler_log = inst.foca.verif_handler().log.clone();
    let post = if panicked { None } else { Some(inst.snapshot()) };
    let rng1 = inst.foca.verif_rng().clone();

    let mut rep = StepReport {
        input: input.clone(),
        pre: pre.clone(),
        post: post.clone(),
        effects: effects.clone(),
        outcome: outcome.clone(),
        model_effects: vec![],
        model_outcome: None,
        request: vec![],
        answers: vec![],
        model_output: vec![],
        diffs: vec![],
        handler_log,
    };

    // public API observations must agree with the hook
    if let Some(p) = &post {
        let pubm: Vec<MMember> = inst.foca.iter_membership_state().map(MMember::from).collect();
        if pubm != p.members {
            rep.diffs.push("hook.members".into());
        }
        if inst.foca.num_members() as u128 != p.num_active
            || inst.foca.iter_members().count() as u128 != p.members.iter().filter(|m| m.active()).count() as u128
        {
            rep.diffs.push("hook.num_active".into());
        }
        if inst.foca.updates_backlog() != p.updates.len()
            || inst.foca.custom_broadcast_backlog() != p.customs.len()
        {
            rep.diffs.push("hook.backlog".into());
        }
        if *inst.foca.identity() != p.identity {
            rep.diffs.push("hook.identity".into());
        }
    }

    let Some(model) = model else { return rep };

    let mut req = vec![];
    pre.nums(&mut req);
    input.nums(&mut req);
    rep.request = req.clone();
    let mut rngc = rng0;
    let sends: Vec<&Vec<u8>> = effects
        .iter()
        .filter_map(|e| if let Eff::Send(_, b) = e { Some(b) } else { None })
        .collect();
    let res = model.step(&req, |kind, a, b| match kind {
        0 => {
            let mut v: Vec<u128> = (0..a).collect();
            v.shuffle(&mut rngc);
            v
        }
        1 => vec![(0..a as usize).choose(&mut rngc).unwrap_or(0) as u128],
        2 => {
            if a == 0 {
                vec![0]
            } else {
                vec![rngc.random_range(0..a as usize) as u128]
            }
        }
        _ => {
            // tie: items as they appear in the real datagram number b
            let mut out = vec![];
            if let Some(d) = sends.get(b as usize) {
                if let Some((_h, ups, cus)) = split_datagram(d) {
                    for it in if a == 0 { ups } else { cus } {
                        out.push(it.len() as u128);
                        out.extend(it.iter().map(|x| *x as u128));
                    }
                }
            }
            out
        }
    });
    let (outnums, answers) = match res {
        Ok(x) => x,
        Err(e) => {
            rep.diffs.push(format!("model_error:{e}"));
            return rep;
        }
    };
    rep.answers = answers;
    rep.model_output = outnums.clone();
    let mo = match parse_model_out(&outnums) {
        Ok(m) => m,
        Err(e) => {
            rep.diffs.push(format!("model_error:{e}"));
            return rep;
        }
    };
    rep.model_effects = mo.effects.clone();
    rep.model_outcome = Some(mo.outcome.clone());

    // result
    match (&outcome, &mo.outcome) {
        (Outcome::Panicked(_), Outcome::Panicked(_)) => {}
        (Outcome::Panicked(_), _) | (_, Outcome::Panicked(_)) => rep.diffs.push("panic".into()),
        (a, b) if a != b => rep.diffs.push("result".into()),
        _ => {}
    }
    // effects
    if effects != mo.effects {
        let notes = |v: &Vec<Eff>| -> Vec<Eff> { v.iter().filter(|e| matches!(e, Eff::Notify(_))).cloned().collect() };
        let timers = |v: &Vec<Eff>| -> Vec<Eff> { v.iter().filter(|e| matches!(e, Eff::Submit(..))).cloned().collect() };
        let snd = |v: &Vec<Eff>| -> Vec<(VId, Vec<u8>)> {
            v.iter().filter_map(|e| if let Eff::Send(d, b) = e { Some((*d, b.clone())) } else { None }).collect()
        };
        let mut any = false;
        if notes(&effects) != notes(&mo.effects) {
            rep.diffs.push("notes".into());
            any = true;
        }
        if timers(&effects) != timers(&mo.effects) {
            rep.diffs.push("timers".into());
            any = true;
        }
        let (sa, sb) = (snd(&effects), snd(&mo.effects));
        if sa != sb {
            any = true;
            if sa.len() != sb.len() {
                rep.diffs.push("sends.count".into());
            }
            if sa.iter().map(|x| x.0).collect::<Vec<_>>() != sb.iter().map(|x| x.0).collect::<Vec<_>>() {
                rep.diffs.push("sends.dst".into());
            }
            for (x, y) in sa.iter().zip(sb.iter()) {
                if x.1 != y.1 {
                    match (split_datagram(&x.1), split_datagram(&y.1)) {
                        (Some((h1, u1, c1)), Some((h2, u2, c2))) => {
                            if h1 != h2 {
                                rep.diffs.push("sends.bytes.header".into());
                            }
                            if u1 != u2 {
                                rep.diffs.push("sends.bytes.updates".into());
                            }
                            if c1 != c2 {
                                rep.diffs.push("sends.bytes.custom".into());
                            }
                        }
                        _ => rep.diffs.push("sends.bytes.malformed".into()),
                    }
                }
            }
        }
        if !any {
            rep.diffs.push("effects.order".into());
        }
    }
    // state (not compared after a panic: the instance is poisoned)
    if let Some(p) = &post {
        for d in p.diff(&mo.state) {
            rep.diffs.push(d.into());
        }
        if rngc != rng1 {
            rep.diffs.push("rng_use".into());
        }
    }
    rep.diffs.sort();
    rep.diffs.dedup();
    rep
}
