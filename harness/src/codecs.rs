//! C20: differential check of the bundled BincodeCodec / PostcardCodec against the Coq wire
//! models (SerdeM.v, run through the extracted driver): values -> bytes, bytes -> values,
//! every buffer size, every truncation, random and mutated bytes; all under catch_unwind.
use std::io::{BufRead, BufReader, Write};
use std::panic::{catch_unwind, AssertUnwindSafe};
use std::process::{Command, Stdio};

use bytes::BufMut;
use foca::{BincodeCodec, Codec, Header, Identity, Member, Message, PostcardCodec, State};
use serde::{Deserialize, Serialize};

use crate::falsify::{hash_of, FOut};
use crate::gen::G;
use crate::json::J;

#[derive(Clone, Copy, Debug, PartialEq, Eq, Serialize, Deserialize)]
pub struct SId {
    pub x8: u8,
    pub x16: u16,
    pub x32: u32,
    pub x64: u64,
}
impl Identity for SId {
    type Addr = u64;
    fn renew(&self) -> Option<Self> {
        None
    }
    fn addr(&self) -> u64 {
        self.x64
    }
    fn win_addr_conflict(&self, adv: &Self) -> bool {
        (self.x32, self.x16, self.x8) > (adv.x32, adv.x16, adv.x8)
    }
}

/// an identity with a length-prefixed field (no wire model: real codecs only)
#[derive(Clone, Debug, PartialEq, Eq, Serialize, Deserialize)]
pub struct HId {
    pub host: String,
    pub port: u16,
}
impl Identity for HId {
    type Addr = String;
    fn renew(&self) -> Option<Self> {
        None
    }
    fn addr(&self) -> String {
        self.host.clone()
    }
    fn win_addr_conflict(&self, adv: &Self) -> bool {
        self.port > adv.port
    }
}

/// run in a CHILD process (harness allocprobe k): hand Foca::handle_data a datagram whose first string length prefix is isize::MAX, with
/// codec k (0 bincode standard, 1 postcard, 2 bincode legacy).  Prints a line if the decoder returns at all.
pub fn alloc_probe(k: u64) -> String {
    let l = isize::MAX as u64;
    let mut inp: Vec<u8> = match k {
        0 => { let mut v = vec![253u8]; v.extend(l.to_le_bytes()); v }
        1 => { let mut v = vec![]; let mut x = l; loop { let b = (x & 0x7f) as u8; x >>= 7; if x == 0 { v.push(b); break; } else { v.push(b | 0x80); } } v }
        _ => l.to_le_bytes().to_vec(),
    };
    inp.extend([b'a', b'b', 0, 1, 0, 0, 0]);
    // through the real entry point: the datagram's header starts with the sender identity, whose first field is the string
    let me = HId { host: "me".into(), port: 1 };
    let r = match k {
        0 => foca::Foca::<HId, _, _, foca::NoCustomBroadcast>::new(me, foca::Config::simple(), crate::vid::VRng::new(1), BincodeCodec(bincode::config::standard())).handle_data(&inp, foca::AccumulatingRuntime::new()).is_ok(),
        1 => foca::Foca::<HId, _, _, foca::NoCustomBroadcast>::new(me, foca::Config::simple(), crate::vid::VRng::new(1), PostcardCodec).handle_data(&inp, foca::AccumulatingRuntime::new()).is_ok(),
        _ => foca::Foca::<HId, _, _, foca::NoCustomBroadcast>::new(me, foca::Config::simple(), crate::vid::VRng::new(1), BincodeCodec(bincode::config::legacy())).handle_data(&inp, foca::AccumulatingRuntime::new()).is_ok(),
    };
    format!("survived ok={r}")
}

/// parent side: the probe must come back with an answer
fn alloc_probe_children(out: &mut FOut, cases: &mut u64) {
    let Ok(exe) = std::env::current_exe() else { return };
    for (k, name) in [(0u64, "bincode(standard)"), (1, "postcard"), (2, "bincode(legacy)")] {
        *cases += 1;
        let res = Command::new(&exe).arg("allocprobe").arg(k.to_string()).stdout(Stdio::piped()).stderr(Stdio::null()).output();
        let survived = matches!(&res, Ok(o) if o.status.success() && String::from_utf8_lossy(&o.stdout).contains("survived"));
        if !survived {
            out.hit(
                "C20:decoder-aborts-on-huge-length-prefix",
                J::s(format!("codec {name}, identity with a String field: Foca::handle_data on a datagram whose first string length prefix is isize::MAX did not return (child process: {:?}); input = the length prefix followed by 'ab' 0 1 0 0 0", res.map(|o| o.status.to_string()))),
            );
        }
    }
}

/// identities carrying a string: round trip with trailing data, every truncation, and LENGTH PREFIXES chosen to
/// overflow (u64::MAX, usize::MAX - k, 2^63, 2^32, 2^31 ...) in every integer encoding the bundled codecs
/// use (LEB128, bincode's marker bytes, fixed little / big endian) - a value or an error, never a panic
fn string_identity_sweep<C: Codec<HId>>(mut codec: C, cname: &str, prealloc: bool, g: &mut G, out: &mut FOut, cases: &mut u64) {
    let host: String = (0..g.below(12)).map(|_| (b'a' + g.below(26) as u8) as char).collect();
    let id = HId { host, port: g.below(65536) as u16 };
    let hdr = Header { src: id.clone(), src_incarnation: gen_u(g, 16) as u16, dst: HId { host: "peer".into(), port: 1 }, message: Message::Ping(g.below(256) as u8) };
    let mem = Member::new(id.clone(), gen_u(g, 16) as u16, State::Suspect);
    for what in 0..2u8 {
        let ctx = format!("codec={cname} identity {id:?} ({})", if what == 0 { "header" } else { "member" });
        let mut full: Vec<u8> = vec![];
        let r = catch_unwind(AssertUnwindSafe(|| if what == 0 { codec.encode_header(&hdr, &mut full).is_ok() } else { codec.encode_member(&mem, &mut full).is_ok() }));
        *cases += 1;
        if !matches!(r, Ok(true)) {
            out.hit("C20:encode-failed-or-panicked", J::s(ctx.clone()));
            continue;
        }
        out.distinct.insert(hash_of(&(cname.to_string(), "string-id", what, full.len())));
        let mut with_tail = full.clone();
        for _ in 0..g.below(6) {
            with_tail.push(g.below(256) as u8);
        }
        let mut cur = &with_tail[..];
        let rt = catch_unwind(AssertUnwindSafe(|| {
            if what == 0 { codec.decode_header(&mut cur).ok().map(|h| h == hdr) } else { codec.decode_member(&mut cur).ok().map(|m| m.id() == mem.id() && m.incarnation() == mem.incarnation() && m.state() == mem.state()) }
        }));
        *cases += 1;
        match rt {
            Ok(Some(true)) if with_tail.len() - cur.len() == full.len() => {}
            other => out.hit("C20:round-trip-failed", J::s(format!("{ctx}: encoded {full:?}, decoded {other:?}, consumed {}", with_tail.len() - cur.len()))),
        }
        let mut inputs: Vec<Vec<u8>> = (0..full.len()).map(|k| full[..k].to_vec()).collect();
        // bincode allocates the announced length before reading (known finding F9: with isize::MAX the allocation
        // fails and the process aborts, and so does any length beyond the memory available - probed in a child
        // process by alloc_probe); in-process such codecs get no crafted length prefixes, only truncations
        let mut lens: Vec<u64> = vec![];
        if !prealloc {
            lens.extend([65536, 255, 251, 250, 1 << 20, u64::MAX, u64::MAX - 1, 1 << 63, (1 << 63) - 1, 1 << 32, (1 << 32) - 1, 1 << 31]);
            for k in 0..24u64 {
                lens.push(u64::MAX - k);
                lens.push((usize::MAX as u64) - k);
            }
        }
        for l in lens {
            let mut leb = vec![];
            let mut v = l;
            loop {
                let b = (v & 0x7f) as u8;
                v >>= 7;
                if v == 0 { leb.push(b); break; } else { leb.push(b | 0x80); }
            }
            let mut marker = vec![253u8];
            marker.extend(l.to_le_bytes());
            let mut marker_be = vec![253u8];
            marker_be.extend(l.to_be_bytes());
            for prefix in [leb, marker, marker_be, l.to_le_bytes().to_vec(), l.to_be_bytes().to_vec()] {
                let mut b = prefix;
                b.extend(&full[..full.len().min(9)]);
                inputs.push(b);
            }
        }
        for inp in inputs {
            let mut cur = &inp[..];
            let r = catch_unwind(AssertUnwindSafe(|| if what == 0 { codec.decode_header(&mut cur).is_ok() } else { codec.decode_member(&mut cur).is_ok() }));
            *cases += 1;
            if r.is_err() {
                out.hit("C20:decoder-panicked", J::s(format!("{ctx}: input {inp:?}")));
            } else if cur.len() > inp.len() {
                out.hit("C20:read-past-input", J::s(format!("{inp:?}")));
            }
        }
    }
}

/// a broadcast handler that accepts every item and never invalidates anything
pub struct KeepAll;
pub struct NoKey;
impl foca::Invalidates for NoKey {
    fn invalidates(&self, _other: &Self) -> bool {
        false
    }
}
#[derive(Debug)]
pub struct NeverErr;
impl std::fmt::Display for NeverErr {
    fn fmt(&self, f: &mut std::fmt::Formatter<'_>) -> std::fmt::Result {
        write!(f, "never")
    }
}
impl std::error::Error for NeverErr {}
impl foca::BroadcastHandler<SId> for KeepAll {
    type Key = NoKey;
    type Error = NeverErr;
    fn receive_item(&mut self, _data: &[u8], _sender: Option<&SId>) -> Result<Option<Self::Key>, Self::Error> {
        Ok(Some(NoKey))
    }
}

struct Drv {
    stdin: std::process::ChildStdin,
    stdout: BufReader<std::process::ChildStdout>,
    _child: std::process::Child,
}
impl Drv {
    fn new() -> Drv {
        let mut child = Command::new("/verif/coq/extracted/model_driver").stdin(Stdio::piped()).stdout(Stdio::piped()).spawn().expect("model driver");
        let stdin = child.stdin.take().unwrap();
        let stdout = BufReader::new(child.stdout.take().unwrap());
        Drv { stdin, stdout, _child: child }
    }
    fn ask(&mut self, tag: &str, v: &[u128]) -> Vec<u128> {
        let mut s = String::from(tag);
        for x in v {
            s.push(' ');
            s.push_str(&x.to_string());
        }
        s.push('\n');
        self.stdin.write_all(s.as_bytes()).unwrap();
        self.stdin.flush().unwrap();
        let mut line = String::new();
        self.stdout.read_line(&mut line).unwrap();
        line.split_whitespace().skip(1).map(|x| x.parse().unwrap()).collect()
    }
}

fn sid_nums(i: &SId) -> Vec<u128> {
    vec![i.x8 as u128, i.x16 as u128, i.x32 as u128, i.x64 as u128]
}
fn msg_nums(m: &Message<SId>) -> Vec<u128> {
    let idn = |t: u128, i: &SId, n: u8| {
        let mut v = vec![t];
        v.extend(sid_nums(i));
        v.push(n as u128);
        v
    };
    match m {
        Message::Ping(n) => vec![0, *n as u128],
        Message::Ack(n) => vec![1, *n as u128],
        Message::PingReq { target, probe_number } => idn(2, target, *probe_number),
        Message::IndirectPing { origin, probe_number } => idn(3, origin, *probe_number),
        Message::IndirectAck { target, probe_number } => idn(4, target, *probe_number),
        Message::ForwardedAck { origin, probe_number } => idn(5, origin, *probe_number),
        Message::Announce => vec![6],
        Message::Feed => vec![7],
        Message::Gossip => vec![8],
        Message::Broadcast => vec![9],
        Message::TurnUndead => vec![10],
    }
}
fn hdr_nums(h: &Header<SId>) -> Vec<u128> {
    let mut v = sid_nums(&h.src);
    v.push(h.src_incarnation as u128);
    v.extend(sid_nums(&h.dst));
    v.extend(msg_nums(&h.message));
    v
}
fn mem_nums(m: &Member<SId>) -> Vec<u128> {
    let mut v = sid_nums(m.id());
    v.push(m.incarnation() as u128);
    v.push(match m.state() {
        State::Alive => 0,
        State::Suspect => 1,
        State::Down => 2,
    });
    v
}

fn gen_u(g: &mut G, bits: u32) -> u64 {
    let max: u128 = (1u128 << bits) - 1;
    let v: u128 = match g.below(12) {
        0 => 0,
        1 => 1,
        2 => 127,
        3 => 128,
        4 => 250,
        5 => 251,
        6 => 255,
        7 => 65535.min(max),
        8 => 65536.min(max),
        9 => max,
        10 => max - 1,
        _ => ((g.next() as u128) << 11 | g.next() as u128 & 0x7ff) & max,
    };
    v as u64
}
fn gen_sid(g: &mut G) -> SId {
    SId { x8: gen_u(g, 8) as u8, x16: gen_u(g, 16) as u16, x32: gen_u(g, 32) as u32, x64: gen_u(g, 64) }
}
fn gen_msg(g: &mut G) -> Message<SId> {
    let n = gen_u(g, 8) as u8;
    match g.below(11) {
        0 => Message::Ping(n),
        1 => Message::Ack(n),
        2 => Message::PingReq { target: gen_sid(g), probe_number: n },
        3 => Message::IndirectPing { origin: gen_sid(g), probe_number: n },
        4 => Message::IndirectAck { target: gen_sid(g), probe_number: n },
        5 => Message::ForwardedAck { origin: gen_sid(g), probe_number: n },
        6 => Message::Announce,
        7 => Message::Feed,
        8 => Message::Gossip,
        9 => Message::Broadcast,
        _ => Message::TurnUndead,
    }
}

use bincode::config::{BigEndian, Configuration, Fixint, LittleEndian, NoLimit, Varint};

/// the codecs that have a wire model, numbered as in the driver protocol (SerdeM.v, fmt_of)
enum AnyCodec {
    B(BincodeCodec<Configuration>),
    P(PostcardCodec),
    BBe(BincodeCodec<Configuration<BigEndian, Varint, NoLimit>>),
    BFixLe(BincodeCodec<Configuration<LittleEndian, Fixint, NoLimit>>),
    BFixBe(BincodeCodec<Configuration<BigEndian, Fixint, NoLimit>>),
}
const CODEC_NAMES: [&str; 5] = ["bincode", "postcard", "bincode(big-endian)", "bincode(fixed-int / legacy)", "bincode(big-endian fixed-int)"];
impl AnyCodec {
    fn of(ci: u128) -> AnyCodec {
        match ci {
            0 => AnyCodec::B(BincodeCodec(bincode::config::standard())),
            1 => AnyCodec::P(PostcardCodec),
            2 => AnyCodec::BBe(BincodeCodec(bincode::config::standard().with_big_endian())),
            3 => AnyCodec::BFixLe(BincodeCodec(bincode::config::legacy())),
            _ => AnyCodec::BFixBe(BincodeCodec(bincode::config::standard().with_big_endian().with_fixed_int_encoding())),
        }
    }
    fn enc_hdr(&mut self, h: &Header<SId>, buf: impl BufMut) -> bool {
        match self {
            AnyCodec::B(c) => c.encode_header(h, buf).is_ok(),
            AnyCodec::P(c) => c.encode_header(h, buf).is_ok(),
            AnyCodec::BBe(c) => c.encode_header(h, buf).is_ok(),
            AnyCodec::BFixLe(c) => c.encode_header(h, buf).is_ok(),
            AnyCodec::BFixBe(c) => c.encode_header(h, buf).is_ok(),
        }
    }
    fn enc_mem(&mut self, m: &Member<SId>, buf: impl BufMut) -> bool {
        match self {
            AnyCodec::B(c) => c.encode_member(m, buf).is_ok(),
            AnyCodec::P(c) => c.encode_member(m, buf).is_ok(),
            AnyCodec::BBe(c) => c.encode_member(m, buf).is_ok(),
            AnyCodec::BFixLe(c) => c.encode_member(m, buf).is_ok(),
            AnyCodec::BFixBe(c) => c.encode_member(m, buf).is_ok(),
        }
    }
    fn dec_hdr(&mut self, b: &mut &[u8]) -> Option<Header<SId>> {
        match self {
            AnyCodec::B(c) => c.decode_header(b).ok(),
            AnyCodec::P(c) => c.decode_header(b).ok(),
            AnyCodec::BBe(c) => c.decode_header(b).ok(),
            AnyCodec::BFixLe(c) => c.decode_header(b).ok(),
            AnyCodec::BFixBe(c) => c.decode_header(b).ok(),
        }
    }
    fn dec_mem(&mut self, b: &mut &[u8]) -> Option<Member<SId>> {
        match self {
            AnyCodec::B(c) => c.decode_member(b).ok(),
            AnyCodec::P(c) => c.decode_member(b).ok(),
            AnyCodec::BBe(c) => c.decode_member(b).ok(),
            AnyCodec::BFixLe(c) => c.decode_member(b).ok(),
            AnyCodec::BFixBe(c) => c.decode_member(b).ok(),
        }
    }
}

/// (vi) BincodeCodec is generic in the bincode configuration: the round-trip / short-buffer / truncation
/// clauses for configurations other than standard() (no wire model for these: the statement is about
/// the codec against itself).
fn other_config<C: Codec<SId>>(mut codec: C, cname: &str, g: &mut G, out: &mut FOut, cases: &mut u64) {
    for what in 0..2u8 {
        let hdr = Header { src: gen_sid(g), src_incarnation: gen_u(g, 16) as u16, dst: gen_sid(g), message: gen_msg(g) };
        let mem = Member::new(gen_sid(g), gen_u(g, 16) as u16, match g.below(3) { 0 => State::Alive, 1 => State::Suspect, _ => State::Down });
        let vnums = if what == 0 { hdr_nums(&hdr) } else { mem_nums(&mem) };
        let ctx = format!("codec=bincode({cname}) {}", if what == 0 { format!("{hdr:?}") } else { format!("{mem:?}") });
        let mut full: Vec<u8> = vec![];
        let r = catch_unwind(AssertUnwindSafe(|| if what == 0 { codec.encode_header(&hdr, &mut full).is_ok() } else { codec.encode_member(&mem, &mut full).is_ok() }));
        *cases += 1;
        if !matches!(r, Ok(true)) {
            out.hit("C20:encode-failed-or-panicked", J::s(ctx.clone()));
            continue;
        }
        out.distinct.insert(hash_of(&(cname.to_string(), what, full.len())));
        // round trip with trailing data: equal value, exactly the bytes produced
        let mut with_tail = full.clone();
        for _ in 0..g.below(6) {
            with_tail.push(g.below(256) as u8);
        }
        let mut cur = &with_tail[..];
        let rt = catch_unwind(AssertUnwindSafe(|| {
            if what == 0 { codec.decode_header(&mut cur).ok().map(|h| hdr_nums(&h)) } else { codec.decode_member(&mut cur).ok().map(|m| mem_nums(&m)) }
        }));
        *cases += 1;
        match rt {
            Ok(Some(v)) if v == vnums && with_tail.len() - cur.len() == full.len() => {}
            other => out.hit("C20:round-trip-failed", J::s(format!("{ctx}: encoded {full:?}, decoded {other:?}, consumed {}", with_tail.len() - cur.len()))),
        }
        // every buffer size: Ok iff it suffices, never past the limit, never a panic
        for room in 0..=full.len() + 1 {
            let mut buf = Vec::with_capacity(room).limit(room);
            let r = catch_unwind(AssertUnwindSafe(|| if what == 0 { codec.encode_header(&hdr, &mut buf).is_ok() } else { codec.encode_member(&mem, &mut buf).is_ok() }));
            *cases += 1;
            match r {
                Err(_) => out.hit("C20:panic-on-short-buffer", J::s(format!("{ctx}: room {room}"))),
                Ok(ok) => {
                    if ok != (room >= full.len()) {
                        out.hit("C20:short-buffer-result", J::s(format!("{ctx}: room {room} ok={ok} needed {}", full.len())));
                    }
                    if buf.get_ref().len() > room {
                        out.hit("C20:wrote-past-the-limit", J::s(format!("{ctx}: room {room} wrote {}", buf.get_ref().len())));
                    }
                }
            }
        }
        // truncations and mutations: a value or an error, no panic, nothing read past the input
        let mut inputs: Vec<Vec<u8>> = (0..full.len()).map(|k| full[..k].to_vec()).collect();
        for _ in 0..6 {
            let mut b = with_tail.clone();
            for _ in 0..1 + g.below(3) {
                let i = g.below(b.len() as u64) as usize;
                let r = g.below(256) as u8;
                b[i] = *g.pick(&[0u8, 1, 3, 127, 128, 250, 251, 252, 253, 254, 255, r]);
            }
            inputs.push(b);
        }
        for inp in inputs {
            let mut cur = &inp[..];
            let r = catch_unwind(AssertUnwindSafe(|| {
                if what == 0 { codec.decode_header(&mut cur).is_ok() } else { codec.decode_member(&mut cur).is_ok() }
            }));
            *cases += 1;
            if r.is_err() {
                out.hit("C20:decoder-panicked", J::s(format!("{ctx}: input {inp:?}")));
            }
        }
    }
}

/// (v) Foca itself running with a bundled codec under tight packet sizes: every Feed and Gossip
/// datagram is header + u16 count + exactly count members + nothing else, within the limit.
fn feed_sweep<C: Codec<SId> + Clone>(codec: C, cname: &str, g: &mut G, out: &mut FOut, cases: &mut u64)
where
    C::Error: std::error::Error + Send + std::fmt::Debug,
{
    use foca::{AccumulatingRuntime, Config, Foca};
    use std::num::{NonZeroU8, NonZeroUsize};
    let n = 2 + g.below(24) as usize;
    let me = gen_sid(g);
    let mut others: Vec<SId> = vec![];
    while others.len() < n {
        let mut c = gen_sid(g);
        c.x64 = c.x64.wrapping_add(others.len() as u64 * 7919);
        if c.x64 != me.x64 && others.iter().all(|o| o.x64 != c.x64) {
            others.push(c);
        }
    }
    // size of the largest conceivable datagram, then sweep the limit downwards from there
    let asker = others[0];
    let mut ann = vec![];
    let mut cc = codec.clone();
    cc.encode_header(&Header { src: asker, src_incarnation: gen_u(g, 16) as u16, dst: me, message: Message::Announce }, &mut ann).unwrap();
    // the longest header this instance can be asked to build (all-maximal destination)
    let big_len = {
        let mut hb = vec![];
        let mut c2 = codec.clone();
        let _ = c2.encode_header(&Header { src: me, src_incarnation: 0, dst: SId { x8: 255, x16: 65535, x32: u32::MAX, x64: u64::MAX }, message: Message::Announce }, &mut hb);
        hb.len()
    };
    let sizes: Vec<usize> = {
        let mut v: Vec<usize> = (ann.len().max(40)..ann.len().max(40) + 64).collect();
        for _ in 0..12 {
            v.push(90 + g.below(700) as usize);
        }
        // sizes just below the longest header: a send to such a destination fails, sends to shorter ones work
        for k in 1..=6usize {
            if big_len > 16 + k {
                v.push(big_len - k);
            }
        }
        v
    };
    for mps in sizes {
        let mut cfg = Config::simple();
        cfg.max_packet_size = NonZeroUsize::new(mps).unwrap();
        cfg.num_indirect_probes = NonZeroUsize::new(3).unwrap();
        cfg.max_transmissions = NonZeroU8::new(1 + g.below(5) as u8).unwrap();
        let mut foca = Foca::with_custom_broadcast(me, cfg, crate::vid::VRng::new(g.next()), codec.clone(), KeepAll);
        // half of the runs have custom broadcasts pending (they share the packet with the feed / gossip)
        let with_items = g.below(2) == 0;
        if with_items {
            for _ in 0..1 + g.below(4) {
                let n = 1 + g.below(40) as usize;
                let item: Vec<u8> = (0..n).map(|_| g.below(256) as u8).collect();
                let _ = foca.add_broadcast(&item);
            }
        }
        let mut rt = AccumulatingRuntime::new();
        let members: Vec<Member<SId>> = others
            .iter()
            .map(|o| Member::new(*o, gen_u(g, 16) as u16, if g.below(5) == 0 { State::Suspect } else { State::Alive }))
            .collect();
        // a destination whose header does not fit this packet size: the send fails with an Encode error
        // after the codec wrote what fitted; nothing may be sent and the next datagrams must be unaffected
        let big = SId { x8: 255, x16: 65535, x32: u32::MAX, x64: u64::MAX - g.below(1000) };
        let mut hb = vec![];
        let mut c2 = codec.clone();
        let _ = c2.encode_header(&Header { src: me, src_incarnation: 0, dst: big, message: Message::Announce }, &mut hb);
        if hb.len() > mps {
            let r0 = catch_unwind(AssertUnwindSafe(|| foca.announce(big, &mut rt).is_err()));
            *cases += 1;
            match r0 {
                Err(_) => out.hit("C20:foca-panicked-with-bundled-codec", J::s(format!("{cname} mps {mps}: announce to a destination whose header does not fit"))),
                Ok(failed) => {
                    if !failed || rt.to_send().is_some() {
                        out.hit("C20:header-that-does-not-fit-was-sent", J::s(format!("{cname} mps {mps} header {} bytes", hb.len())));
                    }
                }
            }
        }
        let r = catch_unwind(AssertUnwindSafe(|| {
            let _ = foca.apply_many(members.iter().cloned(), true, &mut rt);
            let _ = foca.handle_data(&ann, &mut rt);
            let _ = foca.gossip(&mut rt);
        }));
        *cases += 1;
        if r.is_err() {
            out.hit("C20:foca-panicked-with-bundled-codec", J::s(format!("{cname} mps {mps} n {n}")));
            continue;
        }
        let mut saw_feed = false;
        while let Some((dst, data)) = rt.to_send() {
            *cases += 1;
            let ctx = format!("{cname} mps {mps} n {n} dst {dst:?} data {:?}", &data[..]);
            if data.len() > mps {
                out.hit("C20:datagram-exceeds-max-packet-size", J::s(ctx.clone()));
            }
            let mut cur = &data[..];
            let mut dc = codec.clone();
            let Ok(h) = dc.decode_header(&mut cur) else {
                out.hit("C20:emitted-header-undecodable", J::s(ctx));
                continue;
            };
            if h.src != me || h.dst != dst {
                out.hit("C20:emitted-header-wrong", J::s(ctx.clone()));
            }
            match h.message {
                Message::Feed | Message::Gossip | Message::Ping(_) => {
                    if matches!(h.message, Message::Feed) {
                        saw_feed = true;
                    }
                    if cur.is_empty() {
                        continue; // no room even for the count: allowed (receiver treats it as no updates)
                    }
                    if cur.len() < 2 {
                        out.hit("C20:truncated-count", J::s(ctx));
                        continue;
                    }
                    let cnt = u16::from_be_bytes([cur[0], cur[1]]) as usize;
                    cur = &cur[2..];
                    let mut ok = true;
                    for _ in 0..cnt {
                        match dc.decode_member(&mut cur) {
                            Ok(m) => {
                                if matches!(h.message, Message::Feed) && (!members.iter().any(|x| x.id() == m.id()) || *m.id() == dst || *m.id() == me) {
                                    out.hit("C20:feed-lists-wrong-member", J::s(ctx.clone()));
                                }
                            }
                            Err(_) => {
                                ok = false;
                                break;
                            }
                        }
                    }
                    if !ok {
                        out.hit("C20:member-section-undecodable(partial-encode-left-behind?)", J::s(ctx));
                    } else {
                        // the rest must be whole length-prefixed non-empty custom items (only when some are pending)
                        let mut bad_tail = false;
                        while !cur.is_empty() {
                            if cur.len() < 3 {
                                bad_tail = true;
                                break;
                            }
                            let l = u16::from_be_bytes([cur[0], cur[1]]) as usize;
                            if l == 0 || cur.len() < 2 + l {
                                bad_tail = true;
                                break;
                            }
                            cur = &cur[2 + l..];
                            if !with_items {
                                bad_tail = true;
                            }
                        }
                        if bad_tail {
                            out.hit("C20:trailing-junk-after-members", J::s(ctx));
                        }
                    }
                }
                _ => {
                    if !cur.is_empty() {
                        out.hit("C20:payload-after-bare-header", J::s(ctx));
                    }
                }
            }
        }
        if saw_feed {
            out.distinct.insert(hash_of(&(cname, "feed", mps)));
        }
    }
}

pub fn c20(seed: u64, budget: u64) -> FOut {
    let mut out = FOut::default();
    out.rule = "for BincodeCodec(standard()), PostcardCodec and BincodeCodec with the configurations big-endian, legacy (fixed-int) and big-endian fixed-int over Header<SId>/Member<SId> (SId = {u8,u16,u32,u64}): random values with boundary integers (0,1,127,128,250,251,255,2^16-1,2^16,MAX-1,MAX) in every field and every Message variant; (i) encoding into an unbounded buffer must equal the Coq model's bytes; (ii) decoding those bytes followed by random trailing data must return the value and consume exactly the encoding; (iii) encoding into a Limit buffer of EVERY size 0..len: Ok iff the size suffices, never more bytes than the limit, bytes written as the model predicts; (iv) every truncation of the encoding, random byte strings and mutated encodings: the real decoder and the model must agree on error / value / bytes consumed; (v) a real Foca<SId, bundled codec> holding 2..25 members (after a failed announce to a destination whose header does not fit the packet size, where there is one) answers an Announce and gossips under 76 packet sizes from 'header barely fits' upwards: every datagram is within the limit and is header + count + exactly count decodable members + nothing else (nothing a failing encode_member wrote is left behind), Feed lists only known members other than the receiver; (vi) BincodeCodec with the configurations big-endian, fixed-int, legacy and big-endian fixed-int (no wire model): round trip with trailing data (equal value, exactly the bytes produced), every buffer size (Ok iff it suffices, nothing past the limit), truncations and mutations (no panic); everything under catch_unwind (a panic is a hit). distinct = distinct (codec, kind, encoded length) triples".into();
    let mut g = G::new(seed ^ 0xC20);
    let mut drv = Drv::new();
    let mut cases = 0u64;
    for _run in 0..budget {
        for ci in 0..5u128 {
            let mut codec = AnyCodec::of(ci);
            for what in 0..2u128 {
                // value
                let hdr = Header { src: gen_sid(&mut g), src_incarnation: gen_u(&mut g, 16) as u16, dst: gen_sid(&mut g), message: gen_msg(&mut g) };
                let mem = Member::new(gen_sid(&mut g), gen_u(&mut g, 16) as u16, match g.below(3) { 0 => State::Alive, 1 => State::Suspect, _ => State::Down });
                let vnums = if what == 0 { hdr_nums(&hdr) } else { mem_nums(&mem) };
                let ctx = format!("codec={} {}", CODEC_NAMES[ci as usize], if what == 0 { format!("{hdr:?}") } else { format!("{mem:?}") });
                // (i) full encode
                let mut full: Vec<u8> = vec![];
                let r = catch_unwind(AssertUnwindSafe(|| if what == 0 { codec.enc_hdr(&hdr, &mut full) } else { codec.enc_mem(&mem, &mut full) }));
                cases += 1;
                if !matches!(r, Ok(true)) {
                    out.hit("C20:encode-failed-or-panicked", J::s(ctx.clone()));
                    continue;
                }
                let mut req = vec![ci, what, 1_000_000];
                req.extend(vnums.iter());
                let m = drv.ask("N", &req);
                let model_bytes: Vec<u8> = m.iter().skip(2).map(|x| *x as u8).collect();
                if m.first() != Some(&1) || model_bytes != full {
                    out.hit("C20:encoding-differs-from-wire-model", J::s(format!("{ctx}: real {full:?} model {m:?}")));
                    continue;
                }
                out.distinct.insert(hash_of(&(ci, what, full.len(), vnums.first().cloned())));
                // (ii) round trip with trailing data
                let mut with_tail = full.clone();
                for _ in 0..g.below(6) {
                    with_tail.push(g.below(256) as u8);
                }
                let mut cur = &with_tail[..];
                let rt = catch_unwind(AssertUnwindSafe(|| {
                    if what == 0 { codec.dec_hdr(&mut cur).map(|h| hdr_nums(&h)) } else { codec.dec_mem(&mut cur).map(|m| mem_nums(&m)) }
                }));
                cases += 1;
                match rt {
                    Ok(Some(v)) if v == vnums && with_tail.len() - cur.len() == full.len() => {}
                    other => out.hit("C20:round-trip-failed", J::s(format!("{ctx}: {other:?}, consumed {}", with_tail.len() - cur.len()))),
                }
                // (iii) every buffer size
                for room in 0..=full.len() + 1 {
                    let mut buf = Vec::with_capacity(room).limit(room);
                    let r = catch_unwind(AssertUnwindSafe(|| if what == 0 { codec.enc_hdr(&hdr, &mut buf) } else { codec.enc_mem(&mem, &mut buf) }));
                    cases += 1;
                    let written = buf.get_ref().clone();
                    let mut req = vec![ci, what, room as u128];
                    req.extend(vnums.iter());
                    let m = drv.ask("N", &req);
                    let model_ok = m.first() == Some(&1);
                    let model_written: Vec<u8> = m.iter().skip(2).map(|x| *x as u8).collect();
                    match r {
                        Err(_) => out.hit("C20:panic-on-short-buffer", J::s(format!("{ctx}: room {room}"))),
                        Ok(ok) => {
                            if ok != (room >= full.len()) || ok != model_ok {
                                out.hit("C20:short-buffer-result", J::s(format!("{ctx}: room {room} real ok={ok} model ok={model_ok}")));
                            }
                            if written.len() > room {
                                out.hit("C20:wrote-past-the-limit", J::s(format!("{ctx}: room {room} wrote {}", written.len())));
                            }
                            if written != model_written {
                                out.hit("C20:partial-write-differs-from-model", J::s(format!("{ctx}: room {room} real {written:?} model {model_written:?}")));
                            }
                        }
                    }
                }
                // (iv) truncations, random bytes, mutations
                let mut inputs: Vec<Vec<u8>> = (0..full.len()).map(|k| full[..k].to_vec()).collect();
                for _ in 0..8 {
                    let n = g.below(30) as usize;
                    inputs.push((0..n).map(|_| { let r = g.below(256) as u8; *g.pick(&[0u8, 1, 2, 3, 10, 11, 127, 128, 129, 250, 251, 252, 253, 254, 255, r]) }).collect());
                }
                for _ in 0..8 {
                    let mut b = with_tail.clone();
                    for _ in 0..1 + g.below(3) {
                        let i = g.below(b.len() as u64) as usize;
                        let r = g.below(256) as u8;
                        b[i] = *g.pick(&[0u8, 1, 3, 127, 128, 250, 251, 252, 253, 254, 255, r]);
                    }
                    inputs.push(b);
                }
                for inp in inputs {
                    let mut cur = &inp[..];
                    let r = catch_unwind(AssertUnwindSafe(|| {
                        if what == 0 { codec.dec_hdr(&mut cur).map(|h| hdr_nums(&h)) } else { codec.dec_mem(&mut cur).map(|m| mem_nums(&m)) }
                    }));
                    cases += 1;
                    let consumed = inp.len() - cur.len();
                    let mut req = vec![ci, what];
                    req.extend(inp.iter().map(|x| *x as u128));
                    let m = drv.ask("D", &req);
                    match r {
                        Err(_) => out.hit("C20:decoder-panicked", J::s(format!("{ctx}: input {inp:?}"))),
                        Ok(None) => {
                            if m != vec![0] {
                                out.hit("C20:decode-result-differs-from-model", J::s(format!("codec {ci} what {what} input {inp:?}: real error, model {m:?}")));
                            }
                        }
                        Ok(Some(v)) => {
                            let mut want = vec![1, consumed as u128];
                            want.extend(v.iter());
                            if m != want {
                                out.hit("C20:decode-result-differs-from-model", J::s(format!("codec {ci} what {what} input {inp:?}: real {want:?}, model {m:?}")));
                            }
                            if consumed > inp.len() {
                                out.hit("C20:read-past-input", J::s(format!("{inp:?}")));
                            }
                        }
                    }
                }
                if out.samples.len() < 2 {
                    out.samples.push(J::s(format!("{ctx} -> {full:?}")));
                }
            }
        }
        if _run % 4 == 0 {
            other_config(BincodeCodec(bincode::config::standard().with_big_endian()), "big-endian", &mut g, &mut out, &mut cases);
            other_config(BincodeCodec(bincode::config::standard().with_fixed_int_encoding()), "fixed-int", &mut g, &mut out, &mut cases);
            other_config(BincodeCodec(bincode::config::legacy()), "legacy", &mut g, &mut out, &mut cases);
            other_config(BincodeCodec(bincode::config::standard().with_big_endian().with_fixed_int_encoding()), "big-endian fixed-int", &mut g, &mut out, &mut cases);
        }
        if _run == 0 {
            alloc_probe_children(&mut out, &mut cases);
        }
        if _run % 4 == 1 {
            string_identity_sweep(BincodeCodec(bincode::config::standard()), "bincode", true, &mut g, &mut out, &mut cases);
            string_identity_sweep(PostcardCodec, "postcard", false, &mut g, &mut out, &mut cases);
            string_identity_sweep(BincodeCodec(bincode::config::standard().with_big_endian()), "bincode(big-endian)", true, &mut g, &mut out, &mut cases);
            string_identity_sweep(BincodeCodec(bincode::config::legacy()), "bincode(legacy)", true, &mut g, &mut out, &mut cases);
            string_identity_sweep(BincodeCodec(bincode::config::standard().with_big_endian().with_fixed_int_encoding()), "bincode(big-endian fixed-int)", true, &mut g, &mut out, &mut cases);
        }
        if _run % 8 == 0 {
            feed_sweep(BincodeCodec(bincode::config::standard()), "bincode", &mut g, &mut out, &mut cases);
            feed_sweep(PostcardCodec, "postcard", &mut g, &mut out, &mut cases);
        }
        out.runs += 1;
    }
    out.extra.push(("codec_cases".into(), J::n(cases)));
    out
}

/// identities of very different encoded sizes (host names): whatever a real instance emits must be accepted by
/// the real peer it is addressed to - a long-named member feeding / gossiping many short-named ones and vice versa
pub fn hid_exchange(seed: u64, out: &mut FOut, sig_prefix: &str) {
    fn one<C: Codec<HId> + Clone>(codec: C, cname: &str, g: &mut G, out: &mut FOut, sig_prefix: &str)
    where
        C::Error: std::error::Error + Send + std::fmt::Debug,
    {
        use foca::{AccumulatingRuntime, Config, Foca, NoCustomBroadcast};
        for (me_len, peer_len, other_len, k) in [(40usize, 36usize, 1usize, 6usize), (40, 36, 2, 12), (48, 3, 1, 25), (2, 44, 1, 9), (3, 3, 30, 7), (60, 60, 1, 40)] {
            let name = |n: usize, tag: char, i: usize| -> String {
                let mut s: String = std::iter::repeat(tag).take(n.saturating_sub(1)).collect();
                s.push_str(&i.to_string());
                s
            };
            let me = HId { host: name(me_len, 'm', 0), port: 1 };
            let peer = HId { host: name(peer_len, 'p', 0), port: 2 };
            let mut a: Foca<HId, C, crate::vid::VRng, NoCustomBroadcast> = Foca::new(me.clone(), Config::simple(), crate::vid::VRng::new(g.next()), codec.clone());
            let mut rt = AccumulatingRuntime::new();
            let others: Vec<Member<HId>> = (0..k).map(|i| Member::alive(HId { host: name(other_len, 'o', i + 1), port: 10 + i as u16 })).collect();
            let _ = a.apply_many(others.clone().into_iter(), true, &mut rt);
            while rt.to_send().is_some() {}
            // the peer announces itself, pings, and the instance gossips
            let mut c2 = codec.clone();
            let mut outgoing: Vec<(HId, Vec<u8>)> = vec![];
            for m in [Message::Announce, Message::Ping(3)] {
                let mut d = vec![];
                c2.encode_header(&Header { src: peer.clone(), src_incarnation: 0, dst: me.clone(), message: m.clone() }, &mut d).unwrap();
                if !matches!(m, Message::Announce) {
                    d.extend([0u8, 0]);
                }
                let r = catch_unwind(AssertUnwindSafe(|| a.handle_data(&d, &mut rt)));
                if !matches!(r, Ok(Ok(()))) {
                    out.hit(&format!("{sig_prefix}:peer-rejects"), J::s(format!("codec {cname}: {m:?} from {peer:?} to {me:?}: {r:?}")));
                }
                while let Some((dst, data)) = rt.to_send() {
                    outgoing.push((dst, data.to_vec()));
                }
            }
            let _ = a.gossip(&mut rt);
            while let Some((dst, data)) = rt.to_send() {
                outgoing.push((dst, data.to_vec()));
            }
            out.runs += 1;
            out.distinct.insert(hash_of(&(cname.to_string(), "hid-exchange", me_len, peer_len, other_len, k)));
            for (dst, data) in outgoing {
                // deliver to a real receiver whose identity is the destination
                let mut b: Foca<HId, C, crate::vid::VRng, NoCustomBroadcast> = Foca::new(dst.clone(), Config::simple(), crate::vid::VRng::new(g.next()), codec.clone());
                let mut rtb = AccumulatingRuntime::new();
                let r = catch_unwind(AssertUnwindSafe(|| b.handle_data(&data, &mut rtb)));
                if !matches!(r, Ok(Ok(()))) {
                    out.hit(
                        &format!("{sig_prefix}:peer-rejects"),
                        J::s(format!("codec {cname}: a datagram of {} bytes from {me:?} (knowing {k} members with {other_len}-byte names) is refused by its addressee {dst:?}: {r:?}", data.len())),
                    );
                }
            }
        }
    }
    let mut g = G::new(seed ^ 0x41D);
    one(PostcardCodec, "postcard", &mut g, out, sig_prefix);
    one(BincodeCodec(bincode::config::standard()), "bincode", &mut g, out, sig_prefix);
}

/// C07's quantifier covers serde codecs too: the feed sweep alone, merged into C07's falsifier output
pub fn c07_serde(seed: u64, rounds: u64, out: &mut FOut) {
    let mut g = G::new(seed ^ 0xC07_5E);
    let mut cases = 0u64;
    let mut sub = FOut::default();
    for _ in 0..rounds {
        feed_sweep(BincodeCodec(bincode::config::standard()), "bincode", &mut g, &mut sub, &mut cases);
        feed_sweep(PostcardCodec, "postcard", &mut g, &mut sub, &mut cases);
    }
    hid_exchange(seed, out, "C07:serde");
    for h in sub.hits {
        if h.signature.contains("panicked") {
            continue; // a panic is C06 / C20 territory: no malformed datagram was emitted
        }
        out.hit(&h.signature.replace("C20:", "C07:serde:"), h.detail);
    }
    out.distinct.extend(sub.distinct);
    out.extra.push(("serde_codec_datagrams_checked".into(), J::n(cases)));
    out.rule.push_str("; plus (serde codecs) a real Foca<SId, BincodeCodec / PostcardCodec> holding 2..25 members (after a failed announce to a destination whose header does not fit the packet size, where there is one) answers an Announce and gossips under 76 packet sizes from 'header barely fits' upwards: every datagram within the limit and exactly header + count + count decodable members");
}
