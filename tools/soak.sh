#!/bin/sh
# Soak: run every falsifier and the refinement check over many seeds on the unchanged tree;
# any hit is a false alarm of the machinery (or a new finding) to look at.
# usage: tools/soak.sh <first-seed> <n-seeds> [budget]
cd "$(dirname "$0")/.."
H=/verif/build/target/debug/foca-verif-harness
first=${1:-100}; n=${2:-20}; budget=${3:-300}
for p in $(python3 -c "import sys; sys.path.insert(0,'.'); from props_table import PROPS; print(' '.join(sorted(PROPS)))"); do
  i=0
  while [ $i -lt $n ]; do
    seed=$((first + i))
    $H falsify $p --seed $seed --budget $budget 2>/dev/null | python3 -c "
import json,sys
from collections import Counter
try:
    d=json.load(sys.stdin)
except Exception as e:
    print('$p seed $seed: no output'); sys.exit(0)
if d['hits']:
    print('$p seed $seed HITS', Counter(h['signature'] for h in d['hits']))
    print('   ', str(d['hits'][0])[:1500])
"
    i=$((i+1))
  done
  echo "$p done"
done
i=0
while [ $i -lt $n ]; do
  seed=$((first + i))
  $H refine --seed $seed --histories 300 --steps 300 --model /verif/coq/extracted/model_driver | python3 -c "
import json,sys
d=json.load(sys.stdin)
if d['mismatching_steps']: print('refine seed $seed MISMATCH', d['mismatch_histogram'])
"
  i=$((i+1))
done
echo soak done
