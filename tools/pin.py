#!/usr/bin/env python3
"""Re-pin the statement files: writes coq/props.lock.json (sha256 of every Props_*.v).
Run deliberately after editing a Props file; ./check refuses a Props file whose hash differs."""
import glob, hashlib, json, os
root = os.path.join(os.path.dirname(os.path.abspath(__file__)), "..", "coq")
lock = {os.path.basename(f): hashlib.sha256(open(f, "rb").read()).hexdigest()
        for f in sorted(glob.glob(os.path.join(root, "Props_*.v")))}
json.dump(lock, open(os.path.join(root, "props.lock.json"), "w"), indent=1, sort_keys=True)
print(json.dumps(lock, indent=1))
