#!/bin/sh
# run every registered quick check (sequentially) and summarise
cd "$(dirname "$0")/.."
for p in $(python3 -c "import sys; sys.path.insert(0,'.'); from props_table import PROPS; print(' '.join(sorted(PROPS)))"); do
  ./check $p --tier quick | tail -3
done
