#!/bin/sh
# Parallel soak on the unchanged tree: every falsifier over <n> seeds starting at <first>, each with
# 1/64 of its thorough budget, 14 jobs at a time; then the refinement check over the same seeds.
# Any line containing HITS (other than known-finding signatures) or MISMATCH needs attention.
# usage: tools/soak2.sh <first-seed> <n-seeds>
cd "$(dirname "$0")/.."
first=${1:-2000}; n=${2:-8}
python3 - "$first" "$n" <<'PY' > build/soak_jobs.txt
import sys
sys.path.insert(0,'.')
from props_table import PROPS
first=int(sys.argv[1]); n=int(sys.argv[2])
for p in sorted(PROPS):
    b=max(50, PROPS[p]["falsify"]["thorough"]//64)
    for s in range(first, first+n):
        print(p, s, b)
PY
cat > build/soak_one.sh <<'EOS'
#!/bin/sh
H=/verif/build/target/debug/foca-verif-harness
$H falsify $1 --seed $2 --budget $3 2>/dev/null | python3 -c "
import json,sys
from collections import Counter
try:
    d=json.load(sys.stdin)
except Exception as e:
    print('$1 seed $2: NO OUTPUT'); sys.exit(0)
known=('C02:discovery-incomplete:concurrent-joiners-different-seeds-no-periodic-announce','C05:no-convergence:global-silence-after-simultaneous-renewals')
hits=[h for h in d['hits'] if h['signature'] not in known]
if hits:
    print('$1 seed $2 HITS', Counter(h['signature'] for h in hits)); print('   ', str(hits[0])[:1200])
else:
    print('$1 seed $2 ok runs', d['runs'])
"
EOS
chmod +x build/soak_one.sh
xargs -P 14 -L 1 build/soak_one.sh < build/soak_jobs.txt
i=0
while [ $i -lt $n ]; do
  seed=$((first + i))
  /verif/build/target/debug/foca-verif-harness refine --seed $seed --histories 400 --steps 300 --model /verif/coq/extracted/model_driver | python3 -c "
import json,sys
d=json.load(sys.stdin)
print('refine seed $seed', 'MISMATCH '+str(d['mismatch_histogram']) if d['mismatching_steps'] else 'ok steps '+str(d['steps']))
" &
  i=$((i+1))
done
wait
echo soak done
