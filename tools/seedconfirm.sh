#!/bin/sh
# usage: tools/seedconfirm.sh <worktree>   — confirm a sub-agent's claims inside its scratch worktree
WT="$1"; export CARGO_TARGET_DIR="$WT/target" CARGO_NET_OFFLINE=true
cd "$WT" || exit 2
echo "-- with change, existing suite (demo skipped):"; cargo test --offline -- --skip seeded_demo 2>&1 | grep -E "^test result|FAILED|failed" | head -5
echo "-- with change, cfg foca_verif build:"; RUSTFLAGS="--cfg foca_verif" cargo build --offline 2>&1 | tail -1
echo "-- with change, demo:"; cargo test --offline seeded_demo 2>&1 | grep -E "^test result|^test .*(ok|FAILED)" | head -8
git apply -R seeded_out/patch.diff || exit 2
echo "-- without change, demo:"; cargo test --offline seeded_demo 2>&1 | grep -E "^test result|^test .*(ok|FAILED)" | head -8
git apply seeded_out/patch.diff
