#!/usr/bin/env python3
"""Regenerate MANIFEST.json from props_table.py (one check per claimed property)."""
import json, os, sys
root = os.path.join(os.path.dirname(os.path.abspath(__file__)), "..")
sys.path.insert(0, root)
from props_table import PROPS  # noqa
NOT_YET = json.load(open(os.path.join(root, "tools", "not_applicable.json")))
checks = []
for pid in sorted(PROPS):
    p = PROPS[pid]
    checks.append({
        "property_id": pid,
        "quick_cmd": f"./check {pid} --tier quick",
        "thorough_cmd": f"./check {pid} --tier thorough",
        "evidence_file": f"evidence/{pid}.json",
        "replay_cmd_template": f"./check {pid} --replay {{path}}",
        "engine": "coq-model",
        "level_claimed": {"category": "proof", "text": p["level_text"] + ((" PARTIAL: " + p["partial"]) if p.get("partial") else ""),
                          "design_ref": f"DESIGN.md section 6 {pid}"},
        "level_note": "Trusted: Coq 8.16.1 kernel; the hand-written Gallina model is tied to the code by differential per-step checking (not a proof about Rust); extraction (ExtrOcamlBasic only) cross-checked by vm_compute replay; " + "; ".join(p["assumptions"]),
        "technique": p["technique"],
    })
m = {
    "version": 1,
    "setup_cmd": "./setup.sh",
    "hooks": {
        "guard": "foca_verif",
        "enable": "RUSTFLAGS=\"--cfg foca_verif\" (set by ./check and ./setup.sh when building /verif/harness against /repo)",
        "baseline_off_cmd": "cd /repo && cargo test --workspace --no-fail-fast --offline",
        "source_commits": ["4a2f7ca"],
        "add_only": True,
    },
    "engines": [
        {"name": "coq-model", "path": "coq/", "serves_properties": sorted(PROPS), "kind_free_text": "hand-written Gallina model of the Foca core + theorems (Coq 8.16.1), extracted to OCaml for execution"},
        {"name": "refinement-harness", "path": "harness/", "serves_properties": sorted(PROPS), "kind_free_text": "Rust harness: per-step refinement check of the extracted model against the real crate built from /repo, plus falsifiers (monitors written from the property texts)"},
    ],
    "checks": checks,
    "not_applicable": [x for x in NOT_YET if x["property_id"] not in PROPS],
    "notes": "fix: commits in /repo: 70af8c0 (F5, C06), 871834b (F6, C06), 777ce38 (F4, C19), 07f6a2c (F2, C11/C04), 6de718b (F1, C18), d16bcfc (F3, C03/C10); known findings F7 (C02), F8 (C05); see known_findings.json and DESIGN.md sections 5 and 9.",
}
json.dump(m, open(os.path.join(root, "MANIFEST.json"), "w"), indent=1)
print("checks:", [c["property_id"] for c in checks])
