#!/bin/sh
# run every registered thorough check (sequentially); restores the committed (quick-tier) evidence afterwards
cd "$(dirname "$0")/.."
for p in $(python3 -c "import sys; sys.path.insert(0,'.'); from props_table import PROPS; print(' '.join(sorted(PROPS)))"); do
  /usr/bin/time -f "$p %e s" ./check $p --tier thorough 2>&1 | grep -v '^note' | tail -4
done
git checkout -- evidence
echo thorough done
