#!/bin/sh
# usage: tools/seedrun.sh <seeded-dir-or-patch> <Cxx> [<Cyy> ...]
# applies a seeded change to /repo, runs the named quick checks, always reverts /repo and
# restores the committed evidence files (evidence must come from the unchanged tree).
cd "$(dirname "$0")/.."
P="$(realpath "$1")"; shift
[ -d "$P" ] && P="$P/patch.diff"
if ! git -C /repo diff --quiet; then echo "/repo is dirty"; exit 2; fi
git -C /repo apply "$P" || exit 2
for c in "$@"; do
  echo "== $c on seeded tree"
  ./check "$c" --tier quick 2>&1 | grep -v '^note' | tail -4
done
git -C /repo checkout -- .
# rebuild against the clean tree so that no stale (seeded) binary is left behind
(cd harness && RUSTFLAGS="--cfg foca_verif" CARGO_TARGET_DIR=../build/target CARGO_NET_OFFLINE=true cargo build --offline >/dev/null 2>&1)
git -C /verif checkout -- evidence
echo "== reverted: $(git -C /repo status --short | wc -l) dirty files in /repo"
