(* Laws.v — hypotheses on the user-supplied parameters, stated as classes
   (they appear as visible premises of the theorems, never as axioms), and
   shared tactics. *)
From Foca Require Export Types.
From Coq Require Export Arith PeanoNat Lia ZifyBool ZifyN ZifyNat Permutation.

Global Arguments N.add : simpl never.
Global Arguments N.sub : simpl never.
Global Arguments N.mul : simpl never.
Global Arguments N.div : simpl never.
Global Arguments N.modulo : simpl never.
Global Arguments N.ltb : simpl never.
Global Arguments N.leb : simpl never.
Global Arguments N.eqb : simpl never.
Global Arguments N.min : simpl never.
Global Arguments N.max : simpl never.
Global Arguments N.of_nat : simpl never.
Global Arguments N.to_nat : simpl never.

(* B2: identities sharing an address are strictly and totally ordered by
   win_addr_conflict; equalities are decided correctly. *)
Class IdLaws {Id Addr : Type} (IO : IdOps Id Addr) : Prop := {
  id_eqb_eq : forall x y : Id, id_eqb x y = true <-> x = y;
  addr_eqb_eq : forall a b : Addr, addr_eqb a b = true <-> a = b;
  wins_irrefl : forall x : Id, wins x x = false;
  wins_asym : forall x y : Id, wins x y = true -> wins y x = false;
  wins_trans : forall x y z : Id,
      addr_of x = addr_of y -> addr_of y = addr_of z ->
      wins x y = true -> wins y z = true -> wins x z = true;
  wins_total : forall x y : Id,
      addr_of x = addr_of y -> x <> y -> wins x y = true \/ wins y x = true
}.

(* Codec contract: prefix round-trip; "fails iff no room" is built into the model *)
Class CodecLaws {Id : Type} (CO : CodecOps Id) : Prop := {
  dec_enc_hdr : forall (h : header Id) (r : bytes), dec_hdr (enc_hdr h ++ r) = Some (h, r);
  dec_enc_mem : forall (m : member Id) (r : bytes), dec_mem (enc_mem m ++ r) = Some (m, r);
  enc_mem_nonempty : forall m : member Id, enc_mem m <> []
}.

Section IdFacts.
Context {Id Addr : Type} {IO : IdOps Id Addr} {IL : IdLaws IO}.

Lemma id_eqb_refl (x : Id) : id_eqb x x = true.
Proof. apply id_eqb_eq; reflexivity. Qed.

Lemma id_eqb_neq (x y : Id) : id_eqb x y = false <-> x <> y.
Proof.
  split.
  - intros H E. apply id_eqb_eq in E. congruence.
  - intros H. destruct (id_eqb x y) eqn:E; [apply id_eqb_eq in E; contradiction | reflexivity].
Qed.

Lemma id_eqb_sym (x y : Id) : id_eqb x y = id_eqb y x.
Proof.
  destruct (id_eqb x y) eqn:E1, (id_eqb y x) eqn:E2; try reflexivity.
  - apply id_eqb_eq in E1. subst. rewrite id_eqb_refl in E2. discriminate.
  - apply id_eqb_eq in E2. subst. rewrite id_eqb_refl in E1. discriminate.
Qed.

Lemma addr_eqb_refl (a : Addr) : addr_eqb a a = true.
Proof. apply addr_eqb_eq; reflexivity. Qed.

Lemma addr_eqb_neq (a b : Addr) : addr_eqb a b = false <-> a <> b.
Proof.
  split.
  - intros H E. apply addr_eqb_eq in E. congruence.
  - intros H. destruct (addr_eqb a b) eqn:E; [apply addr_eqb_eq in E; contradiction | reflexivity].
Qed.

Lemma addr_eqb_sym (a b : Addr) : addr_eqb a b = addr_eqb b a.
Proof.
  destruct (addr_eqb a b) eqn:E1, (addr_eqb b a) eqn:E2; try reflexivity.
  - apply addr_eqb_eq in E1. subst. rewrite addr_eqb_refl in E2. discriminate.
  - apply addr_eqb_eq in E2. subst. rewrite addr_eqb_refl in E1. discriminate.
Qed.

Lemma id_eq_dec (x y : Id) : {x = y} + {x <> y}.
Proof.
  destruct (id_eqb x y) eqn:E.
  - left. apply id_eqb_eq. exact E.
  - right. apply id_eqb_neq. exact E.
Qed.

Lemma addr_eq_dec (a b : Addr) : {a = b} + {a <> b}.
Proof.
  destruct (addr_eqb a b) eqn:E.
  - left. apply addr_eqb_eq. exact E.
  - right. apply addr_eqb_neq. exact E.
Qed.

End IdFacts.
