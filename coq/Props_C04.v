(* Props_C04.v — C04: a single lost datagram never gets a live member declared Down (PARTIAL).
   Proved: the two absorbing mechanisms of one instance - the indirect probe (a forwarded ack
   from an asked helper makes the round succeed although the direct Ack never came) and the
   incarnation mechanism (a suspected member refutes by bumping its incarnation; a refuted
   suspicion timeout has no effect at all).  The cluster statement (every drop point) is decided
   by exhaustive single-loss simulation of real instances. *)
From Foca Require Import Laws MembersM ProbeM FocaM L_Members L_MembersInv L_Join L_Probe L_Mech L_Timeout L_RoundEnd L_Evidence.
From Coq Require Import Permutation.

Section C04.
Context {Id Addr : Type} {IO : IdOps Id Addr} {CO : CodecOps Id} {HO : HandlerOps Id}.
Context {IL : IdLaws IO}.

(* the indirect probe absorbs the loss: one valid forwarded ack and the target is not handed
   over for suspicion *)
Theorem C04_indirect_absorbs (p : probe Id) (from : Id) (n : N) :
  n = p_number p -> In from (p_indirect p) ->
  snd (probe_take_failed (fst (probe_receive_indirect_ack p from n))) = None.
Proof. exact (indirect_absorbs p from n). Qed.

(* the suspected member refutes: incarnation becomes the suspected one + 1 ... *)
Theorem C04_self_refute (rnd : oracle) (s : @rs Id Addr HO) (i : N) :
  incarnation (st s) <= i -> i < u16_max ->
  let s' := fst (handle_self_update rnd i Suspect s) in
  incarnation (st s') = i + 1 /\ identity (st s') = identity (st s) /\ conn (st s') = conn (st s).
Proof. exact (self_refute rnd s i). Qed.

(* ... a header or update carrying the higher incarnation turns the record Alive again ... *)
Theorem C04_higher_incarnation_refutes (m : member Id) (i : N) :
  m_state m = Suspect -> m_inc m < i -> change_state m i Alive = (mkMember (m_id m) i Alive, true).
Proof. exact (higher_incarnation_refutes m i). Qed.

(* ... after which the pending suspicion timeout has no effect at all (fix 07f6a2c) *)
Theorem C04_refuted_timeout_noop (rnd : oracle) (f : @foca Id Addr HO) (x : Id) (inc tok : N) :
  conn_consistent f -> cancelled f x inc ->
  step rnd f (timeout x inc tok) = (f, [], Done, 0).
Proof. exact (timeout_cancelled_noop rnd f x inc tok). Qed.

(* ONE SURVIVING PATH SUFFICES, any interleaving: a single counted ForwardedAck (the direct Ping or Ack
   having been lost) is evidence, it survives every later call of the round, and the round then ends
   without any suspicion *)
Theorem C04_one_forwarded_ack_suffices (rnd : oracle) (l : list (@input Id)) (f : @foca Id Addr HO) (from : Id) (n : N) (pos : nat) :
  p_number (prb f) = n -> find_index (fun i => id_eqb i from) (p_indirect (prb f)) = Some pos ->
  let f0 := set_prb f (fst (probe_receive_indirect_ack (prb f) from n)) in
  no_live_probe rnd f0 l -> conn (run_calls rnd f0 l) = Connected ->
  let g := run_calls rnd f0 l in
  let '(f', es, _, _) := step rnd g (ITimer (TProbeRandomMember (token g))) in
  cstd_of es = [] /\ Permutation (inner (mems f')) (inner (mems g)).
Proof.
  intros E F. cbv zeta. intros NL Cn.
  apply (round_with_evidence_ends_quietly rnd _ Cn). apply (history_keeps_evidence rnd l _ NL).
  cbn [prb set_prb]. exact (forwarded_ack_is_evidence (prb f) from n pos E F).
Qed.

End C04.

Print Assumptions C04_indirect_absorbs.
Print Assumptions C04_self_refute.
Print Assumptions C04_higher_incarnation_refutes.
Print Assumptions C04_refuted_timeout_noop.
Print Assumptions C04_one_forwarded_ack_suffices.
