(* Props_C15.v — C15: dissemination accounting for cluster updates. *)
From Foca Require Import Laws BcastM FocaM L_Bcast L_Fill L_Members L_MembersInv Inv Reach L_Wire L_Dissem L_BacklogOps.
From Foca Require Import L_TxExact L_TxHist L_TxAccount L_FanOut L_SendTx L_Evidence L_TxPass Concrete ConcreteLaws.
From Coq Require Import Relations.
From Coq Require Import Sorted.

Section C15.
Context {Id Addr : Type} {IO : IdOps Id Addr} {CO : CodecOps Id} {HO : HandlerOps Id}.
Context {IL : IdLaws IO} {EL : @ExtraLaws Id Addr IO CO} {CL : CodecLaws CO}.

(* every reachable state: at most one pending update per address, each with at least one
   transmission left and carrying exactly an encoded member *)
Theorem C15_backlog_invariant (id0 : Id) (c0 : config) (h0 : hstate) (f : @foca Id Addr HO) :
  cfg_ok c0 -> reach id0 c0 h0 f ->
  NoDup (map e_key (updates f))
  /\ Forall (fun e => 1 <= e_tx e /\ exists m : member Id, e_data e = enc_mem m) (updates f).
Proof.
  intros CK R. destruct (reach_WF id0 c0 h0 f CK R) as [W _].
  exact (conj (wf_updk f W) (wf_upd f W)).
Qed.

(* the most recently accepted update for an address replaces the pending one; others untouched *)
Theorem C15_latest_only (l : backlog Addr) (k : Addr) (data : bytes) (tx : N) (e : @entry Addr) :
  In e (add_or_replace Addr addr_eqb l k data tx) <->
  (In e l /\ addr_eqb k (e_key e) = false) \/ e = mkEntry tx data k.
Proof.
  unfold add_or_replace. rewrite in_app_iff, filter_In. cbn [In].
  rewrite negb_true_iff. intuition congruence.
Qed.

(* one fill (what one piggybacking datagram takes): the entries are visited in pop order, a
   permutation of the backlog sorted by (transmissions left, length), highest first; the bytes
   written are exactly the written entries, whole, in that order; a written entry loses exactly
   one transmission and leaves the backlog iff it reaches zero; unwritten entries are unchanged *)
Theorem C15_fill_spec (extra : N) (hint : list N) (l : backlog Addr) (room mx : N) w n kept :
  fill_loop Addr extra (pop_order Addr hint l) room mx = (w, n, kept, None) ->
  let decs := fill_dec Addr extra (pop_order Addr hint l) room mx in
  Permutation (map fst decs) l
  /\ StronglySorted (prio_ge Addr) (map fst decs)
  /\ w = flat_map (wr Addr extra) decs
  /\ n = len (filter snd decs)
  /\ kept = flat_map (kp Addr) decs.
Proof.
  intros H decs. unfold decs. rewrite fill_dec_fst.
  destruct (fill_loop_dec Addr extra _ _ _ _ _ _ H) as (A & B & C).
  exact (conj (pop_order_perm Addr hint l) (conj (pop_order_sorted Addr hint l) (conj A (conj B C)))).
Qed.

(* nothing that still fits is omitted: an unwritten entry is longer than the room left at the
   end (unless the per-datagram item budget, 65535, was exhausted) *)
Theorem C15_no_fitting_update_omitted (extra : N) (l : backlog Addr) (room mx : N) (e : @entry Addr) :
  In (e, false) (fill_dec Addr extra l room mx) -> 1 <= len (e_data e) + extra ->
  mx <= len (filter snd (fill_dec Addr extra l room mx))
  \/ room_left Addr extra (fill_dec Addr extra l room mx) room < len (e_data e) + extra.
Proof. exact (fill_dec_maximal Addr extra l room mx e). Qed.

(* over any sequence of fills (datagrams), an entry accepted with t transmissions left is
   written at most t times *)
Theorem C15_tx_bound (steps : list (fill_step)) (l : backlog Addr) (e : @entry Addr) :
  NoDup (map e_key l) -> Forall (fun e => 1 <= e_tx e) l -> In e l ->
  (times_written Addr addr_eqb (e_key e) (fills Addr l steps) <= N.to_nat (e_tx e))%nat.
Proof. exact (tx_bound Addr addr_eqb addr_eqb_eq steps l e). Qed.

(* ... and leaves the backlog after EXACTLY that many: over any sequence of fills (nothing accepted
   for the address in between - otherwise C15_latest_only: the fresher update supersedes it), an
   entry whose address is no longer pending was written exactly its transmissions-left times
   (max_transmissions when accepted); more generally transmissions left + times written is
   conserved and the bytes pending under the address are unchanged; while it has been written
   fewer times it is still pending *)
Theorem C15_leaves_after_exactly_that_many (steps : list (fill_step)) (l : backlog Addr) (e : @entry Addr) :
  NoDup (map e_key l) -> Forall (fun e => 1 <= e_tx e) l -> In e l ->
  (forall x, In x (fills_end Addr l steps) -> e_key x <> e_key e) ->
  times_written Addr addr_eqb (e_key e) (fills Addr l steps) = N.to_nat (e_tx e).
Proof. exact (tx_exact Addr addr_eqb addr_eqb_eq steps l e). Qed.

Theorem C15_transmissions_conserved (steps : list (fill_step)) (l : backlog Addr) (e : @entry Addr) :
  NoDup (map e_key l) -> Forall (fun e => 1 <= e_tx e) l -> In e l ->
  ((forall x, In x (fills_end Addr l steps) -> e_key x <> e_key e)
   /\ times_written Addr addr_eqb (e_key e) (fills Addr l steps) = N.to_nat (e_tx e))
  \/ (exists x, In x (fills_end Addr l steps) /\ e_key x = e_key e /\ e_data x = e_data e /\ 1 <= e_tx x
        /\ (N.to_nat (e_tx x) + times_written Addr addr_eqb (e_key e) (fills Addr l steps) = N.to_nat (e_tx e))%nat).
Proof. exact (tx_conserved Addr addr_eqb addr_eqb_eq steps l e). Qed.

Theorem C15_pending_until_then (steps : list (fill_step)) (l : backlog Addr) (e : @entry Addr) :
  NoDup (map e_key l) -> Forall (fun e => 1 <= e_tx e) l -> In e l ->
  (times_written Addr addr_eqb (e_key e) (fills Addr l steps) < N.to_nat (e_tx e))%nat ->
  exists x, In x (fills_end Addr l steps) /\ e_key x = e_key e /\ e_data x = e_data e
    /\ (N.to_nat (e_tx x) + times_written Addr addr_eqb (e_key e) (fills Addr l steps) = N.to_nat (e_tx e))%nat.
Proof. exact (tx_still_pending Addr addr_eqb addr_eqb_eq steps l e). Qed.

Theorem C15_fills_end_meaning (l : backlog Addr) (extra : N) (hint : list N) (room rem : N) (t : list fill_step) :
  fills_end Addr l [] = l
  /\ fills_end Addr l ((extra, hint, room, rem) :: t)
     = fills_end Addr (flat_map (kp Addr) (fill_dec Addr extra (pop_order Addr hint l) room rem)) t.
Proof. split; reflexivity. Qed.

(* THE SAME OVER HISTORIES OF BOTH OPERATIONS.  Every operation a call performs on the backlog is an
   acceptance or a fill (C15_backlog_changes_only_so), i.e. a bop; over ANY sequence of bops in which
   nothing is accepted for the entry's own address, either the address is no longer pending and the
   entry was written exactly e_tx times, or the same bytes are still pending and transmissions left +
   times written = e_tx.  An acceptance for the address itself supersedes: afterwards exactly the new
   entry is pending under it. *)
Theorem C15_calls_are_made_of_these_operations (l l' : backlog Addr) :
  clos_refl_trans _ ustep l l' -> exists ops, l' = bops_end Addr addr_eqb l ops.
Proof. exact (usteps_are_bops l l'). Qed.

Theorem C15_exactly_max_transmissions_unless_superseded (ops : list (bop Addr)) (l : backlog Addr) (e : @entry Addr) :
  NoDup (map e_key l) -> In e l -> 1 <= e_tx e ->
  (forall o, In o ops -> ~ accepts_key Addr (e_key e) o) ->
  ((forall x, In x (bops_end Addr addr_eqb l ops) -> e_key x <> e_key e)
   /\ times_written Addr addr_eqb (e_key e) (bops_hist Addr addr_eqb l ops) = N.to_nat (e_tx e))
  \/ (exists x, In x (bops_end Addr addr_eqb l ops) /\ e_key x = e_key e /\ e_data x = e_data e /\ 1 <= e_tx x
        /\ (N.to_nat (e_tx x) + times_written Addr addr_eqb (e_key e) (bops_hist Addr addr_eqb l ops) = N.to_nat (e_tx e))%nat).
Proof. exact (tx_conserved_hist Addr addr_eqb addr_eqb_eq ops l e). Qed.

Theorem C15_superseded_by_the_fresher_update (l : backlog Addr) (k : Addr) (d : bytes) (tx : N) (x : @entry Addr) :
  In x (add_or_replace Addr addr_eqb l k d tx) -> e_key x = k -> x = mkEntry tx d k.
Proof. exact (aor_supersedes Addr addr_eqb addr_eqb_eq l k d tx x). Qed.

Theorem C15_bops_meaning (l : backlog Addr) (k : Addr) (d : bytes) (tx : N) (s : fill_step) (t : list (bop Addr)) :
  bops_end Addr addr_eqb l [] = l /\ bops_hist Addr addr_eqb l [] = []
  /\ bops_end Addr addr_eqb l (BAcc Addr k d tx :: t) = bops_end Addr addr_eqb (add_or_replace Addr addr_eqb l k d tx) t
  /\ bops_hist Addr addr_eqb l (BAcc Addr k d tx :: t) = bops_hist Addr addr_eqb (add_or_replace Addr addr_eqb l k d tx) t
  /\ bops_end Addr addr_eqb l (BFill Addr s :: t) = bops_end Addr addr_eqb (flat_map (kp Addr) (fill_decs Addr l s)) t
  /\ bops_hist Addr addr_eqb l (BFill Addr s :: t) = fill_decs Addr l s :: bops_hist Addr addr_eqb (flat_map (kp Addr) (fill_decs Addr l s)) t
  /\ (accepts_key Addr k (BAcc Addr k d tx) <-> True) /\ (accepts_key Addr k (BFill Addr s) <-> False).
Proof. repeat split; auto. Qed.

(* Feed, Announce, TurnUndead and Broadcast datagrams consume nothing *)
Theorem C15_non_piggyback_consume_nothing (rnd : oracle) (dst : Id) (msg : message Id) (s : @rs Id Addr HO) :
  needs_piggyback msg = false \/ piggyback_only_active msg = true ->
  updates (st (fst (send_message rnd dst msg s))) = updates (st s).
Proof. exact (fun K => non_piggyback_keeps_updates rnd dst msg K s). Qed.

(* applying an update with broadcasting disabled leaves the backlog untouched *)
Theorem C15_no_broadcast_untouched (rnd : oracle) (u : member Id) (s : @rs Id Addr HO) :
  updates (st (fst (apply_update rnd u false s))) = updates (st s).
Proof. exact (apply_update_no_broadcast rnd u s). Qed.

(* OVER EVERY CALL (any input, any oracle): the backlog of cluster updates changes only through
   accepting an update (add_or_replace: C15_latest_only) and through one fill per piggybacking
   datagram (C15_fill_spec: written entries lose one transmission and leave at zero) - so an
   update leaves the backlog only by having been written max_transmissions times or by being
   superseded by a fresher update for the same address *)
Theorem C15_backlog_operations (l l' : backlog Addr) :
  ustep l l' <->
  (exists k d tx, l' = add_or_replace Addr addr_eqb l k d tx)
  \/ (exists hint room w n, fill_gen Addr 0 hint l room u16_max = (w, n, l', None)).
Proof.
  split.
  - intros H. destruct H as [l k d tx|l hint room w n kept FG]; [left; eauto|right; eauto].
  - intros [(k & d & tx & ->)|(hint & room & w & n & FG)]; [constructor|econstructor; exact FG].
Qed.

Theorem C15_backlog_changes_only_so (rnd : oracle) (f : @foca Id Addr HO) (i : @input Id) :
  clos_refl_trans _ ustep (updates f) (updates (fst (fst (fst (step rnd f i))))).
Proof. exact (proj1 (step_backlogs rnd f i)). Qed.

(* TRANSMISSION ACCOUNTING.  total l = the transmissions still owed by a backlog.  With
   C15_backlog_changes_only_so (the backlog changes only by accept and fill, along every call) these
   two equations are the whole ledger: a fill that writes n updates lowers the total by exactly n - a
   written update costs exactly one transmission and nothing else changes the total -, and accepting an
   update raises it by at most max_transmissions (it replaces whatever was pending for that address) *)
Theorem C15_total_meaning (l : backlog Addr) (e : @entry Addr) :
  total (@nil (@entry Addr)) = 0 /\ total (e :: l) = e_tx e + total l.
Proof. split; reflexivity. Qed.

Theorem C15_fill_costs_one_transmission_each (hint : list N) (l : backlog Addr) (room mx : N) w n kept :
  fill_gen Addr 0 hint l room mx = (w, n, kept, None) -> total kept + n = total l.
Proof. exact (fill_total Addr 0 hint l room mx w n kept). Qed.

Theorem C15_accept_adds_at_most_max_transmissions (l : backlog Addr) (k : Addr) (d : bytes) (mx : N) :
  total (add_or_replace Addr addr_eqb l k d mx) <= total l + mx.
Proof. exact (add_or_replace_total Addr addr_eqb l k d mx). Qed.

(* THE LEDGER ALONG EVERY CALL AND EVERY HISTORY.  carried es = the sum of the count fields (as the
   receiver reads them) of the datagrams among the effects that take their updates from the backlog;
   credit i = the number of updates call i may accept (k + 2 for a datagram with k member updates: its
   sender, its updates, the previous identity on a rejoin; the length of the list for apply_many; 1 for
   a probe or suspicion timer, leave_cluster and change_identity; 0 otherwise).  One datagram's count
   field is exactly what the backlog lost (C15_datagram_count_is_what_left_the_backlog); hence for every
   call: owed afterwards + carried <= owed before + max_transmissions * credit; and over any history
   from a fresh instance the number of update transmissions is at most the sum of max_transmissions
   over the updates accepted - every transmission is paid for by an acceptance. *)
Theorem C15_ledger_terms (es : list (effect Id)) (e : effect Id) (b : bytes) (msg : message Id) (i : @input Id) (t : timer Id) :
  carried (@nil (effect Id)) = 0
  /\ carried (e :: es) = (match e with Send _ d => count_field d + carried es | _ => carried es end)
  /\ count_field b = (match dec_hdr b with
                     | Some (h, rest) => if takes (h_msg h) then match get_u16 rest with Some (n, _) => n | None => 0 end else 0
                     | None => 0
                     end)
  /\ takes msg = (needs_piggyback msg && negb (piggyback_only_active msg))
  /\ credit i = (match i with
                | IData d => updates_in d + 2
                | ITimer t0 => timer_credit t0
                | IApplyMany l _ => len l
                | ILeave | IChangeIdentity _ => 1
                | _ => 0
                end)
  /\ timer_credit t = (match t with TProbeRandomMember _ | TChangeSuspectToDown _ _ _ => 1 | _ => 0 end).
Proof. repeat split. Qed.

Theorem C15_datagram_count_is_what_left_the_backlog (rnd : oracle) (dst : Id) (msg : message Id) (s : @rs Id Addr HO) :
  let s' := fst (send_message rnd dst msg s) in
  cfg (st s') = cfg (st s)
  /\ exists new, out s' = out s ++ new
       /\ match snd (send_message rnd dst msg s) with
          | ROk _ => exists b, new = [Send dst b] /\ total (updates (st s')) + count_field b = total (updates (st s))
          | RErr _ => new = [] /\ updates (st s') = updates (st s)
          | RPanic _ => new = [] /\ total (updates (st s')) <= total (updates (st s))
          end.
Proof. exact (send_message_tx rnd dst msg s). Qed.

Theorem C15_ledger_of_one_call (rnd : oracle) (f : @foca Id Addr HO) (i : @input Id) :
  let '(f', es, _, _) := step rnd f i in
  total (updates f') + carried es <= total (updates f) + max_transmissions (cfg f) * credit i.
Proof. exact (step_ledger rnd f i). Qed.

Theorem C15_ledger_of_a_history (rnd : oracle) (l : list (@input Id)) (f : @foca Id Addr HO) :
  total (updates (run_calls rnd f l)) + carried_hist rnd f l <= total (updates f) + credit_hist rnd f l.
Proof. exact (history_ledger rnd l f). Qed.

Theorem C15_every_transmission_is_paid_for (rnd : oracle) (id0 : Id) (c0 : config) (h0 : hstate) (l : list (@input Id)) :
  carried_hist rnd (@foca_init Id Addr HO id0 c0 h0) l <= credit_hist rnd (@foca_init Id Addr HO id0 c0 h0) l.
Proof. exact (fresh_history_ledger rnd id0 c0 h0 l). Qed.

Theorem C15_history_terms (rnd : oracle) (f : @foca Id Addr HO) (i : @input Id) (l : list (@input Id)) :
  carried_hist rnd f [] = 0 /\ credit_hist rnd f [] = 0
  /\ carried_hist rnd f (i :: l) = carried (snd (fst (fst (step rnd f i)))) + carried_hist rnd (fst (fst (fst (step rnd f i)))) l
  /\ credit_hist rnd f (i :: l) = max_transmissions (cfg f) * credit i + credit_hist rnd (fst (fst (fst (step rnd f i)))) l.
Proof. repeat split. Qed.

End C15.

(* non-vacuity: two members accepted with broadcasting on, then two gossip rounds: 8 update
   transmissions carried, 12 still owed, 20 = 2 acceptances x max_transmissions 10 credited - the
   ledger is tight *)
Definition ex15_cfg : config := mkConfig 1500000000 500000000 3 10 3000000000 86400000000000 1400 false None None None.
Definition ex15_f0 : @foca cid N cid_handler := foca_init (mkCid 1 0 0 0) ex15_cfg (mkChst 0 255 []).
Definition ex15_o : oracle := fun _ r => match r with RShuffle _ => [0; 1; 2; 3] | RChoose _ => [0] | RRange _ => [0] | RTie _ _ => [] end.
Definition ex15_hist : list (@input cid) :=
  [IApplyMany [mkMember (mkCid 2 0 0 0) 0 Alive; mkMember (mkCid 3 0 0 0) 0 Alive] true; IGossip; IGossip].
Example C15_ledger_example :
  carried_hist ex15_o ex15_f0 ex15_hist = 8
  /\ credit_hist ex15_o ex15_f0 ex15_hist = 20
  /\ total (updates (run_calls ex15_o ex15_f0 ex15_hist)) = 12.
Proof. vm_compute. auto. Qed.

(* non-vacuity of the exactness clause: two pending updates (3 and 1 transmissions left), four fills of
   which the second has no room: the first is written exactly 3 times and is then gone; after three
   fills it is still pending with one transmission left *)
Definition ex15_l0 : backlog N := [mkEntry 3 [1;2] 7; mkEntry 1 [9] 8].
Definition ex15_steps : list fill_step := [(0,[],100,10);(0,[],1,10);(0,[],100,10);(0,[],100,10)].
Example C15_exactness_example :
  times_written N N.eqb 7 (fills N ex15_l0 ex15_steps) = 3%nat
  /\ times_written N N.eqb 8 (fills N ex15_l0 ex15_steps) = 1%nat
  /\ fills_end N ex15_l0 ex15_steps = []
  /\ fills_end N ex15_l0 (firstn 3 ex15_steps) = [mkEntry 1 [1;2] 7].
Proof. vm_compute. auto. Qed.

(* non-vacuity over both operations: an acceptance for ANOTHER address between the fills changes nothing
   for address 7 (3 writes, then gone); an acceptance for address 7 itself after two writes supersedes *)
Definition ex15_ops : list (bop N) :=
  [BFill N (0,[],100,10); BAcc N 9 [5] 2; BFill N (0,[],100,10); BFill N (0,[],100,10); BFill N (0,[],100,10)].
Definition ex15_ops_sup : list (bop N) :=
  [BFill N (0,[],100,10); BFill N (0,[],100,10); BAcc N 7 [6;6] 3].
Example C15_history_exactness_example :
  times_written N N.eqb 7 (bops_hist N N.eqb ex15_l0 ex15_ops) = 3%nat
  /\ bops_end N N.eqb ex15_l0 ex15_ops = []
  /\ times_written N N.eqb 7 (bops_hist N N.eqb ex15_l0 ex15_ops_sup) = 2%nat
  /\ bops_end N N.eqb ex15_l0 ex15_ops_sup = [mkEntry 3 [6;6] 7].
Proof. vm_compute. auto. Qed.

Print Assumptions C15_backlog_operations.
Print Assumptions C15_backlog_changes_only_so.
Print Assumptions C15_backlog_invariant.
Print Assumptions C15_latest_only.
Print Assumptions C15_fill_spec.
Print Assumptions C15_no_fitting_update_omitted.
Print Assumptions C15_tx_bound.
Print Assumptions C15_non_piggyback_consume_nothing.
Print Assumptions C15_no_broadcast_untouched.
Print Assumptions C15_total_meaning.
Print Assumptions C15_fill_costs_one_transmission_each.
Print Assumptions C15_accept_adds_at_most_max_transmissions.
Print Assumptions C15_ledger_terms.
Print Assumptions C15_datagram_count_is_what_left_the_backlog.
Print Assumptions C15_ledger_of_one_call.
Print Assumptions C15_ledger_of_a_history.
Print Assumptions C15_every_transmission_is_paid_for.
Print Assumptions C15_history_terms.
Print Assumptions C15_ledger_example.
Print Assumptions C15_leaves_after_exactly_that_many.
Print Assumptions C15_transmissions_conserved.
Print Assumptions C15_pending_until_then.
Print Assumptions C15_fills_end_meaning.
Print Assumptions C15_exactness_example.
Print Assumptions C15_calls_are_made_of_these_operations.
Print Assumptions C15_exactly_max_transmissions_unless_superseded.
Print Assumptions C15_superseded_by_the_fresher_update.
Print Assumptions C15_bops_meaning.
Print Assumptions C15_history_exactness_example.
