(* L_RoundRobin.v — Members::next visits every active member within 2n-1
   consecutive calls, for every oracle (shuffle), every arrangement of Down
   records and every starting cursor (C14). *)
From Foca Require Import Laws L_Lists MembersM L_Members L_MembersInv.

Section RR.
Context {Id Addr : Type} {IO : IdOps Id Addr}.
Variable rnd : oracle.
Notation member := (member Id).
Notation members := (@members Id).
Implicit Types (l : list member) (x y : member).

Definition na l : nat := length (filter m_active l).

Lemma na_perm l l' : Permutation l l' -> na l = na l'.
Proof.
  intros P. unfold na. apply Permutation_length.
  induction P; cbn; auto.
  - destruct (m_active x); auto.
  - destruct (m_active x), (m_active y); auto. constructor.
  - etransitivity; eauto.
Qed.

Lemma na_app l1 l2 : na (l1 ++ l2) = (na l1 + na l2)%nat.
Proof. unfold na. rewrite filter_app, app_length. reflexivity. Qed.

(* outputs of k consecutive calls *)
Fixpoint iter_next (k : nat) (ms : members) (n : N) : list member :=
  match k with
  | O => []
  | S k' =>
      let '(ms', o, n') := members_next rnd ms n in
      (match o with Some m => [m] | None => [] end) ++ iter_next k' ms' n'
  end.

Lemma iter_next_mono k k' ms n x : (k <= k')%nat -> In x (iter_next k ms n) -> In x (iter_next k' ms n).
Proof.
  revert k' ms n. induction k as [|k IH]; intros k' ms n L H; [contradiction|].
  destruct k' as [|k']; [lia|]. cbn [iter_next] in *.
  destruct (members_next rnd ms n) as [[ms' o] n'].
  apply in_app_or in H. apply in_or_app. destruct H as [H|H]; auto.
  right. apply IH; auto. lia.
Qed.

(* ---- the three cases of next ---- *)
Lemma next_ahead_eq (ms : members) n c q :
  N.to_nat (cursor ms) = c -> (c < length (inner ms))%nat ->
  find_index m_active (skipn c (inner ms)) = Some q ->
  members_next rnd ms n =
  (mkMembers (inner ms) (N.of_nat (q + c) + 1) (num_active ms), nth_error (inner ms) (q + c), n).
Proof.
  intros Ec Lt F. unfold members_next.
  replace (len (inner ms) <=? cursor ms) with false by (unfold len; lia).
  rewrite Ec, F.
  replace (Nat.ltb (q + c) c) with false by (symmetry; apply Nat.ltb_ge; lia).
  reflexivity.
Qed.

Lemma next_wrap_eq (ms : members) n c p :
  N.to_nat (cursor ms) = c -> (c < length (inner ms))%nat ->
  find_index m_active (skipn c (inner ms)) = None ->
  find_index m_active (firstn c (inner ms)) = Some p ->
  members_next rnd ms n =
  (mkMembers (inner ms) usize_max (num_active ms), nth_error (inner ms) p, n).
Proof.
  intros Ec Lt F1 F2. unfold members_next.
  replace (len (inner ms) <=? cursor ms) with false by (unfold len; lia).
  rewrite Ec, F1, F2.
  assert (p < c)%nat.
  { apply find_index_lt in F2. rewrite firstn_length in F2. lia. }
  replace (Nat.ltb p c) with true by (symmetry; apply Nat.ltb_lt; lia).
  reflexivity.
Qed.

Lemma next_fresh_eq (ms : members) n q :
  len (inner ms) <= cursor ms ->
  find_index m_active (apply_perm (rnd n (RShuffle (len (inner ms)))) (inner ms)) = Some q ->
  members_next rnd ms n =
  (mkMembers (apply_perm (rnd n (RShuffle (len (inner ms)))) (inner ms)) (N.of_nat q + 1) (num_active ms),
   nth_error (apply_perm (rnd n (RShuffle (len (inner ms)))) (inner ms)) q, n + 1).
Proof.
  intros L F. unfold members_next.
  replace (len (inner ms) <=? cursor ms) with true by lia.
  change (N.to_nat 0) with 0%nat. cbn [skipn]. rewrite F.
  rewrite Nat.add_0_r. cbn [Nat.ltb Nat.leb]. reflexivity.
Qed.

(* ---- counting facts ---- *)
Lemma find_index_active_none l : find_index m_active l = None <-> na l = 0%nat.
Proof.
  unfold na. split.
  - intros H. rewrite find_index_None in H.
    induction l as [|a l IH]; cbn; auto.
    rewrite (H a (or_introl eq_refl)). apply IH. intros y Hy. apply H. right. exact Hy.
  - intros H. apply find_index_None. intros y Hy.
    destruct (m_active y) eqn:E; auto.
    assert (In y (filter m_active l)) by (apply filter_In; auto).
    destruct (filter m_active l); [contradiction|discriminate].
Qed.

Lemma na_skip_through l q :
  find_index m_active l = Some q -> na l = S (na (skipn (S q) l)).
Proof.
  revert q. induction l as [|a l IH]; intros q H; cbn in H; [discriminate|].
  destruct (m_active a) eqn:A.
  - inversion H; subst. unfold na. cbn. rewrite A. reflexivity.
  - destruct (find_index m_active l) as [q'|] eqn:F; cbn in H; [|discriminate].
    inversion H; subst. unfold na in *. cbn [filter]. rewrite A. cbn [skipn]. apply IH. reflexivity.
Qed.

Lemma skipn_skipn' {A} (a b : nat) (l : list A) : skipn a (skipn b l) = skipn (a + b) l.
Proof.
  revert l. induction b as [|b IH]; intros l.
  - rewrite Nat.add_0_r. reflexivity.
  - rewrite Nat.add_succ_r. destruct l; cbn; [destruct a; reflexivity|]. apply IH.
Qed.

Lemma na_two l x y :
  In x l -> In y l -> x <> y -> m_active x = true -> m_active y = true -> (2 <= na l)%nat.
Proof.
  intros Hx Hy N Ax Ay. apply in_split in Hx. destruct Hx as (l1 & l2 & ->).
  rewrite na_app. unfold na at 2. cbn [filter]. rewrite Ax. cbn [length].
  apply in_app_or in Hy. destruct Hy as [Hy|[Hy|Hy]]; [|congruence|].
  - apply in_split in Hy. destruct Hy as (l3 & l4 & ->). rewrite na_app. unfold na at 2. cbn [filter].
    rewrite Ay. cbn [length]. lia.
  - apply in_split in Hy. destruct Hy as (l3 & l4 & ->).
    change (filter m_active (l3 ++ y :: l4)) with (filter m_active (l3 ++ y :: l4)).
    rewrite filter_app. cbn [filter]. rewrite Ay. rewrite app_length. cbn [length]. lia.
Qed.

Lemma na_firstn_skipn l c : na l = (na (firstn c l) + na (skipn c l))%nat.
Proof. rewrite <- (firstn_skipn c l) at 1. apply na_app. Qed.

Lemma na_pos_in l x : In x l -> m_active x = true -> (1 <= na l)%nat.
Proof.
  intros H A. apply in_split in H. destruct H as (l1 & l2 & ->). rewrite na_app.
  unfold na at 2. cbn [filter]. rewrite A. cbn [length]. lia.
Qed.

(* ---- Claim A: a member still ahead of the cursor comes within the rest of the pass ---- *)
Lemma ahead_bound : forall (d : nat) (ms : members) n c i x,
  (i - c = d)%nat ->
  N.to_nat (cursor ms) = c -> (c <= i)%nat ->
  nth_error (inner ms) i = Some x -> m_active x = true ->
  In x (iter_next (na (skipn c (inner ms))) ms n).
Proof.
  induction d as [d IH] using lt_wf_ind. intros ms n c i x Ed Ec Le Hx Ax.
  assert (Lt : (c < length (inner ms))%nat).
  { assert (i < length (inner ms))%nat by (apply nth_error_Some; congruence). lia. }
  assert (Hs : nth_error (skipn c (inner ms)) (i - c) = Some x).
  { rewrite nth_error_skipn'. replace (c + (i - c))%nat with i by lia. exact Hx. }
  destruct (find_index m_active (skipn c (inner ms))) as [q|] eqn:F.
  2:{ rewrite find_index_None in F. apply nth_error_In in Hs. rewrite (F x Hs) in Ax. discriminate. }
  destruct (find_index_Some _ _ _ F) as (y & Hy & Ay & Before).
  rewrite (na_skip_through _ _ F). cbn [iter_next].
  rewrite (next_ahead_eq ms n c q Ec Lt F).
  rewrite nth_error_skipn' in Hy. rewrite Nat.add_comm in Hy. rewrite Hy.
  destruct (Nat.eq_dec (q + c) i) as [E|NE].
  - left. rewrite E in Hy. congruence.
  - right.
    assert (q + c < i)%nat.
    { destruct (Nat.lt_ge_cases i (q + c)); [|lia].
      exfalso. assert (i - c < q)%nat by lia. specialize (Before (i - c)%nat x H0 Hs). congruence. }
    rewrite skipn_skipn'.
    set (ms' := mkMembers (inner ms) (N.of_nat (q + c) + 1) (num_active ms)).
    assert (Ec' : N.to_nat (cursor ms') = (S q + c)%nat) by (cbn; lia).
    assert (Dl : (i - (S q + c) < d)%nat) by lia.
    exact (IH (i - (S q + c))%nat Dl ms' n (S q + c)%nat i x eq_refl Ec' ltac:(lia) Hx Ax).
Qed.

(* ---- Claim F: after a shuffle every active member comes within n calls ---- *)
Lemma fresh_bound (ms : members) n x :
  len (inner ms) <= cursor ms ->
  In x (inner ms) -> m_active x = true ->
  In x (iter_next (na (inner ms)) ms n).
Proof.
  intros L Hx Ax.
  set (l' := apply_perm (rnd n (RShuffle (len (inner ms)))) (inner ms)).
  assert (P : Permutation l' (inner ms)) by apply apply_perm_perm.
  assert (Hx' : In x l') by (eapply Permutation_in; [symmetry|]; eauto).
  rewrite <- (na_perm _ _ P).
  destruct (find_index m_active l') as [q|] eqn:F.
  2:{ rewrite find_index_None in F. rewrite (F x Hx') in Ax. discriminate. }
  destruct (find_index_Some _ _ _ F) as (y & Hy & Ay & Before).
  rewrite (na_skip_through _ _ F). cbn [iter_next].
  fold l' in F. rewrite (next_fresh_eq ms n q L F). fold l'. rewrite Hy.
  apply In_nth_error in Hx'. destruct Hx' as [i Hi].
  destruct (Nat.eq_dec q i) as [E|NE].
  - left. congruence.
  - right.
    assert (q < i)%nat.
    { destruct (Nat.lt_ge_cases i q); [|lia]. specialize (Before i x H Hi). congruence. }
    set (ms' := mkMembers l' (N.of_nat q + 1) (num_active ms)).
    assert (Ec' : N.to_nat (cursor ms') = S q) by (cbn; lia).
    exact (ahead_bound (i - S q) ms' (n + 1) (S q) i x eq_refl Ec' ltac:(lia) Hi Ax).
Qed.

(* ---- Claim B: a member already passed in this pass ---- *)
Lemma na_two_idx l : forall (i j : nat) x y,
  i <> j -> nth_error l i = Some x -> nth_error l j = Some y ->
  m_active x = true -> m_active y = true -> (2 <= na l)%nat.
Proof.
  induction l as [|a l IH]; intros i j x y N Hx Hy Ax Ay; [destruct i; discriminate|].
  destruct i as [|i], j as [|j]; cbn in Hx, Hy; try lia.
  - inversion Hx; subst a. unfold na. cbn [filter]. rewrite Ax. cbn [length].
    assert (1 <= na l)%nat by (apply (na_pos_in l y); [eapply nth_error_In; exact Hy|exact Ay]). unfold na in H. lia.
  - inversion Hy; subst a. unfold na. cbn [filter]. rewrite Ay. cbn [length].
    assert (1 <= na l)%nat by (apply (na_pos_in l x); [eapply nth_error_In; exact Hx|exact Ax]). unfold na in H. lia.
  - assert (2 <= na l)%nat by (eapply (IH i j); eauto). unfold na in *. cbn [filter].
    destruct (m_active a); cbn [length]; lia.
Qed.

Lemma find_index_firstn_whole l c p :
  find_index m_active (firstn c l) = Some p -> find_index m_active l = Some p.
Proof.
  rewrite <- (firstn_skipn c l) at 2.
  generalize (firstn c l) as l1. generalize (skipn c l) as l2. intros l2 l1. revert p.
  induction l1 as [|a l1 IHl]; intros p F; cbn in *; [discriminate|].
  destruct (m_active a); auto.
  destruct (find_index m_active l1) as [k|] eqn:E; cbn in F; [|discriminate].
  inversion F; subst. rewrite (IHl k eq_refl). reflexivity.
Qed.

Lemma behind_bound : forall (r : nat) (ms : members) n c i p x,
  len (inner ms) <= usize_max ->
  na (skipn c (inner ms)) = r ->
  N.to_nat (cursor ms) = c -> (c < length (inner ms))%nat -> (i < c)%nat ->
  nth_error (inner ms) i = Some x -> m_active x = true ->
  find_index m_active (inner ms) = Some p ->
  In x (iter_next (r + na (inner ms) + (if Nat.eqb p i then 0 else 1)) ms n).
Proof.
  induction r as [|r IH]; intros ms n c i p x Bound Er Ec Lt Li Hx Ax Fall.
  - (* nothing ahead: wrap to the first active of the list *)
    assert (F1 : find_index m_active (skipn c (inner ms)) = None) by (apply find_index_active_none; exact Er).
    assert (Hf : nth_error (firstn c (inner ms)) i = Some x) by (rewrite nth_error_firstn'; auto).
    destruct (find_index m_active (firstn c (inner ms))) as [p'|] eqn:F2.
    2:{ rewrite find_index_None in F2. apply nth_error_In in Hf. rewrite (F2 x Hf) in Ax. discriminate. }
    pose proof (find_index_firstn_whole _ _ _ F2) as Fw. rewrite Fall in Fw. inversion Fw; subst p'.
    destruct (find_index_Some _ _ _ Fall) as (y & Hy & Ay & _).
    assert (Npos : (1 <= na (inner ms))%nat) by (eapply na_pos_in; eauto; eapply nth_error_In; eauto).
    destruct (na (inner ms)) as [|m] eqn:Ena; [lia|].
    cbn [Nat.add iter_next].
    rewrite (next_wrap_eq ms n c p Ec Lt F1 F2). rewrite Hy.
    destruct (Nat.eqb_spec p i) as [E|NE].
    + left. congruence.
    + right. rewrite Nat.add_1_r. rewrite <- Ena.
      set (ms' := mkMembers (inner ms) usize_max (num_active ms)).
      change (inner ms) with (inner ms') at 1.
      apply fresh_bound; cbn; auto. eapply nth_error_In; eauto.
  - (* something ahead: the pass continues *)
    destruct (find_index m_active (skipn c (inner ms))) as [q|] eqn:F.
    2:{ apply find_index_active_none in F. lia. }
    pose proof (na_skip_through _ _ F) as Hsk. rewrite skipn_skipn' in Hsk.
    destruct (find_index_Some _ _ _ F) as (y & Hy & Ay & _).
    rewrite nth_error_skipn' in Hy. rewrite Nat.add_comm in Hy.
    cbn [Nat.add iter_next].
    rewrite (next_ahead_eq ms n c q Ec Lt F). rewrite Hy. right.
    set (ms' := mkMembers (inner ms) (N.of_nat (q + c) + 1) (num_active ms)).
    assert (Ec' : N.to_nat (cursor ms') = (S q + c)%nat) by (cbn; lia).
    assert (Hr : na (skipn (S q + c) (inner ms)) = r) by lia.
    destruct (Nat.lt_ge_cases (S q + c) (length (inner ms))) as [Lt'|Ge'].
    + change (na (inner ms)) with (na (inner ms')).
      apply (IH ms' n (S q + c)%nat i p x); cbn; auto. lia.
    + apply iter_next_mono with (k := na (inner ms')); [change (inner ms') with (inner ms); lia|].
      apply fresh_bound; cbn; auto.
      * unfold len. lia.
      * eapply nth_error_In; eauto.
Qed.

(* ---- the window theorem ---- *)
Theorem next_window (ms : members) n x :
  len (inner ms) <= usize_max ->
  In x (inner ms) -> m_active x = true ->
  In x (iter_next (2 * na (inner ms) - 1) ms n).
Proof.
  intros Bound Hx Ax.
  assert (Npos : (1 <= na (inner ms))%nat) by (eapply na_pos_in; eauto).
  destruct (N.le_gt_cases (len (inner ms)) (cursor ms)) as [Fresh|Lt].
  - apply iter_next_mono with (k := na (inner ms)); [lia|]. apply fresh_bound; auto.
  - set (c := N.to_nat (cursor ms)).
    assert (Ltc : (c < length (inner ms))%nat) by (unfold len in Lt; lia).
    apply In_nth_error in Hx. destruct Hx as [i Hi].
    destruct (Nat.le_gt_cases c i) as [Ahead|Behind].
    + apply iter_next_mono with (k := na (skipn c (inner ms))).
      * rewrite (na_firstn_skipn (inner ms) c). lia.
      * apply (ahead_bound (i - c) ms n c i x); auto.
    + destruct (find_index m_active (inner ms)) as [p|] eqn:Fall.
      2:{ apply find_index_active_none in Fall. lia. }
      destruct (find_index_Some _ _ _ Fall) as (y & Hy & Ay & Before).
      assert (Pi : (p <= i)%nat).
      { destruct (Nat.lt_ge_cases i p) as [L|G]; [|lia]. specialize (Before i x L Hi). congruence. }
      pose proof (na_firstn_skipn (inner ms) c) as Split.
      apply iter_next_mono with (k := (na (skipn c (inner ms)) + na (inner ms) + (if Nat.eqb p i then 0 else 1))%nat).
      * destruct (Nat.eqb_spec p i) as [E|NE].
        -- assert (1 <= na (firstn c (inner ms)))%nat.
           { apply (na_pos_in (firstn c (inner ms)) x); [|exact Ax].
             apply (nth_error_In _ i). rewrite nth_error_firstn'; [exact Hi|lia]. }
           lia.
        -- assert (2 <= na (firstn c (inner ms)))%nat.
           { apply (na_two_idx (firstn c (inner ms)) p i y x); auto.
             - rewrite nth_error_firstn'; auto. lia.
             - rewrite nth_error_firstn'; auto. }
           lia.
      * apply (behind_bound (na (skipn c (inner ms))) ms n c i p x); auto.
Qed.

(* the chosen member is always an active record, never a Down one *)
Theorem next_active_only (ms : members) n m :
  snd (fst (members_next rnd ms n)) = Some m ->
  In m (inner (fst (fst (members_next rnd ms n)))) /\ m_active m = true.
Proof. apply members_next_result. Qed.


(* ---- sliding windows: the state after j calls ---- *)
Fixpoint state_after (j : nat) (ms : members) (n : N) : members * N :=
  match j with
  | O => (ms, n)
  | S j' => let '(ms', _, n') := members_next rnd ms n in state_after j' ms' n'
  end.

Lemma members_next_perm (ms : members) n :
  Permutation (inner (fst (fst (members_next rnd ms n)))) (inner ms).
Proof.
  unfold members_next.
  destruct (len (inner ms) <=? cursor ms).
  - destruct (match find_index m_active (skipn (N.to_nat 0) _) with Some p => _ | None => _ end); cbn;
      apply apply_perm_perm.
  - destruct (match find_index m_active (skipn (N.to_nat (cursor ms)) _) with Some p => _ | None => _ end); cbn;
      reflexivity.
Qed.

Lemma state_after_perm j : forall ms n, Permutation (inner (fst (state_after j ms n))) (inner ms).
Proof.
  induction j as [|j IH]; intros ms n; cbn [state_after]; [reflexivity|].
  pose proof (members_next_perm ms n) as P.
  destruct (members_next rnd ms n) as [[ms' o] n']. cbn [fst] in P.
  etransitivity; [apply IH|exact P].
Qed.

Lemma iter_next_split j k : forall ms n,
  iter_next (j + k) ms n =
  iter_next j ms n ++ iter_next k (fst (state_after j ms n)) (snd (state_after j ms n)).
Proof.
  induction j as [|j IH]; intros ms n; cbn [Nat.add iter_next state_after]; [reflexivity|].
  destruct (members_next rnd ms n) as [[ms' o] n']. rewrite IH, app_assoc. reflexivity.
Qed.

(* every window of 2n-1 consecutive calls, wherever it starts, contains every active member *)
Theorem next_sliding_window (ms : members) n x (j : nat) :
  len (inner ms) <= usize_max ->
  In x (inner ms) -> m_active x = true ->
  In x (iter_next (2 * na (inner ms) - 1) (fst (state_after j ms n)) (snd (state_after j ms n))).
Proof.
  intros Bound Hx Ax.
  pose proof (state_after_perm j ms n) as P.
  rewrite <- (na_perm _ _ P).
  apply next_window; auto.
  - unfold len in *. rewrite (Permutation_length P). exact Bound.
  - eapply Permutation_in; [symmetry; exact P|exact Hx].
Qed.

End RR.
