(* L_TxExact.v — C15/C16: conservation of transmissions over any sequence of fills.  An entry's
   transmissions left plus the number of fills that wrote it is constant while it stays in the
   backlog, and an entry that is gone (nothing was accepted in between) was written exactly
   e_tx times: it leaves "after exactly that many". *)
From Foca Require Import Laws L_Lists BcastM L_Bcast L_Fill L_Dissem.

Section Keys.
Variable K : Type.
Notation entry := (@entry K).
Notation backlog := (backlog K).
Variable keqb : K -> K -> bool.
Hypothesis keqb_eq : forall a b, keqb a b = true <-> a = b.

(* the backlog left after a sequence of fills *)
Fixpoint fills_end (l : backlog) (steps : list fill_step) : backlog :=
  match steps with
  | [] => l
  | (extra, hint, room, rem) :: t =>
      fills_end (flat_map (kp K) (fill_dec K extra (pop_order K hint l) room rem)) t
  end.

Lemma fills_end_absent steps : forall l k,
  (forall e, In e l -> e_key e <> k) -> forall x, In x (fills_end l steps) -> e_key x <> k.
Proof.
  induction steps as [|[[[extra hint] room] rem] t IH]; intros l k Hk; cbn [fills_end]; [exact Hk|].
  set (decs := fill_dec K extra (pop_order K hint l) room rem).
  apply IH. intros e He. destruct (keys_kept_subset K decs e He) as (d & Hd & Ek). rewrite Ek.
  apply Hk. eapply Permutation_in; [apply pop_order_perm|].
  rewrite <- (fill_dec_fst K extra (pop_order K hint l) room rem). apply in_map. exact Hd.
Qed.

Lemma not_written_wrote_false (decs : list (entry * bool)) e :
  NoDup (map (fun d => e_key (fst d)) decs) -> In (e, false) decs -> wrote K keqb (e_key e) decs = false.
Proof.
  intros NDd Hn. destruct (wrote K keqb (e_key e) decs) eqn:W; auto.
  exfalso. unfold wrote in W. apply existsb_exists in W. destruct W as (d & Hd & E).
  apply andb_true_iff in E. destruct E as [Sd Ek]. apply keqb_eq in Ek.
  assert (d = (e, false)).
  { clear -NDd Hn Hd Ek. induction decs as [|a t0 IHd]; [contradiction|].
    cbn in NDd. inversion NDd as [|? ? Hnn Nt]; subst.
    destruct Hn as [->|Hn], Hd as [->|Hd]; auto.
    - exfalso. apply Hnn. apply in_map_iff. exists d. split; [cbn; congruence|exact Hd].
    - exfalso. apply Hnn. apply in_map_iff. exists (e, false). split; [cbn; congruence|exact Hn]. }
  subst d. discriminate Sd.
Qed.

(* CONSERVATION: after any sequence of fills, either the key is gone and the entry was written
   exactly e_tx times, or the same bytes are still pending under the same key and
   transmissions left + times written = the transmissions it started with *)
Theorem tx_conserved steps : forall l e,
  NoDup (map e_key l) -> Forall (fun e => 1 <= e_tx e) l -> In e l ->
  ((forall x, In x (fills_end l steps) -> e_key x <> e_key e)
   /\ times_written K keqb (e_key e) (fills K l steps) = N.to_nat (e_tx e))
  \/ (exists x, In x (fills_end l steps) /\ e_key x = e_key e /\ e_data x = e_data e /\ 1 <= e_tx x
        /\ (N.to_nat (e_tx x) + times_written K keqb (e_key e) (fills K l steps) = N.to_nat (e_tx e))%nat).
Proof.
  induction steps as [|[[[extra hint] room] rem] t IH]; intros l e ND TX Hin; cbn [fills fills_end].
  - right. exists e. rewrite Forall_forall in TX. pose proof (TX e Hin). repeat split; auto.
  - set (po := pop_order K hint l).
    assert (NDp : NoDup (map e_key po)).
    { eapply Permutation_NoDup; [|exact ND]. apply Permutation_map. symmetry. apply pop_order_perm. }
    assert (Hinp : In e po) by (eapply Permutation_in; [symmetry; apply pop_order_perm|exact Hin]).
    assert (TXp : Forall (fun e => 1 <= e_tx e) po).
    { eapply Permutation_Forall; [symmetry; apply pop_order_perm|exact TX]. }
    assert (TXe : 1 <= e_tx e) by (rewrite Forall_forall in TX; apply TX; exact Hin).
    pose proof (fill_step_entry K extra po room rem e NDp Hinp) as S. cbv zeta in S.
    set (decs := fill_dec K extra po room rem) in *.
    assert (NDd : NoDup (map (fun d => e_key (fst d)) decs)).
    { unfold decs. rewrite <- (map_map fst e_key). rewrite fill_dec_fst. exact NDp. }
    assert (NDk : NoDup (map e_key (flat_map (kp K) decs))).
    { apply NoDup_keys_kept. unfold decs. rewrite <- (map_map fst e_key). rewrite fill_dec_fst. exact NDp. }
    assert (TXk : Forall (fun e => 1 <= e_tx e) (flat_map (kp K) decs)).
    { apply kept_tx_ok. unfold decs.
      assert (F0 : Forall (fun e => 1 <= e_tx e) (map fst (fill_dec K extra po room rem))) by (rewrite fill_dec_fst; exact TXp).
      rewrite Forall_map in F0. exact F0. }
    rewrite times_written_cons.
    destruct S as [[Hw Hk]|[Hn Hk]].
    + assert (W : wrote K keqb (e_key e) decs = true).
      { unfold wrote. apply existsb_exists. exists (e, true). split; auto. cbn. apply keqb_eq. reflexivity. }
      rewrite W.
      destruct (1 <? e_tx e) eqn:T.
      * destruct (IH _ (dec_entry K e) NDk TXk Hk) as [[G E]|(x & Hx & Ek & Ed & Tx & E)];
          cbn [dec_entry e_key e_tx e_data] in *.
        -- left. split; [exact G|]. rewrite E. lia.
        -- right. exists x. repeat split; auto. lia.
      * left. split.
        -- apply fills_end_absent. exact Hk.
        -- rewrite (times_written_absent K keqb keqb_eq t (flat_map (kp K) decs) (e_key e) Hk). lia.
    + rewrite (not_written_wrote_false decs e NDd Hn). cbn [Nat.add].
      apply IH; auto.
Qed.

(* the clause of C15: an entry that has left the backlog through fills alone was written exactly
   as many times as it had transmissions left when accepted *)
Corollary tx_exact steps l e :
  NoDup (map e_key l) -> Forall (fun e => 1 <= e_tx e) l -> In e l ->
  (forall x, In x (fills_end l steps) -> e_key x <> e_key e) ->
  times_written K keqb (e_key e) (fills K l steps) = N.to_nat (e_tx e).
Proof.
  intros ND TX Hin G. destruct (tx_conserved steps l e ND TX Hin) as [[_ E]|(x & Hx & Ek & _)]; [exact E|].
  exfalso. exact (G x Hx Ek).
Qed.

(* and while fewer than e_tx fills have written it, it is still pending, bytes unchanged *)
Corollary tx_still_pending steps l e :
  NoDup (map e_key l) -> Forall (fun e => 1 <= e_tx e) l -> In e l ->
  (times_written K keqb (e_key e) (fills K l steps) < N.to_nat (e_tx e))%nat ->
  exists x, In x (fills_end l steps) /\ e_key x = e_key e /\ e_data x = e_data e
    /\ (N.to_nat (e_tx x) + times_written K keqb (e_key e) (fills K l steps) = N.to_nat (e_tx e))%nat.
Proof.
  intros ND TX Hin Lt. destruct (tx_conserved steps l e ND TX Hin) as [[_ E]|(x & Hx & Ek & Ed & _ & E)]; [lia|].
  exists x. auto.
Qed.

End Keys.
