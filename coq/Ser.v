(* Ser.v — (de)serialisation of concrete states / inputs / outputs as lists of N.
   Shared by the extracted driver and by vm_compute replays.  No proofs. *)
From Foca Require Export Concrete.

Definition P (A : Type) := list N -> option (A * list N).

Definition pret {A} (a : A) : P A := fun l => Some (a, l).
Definition pbind {A B} (p : P A) (f : A -> P B) : P B :=
  fun l => match p l with Some (a, r) => f a r | None => None end.
Notation "x <~ p ;; f" := (pbind p (fun x => f)) (at level 61, p at next level, right associativity).

Definition pN : P N := fun l => match l with x :: r => Some (x, r) | [] => None end.
Definition pbool : P bool := x <~ pN ;; pret (negb (x =? 0)).

Fixpoint prep {A} (n : nat) (p : P A) : P (list A) :=
  match n with
  | O => pret []
  | S n' => x <~ p ;; xs <~ prep n' p ;; pret (x :: xs)
  end.
Definition plist {A} (p : P A) : P (list A) := n <~ pN ;; prep (N.to_nat n) p.
Definition pbytes : P bytes := plist pN.
Definition popt {A} (p : P A) : P (option A) :=
  t <~ pN ;; if t =? 0 then pret None else (x <~ p ;; pret (Some x)).

Definition pid : P cid := a <~ pN ;; g <~ pN ;; k <~ pN ;; p <~ pN ;; pret (mkCid a g k p).
Definition pstate : P mstate :=
  s <~ pN ;; pret (match s with 0 => Alive | 1 => Suspect | _ => Down end).
Definition pmember : P (member cid) :=
  i <~ pid ;; inc <~ pN ;; s <~ pstate ;; pret (mkMember i inc s).
Definition ppair : P (N * N) := a <~ pN ;; b <~ pN ;; pret (a, b).

Definition pconfig : P config :=
  a <~ pN ;; b <~ pN ;; c <~ pN ;; d <~ pN ;; e <~ pN ;; f <~ pN ;; g <~ pN ;; h <~ pbool ;;
  i <~ popt ppair ;; j <~ popt ppair ;; k <~ popt ppair ;;
  pret (mkConfig a b c d e f g h i j k).

Definition ptimer : P (timer cid) :=
  t <~ pN ;;
  match t with
  | 0 => k <~ pN ;; pret (TProbeRandomMember k)
  | 1 => i <~ pid ;; k <~ pN ;; pret (TSendIndirectProbe i k)
  | 2 => i <~ pid ;; n <~ pN ;; k <~ pN ;; pret (TChangeSuspectToDown i n k)
  | 3 => k <~ pN ;; pret (TPeriodicAnnounce k)
  | 4 => k <~ pN ;; pret (TPeriodicAnnounceDown k)
  | 5 => k <~ pN ;; pret (TPeriodicGossip k)
  | _ => i <~ pid ;; pret (TRemoveDown i)
  end.

Definition pconn : P conn_state :=
  c <~ pN ;; pret (match c with 0 => Disconnected | 1 => Connected | _ => Undead end).

Definition pmembers : P (@members cid) :=
  l <~ plist pmember ;; c <~ pN ;; n <~ pN ;; pret (mkMembers l c n).

Definition pprobe : P (probe cid) :=
  d <~ popt pmember ;; ind <~ plist pid ;; n <~ pN ;; ok <~ pbool ;; cnt <~ pN ;; r <~ pbool ;;
  pret (mkProbe d ind n ok cnt r).

Definition pupd : P (@entry N) :=
  tx <~ pN ;; a <~ pN ;; d <~ pbytes ;; pret (mkEntry tx d a).
Definition pcust : P (@entry ckey) :=
  tx <~ pN ;; k <~ pN ;; v <~ pN ;; m <~ pN ;; d <~ pbytes ;; pret (mkEntry tx d (k, v, m)).
Definition phst : P chst :=
  m <~ pN ;; mask <~ pN ;; seen <~ plist ppair ;; pret (mkChst m mask seen).

Definition pfoca : P cfoca :=
  i <~ pid ;; inc <~ pN ;; c <~ pconfig ;; cn <~ pconn ;; tok <~ pN ;;
  ms <~ pmembers ;; pr <~ pprobe ;; us <~ plist pupd ;; cs <~ plist pcust ;;
  h <~ phst ;; cap <~ pN ;;
  pret (mkFoca i inc c cn tok ms pr us cs h cap).

Definition pinput : P cinput :=
  t <~ pN ;;
  match t with
  | 0 => b <~ pbytes ;; pret (IData b)
  | 1 => x <~ ptimer ;; pret (ITimer x)
  | 2 => l <~ plist pmember ;; b <~ pbool ;; pret (IApplyMany l b)
  | 3 => d <~ pid ;; pret (IAnnounce d)
  | 4 => pret IGossip
  | 5 => pret IBroadcast
  | 6 => pret ILeave
  | 7 => d <~ pid ;; pret (IChangeIdentity d)
  | 8 => pret IReuseDown
  | 9 => c <~ pconfig ;; pret (ISetConfig c)
  | _ => b <~ pbytes ;; pret (IAddBroadcast b)
  end.

(* ---- printers ---- *)
Definition sbool (b : bool) : list N := [if b then 1 else 0].
Definition slist {A} (s : A -> list N) (l : list A) : list N := len l :: flat_map s l.
Definition sbytes (b : bytes) : list N := len b :: b.
Definition sopt {A} (s : A -> list N) (o : option A) : list N :=
  match o with None => [0] | Some x => 1 :: s x end.
Definition sid (i : cid) : list N := [ca i; cg i; ck i; cpad i].
Definition smember (m : member cid) : list N := sid (m_id m) ++ [m_inc m; enc_state (m_state m)].
Definition spair (p : N * N) : list N := [fst p; snd p].
Definition sconfig (c : config) : list N :=
  [probe_period c; probe_rtt c; num_indirect_probes c; max_transmissions c;
   suspect_to_down_after c; remove_down_after c; max_packet_size c]
  ++ sbool (notify_down_members c)
  ++ sopt spair (periodic_announce c) ++ sopt spair (periodic_announce_down c)
  ++ sopt spair (periodic_gossip c).
Definition stimer (t : timer cid) : list N :=
  match t with
  | TProbeRandomMember k => [0; k]
  | TSendIndirectProbe i k => 1 :: sid i ++ [k]
  | TChangeSuspectToDown i n k => 2 :: sid i ++ [n; k]
  | TPeriodicAnnounce k => [3; k]
  | TPeriodicAnnounceDown k => [4; k]
  | TPeriodicGossip k => [5; k]
  | TRemoveDown i => 6 :: sid i
  end.
Definition sconn (c : conn_state) : list N :=
  [match c with Disconnected => 0 | Connected => 1 | Undead => 2 end].
Definition sfoca (f : cfoca) : list N :=
  sid (identity f) ++ [incarnation f] ++ sconfig (cfg f) ++ sconn (conn f) ++ [token f]
  ++ slist smember (inner (mems f)) ++ [cursor (mems f); num_active (mems f)]
  ++ sopt smember (p_direct (prb f)) ++ slist sid (p_indirect (prb f))
  ++ [p_number (prb f)] ++ sbool (p_direct_ack_ok (prb f)) ++ [p_indirect_ack_count (prb f)]
  ++ sbool (p_reached (prb f))
  ++ slist (fun e => [e_tx e; e_key e] ++ sbytes (e_data e)) (updates f)
  ++ slist (fun e => let '(k, v, m) := e_key e in [e_tx e; k; v; m] ++ sbytes (e_data e)) (customs f)
  ++ [ch_mode (hst f); ch_mask (hst f)] ++ slist spair (ch_seen (hst f))
  ++ [send_cap f].
Definition snote (n : notification cid) : list N :=
  match n with
  | NMemberUp i => 0 :: sid i
  | NMemberDown i => 1 :: sid i
  | NRename a b => 2 :: sid a ++ sid b
  | NActive => [3] | NIdle => [4] | NDefunct => [5]
  | NRejoin i => 6 :: sid i
  end.
Definition seffect (e : effect cid) : list N :=
  match e with
  | Send d b => 0 :: sid d ++ sbytes b
  | Submit t a => 1 :: stimer t ++ [a]
  | Notify n => 2 :: snote n
  end.
Definition serror (e : error) : N :=
  match e with
  | EDataTooBig => 0 | ENotUndead => 1 | ESameIdentity => 2 | ENotConnected => 3
  | EIncompleteProbeCycle => 4 | EDataFromOurselves => 5 | EIndirectForOurselves => 6
  | EMalformedPacket => 7 | EEncode => 8 | EDecode => 9 | ECustomBroadcast => 10
  | EInvalidConfig => 11
  end.
Definition ssite (s : site) : N :=
  match s with
  | PSendBufCapacity => 0 | PFeedCountOverflow => 1 | PItemTooLong => 2 | PApplySelf => 3
  | PProbeNotConnected => 4 | PExpectIndirectIsTarget => 5 | PDisconnectedWithMembers => 6
  | PConnectedNoMembers => 7 | PFlopNotEmpty => 8 | PZeroTx => 9 | PAckCountOverflow => 10
  | PInsertIndex => 11 | PDivZero => 12
  end.
Definition sresult (r : result) : list N :=
  match r with
  | Done => [0]
  | DoneBool b => 1 :: sbool b
  | Failed e => [2; serror e]
  | Panicked s => [3; ssite s]
  end.

(* output: result, number of oracle requests, effects, state *)
Definition sout (o : cfoca * list (effect cid) * result * N) : list N :=
  let '(f, effs, r, k) := o in
  sresult r ++ [k] ++ slist seffect effs ++ sfoca f.

(* input line: state then input.  [777] = parse error (never produced by the harness). *)
Definition run_step_ser (rnd : oracle) (l : list N) : list N :=
  match (f <~ pfoca ;; i <~ pinput ;; pret (f, i)) l with
  | Some ((f, i), []) => sout (cstep rnd f i)
  | _ => [777]
  end.

(* the model's timer order key for a serialised timer (compared with the real Ord of Timer) *)
Definition run_timer_seq (l : list N) : list N :=
  match ptimer l with
  | Some (t, []) => [timer_seq t]
  | _ => [777]
  end.

(* oracle from a recorded list of answers (used by the vm_compute replay) *)
Definition list_oracle (answers : list (list N)) : oracle :=
  fun k _ => nth (N.to_nat k) answers [].
