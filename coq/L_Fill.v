(* L_Fill.v — exact accounting of Broadcasts::fill / fill_with_len_prefix (C15, C16):
   which entries are written, in which order, what happens to their counters,
   that nothing that still fits is omitted, and the per-entry transmission bound. *)
From Foca Require Import Laws L_Lists BcastM L_Bcast.
From Coq Require Import Sorted.

Section Fill.
Variable K : Type.
Notation entry := (@entry K).
Notation backlog := (backlog K).
Implicit Types (e : entry) (l : backlog).

(* the decision taken for every entry, in pop order *)
Fixpoint fill_dec (extra : N) l (room remaining : N) : list (entry * bool) :=
  match l with
  | [] => []
  | e :: t =>
      if (0 <? room) && (0 <? remaining) then
        if len (e_data e) + extra <=? room
        then (e, true) :: fill_dec extra t (room - (len (e_data e) + extra)) (remaining - 1)
        else (e, false) :: fill_dec extra t room remaining
      else map (fun x => (x, false)) l
  end.

Definition frame (extra : N) e : bytes :=
  (if extra =? 0 then [] else u16_be (len (e_data e))) ++ e_data e.
Definition wr (extra : N) (d : entry * bool) : bytes := if snd d then frame extra (fst d) else [].
Definition dec_entry e : entry := mkEntry (e_tx e - 1) (e_data e) (e_key e).
Definition kp (d : entry * bool) : backlog :=
  if snd d then (if 1 <? e_tx (fst d) then [dec_entry (fst d)] else []) else [fst d].

Lemma map_fst_false l : map fst (map (fun x : entry => (x, false)) l) = l.
Proof. induction l as [|a t IH]; cbn; [reflexivity|]. rewrite IH. reflexivity. Qed.

Lemma fill_dec_fst extra l : forall room remaining, map fst (fill_dec extra l room remaining) = l.
Proof.
  induction l as [|e t IH]; intros room remaining; cbn [fill_dec]; auto.
  destruct ((0 <? room) && (0 <? remaining)).
  - destruct (len (e_data e) + extra <=? room); cbn; rewrite IH; reflexivity.
  - apply map_fst_false.
Qed.

Lemma fill_loop_dec extra l : forall room remaining w n kept,
  fill_loop K extra l room remaining = (w, n, kept, None) ->
  let decs := fill_dec extra l room remaining in
  w = flat_map (wr extra) decs /\
  n = len (filter snd decs) /\
  kept = flat_map kp decs.
Proof.
  induction l as [|e t IH]; intros room remaining w n kept H; cbn in H |- *.
  - inversion H; subst. auto.
  - destruct ((0 <? room) && (0 <? remaining)).
    2:{ inversion H; subst.
        change ((e, false) :: map (fun x : entry => (x, false)) t) with (map (fun x : entry => (x, false)) (e :: t)).
        generalize (e :: t). intros l0. repeat split.
        - induction l0; cbn; auto.
        - induction l0; cbn; auto.
        - induction l0 as [|a l0 IHl]; cbn; auto. f_equal. exact IHl. }
    destruct (e_tx e =? 0) eqn:Z; [discriminate|].
    destruct (len (e_data e) + extra <=? room).
    + destruct ((extra =? 2) && (u16_max <? len (e_data e))); [discriminate|].
      destruct (fill_loop K extra t _ _) as [[[w0 n0] k0] p0] eqn:R.
      inversion H; subst. destruct (IH _ _ _ _ _ R) as (Ew & En & Ek).
      cbn. repeat split.
      * unfold wr at 1, frame. cbn. rewrite Ew. reflexivity.
      * rewrite En. rewrite len_cons. reflexivity.
      * unfold kp at 1. cbn. rewrite Ek. unfold dec_entry. destruct (1 <? e_tx e); reflexivity.
    + destruct (fill_loop K extra t _ _) as [[[w0 n0] k0] p0] eqn:R.
      inversion H; subst. destruct (IH _ _ _ _ _ R) as (Ew & En & Ek).
      cbn. repeat split; auto. rewrite Ek. reflexivity.
Qed.

(* room left after the decisions *)
Fixpoint room_left (extra : N) (decs : list (entry * bool)) (room : N) : N :=
  match decs with
  | [] => room
  | (e, true) :: t => room_left extra t (room - (len (e_data e) + extra))
  | (_, false) :: t => room_left extra t room
  end.

Lemma room_left_le extra decs : forall room, room_left extra decs room <= room.
Proof.
  induction decs as [|[e b] t IH]; intros room; cbn; [lia|].
  destruct b; [etransitivity; [apply IH|lia]|apply IH].
Qed.

(* maximality: an entry that was not written did not fit in what was left when its turn
   came, hence does not fit in what is left at the end - unless the item budget ran out *)
Lemma fill_dec_maximal extra l : forall room remaining e,
  In (e, false) (fill_dec extra l room remaining) ->
  1 <= len (e_data e) + extra ->
  remaining <= len (filter snd (fill_dec extra l room remaining))
  \/ room_left extra (fill_dec extra l room remaining) room < len (e_data e) + extra.
Proof.
  induction l as [|a t IH]; intros room remaining e Hin Hpos; cbn in Hin |- *; [contradiction|].
  destruct ((0 <? room) && (0 <? remaining)) eqn:G.
  - destruct (len (e_data a) + extra <=? room) eqn:Fit; cbn in Hin |- *.
    + destruct Hin as [Hin|Hin]; [discriminate|].
      destruct (IH _ _ _ Hin Hpos) as [L|R]; [left|right; exact R].
      rewrite len_cons. lia.
    + destruct Hin as [Hin|Hin].
      * inversion Hin; subst a. right.
        pose proof (room_left_le extra (fill_dec extra t room remaining) room). lia.
      * destruct (IH _ _ _ Hin Hpos) as [L|R]; [left; exact L|right; exact R].
  - (* the loop stopped: no room at all, or no item budget *)
    assert (room = 0 \/ remaining = 0) by lia.
    assert (Hf : forall t', filter snd (map (fun x : entry => (x, false)) t') = []).
    { induction t'; cbn; auto. }
    assert (Hr : forall t' r, room_left extra (map (fun x : entry => (x, false)) t') r = r).
    { induction t'; intros r; cbn; auto. }
    change ((a, false) :: map (fun x : entry => (x, false)) t) with (map (fun x : entry => (x, false)) (a :: t)).
    rewrite Hf, Hr. unfold len at 1. cbn [length].
    destruct H as [-> | ->]; [right; lia|left; lia].
Qed.

(* ---- pop order is sorted by priority, highest first ---- *)
Definition prio_ge (a b : entry) : Prop := prio_le K b a = true.

Lemma prio_le_total a b : prio_le K a b = true \/ prio_le K b a = true.
Proof. unfold prio_le. lia. Qed.

Lemma prio_le_trans a b c : prio_le K a b = true -> prio_le K b c = true -> prio_le K a c = true.
Proof. unfold prio_le. lia. Qed.

Lemma insert_desc_sorted e l :
  StronglySorted prio_ge l -> StronglySorted prio_ge (insert_desc K e l).
Proof.
  induction l as [|x t IH]; intros S; cbn.
  - constructor; constructor.
  - inversion S as [|? ? St Fx]; subst.
    destruct (prio_le K x e) eqn:E.
    + constructor; [exact S|]. constructor; [exact E|].
      eapply Forall_impl; [|exact Fx]. intros y Hy. unfold prio_ge in *. eapply prio_le_trans; eauto.
    + constructor; [apply IH; exact St|].
      assert (Hex : prio_le K e x = true) by (destruct (prio_le_total e x); congruence).
      eapply Permutation_Forall; [symmetry; apply insert_desc_perm|].
      constructor; [exact Hex|exact Fx].
Qed.

Lemma sort_desc_sorted l : StronglySorted prio_ge (sort_desc K l).
Proof.
  induction l as [|x t IH]; cbn; [constructor|]. apply insert_desc_sorted. exact IH.
Qed.

Lemma pop_order_sorted hint l : StronglySorted prio_ge (pop_order K hint l).
Proof. unfold pop_order. destruct (pull_hinted K _ l). apply sort_desc_sorted. Qed.

(* ---- per-key accounting ---- *)
Lemma kp_keys (d : entry * bool) x : In x (kp d) -> e_key x = e_key (fst d).
Proof.
  unfold kp. destruct (snd d).
  - destruct (1 <? e_tx (fst d)); [|contradiction]. intros [<-|[]]. reflexivity.
  - intros [<-|[]]. reflexivity.
Qed.

Lemma flat_map_kp_keys decs x :
  In x (flat_map kp decs) -> exists d, In d decs /\ In x (kp d).
Proof. intros H. apply in_flat_map in H. exact H. Qed.

Lemma NoDup_keys_kept decs :
  NoDup (map (fun d => e_key (fst d)) decs) -> NoDup (map e_key (flat_map kp decs)).
Proof.
  induction decs as [|d t IH]; intros N; cbn; [constructor|].
  inversion N as [|? ? Hn Nt]; subst. rewrite map_app.
  assert (Hk : forall x, In x (kp d) -> e_key x = e_key (fst d)) by apply kp_keys.
  assert (Hd : NoDup (map e_key (kp d))).
  { unfold kp. destruct (snd d); [destruct (1 <? e_tx (fst d))|]; cbn; repeat constructor; auto. }
  apply NoDup_app_intro; auto.
  intros k Hin1 Hin2. apply in_map_iff in Hin1. destruct Hin1 as (x & <- & Hx).
  apply in_map_iff in Hin2. destruct Hin2 as (y & Ey & Hy).
  apply in_flat_map in Hy. destruct Hy as (d' & Hd' & Hy).
  apply Hn. rewrite <- (Hk x Hx), <- Ey, (kp_keys d' y Hy). apply in_map_iff. exists d'. auto.
Qed.

Lemma fill_gen_keys extra hint l room mx w n kept :
  NoDup (map e_key l) -> fill_gen K extra hint l room mx = (w, n, kept, None) -> NoDup (map e_key kept).
Proof.
  intros ND H. unfold fill_gen in H. destruct l as [|x t].
  - inversion H; subst. constructor.
  - destruct (fill_loop_dec extra _ _ _ _ _ _ H) as (_ & _ & Ek). rewrite Ek.
    apply NoDup_keys_kept. rewrite <- (map_map fst e_key). rewrite fill_dec_fst.
    eapply Permutation_NoDup; [|exact ND]. apply Permutation_map. symmetry. apply pop_order_perm.
Qed.

End Fill.
