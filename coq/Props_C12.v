(* Props_C12.v — C12: a probe succeeds only on genuine evidence; indirect probing is routed correctly. *)
From Foca Require Import Laws MembersM ProbeM FocaM WireM L_Members L_MembersInv Inv L_Wire L_Probe L_RoundEnd L_IndirectStage L_RoundSuspect L_Evidence L_Abort L_SendFrame Concrete.
From Coq Require Import Permutation.

Section C12.
Context {Id Addr : Type} {IO : IdOps Id Addr} {CO : CodecOps Id} {HO : HandlerOps Id}.
Context {IL : IdLaws IO} {EL : @ExtraLaws Id Addr IO CO} {CL : CodecLaws CO}.

(* direct evidence: only an Ack with the current probe number from the probed member *)
Theorem C12_direct_evidence (p : probe Id) (from : Id) (n : N) :
  p_direct_ack_ok (fst (probe_receive_ack p from n)) = true ->
  p_direct_ack_ok p = true \/ (n = p_number p /\ probe_is_probing p from = true).
Proof. exact (receive_ack_evidence p from n). Qed.

(* indirect evidence: only a ForwardedAck with the current number from a member that was asked
   in this round and has not been counted yet (it is struck off, so it counts once) *)
Theorem C12_indirect_evidence (p : probe Id) (from : Id) (n : N) :
  let p' := fst (probe_receive_indirect_ack p from n) in
  (p_indirect_ack_count p' = p_indirect_ack_count p /\ p_indirect p' = p_indirect p)
  \/ (n = p_number p /\ In from (p_indirect p)
      /\ p_indirect_ack_count p' = p_indirect_ack_count p + 1
      /\ (NoDup (p_indirect p) -> ~ In from (p_indirect p'))
      /\ length (p_indirect p') = (length (p_indirect p) - 1)%nat).
Proof. exact (receive_indirect_ack_evidence p from n). Qed.

(* evidence is reset by every round start / idle / defunct / identity change (probe_clear) *)
Theorem C12_reset (p : probe Id) (m : member Id) :
  probe_succeeded (fst (probe_start p m)) = false /\ probe_succeeded (probe_clear p) = false
  /\ p_indirect (fst (probe_start p m)) = [] /\ p_direct (probe_clear p) = None.
Proof. exact (conj (proj1 (start_resets p m)) (conj (proj1 (clear_resets p)) (conj (proj2 (start_resets p m)) (proj2 (clear_resets p))))). Qed.

(* the round's target is handed over for suspicion iff the round did not succeed *)
Theorem C12_failed_iff_no_evidence (p : probe Id) (m : member Id) :
  snd (probe_take_failed p) = Some m <-> probe_succeeded p = false /\ p_direct p = Some m.
Proof. exact (take_failed_iff p m). Qed.

(* indirect requests go to at most num_indirect_probes members (reservoir of that size) ... *)
Theorem C12_fanout_bound (rnd : oracle) (ms : @members Id) (wanted : N) picker (n : N) :
  len (fst (choose_members rnd ms wanted picker n)) <= wanted.
Proof. exact (choose_members_len rnd ms wanted picker n). Qed.

(* ... each an active record satisfying the picker (for SendIndirectProbe: not the target) *)
Theorem C12_fanout_members (rnd : oracle) (ms : @members Id) (wanted : N) picker (n : N) (x : member Id) :
  In x (fst (choose_members rnd ms wanted picker n)) -> In x (inner ms) /\ picker x = true.
Proof. exact (choose_members_spec rnd ms wanted picker n x). Qed.

(* replies: Ping n -> Ack n to the sender; the relay chain preserves origin, target, number *)
Theorem C12_ping_acked (rnd : oracle) (src : Id) (n : N) (s : @rs Id Addr HO) :
  WF (st s) ->
  match react rnd src (Ping n) s with
  | (s', ROk _) => exists b, out s' = out s ++ [Send src b] /\ sent_ok (st s) src (Ack n) b
  | (s', RErr e) => e = EEncode /\ s' = s
  | (_, RPanic _) => False
  end.
Proof. exact (ping_is_acked rnd src n s). Qed.

Theorem C12_relay_ping_req (rnd : oracle) (src target : Id) (n : N) (s : @rs Id Addr HO) :
  WF (st s) -> id_eqb target (identity (st s)) = false ->
  match react rnd src (PingReq target n) s with
  | (s', ROk _) => exists b, out s' = out s ++ [Send target b] /\ sent_ok (st s) target (IndirectPing src n) b
  | (s', RErr e) => e = EEncode /\ s' = s
  | (_, RPanic _) => False
  end.
Proof. exact (ping_req_is_relayed rnd src target n s). Qed.

Theorem C12_relay_indirect_ping (rnd : oracle) (src origin : Id) (n : N) (s : @rs Id Addr HO) :
  WF (st s) -> id_eqb origin (identity (st s)) = false ->
  match react rnd src (IndirectPing origin n) s with
  | (s', ROk _) => exists b, out s' = out s ++ [Send src b] /\ sent_ok (st s) src (IndirectAck origin n) b
  | (s', RErr e) => e = EEncode /\ s' = s
  | (_, RPanic _) => False
  end.
Proof. exact (indirect_ping_is_acked rnd src origin n s). Qed.

Theorem C12_relay_indirect_ack (rnd : oracle) (src target : Id) (n : N) (s : @rs Id Addr HO) :
  WF (st s) -> id_eqb target (identity (st s)) = false ->
  match react rnd src (IndirectAck target n) s with
  | (s', ROk _) => exists b, out s' = out s ++ [Send target b] /\ sent_ok (st s) target (ForwardedAck src n) b
  | (s', RErr e) => e = EEncode /\ s' = s
  | (_, RPanic _) => False
  end.
Proof. exact (indirect_ack_is_forwarded rnd src target n s). Qed.

(* requests naming the instance itself as relay target / origin: rejected, nothing sent *)
Theorem C12_indirect_for_ourselves (rnd : oracle) (src : Id) (msg : message Id) (s : @rs Id Addr HO) :
  (exists n, msg = PingReq (identity (st s)) n \/ msg = IndirectPing (identity (st s)) n
             \/ msg = IndirectAck (identity (st s)) n \/ msg = ForwardedAck (identity (st s)) n) ->
  react rnd src msg s = (s, RErr EIndirectForOurselves).
Proof. exact (indirect_for_ourselves rnd src msg s). Qed.

(* ROUND END: the suspicion timeouts scheduled by a live ProbeRandomMember call are exactly:
   one - for the target of the round that just ended, carrying the incarnation it was probed at and
   the current token, after suspect_to_down_after - iff that round produced no evidence
   (C12_failed_iff_no_evidence) and the target is still an active record after the Suspect update;
   none otherwise (round succeeded, aborted / cleared, or the target is gone or already Down) *)
Theorem C12_round_end (rnd : oracle) (f : @foca Id Addr HO) :
  conn f = Connected ->
  let es := snd (fst (fst (step rnd f (ITimer (TProbeRandomMember (token f)))))) in
  let prb1 := if negb (probe_validate (prb f)) then probe_clear (prb f) else prb f in
  filter (fun e => match e with Submit (TChangeSuspectToDown _ _ _) _ => true | _ => false end) es =
  match snd (probe_take_failed prb1) with
  | Some fm =>
      match apply_existing_if (mems f) (mkMember (m_id fm) (m_inc fm) Suspect) (fun _ => true) with
      | Some (_, sm) =>
          if is_active_now sm
          then [Submit (TChangeSuspectToDown (m_id fm) (m_inc fm) (token f)) (suspect_to_down_after (cfg f))]
          else []
      | None => []
      end
  | None => []
  end.
Proof.
  intros Cn. cbn [step]. unfold run_unit, handle_timer, bind at 1, get at 1. cbv beta iota. cbn [st].
  rewrite N.eqb_refl, Cn. cbn [conn_eqb negb].
  destruct (probe_round_end rnd (mkRs f [] 0) Cn) as (new & O & E).
  destruct (probe_random_member rnd (mkRs f [] 0)) as [s' r]. cbn [fst snd out] in *.
  cbn [app] in O. rewrite O. exact E.
Qed.

(* THE INDIRECT STAGE as one call: the SendIndirectProbe timer sends only PingReq(target, current
   number) datagrams, only while the round is still open (current token, this target, no evidence
   yet, target still active), at most num_indirect_probes of them, each to an active record other
   than the target; in every other situation it sends nothing *)
Theorem C12_indirect_stage (rnd : oracle) (f : @foca Id Addr HO) (probed : Id) (tok : N) :
  let es := snd (fst (fst (step rnd f (ITimer (TSendIndirectProbe probed tok))))) in
  (es <> [] -> tok = token f /\ probe_is_probing (prb f) probed = true
               /\ probe_succeeded (prb f) = false /\ is_active_id (mems f) probed = true)
  /\ exists helpers,
       Forall (pingreq_to helpers (identity f) (incarnation f) probed) es
       /\ len es <= num_indirect_probes (cfg f)
       /\ forall hm, In hm helpers -> In hm (inner (mems f)) /\ m_active hm = true /\ id_eqb (m_id hm) probed = false.
Proof. exact (indirect_stage rnd f probed tok). Qed.

Theorem C12_pingreq_to_meaning (helpers : list (member Id)) (id : Id) (inc : N) (probed : Id) (e : effect Id) :
  pingreq_to helpers id inc probed e <->
  match e with
  | Send dst b => exists n rest hm, In hm helpers /\ m_id hm = dst
                                    /\ b = enc_hdr (mkHeader id inc dst (PingReq probed n)) ++ rest
  | _ => False
  end.
Proof. reflexivity. Qed.

(* what the end of a round does to the member list: (up to the probe order, which the round-robin
   may reshuffle) exactly the Suspect update of the failed target applied through apply_existing_if,
   nothing else; and that update turns a target still Alive at the probed incarnation into Suspect *)
Theorem C12_round_end_members (rnd : oracle) (f : @foca Id Addr HO) :
  conn f = Connected ->
  Permutation (inner (mems (fst (fst (fst (step rnd f (ITimer (TProbeRandomMember (token f)))))))))
              (inner (round_members f))
  /\ round_members f =
     (let prb1 := if negb (probe_validate (prb f)) then probe_clear (prb f) else prb f in
      match snd (probe_take_failed prb1) with
      | Some fm =>
          match apply_existing_if (mems f) (mkMember (m_id fm) (m_inc fm) Suspect) (fun _ => true) with
          | Some (ms, _) => ms
          | None => mems f
          end
      | None => mems f
      end).
Proof. intros Cn. split; [exact (step_round_members rnd f Cn)|reflexivity]. Qed.

Theorem C12_failed_target_becomes_suspect (ms : @members Id) (x : Id) (i : N) (k : member Id) :
  lookup (inner ms) (addr_of x) = Some k -> m_id k = x -> m_inc k = i -> m_state k = Alive ->
  exists p ms' sm, nth_error (inner ms) p = Some k
    /\ apply_existing_if ms (mkMember x i Suspect) (fun _ => true) = Some (ms', sm)
    /\ inner ms' = set_nth p (mkMember x i Suspect) (inner ms)
    /\ is_active_now sm = true.
Proof. exact (suspect_applies ms x i k). Qed.

(* EVIDENCE OVER INTERLEAVINGS.  ev p: the current round has evidence (a direct Ack or a counted
   ForwardedAck), or there is no round.  An Ack / ForwardedAck with the current number from the right
   member establishes it; EVERY call other than the live ProbeRandomMember timer keeps it - datagrams of
   any kind, stale and forged timers, the SendIndirectProbe timer, every API call, in any order and
   number; and the live ProbeRandomMember timer that finds it schedules no suspicion timeout and leaves
   the member list alone.  So evidence arriving at any moment before the round ends prevents the
   suspicion - whatever else is interleaved. *)
Theorem C12_evidence_terms (p : probe Id) :
  ev p <-> (probe_succeeded p = true \/ p_direct p = None).
Proof. reflexivity. Qed.

Theorem C12_ack_is_evidence (p : probe Id) (from : Id) (n : N) :
  n = p_number p -> probe_is_probing p from = true -> ev (fst (probe_receive_ack p from n)).
Proof. exact (ack_is_evidence p from n). Qed.

Theorem C12_forwarded_ack_is_evidence (p : probe Id) (from : Id) (n : N) (pos : nat) :
  p_number p = n -> find_index (fun i => id_eqb i from) (p_indirect p) = Some pos ->
  ev (fst (probe_receive_indirect_ack p from n)).
Proof. exact (forwarded_ack_is_evidence p from n pos). Qed.

Theorem C12_evidence_survives_every_other_call (rnd : oracle) (f : @foca Id Addr HO) (i : @input Id) :
  match i with ITimer (TProbeRandomMember k) => ~ (k = token f /\ conn f = Connected) | _ => True end ->
  ev (prb f) -> ev (prb (fst (fst (fst (step rnd f i))))).
Proof. exact (step_keeps_evidence rnd f i). Qed.

Theorem C12_evidence_survives_histories (rnd : oracle) (l : list (@input Id)) (f : @foca Id Addr HO) :
  no_live_probe rnd f l -> ev (prb f) -> ev (prb (run_calls rnd f l)).
Proof. exact (history_keeps_evidence rnd l f). Qed.

Theorem C12_history_terms (rnd : oracle) (f : @foca Id Addr HO) (i : @input Id) (l : list (@input Id)) :
  run_calls rnd f [] = f
  /\ run_calls rnd f (i :: l) = run_calls rnd (fst (fst (fst (step rnd f i)))) l
  /\ (no_live_probe rnd f [] <-> True)
  /\ (no_live_probe rnd f (i :: l) <->
      (match i with ITimer (TProbeRandomMember k) => ~ (k = token f /\ conn f = Connected) | _ => True end)
      /\ no_live_probe rnd (fst (fst (fst (step rnd f i)))) l).
Proof. split; [reflexivity|]. split; [reflexivity|]. split; reflexivity. Qed.

Theorem C12_round_with_evidence_ends_quietly (rnd : oracle) (f : @foca Id Addr HO) :
  conn f = Connected -> ev (prb f) ->
  let '(f', es, _, _) := step rnd f (ITimer (TProbeRandomMember (token f))) in
  cstd_of es = [] /\ Permutation (inner (mems f')) (inner (mems f)).
Proof. exact (round_with_evidence_ends_quietly rnd f). Qed.

(* ABORTED ROUNDS ("unless the round was aborted by going idle or changing identity").  An instance that
   is not Connected has no open round without evidence: this holds for a fresh instance and is kept by every
   call that is not aborted by an Encode error or a panic, hence along histories; an identity change leaves no
   open round (and leaves the instance not Connected) whatever the state before.  With
   C12_evidence_survives_histories and C12_round_with_evidence_ends_quietly: whatever happens between the
   abort and the first round after reconnecting, that round raises no suspicion about the abandoned target. *)
Theorem C12_abort_terms (f : @foca Id Addr HO) (r : result) :
  (Qab f <-> (conn f <> Connected -> ev (prb f)))
  /\ aborted r = (match r with Failed EEncode => true | Panicked _ => true | _ => false end).
Proof. split; [split; auto|reflexivity]. Qed.

Theorem C12_fresh_instance_has_no_open_round (id0 : Id) (c0 : config) (h0 : hstate) :
  Qab (@foca_init Id Addr HO id0 c0 h0).
Proof. exact (fresh_no_round id0 c0 h0). Qed.

Theorem C12_not_connected_means_no_open_round (rnd : oracle) (f : @foca Id Addr HO) (i : @input Id) :
  Qab f ->
  let '(f', _, r, _) := step rnd f i in
  aborted r = false -> Qab f'.
Proof. exact (step_no_round_when_idle rnd f i). Qed.

Theorem C12_not_connected_means_no_open_round_along_histories (rnd : oracle) (l : list (@input Id)) (f : @foca Id Addr HO) :
  Qab f -> no_abort rnd f l -> Qab (run_calls rnd f l).
Proof. exact (history_no_round_when_idle rnd l f). Qed.

Theorem C12_no_abort_meaning (rnd : oracle) (f : @foca Id Addr HO) (i : @input Id) (l : list (@input Id)) :
  (no_abort rnd f [] <-> True)
  /\ (no_abort rnd f (i :: l) <->
      aborted (snd (fst (step rnd f i))) = false /\ no_abort rnd (fst (fst (fst (step rnd f i)))) l).
Proof. split; reflexivity. Qed.

Theorem C12_identity_change_abandons_round (rnd : oracle) (f : @foca Id Addr HO) (new : Id) :
  let '(f', _, r, _) := step rnd f (IChangeIdentity new) in
  r <> Failed ESameIdentity -> ev (prb f') /\ conn f' <> Connected.
Proof. exact (identity_change_abandons_round rnd f new). Qed.

Theorem C12_first_round_after_an_abort_is_quiet (rnd : oracle) (l : list (@input Id)) (f : @foca Id Addr HO) :
  ev (prb f) -> no_live_probe rnd f l ->
  let g := run_calls rnd f l in
  conn g = Connected ->
  let '(g', es, _, _) := step rnd g (ITimer (TProbeRandomMember (token g))) in
  cstd_of es = [] /\ Permutation (inner (mems g')) (inner (mems g)).
Proof.
  intros E NL g Cn. apply (round_with_evidence_ends_quietly rnd g Cn).
  exact (history_keeps_evidence rnd l f NL E).
Qed.

(* the round's bookkeeping is untouched by what merely sends *)
Theorem C12_pure_sends_keep_the_round (rnd : oracle) (f : @foca Id Addr HO) (i : @input Id) :
  match i with
  | IGossip | IAnnounce _ | IBroadcast => True
  | ITimer (TPeriodicAnnounce _) | ITimer (TPeriodicAnnounceDown _) | ITimer (TPeriodicGossip _) => True
  | _ => False
  end ->
  prb (fst (fst (fst (step rnd f i)))) = prb f.
Proof.
  intros S. destruct (sending_changes_only_backlogs rnd f i S) as (u & c & E). rewrite E. reflexivity.
Qed.

End C12.

(* non-vacuity: a connected instance with an open round (a member is being probed, no evidence yet); an identity
   change abandons it *)
Definition ex12_cfg : config := mkConfig 1500000000 500000000 3 10 3000000000 86400000000000 1400 false None None None.
Definition ex12_o : oracle := fun _ r => match r with RShuffle _ => [0; 1; 2; 3] | RChoose _ => [0] | RRange _ => [0] | RTie _ _ => [] end.
Definition ex12_f0 : @foca cid N cid_handler := foca_init (mkCid 1 0 0 0) ex12_cfg (mkChst 0 255 []).
Definition ex12_f : @foca cid N cid_handler :=
  fst (fst (fst (step ex12_o ex12_f0 (IApplyMany [mkMember (mkCid 2 0 0 0) 0 Alive; mkMember (mkCid 3 0 0 0) 0 Alive] false)))).
Definition ex12_f1 : @foca cid N cid_handler :=
  fst (fst (fst (step ex12_o ex12_f (ITimer (TProbeRandomMember (token ex12_f)))))).
Example C12_abort_example :
  p_direct (prb ex12_f1) <> None /\ probe_succeeded (prb ex12_f1) = false
  /\ (let '(f', _, r, _) := step ex12_o ex12_f1 (IChangeIdentity (mkCid 1 1 0 0)) in
      r = Done /\ p_direct (prb f') = None /\ conn f' = Disconnected /\ identity f' = mkCid 1 1 0 0).
Proof. vm_compute. repeat split; auto; discriminate. Qed.

Print Assumptions C12_direct_evidence.
Print Assumptions C12_indirect_evidence.
Print Assumptions C12_reset.
Print Assumptions C12_failed_iff_no_evidence.
Print Assumptions C12_fanout_bound.
Print Assumptions C12_fanout_members.
Print Assumptions C12_ping_acked.
Print Assumptions C12_relay_ping_req.
Print Assumptions C12_relay_indirect_ping.
Print Assumptions C12_relay_indirect_ack.
Print Assumptions C12_indirect_for_ourselves.
Print Assumptions C12_round_end.
Print Assumptions C12_indirect_stage.
Print Assumptions C12_pingreq_to_meaning.
Print Assumptions C12_round_end_members.
Print Assumptions C12_failed_target_becomes_suspect.
Print Assumptions C12_evidence_terms.
Print Assumptions C12_ack_is_evidence.
Print Assumptions C12_forwarded_ack_is_evidence.
Print Assumptions C12_evidence_survives_every_other_call.
Print Assumptions C12_evidence_survives_histories.
Print Assumptions C12_history_terms.
Print Assumptions C12_round_with_evidence_ends_quietly.
Print Assumptions C12_abort_terms.
Print Assumptions C12_fresh_instance_has_no_open_round.
Print Assumptions C12_not_connected_means_no_open_round.
Print Assumptions C12_not_connected_means_no_open_round_along_histories.
Print Assumptions C12_no_abort_meaning.
Print Assumptions C12_identity_change_abandons_round.
Print Assumptions C12_first_round_after_an_abort_is_quiet.
Print Assumptions C12_abort_example.
Print Assumptions C12_pure_sends_keep_the_round.
