(* L_Mech.v — single-instance mechanisms behind the cluster-level properties C02-C05, C18:
   how a sender is learnt, where suspicion can come from, self-refutation, rejoin, leaving,
   silence of a defunct instance, no TurnUndead ping-pong. *)
From Foca Require Import Laws L_Lists MembersM ProbeM BcastM FocaM L_Members L_MembersInv L_Join L_Bcast L_Fill Hoare Inv L_Discard.

Section Mech.
Context {Id Addr : Type} {IO : IdOps Id Addr} {CO : CodecOps Id} {HO : HandlerOps Id}.
Context {IL : IdLaws IO}.
Variable rnd : oracle.
Notation member := (member Id).
Notation foca := (@foca Id Addr HO).
Notation rs := (@rs Id Addr HO).
Notation M := (@M Id Addr HO).

(* ---- learning / suspicion origin (Members level) ---- *)
(* an unknown sender becomes an active record the moment its header is processed *)
Lemma unknown_sender_learned (ms : @members Id) (src : Id) (inc : N) (n : N) :
  uniq (inner ms) -> view ms (addr_of src) = None ->
  view (fst (fst (members_apply rnd ms (mkMember src inc Alive) n))) (addr_of src) = Some (mkMember src inc Alive).
Proof.
  intros U V. destruct (members_apply_spec rnd ms (mkMember src inc Alive) n U) as [_ H]. cbn zeta in H.
  rewrite H. unfold maddr. cbn [m_id]. rewrite addr_eqb_refl. unfold maddr in V. cbn [m_id]. rewrite V. reflexivity.
Qed.

(* an update never fabricates a state: the record after it is the old one or the update itself *)
Lemma no_spontaneous_state (ms : @members Id) (u : member) (n : N) (a : Addr) (k' : member) :
  uniq (inner ms) ->
  view (fst (fst (members_apply rnd ms u n))) a = Some k' ->
  view ms a = Some k' \/ k' = u.
Proof.
  intros U H. destruct (members_apply_spec rnd ms u n U) as [_ V]. cbn zeta in V. rewrite V in H.
  destruct (addr_eqb (maddr u) a) eqn:E; auto.
  apply addr_eqb_eq in E. subst a. unfold ojoin in H. destruct (view ms (maddr u)) as [k|].
  - inversion H. destruct (rjoin_cases k u) as [-> | ->]; auto.
  - inversion H. auto.
Qed.

(* ---- frames: which calls leave identity / incarnation / connection state alone ---- *)
Definition keeps_self {A} (m : M A) : Prop :=
  forall s, let f' := st (fst (m s)) in
            identity f' = identity (st s) /\ incarnation f' = incarnation (st s)
            /\ conn f' = conn (st s) /\ token f' = token (st s).

Lemma ks_of_frames {A} (m : M A) : (forall s, FR (st s) (st (fst (m s)))) -> keeps_self m.
Proof. intros H s. destruct (H s) as (u & c & ->). cbn. auto. Qed.

Lemma frames_forM {A} (l : list A) (f : A -> M unit) :
  (forall x, forall s, FR (st s) (st (fst (f x s)))) -> forall s, FR (st s) (st (fst (forM_ l f s))).
Proof.
  intros H. induction l as [|x t IH]; intros s; cbn [forM_]; [apply FR_refl|].
  unfold bind. pose proof (H x s) as Hx. destruct (f x s) as [s' [[]|e|p]]; cbn in *; auto.
  eapply FR_trans; [exact Hx|apply IH].
Qed.

Lemma frames_choose_and_send n msg : forall s, FR (st s) (st (fst (choose_and_send rnd n msg s))).
Proof.
  intros s. unfold choose_and_send, bind at 1. unfold choose_active, bind at 1, get at 1, with_ctr.
  destruct (choose_active_members rnd (mems (st s)) n _ (ctr s)) as [chosen k].
  change (st s) with (st (mkRs (st s) (out s) k)) at 1.
  apply frames_forM. intros m s0. apply (frames_send_message rnd).
Qed.

Lemma frames_gossip : forall s, FR (st s) (st (fst (gossip rnd s))).
Proof. intros s. unfold gossip, bind, get. apply frames_choose_and_send. Qed.

(* ---- self-refutation ---- *)
(* a suspicion about the current identity at an incarnation >= own (below MAX): the own
   incarnation becomes that incarnation + 1; nothing else about the instance changes *)
Lemma self_refute_state (s : rs) (i : N) :
  incarnation (st s) <= i -> i < u16_max ->
  exists u c, st (fst (handle_self_update rnd i Suspect s)) =
              set_customs (set_updates (set_incarnation (st s) (i + 1)) u) c.
Proof.
  intros Hle Hlt. unfold handle_self_update, bind at 1, get at 1.
  replace (N.max i (incarnation (st s)) =? u16_max) with false by lia.
  replace (negb (i <? incarnation (st s))) with true by lia.
  unfold when at 1. unfold bind at 1, modify at 1. cbn [st out ctr].
  unfold bind at 1, get at 1. cbn [st].
  replace (N.min (N.max i (incarnation (st s)) + 1) u16_max) with (i + 1) by lia.
  set (s1 := mkRs (set_incarnation (st s) (i + 1)) (out s) (ctr s)).
  destruct (negb (conn_eqb (conn (set_incarnation (st s) (i + 1))) Undead)); cbn [when].
  - destruct (frames_gossip s1) as (u & c & E). exists u, c. exact E.
  - exists (updates (st s)), (customs (st s)). cbn. destruct (st s); reflexivity.
Qed.

Theorem self_refute (s : rs) (i : N) :
  incarnation (st s) <= i -> i < u16_max ->
  let s' := fst (handle_self_update rnd i Suspect s) in
  incarnation (st s') = i + 1 /\ identity (st s') = identity (st s) /\ conn (st s') = conn (st s).
Proof.
  intros Hle Hlt. destruct (self_refute_state s i Hle Hlt) as (u & c & E). cbv zeta. rewrite E.
  cbn. auto.
Qed.

(* an older suspicion changes nothing about the own incarnation *)
Theorem stale_suspicion_no_bump (s : rs) (i : N) :
  i < incarnation (st s) -> incarnation (st s) < u16_max ->
  incarnation (st (fst (handle_self_update rnd i Suspect s))) = incarnation (st s).
Proof.
  intros Hlt Hm. unfold handle_self_update, bind at 1, get at 1.
  replace (N.max i (incarnation (st s)) =? u16_max) with false by lia.
  replace (negb (i <? incarnation (st s))) with false by lia.
  unfold when at 1. unfold bind at 1, ret at 1. unfold bind at 1, get at 1.
  destruct (negb (conn_eqb (conn (st s)) Undead)); cbn [when]; [|reflexivity].
  destruct (frames_gossip s) as (u & c & E). rewrite E. reflexivity.
Qed.

(* ---- a defunct instance is silent ---- *)
(* (after fix d16bcfc) a suspicion about its dead identity makes a defunct instance send nothing *)
Theorem defunct_does_not_refute (s : rs) (i : N) :
  conn (st s) = Undead -> N.max i (incarnation (st s)) < u16_max ->
  out (fst (handle_self_update rnd i Suspect s)) = out s.
Proof.
  intros C Hm. unfold handle_self_update, bind at 1, get at 1.
  replace (N.max i (incarnation (st s)) =? u16_max) with false by lia.
  destruct (negb (i <? incarnation (st s))); unfold when at 1.
  - unfold bind at 1, modify at 1. cbn [st out ctr]. unfold bind at 1, get at 1. cbn [st conn set_incarnation].
    rewrite C. reflexivity.
  - unfold bind at 1, ret at 1. unfold bind at 1, get at 1. rewrite C. reflexivity.
Qed.

(* it does not act on messages either: when not Connected the reaction is skipped *)
Theorem not_connected_no_reaction (h : header Id) ul tail (s s1 s2 s3 : rs) cres :
  apply_update rnd (mkMember (h_src h) (h_src_inc h) Alive) true s = (s1, ROk true) ->
  apply_many rnd ul true s1 = (s2, ROk tt) ->
  attempt (handle_custom_broadcasts tail (Some (h_src h))) s2 = (s3, ROk cres) ->
  conn (st s3) <> Connected ->
  after_parse rnd h ul tail s = (s3, match cres with Some e => RErr e | None => ROk tt end).
Proof.
  intros A1 A2 A3 NC. unfold after_parse, bind at 1. rewrite A1. cbn [negb].
  unfold bind at 1. rewrite A2. unfold bind at 1. rewrite A3. unfold bind at 1, get at 1.
  destruct (conn (st s3)); try contradiction; cbn; destruct cres; reflexivity.
Qed.

(* ---- leaving ---- *)
Theorem leave_ends_defunct (s : rs) :
  match leave_cluster rnd s with
  | (s', ROk _) => conn (st s') = Undead /\ exists pre, out s' = pre ++ [Notify NDefunct]
  | _ => True
  end.
Proof.
  unfold leave_cluster, bind at 1, get at 1. unfold bind at 1, add_update at 1, modify at 1. cbn [st out ctr].
  unfold bind at 1.
  destruct (gossip rnd _) as [s1 [[]|e|p]]; auto.
  unfold become_undead, bind, modify, emit. cbn. split; auto. exists (out s1). reflexivity.
Qed.

(* ---- no TurnUndead ping-pong (after fix 6de718b) ---- *)
(* an instance that already knew it was down and cannot renew answers a TurnUndead from a
   sender it holds Down with nothing at all *)
Theorem defunct_does_not_answer_turnundead (h : header Id) ul tail (s s1 : rs) :
  h_msg h = TurnUndead ->
  apply_update rnd (mkMember (h_src h) (h_src_inc h) Alive) true s = (s1, ROk false) ->
  conn (st s1) = Undead ->
  renew (identity (st s1)) = None ->
  exists s', after_parse rnd h ul tail s = (s', ROk tt)
             /\ out s' = out s1 ++ [Notify NDefunct] /\ conn (st s') = Undead.
Proof.
  intros Hm A1 C R. unfold after_parse, bind at 1. rewrite A1. cbn [negb].
  unfold bind at 1, get at 1. rewrite Hm. cbn [message_eqb]. rewrite C. cbn [conn_eqb andb negb when].
  unfold handle_self_update. unfold bind at 1. unfold bind at 1.
  unfold attempt_rejoin, bind at 1, get at 1. rewrite R. unfold ret at 1. cbn [negb when].
  unfold become_undead, bind at 1, modify at 1. cbn [st out ctr]. unfold emit at 1. cbn [st out ctr].
  unfold bind at 1, get at 1. cbn [st]. rewrite andb_false_r. cbn [when].
  eexists. split; [reflexivity|]. cbn. auto.
Qed.

(* effects are only ever appended *)
Definition out_mono {A} (m : M A) : Prop := forall s e, In e (out s) -> In e (out (fst (m s))).
Lemma om_bind {A B} (m : M A) (f : A -> M B) : out_mono m -> (forall a, out_mono (f a)) -> out_mono (bind m f).
Proof.
  intros Hm Hf s e He. unfold bind. specialize (Hm s e He). destruct (m s) as [s' [a|x|p]]; cbn in *; auto.
  apply Hf. exact Hm.
Qed.
Lemma om_noemit {A} (m : M A) : (forall s, out (fst (m s)) = out s) -> out_mono m.
Proof. intros H s e He. rewrite H. exact He. Qed.
Lemma om_forM {A} (l : list A) (f : A -> M unit) : (forall x, out_mono (f x)) -> out_mono (forM_ l f).
Proof.
  intros H. induction l as [|x t IH]; cbn [forM_]; [intros s e He; exact He|].
  apply om_bind; [apply H|intros; exact IH].
Qed.
Lemma om_send_message dst msg : out_mono (send_message rnd dst msg).
Proof.
  unfold send_message. apply om_bind; [intros s e He; exact He|]. intros f.
  destruct (negb _); [intros s e He; exact He|]. destruct (_ <? _); [intros s e He; exact He|].
  apply om_bind; [intros s e He; exact He|]. intros idx.
  apply om_bind; [apply om_noemit; apply (noemit_send_body rnd)|]. intros [body room3].
  apply om_bind; [apply om_noemit; apply (noemit_send_customs rnd)|]. intros cust.
  intros s e He. cbn. apply in_or_app. left. exact He.
Qed.
Lemma gossip_out_mono : out_mono (gossip rnd).
Proof.
  unfold gossip. apply om_bind; [intros s e He; exact He|]. intros f.
  unfold choose_and_send. apply om_bind.
  { unfold choose_active. apply om_bind; [intros s e He; exact He|]. intros f1.
    intros s e He. unfold with_ctr. destruct (choose_active_members _ _ _ _ _). exact He. }
  intros chosen. apply om_forM. intros m. apply om_send_message.
Qed.

(* ---- reaction to one's own death ---- *)
Lemma om_change_identity new_id : out_mono (change_identity rnd new_id).
Proof.
  unfold change_identity. apply om_bind; [intros s e He; exact He|]. intros f.
  destruct (id_eqb _ _); [intros s e He; exact He|].
  apply om_bind; [intros s e He; exact He|]. intros _.
  apply om_bind; [intros s e He; exact He|]. intros _.
  apply om_bind; [destruct (negb _); intros s e He; exact He|]. intros _.
  apply gossip_out_mono.
Qed.

Lemma change_identity_state (s : rs) (new_id : Id) :
  id_eqb (identity (st s)) new_id = false ->
  exists u c,
    st (fst (change_identity rnd new_id s)) =
    set_customs (set_updates
      (set_prb (set_token (set_incarnation (set_conn (set_identity (st s) new_id) Disconnected) 0)
                          (wrap8 (token (st s) + 1))) (probe_clear (prb (st s)))) u) c.
Proof.
  intros E. unfold change_identity, bind at 1, get at 1. rewrite E.
  unfold bind at 1, modify at 1. cbn [st out ctr].
  unfold bind at 1, reset at 1, modify at 1. cbn [st out ctr].
  unfold bind at 1.
  set (f1 := set_prb _ _).
  destruct (negb (conn_eqb (conn (st s)) Undead)); cbn [when].
  - unfold add_update at 1, modify at 1. cbn [st out ctr].
    set (s1 := mkRs _ (out s) (ctr s)).
    destruct (frames_gossip s1) as (u & c & Eg). exists u, c.
    rewrite Eg. unfold s1. cbn. reflexivity.
  - unfold ret at 1.
    set (s1 := mkRs f1 (out s) (ctr s)).
    destruct (frames_gossip s1) as (u & c & Eg). exists u, c.
    rewrite Eg. reflexivity.
Qed.

(* on learning that its current identity is Down: either a renewed identity that differs from
   and wins against the old one is adopted (incarnation 0, Rejoin notified), or the instance
   becomes defunct; never anything else *)
Theorem down_dichotomy (s : rs) (inc : N) :
  match handle_self_update rnd inc Down s with
  | (s', ROk _) =>
      (exists new_id, renew (identity (st s)) = Some new_id /\ new_id <> identity (st s)
                      /\ wins new_id (identity (st s)) = true
                      /\ identity (st s') = new_id /\ incarnation (st s') = 0
                      /\ In (Notify (NRejoin new_id)) (out s'))
      \/ (identity (st s') = identity (st s) /\ conn (st s') = Undead /\ In (Notify NDefunct) (out s'))
  | _ => True
  end.
Proof.
  unfold handle_self_update, bind at 1. unfold attempt_rejoin, bind at 1, get at 1.
  assert (Undead_case : forall s0 : rs, identity (st s0) = identity (st s) ->
            let r := when (negb false) become_undead s0 in
            identity (st (fst r)) = identity (st s) /\ conn (st (fst r)) = Undead /\ In (Notify NDefunct) (out (fst r))).
  { intros s0 E0. cbn. repeat split; auto. apply in_or_app. right. left. reflexivity. }
  destruct (renew (identity (st s))) as [new_id|] eqn:R.
  2:{ unfold ret at 1. right. apply (Undead_case s eq_refl). }
  destruct (id_eqb (identity (st s)) new_id) eqn:E.
  { unfold ret at 1. right. apply (Undead_case s eq_refl). }
  destruct (negb (wins new_id (identity (st s)))) eqn:W.
  { unfold ret at 1. right. apply (Undead_case s eq_refl). }
  apply negb_false_iff in W.
  destruct (change_identity_state s new_id E) as (u & c & Est).
  pose proof (om_change_identity new_id s) as Hout.
  unfold bind at 1.
  destruct (change_identity rnd new_id s) as [s1 [[]|e|p]]; auto.
  cbn [fst] in Est, Hout.
  unfold bind, emit, ret, when. cbn. left. exists new_id. rewrite Est. cbn.
  repeat split; auto.
  - intros X. subst new_id. rewrite id_eqb_refl in E. discriminate.
  - apply in_or_app. right. left. reflexivity.
Qed.

End Mech.
