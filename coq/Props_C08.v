(* Props_C08.v — C08: notifications faithfully mirror membership and connection state. *)
From Foca Require Import Laws L_Lists MembersM L_Members L_MembersInv FocaM Inv Reach L_Mirror L_ConnCons L_Defunct Concrete ConcreteLaws.
From Coq Require Import Permutation.

Section C08.
Context {Id Addr : Type} {IO : IdOps Id Addr} {CO : CodecOps Id} {HO : HandlerOps Id}.
Context {IL : IdLaws IO}.

(* The machine a user runs on notifications alone, over (set of members that are up,
   connection state, own identity).  Its moves, spelled out: *)
Theorem C08_machine_notified_moves (a : @astate Id) (n : notification Id) (b : @astate Id) :
  nstep a n b ->
  let '(l, c, i) := a in let '(l', c', i') := b in
  i' = i /\
  match n with
  | NMemberUp x => ~ In x l /\ l' = x :: l /\ c' = c                 (* never for a member already up *)
  | NMemberDown x => In x l /\ l' = remove_id x l /\ c' = c           (* never for one that is not up *)
  | NRename old new => ~ In new l /\ l' = rename_id old new l /\ c' = c
  | NActive => c = Disconnected /\ l <> [] /\ c' = Connected /\ l' = l   (* only from idle, only with a member *)
  | NIdle => c = Connected /\ l = [] /\ c' = Disconnected /\ l' = l      (* only when active and nobody is left *)
  | NDefunct => c' = Undead /\ l' = l
  | NRejoin x => x = i /\ c = Disconnected /\ c' = Disconnected /\ l' = l (* the identity already switched to x *)
  end.
Proof. intros S. destruct S; cbn; repeat split; auto. Qed.

Theorem C08_machine_silent_moves (a b : @astate Id) :
  tau a b ->
  let '(l, c, i) := a in let '(l', c', i') := b in
  Permutation l l' /\
  ((c' = c /\ i' = i)                         (* the set is a set *)
   \/ (c' = Disconnected /\ i' <> i)          (* identity change: back to idle *)
   \/ (c = Undead /\ c' = Disconnected /\ i' = i)).  (* reuse_down_identity *)
Proof. intros T. destruct T; cbn; split; auto. Qed.

(* ONE CALL: whatever the input (legal or not) and the random choices, from any state with one
   record per address and an exact active count, the notifications emitted during the call
   drive the machine from the abstraction of the state before to that of the state after *)
Theorem C08_call_mirrors (rnd : oracle) (f : @foca Id Addr HO) (i : @input Id) :
  MU (mems f) ->
  let '(f', es, _, _) := step rnd f i in
  MU (mems f') /\ mrun (abs f) (notes_of es) (abs f').
Proof. exact (step_mirror rnd f i). Qed.

(* EVERY HISTORY from a fresh instance *)
Theorem C08_history_mirrors (id0 : Id) (c0 : config) (h0 : hstate) (f : @foca Id Addr HO) (ns : list (notification Id)) :
  hist id0 c0 h0 f ns ->
  mrun ([], Disconnected, id0) ns (abs f).
Proof. exact (fun H => proj2 (hist_mirror id0 c0 h0 f ns H)). Qed.

(* the literal reading: replaying MemberUp / MemberDown / Rename from the empty set never
   meets an Up for a member already up nor a Down for one that is not, and reconstructs
   exactly the active members (iter_members), whose number is num_members *)
Theorem C08_replay_reconstructs_members (id0 : Id) (c0 : config) (h0 : hstate) (f : @foca Id Addr HO) (ns : list (notification Id)) :
  hist id0 c0 h0 f ns ->
  exists r, replay ns [] = Some r
            /\ Permutation r (active_ids (inner (mems f)))
            /\ NoDup (active_ids (inner (mems f)))
            /\ len r = num_active (mems f).
Proof.
  intros H. destruct (hist_mirror id0 c0 h0 f ns H) as [[U C] R].
  destruct (mrun_replay _ _ _ R [] (Permutation_refl _)) as (r & E & P). exists r.
  split; [exact E|]. split; [exact P|]. split; [apply uniq_active_NoDup; exact U|].
  rewrite C, <- active_ids_len. unfold len. rewrite (Permutation_length P). reflexivity.
Qed.

(* the invariant the above rests on holds in every state reachable through legal inputs too *)
Theorem C08_reachable_MU {EL : @ExtraLaws Id Addr IO CO} (id0 : Id) (c0 : config) (h0 : hstate) (f : @foca Id Addr HO) :
  cfg_ok c0 -> reach id0 c0 h0 f -> MU (mems f).
Proof.
  intros CK R. destruct (reach_WF id0 c0 h0 f CK R) as [W _]. destruct (wf_mi f W) as [U C _]. exact (conj U C).
Qed.

(* adjust_connection_state, exactly: Idle iff active with nobody left; Active iff idle with somebody *)
Theorem C08_adjust_exact (s : @rs Id Addr HO) :
  (conn (st s) = Connected -> num_active (mems (st s)) = 0 ->
   adjust_connection_state s =
   (mkRs (set_prb (set_token (set_conn (st s) Disconnected) (wrap8 (token (st s) + 1))) (probe_clear (prb (st s))))
         (out s ++ [Notify NIdle]) (ctr s), ROk tt))
  /\ (conn (st s) = Connected -> 0 < num_active (mems (st s)) -> adjust_connection_state s = (s, ROk tt))
  /\ (conn (st s) = Disconnected -> num_active (mems (st s)) = 0 -> adjust_connection_state s = (s, ROk tt))
  /\ (conn (st s) = Undead -> adjust_connection_state s = (s, ROk tt))
  /\ (conn (st s) = Disconnected -> 0 < num_active (mems (st s)) ->
      exists timers,
        adjust_connection_state s = (mkRs (set_conn (st s) Connected) (out s ++ timers ++ [Notify NActive]) (ctr s), ROk tt)
        /\ notes_of timers = []).
Proof.
  exact (conj (adjust_idle s) (conj (adjust_stays_connected s) (conj (adjust_stays_idle s) (conj (adjust_undead s) (adjust_active s))))).
Qed.

(* "Idle exactly when the last active member disappears while active": every call that neither
   panics nor aborts with an Encode error (a header that does not fit the packet size) ends with
   Connected -> at least one active member; so a call that removes the last active member of a
   connected instance ends idle, and by C08_call_mirrors the only way there is the Idle notification *)
Theorem C08_call_ends_consistent (rnd : oracle) (f : @foca Id Addr HO) (i : @input Id) :
  MU (mems f) -> (conn f = Connected -> 0 < num_active (mems f)) ->
  let '(f', _, r, _) := step rnd f i in
  match r with
  | Panicked _ => True
  | Failed e => e = EEncode \/ (conn f' = Connected -> 0 < num_active (mems f'))
  | _ => conn f' = Connected -> 0 < num_active (mems f')
  end.
Proof. exact (step_cc rnd f i). Qed.

Theorem C08_history_consistent (id0 : Id) (c0 : config) (h0 : hstate) (f : @foca Id Addr HO) :
  ghist id0 c0 h0 f -> conn f = Connected -> 0 < num_active (mems f).
Proof. exact (fun H => proj2 (ghist_cc id0 c0 h0 f H)). Qed.

(* after Defunct no Active until the identity changes: along every call other than change_identity /
   reuse_down_identity (not aborted by Encode or a panic) a defunct instance notifies no Active and stays
   defunct, unless that very call notifies Rejoin *)
Theorem C08_no_active_while_defunct (rnd : oracle) (f : @foca Id Addr HO) (i : @input Id) :
  match i with IChangeIdentity _ | IReuseDown => False | _ => True end ->
  conn f = Undead ->
  let '(f', es, r, _) := step rnd f i in
  match r with Failed EEncode => True | Panicked _ => True | _ =>
    (conn f' = Undead /\ existsb is_active_note es = false) \/ rejoined es
  end.
Proof. exact (step_defunct_stays rnd f i). Qed.

End C08.

(* AccumulatingRuntime (runtime.rs): three FIFO queues; draining each yields the effects of
   its kind in the order they happened *)
Section Acc.
Context {Id : Type}.
Record acc := mkAcc { q_send : list (Id * bytes); q_sched : list (N * timer Id); q_note : list (notification Id) }.
Definition acc_push (a : acc) (e : effect Id) : acc :=
  match e with
  | Send d b => mkAcc (q_send a ++ [(d, b)]) (q_sched a) (q_note a)
  | Submit t after => mkAcc (q_send a) (q_sched a ++ [(after, t)]) (q_note a)
  | Notify n => mkAcc (q_send a) (q_sched a) (q_note a ++ [n])
  end.
Definition sends_of (es : list (effect Id)) := flat_map (fun e => match e with Send d b => [(d, b)] | _ => [] end) es.
Definition timers_of (es : list (effect Id)) := flat_map (fun e => match e with Submit t a => [(a, t)] | _ => [] end) es.
Definition notifs_of (es : list (effect Id)) := flat_map (fun e => match e with Notify n => [n] | _ => [] end) es.

Theorem C08_accumulating_runtime_faithful (es : list (effect Id)) (a : acc) :
  let a' := fold_left acc_push es a in
  q_send a' = q_send a ++ sends_of es /\ q_sched a' = q_sched a ++ timers_of es /\ q_note a' = q_note a ++ notifs_of es.
Proof.
  revert a. induction es as [|e es IH]; intros a; cbn [fold_left sends_of timers_of notifs_of flat_map].
  - rewrite !app_nil_r. auto.
  - destruct (IH (acc_push a e)) as (A & B & C). fold (sends_of es) (timers_of es) (notifs_of es).
    rewrite A, B, C. destruct e; cbn [acc_push q_send q_sched q_note app]; rewrite <- ?app_assoc; auto.
Qed.
End Acc.

(* non-vacuity: a fresh instance satisfies MU; a concrete history (two members join, then one
   is replaced by a newer identity of the same address, then declared down) *)
Definition simple_cfg0 : config := mkConfig 1500000000 500000000 3 10 3000000000 86400000000000 1400 false None None None.
Definition f0 : @foca cid N cid_handler := foca_init (mkCid 1 0 0 0) simple_cfg0 (mkChst 0 255 []).
Definition o0 : oracle := fun _ _ => [].
Definition c2 := mkCid 2 0 0 0.  Definition c2' := mkCid 2 1 0 0.  Definition c3 := mkCid 3 0 0 0.
Definition ex_inputs : list (@input cid) :=
  [IApplyMany [mkMember c2 0 Alive; mkMember c3 0 Alive] false;
   IApplyMany [mkMember c2' 0 Alive] false;
   IApplyMany [mkMember c3 0 Down; mkMember c2' 0 Down] false].
Definition ex_run : @foca cid N cid_handler * list (notification cid) :=
  fold_left (fun acc i => let '(f, ns) := acc in
                          let '(f', es, _, _) := step o0 f i in (f', ns ++ notes_of es)) ex_inputs (f0, []).

Example C08_fresh_MU : MU (mems f0).
Proof. split; [constructor|reflexivity]. Qed.

Example C08_example_history :
  snd ex_run = [NMemberUp c2; NMemberUp c3; NActive; NRename c2 c2'; NMemberDown c3; NMemberDown c2'; NIdle]
  /\ replay (snd ex_run) [] = Some [] /\ active_ids (inner (mems (fst ex_run))) = [].
Proof. vm_compute. auto. Qed.

Print Assumptions C08_no_active_while_defunct.
Print Assumptions C08_machine_notified_moves.
Print Assumptions C08_machine_silent_moves.
Print Assumptions C08_call_mirrors.
Print Assumptions C08_history_mirrors.
Print Assumptions C08_replay_reconstructs_members.
Print Assumptions C08_reachable_MU.
Print Assumptions C08_adjust_exact.
Print Assumptions C08_call_ends_consistent.
Print Assumptions C08_history_consistent.
Print Assumptions C08_accumulating_runtime_faithful.
Print Assumptions C08_fresh_MU.
Print Assumptions C08_example_history.
