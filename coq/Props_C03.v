(* Props_C03.v — C03: crashed or departed members are reported Down everywhere (PARTIAL).
   Proved: the detection pipeline of one instance (probed within 2n-1 rounds; a round without
   evidence hands the member over for suspicion; an unrefuted suspicion timeout declares it Down
   and notifies MemberDown), the effects of leaving and the silence of a defunct instance.
   The cluster-wide bound is decided by crash / leave simulations of real instances. *)
From Foca Require Import Laws MembersM ProbeM FocaM WireM L_Members L_MembersInv L_Join Inv L_Wire L_Probe L_Mech L_RoundRobin L_Timeout L_Discard L_Acct L_RoundSuspect L_Defunct.

Section C03.
Context {Id Addr : Type} {IO : IdOps Id Addr} {CO : CodecOps Id} {HO : HandlerOps Id}.
Context {IL : IdLaws IO}.

Theorem C03_probed_within_2n_minus_1 (rnd : oracle) (ms : @members Id) (n : N) (x : member Id) (j : nat) :
  len (inner ms) <= usize_max -> In x (inner ms) -> m_active x = true ->
  In x (iter_next rnd (2 * na (inner ms) - 1) (fst (state_after rnd j ms n)) (snd (state_after rnd j ms n))).
Proof. exact (next_sliding_window rnd ms n x j). Qed.

Theorem C03_silent_member_is_handed_over (p : probe Id) (m : member Id) :
  snd (probe_take_failed p) = Some m <-> probe_succeeded p = false /\ p_direct p = Some m.
Proof. exact (take_failed_iff p m). Qed.

Theorem C03_unrefuted_timeout_declares_down (rnd : oracle) (f : @foca Id Addr HO) (x : Id) (inc : N) (k : member Id) :
  lookup (inner (mems f)) (addr_of x) = Some k ->
  m_id k = x -> m_inc k = inc -> m_active k = true ->
  conn f = Connected -> 1 < num_active (mems f) ->
  send_cap f = max_packet_size (cfg f) -> header_fits f ->
  exists ms',
    step rnd f (timeout x inc (token f)) =
    (set_updates (set_mems f ms')
       (add_or_replace Addr addr_eqb (updates f) (addr_of x) (enc_mem (mkMember x inc Down)) (max_transmissions (cfg f))),
     [Submit (TRemoveDown x) (remove_down_after (cfg f)); Notify (NMemberDown x)]
       ++ (if notify_down_members (cfg f)
           then [Send x (enc_hdr (mkHeader (identity f) (incarnation f) x TurnUndead))] else []),
     Done, 0)
    /\ num_active ms' = num_active (mems f) - 1
    /\ exists p, nth_error (inner (mems f)) p = Some k /\
                 inner ms' = set_nth p (mkMember x inc Down) (inner (mems f)).
Proof. exact (timeout_effective rnd f x inc k). Qed.

(* leave_cluster ends defunct and says so *)
Theorem C03_leave_ends_defunct (rnd : oracle) (s : @rs Id Addr HO) :
  match leave_cluster rnd s with
  | (s', ROk _) => conn (st s') = Undead /\ exists pre, out s' = pre ++ [Notify NDefunct]
  | _ => True
  end.
Proof. exact (leave_ends_defunct rnd s). Qed.

(* a defunct instance does not act on messages (no Ack, no relay, no Feed) ... *)
Theorem C03_defunct_ignores_messages (rnd : oracle) (h : header Id) ul tail (s s1 s2 s3 : @rs Id Addr HO) cres :
  apply_update rnd (mkMember (h_src h) (h_src_inc h) Alive) true s = (s1, ROk true) ->
  apply_many rnd ul true s1 = (s2, ROk tt) ->
  attempt (handle_custom_broadcasts tail (Some (h_src h))) s2 = (s3, ROk cres) ->
  conn (st s3) <> Connected ->
  after_parse rnd h ul tail s = (s3, match cres with Some e => RErr e | None => ROk tt end).
Proof. exact (not_connected_no_reaction rnd h ul tail s s1 s2 s3 cres). Qed.

(* ... and does not refute suspicion about its dead identity (fix d16bcfc) *)
Theorem C03_defunct_does_not_refute (rnd : oracle) (s : @rs Id Addr HO) (i : N) :
  conn (st s) = Undead -> N.max i (incarnation (st s)) < u16_max ->
  out (fst (handle_self_update rnd i Suspect s)) = out s.
Proof. exact (defunct_does_not_refute rnd s i). Qed.

(* the hand-over from probing to the suspicion timeout, as one call: at the ProbeRandomMember timer
   a round that failed on a target still Alive at the probed incarnation leaves that member Suspect
   in the list and schedules exactly the timeout C03_unrefuted_timeout_declares_down is about (same
   identity, same incarnation, the current token), the instance staying Connected *)
Theorem C03_failed_round_hands_over_to_timeout (rnd : oracle) (f : @foca Id Addr HO) (fm k : member Id) :
  conn f = Connected ->
  snd (probe_take_failed (if negb (probe_validate (prb f)) then probe_clear (prb f) else prb f)) = Some fm ->
  lookup (inner (mems f)) (addr_of (m_id fm)) = Some k ->
  m_id k = m_id fm -> m_inc k = m_inc fm -> m_state k = Alive ->
  let '(f1, es, r, _) := step rnd f (ITimer (TProbeRandomMember (token f))) in
  clean r ->
  In (mkMember (m_id fm) (m_inc fm) Suspect) (inner (mems f1))
  /\ In (Submit (TChangeSuspectToDown (m_id fm) (m_inc fm) (token f1)) (suspect_to_down_after (cfg f1))) es
  /\ conn f1 = Connected /\ token f1 = token f.
Proof. exact (failed_round_hands_over rnd f fm k). Qed.

(* A DEFUNCT INSTANCE STAYS DEFUNCT, along every call other than change_identity / reuse_down_identity
   (and not aborted by an Encode error or a panic): an instance that left the cluster, or was declared
   Down and could not renew, is still Undead after the call and notified no Active - whatever datagram,
   timer or API call it was - unless the call notified Rejoin, the automatic renewal into a new, winning
   identity (C10_down_dichotomy) *)
Theorem C03_defunct_stays_defunct (rnd : oracle) (f : @foca Id Addr HO) (i : @input Id) :
  match i with IChangeIdentity _ | IReuseDown => False | _ => True end ->
  conn f = Undead ->
  let '(f', es, r, _) := step rnd f i in
  match r with Failed EEncode => True | Panicked _ => True | _ =>
    (conn f' = Undead /\ existsb is_active_note es = false) \/ rejoined es
  end.
Proof. exact (step_defunct_stays rnd f i). Qed.

Theorem C03_defunct_terms (es : list (effect Id)) (e : effect Id) :
  (rejoined es <-> existsb is_rejoin es = true)
  /\ is_rejoin e = (match e with Notify (NRejoin _) => true | _ => false end)
  /\ is_active_note e = (match e with Notify NActive => true | _ => false end).
Proof. repeat split; auto. Qed.

End C03.

Print Assumptions C03_probed_within_2n_minus_1.
Print Assumptions C03_silent_member_is_handed_over.
Print Assumptions C03_unrefuted_timeout_declares_down.
Print Assumptions C03_leave_ends_defunct.
Print Assumptions C03_defunct_ignores_messages.
Print Assumptions C03_defunct_does_not_refute.
Print Assumptions C03_failed_round_hands_over_to_timeout.
Print Assumptions C03_defunct_stays_defunct.
Print Assumptions C03_defunct_terms.
