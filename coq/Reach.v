(* Reach.v — reachable states (any history of legal inputs, any oracle at every
   step) satisfy the master invariant. *)
From Foca Require Import Laws L_Lists MembersM ProbeM BcastM FocaM L_Members L_MembersInv L_Bcast Hoare Inv.

Section Reach.
Context {Id Addr : Type} {IO : IdOps Id Addr} {CO : CodecOps Id} {HO : HandlerOps Id}.
Context {IL : IdLaws IO} {EL : @ExtraLaws Id Addr IO CO}.

Notation foca := (@foca Id Addr HO).

Definition step_state (rnd : oracle) (f : foca) (i : @input Id) : foca := fst (fst (fst (step rnd f i))).
Definition step_effects (rnd : oracle) (f : foca) (i : @input Id) : list (effect Id) := snd (fst (fst (step rnd f i))).
Definition step_result (rnd : oracle) (f : foca) (i : @input Id) : result := snd (fst (step rnd f i)).

Inductive reach (id0 : Id) (c0 : config) (h0 : hstate) : foca -> Prop :=
| R_init : reach id0 c0 h0 (foca_init id0 c0 h0)
| R_step f i rnd :
    reach id0 c0 h0 f -> input_ok (addr_of (identity f)) i ->
    reach id0 c0 h0 (step_state rnd f i).

Lemma step_preserves' rnd (f : foca) i :
  WF f -> input_ok (addr_of (identity f)) i ->
  WF (step_state rnd f i) /\ addr_of (identity (step_state rnd f i)) = addr_of (identity f)
  /\ Forall (dest_ok (addr_of (identity f)) (named_by i)) (step_effects rnd f i)
  /\ not_panicked (step_result rnd f i).
Proof.
  intros W I. pose proof (step_preserves_plain rnd f i W I) as H.
  unfold step_state, step_effects, step_result.
  destruct (step rnd f i) as [[[f' effs] r] k]. exact H.
Qed.

Theorem reach_WF id0 c0 h0 f :
  cfg_ok c0 -> reach id0 c0 h0 f -> WF f /\ addr_of (identity f) = addr_of id0.
Proof.
  intros CK R. induction R as [|f i rnd R [W A] I].
  - split; [apply WF_init; exact CK|reflexivity].
  - destruct (step_preserves' rnd f i W I) as (W' & A' & _). split; [exact W'|congruence].
Qed.

End Reach.
