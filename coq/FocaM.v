(* FocaM.v — model of src/lib.rs (struct Foca and every public call).  No proofs.
   Debug-assertion build: every debug_assert / overflow site is an explicit RPanic. *)
From Foca Require Export Types MembersM ProbeM BcastM.

Section Foca.
Context {Id Addr : Type} {IO : IdOps Id Addr} {CO : CodecOps Id} {HO : HandlerOps Id}.
Variable rnd : oracle.

Notation member := (member Id).
Notation members := (@members Id).
Notation effect := (effect Id).

Inductive conn_state := Disconnected | Connected | Undead.

Definition conn_eqb (a b : conn_state) : bool :=
  match a, b with
  | Disconnected, Disconnected | Connected, Connected | Undead, Undead => true
  | _, _ => false
  end.

Record foca := mkFoca {
  identity : Id;
  incarnation : N;
  cfg : config;
  conn : conn_state;
  token : N;
  mems : members;
  prb : probe Id;
  updates : backlog Addr;
  customs : backlog hkey;
  hst : hstate;
  send_cap : N
}.

Definition set_identity (f : foca) v := mkFoca v (incarnation f) (cfg f) (conn f) (token f) (mems f) (prb f) (updates f) (customs f) (hst f) (send_cap f).
Definition set_incarnation (f : foca) v := mkFoca (identity f) v (cfg f) (conn f) (token f) (mems f) (prb f) (updates f) (customs f) (hst f) (send_cap f).
Definition set_cfg (f : foca) v := mkFoca (identity f) (incarnation f) v (conn f) (token f) (mems f) (prb f) (updates f) (customs f) (hst f) (send_cap f).
Definition set_conn (f : foca) v := mkFoca (identity f) (incarnation f) (cfg f) v (token f) (mems f) (prb f) (updates f) (customs f) (hst f) (send_cap f).
Definition set_token (f : foca) v := mkFoca (identity f) (incarnation f) (cfg f) (conn f) v (mems f) (prb f) (updates f) (customs f) (hst f) (send_cap f).
Definition set_mems (f : foca) v := mkFoca (identity f) (incarnation f) (cfg f) (conn f) (token f) v (prb f) (updates f) (customs f) (hst f) (send_cap f).
Definition set_prb (f : foca) v := mkFoca (identity f) (incarnation f) (cfg f) (conn f) (token f) (mems f) v (updates f) (customs f) (hst f) (send_cap f).
Definition set_updates (f : foca) v := mkFoca (identity f) (incarnation f) (cfg f) (conn f) (token f) (mems f) (prb f) v (customs f) (hst f) (send_cap f).
Definition set_customs (f : foca) v := mkFoca (identity f) (incarnation f) (cfg f) (conn f) (token f) (mems f) (prb f) (updates f) v (hst f) (send_cap f).
Definition set_hst (f : foca) v := mkFoca (identity f) (incarnation f) (cfg f) (conn f) (token f) (mems f) (prb f) (updates f) (customs f) v (send_cap f).
Definition set_send_cap (f : foca) v := mkFoca (identity f) (incarnation f) (cfg f) (conn f) (token f) (mems f) (prb f) (updates f) (customs f) (hst f) v.

(* Foca::with_custom_broadcast *)
Definition foca_init (id : Id) (c : config) (h : hstate) : foca :=
  mkFoca id 0 c Disconnected 0 (members_new []) probe_new [] [] h (max_packet_size c).

(* ---------- the state / effect / error monad ---------- *)
Record rs := mkRs { st : foca; out : list effect; ctr : N }.
Definition M (A : Type) := rs -> rs * res A.

Definition ret {A} (a : A) : M A := fun s => (s, ROk a).
Definition bind {A B} (m : M A) (f : A -> M B) : M B :=
  fun s => match m s with
           | (s', ROk a) => f a s'
           | (s', RErr e) => (s', RErr e)
           | (s', RPanic p) => (s', RPanic p)
           end.
Notation "x <- m ;; f" := (bind m (fun x => f)) (at level 61, m at next level, right associativity).
Notation "m ;;; f" := (bind m (fun _ => f)) (at level 61, right associativity).

Definition get : M foca := fun s => (s, ROk (st s)).
Definition modify (g : foca -> foca) : M unit :=
  fun s => (mkRs (g (st s)) (out s) (ctr s), ROk tt).
Definition emit (e : effect) : M unit :=
  fun s => (mkRs (st s) (out s ++ [e]) (ctr s), ROk tt).
Definition fail {A} (e : error) : M A := fun s => (s, RErr e).
Definition panic {A} (p : site) : M A := fun s => (s, RPanic p).
Definition ask (r : request) : M (list N) :=
  fun s => (mkRs (st s) (out s) (ctr s + 1), ROk (rnd (ctr s) r)).
(* run a members-level function that consumes oracle answers *)
Definition with_ctr {A} (g : N -> A * N) : M A :=
  fun s => let '(a, k) := g (ctr s) in (mkRs (st s) (out s) k, ROk a).
(* `let r = m` without `?`: errors become values, panics still propagate *)
Definition attempt (m : M unit) : M (option error) :=
  fun s => match m s with
           | (s', ROk _) => (s', ROk None)
           | (s', RErr e) => (s', ROk (Some e))
           | (s', RPanic p) => (s', RPanic p)
           end.
Definition when (b : bool) (m : M unit) : M unit := if b then m else ret tt.

Fixpoint forM_ {A} (l : list A) (f : A -> M unit) : M unit :=
  match l with
  | [] => ret tt
  | x :: t => f x ;;; forM_ t f
  end.

Definition is_send (e : effect) : bool := match e with Send _ _ => true | _ => false end.
Definition num_sends : M N := fun s => (s, ROk (len (filter is_send (out s)))).

(* ---------- helpers ---------- *)
Definition max_tx (f : foca) : N := max_transmissions (cfg f).

(* self.updates.add_or_replace(Addr(id.addr()), serialize_member(m), max_transmissions) *)
Definition add_update (m : member) : M unit :=
  modify (fun f => set_updates f
    (add_or_replace Addr addr_eqb (updates f) (addr_of (m_id m)) (enc_mem m) (max_tx f))).

Definition choose_active (wanted : N) (picker : Id -> bool) : M (list member) :=
  f <- get ;;
  with_ctr (choose_active_members rnd (mems f) wanted picker).

Definition estimate_feed_capacity (maxp remaining : N) : M N :=
  let identity_len := (maxp - remaining) / 2 in
  if identity_len =? 0 then panic PDivZero
  else ret (N.max (remaining / identity_len) 5).

(* the `while let Some(chosen) = choice_buf.pop()` loop of a Feed *)
Fixpoint feed_loop (l : list member) (room count : N) (acc : bytes) : M (N * bytes * N) :=
  match l with
  | [] => ret (count, acc, room)
  | m :: t =>
      let b := enc_mem m in
      if room <? len b then ret (count, acc, room - N.min room (enc_mem_partial m room))
      else if count =? u16_max then panic PFeedCountOverflow
      else feed_loop t (room - len b) (count + 1) (acc ++ b)
  end.

(* Foca::send_message, the member / update section (after the header).
   Returns the bytes and the room left in the Limit wrapper. *)
Definition send_body (dst : Id) (msg : message Id) (maxp room idx : N) : M (bytes * N) :=
  if needs_piggyback msg && (2 <? room) then
    let room2 := room - 2 in
    if piggyback_only_active msg then
      cap <- estimate_feed_capacity maxp room2 ;;
      chosen <- choose_active cap (fun i => negb (id_eqb i dst)) ;;
      cb <- feed_loop (rev chosen) room2 0 [] ;;
      let '(cnt, fb, rleft) := cb in
      ret (u16_be cnt ++ fb, rleft)
    else
      f <- get ;;
      match updates f with
      | [] => ret (u16_be 0, room2)
      | _ =>
          hint <- ask (RTie false idx) ;;
          let '(w, n, kept, p) := fill_gen Addr 0 hint (updates f) room2 u16_max in
          match p with
          | Some s => panic s
          | None => modify (fun f => set_updates f kept) ;;;
                    ret (u16_be n ++ w, room2 - len w)
          end
      end
  else ret ([], room).

(* Foca::send_message, the custom broadcast tail *)
Definition send_customs (dst : Id) (msg : message Id) (room3 idx : N) : M bytes :=
  f <- get ;;
  if (0 <? room3) && allow_custom_broadcasts msg && h_should_add (hst f) dst then
    match customs f with
    | [] => ret []
    | _ =>
        hint <- ask (RTie true idx) ;;
        let '(w, n, kept, p) := fill_gen hkey 2 hint (customs f) room3 usize_max in
        match p with
        | Some s => panic s
        | None => modify (fun f => set_customs f kept) ;;; ret w
        end
    end
  else ret [].

(* Foca::send_message *)
Definition send_message (dst : Id) (msg : message Id) : M unit :=
  f <- get ;;
  let maxp := max_packet_size (cfg f) in
  if negb (send_cap f =? maxp) then panic PSendBufCapacity else
  let hb := enc_hdr (mkHeader (identity f) (incarnation f) dst msg) in
  if maxp <? len hb then fail EEncode else
  let room := maxp - len hb in
  idx <- num_sends ;;
  br <- send_body dst msg maxp room idx ;;
  let '(body, room3) := br in
  cust <- send_customs dst msg room3 idx ;;
  emit (Send dst (hb ++ body ++ cust)).

(* Foca::choose_and_send *)
Definition choose_and_send (n : N) (msg : message Id) : M unit :=
  chosen <- choose_active n (fun _ => true) ;;
  forM_ (rev chosen) (fun m => send_message (m_id m) msg).

Definition gossip : M unit :=
  f <- get ;; choose_and_send (num_indirect_probes (cfg f)) Gossip.

(* Foca::announce_to_down *)
Definition announce_to_down (n : N) : M unit :=
  f <- get ;;
  chosen <- with_ctr (choose_down_members_if rnd (mems f) n
                        (fun c => negb (addr_eqb (addr_of c) (addr_of (identity f))))) ;;
  forM_ (rev chosen) (fun m => send_message (m_id m) Announce).

(* Foca::reset *)
Definition reset : M unit :=
  modify (fun f =>
    set_prb (set_token (set_incarnation (set_conn f Disconnected) 0) (wrap8 (token f + 1)))
            (probe_clear (prb f))).

Definition become_disconnected : M unit :=
  f <- get ;;
  if negb (num_active (mems f) =? 0) then panic PDisconnectedWithMembers else
  modify (fun f => set_prb (set_token (set_conn f Disconnected) (wrap8 (token f + 1)))
                           (probe_clear (prb f))) ;;;
  emit (Notify NIdle).

Definition become_undead : M unit :=
  modify (fun f => set_token (set_prb (set_conn f Undead) (probe_clear (prb f)))
                             (wrap8 (token f + 1))) ;;;
  emit (Notify NDefunct).

Definition submit_periodic (p : option (N * N)) (t : timer Id) : M unit :=
  match p with Some (freq, _) => emit (Submit t freq) | None => ret tt end.

Definition become_connected : M unit :=
  f <- get ;;
  if num_active (mems f) =? 0 then panic PConnectedNoMembers else
  modify (fun f => set_conn f Connected) ;;;
  emit (Submit (TProbeRandomMember (token f)) (probe_period (cfg f))) ;;;
  submit_periodic (periodic_announce (cfg f)) (TPeriodicAnnounce (token f)) ;;;
  submit_periodic (periodic_announce_down (cfg f)) (TPeriodicAnnounceDown (token f)) ;;;
  submit_periodic (periodic_gossip (cfg f)) (TPeriodicGossip (token f)) ;;;
  emit (Notify NActive).

Definition adjust_connection_state : M unit :=
  f <- get ;;
  match conn f with
  | Disconnected => when (0 <? num_active (mems f)) become_connected
  | Connected => when (num_active (mems f) =? 0) become_disconnected
  | Undead => ret tt
  end.

(* Foca::handle_apply_summary *)
Definition handle_apply_summary (s : @summary Id) (u : member) (do_broadcast : bool) : M unit :=
  let id := m_id u in
  when (apply_successful s)
       (when do_broadcast (add_update u) ;;;
        f <- get ;;
        when (negb (is_active_now s))
             (emit (Submit (TRemoveDown id) (remove_down_after (cfg f))))) ;;;
  match s_conflict s with
  | Replaced old => emit (Notify (NRename old id))
  | _ => ret tt
  end ;;;
  when (changed_active_set s)
       (emit (Notify (if is_active_now s then NMemberUp id else NMemberDown id))).

(* Foca::apply_update *)
Definition apply_update (u : member) (do_broadcast : bool) : M bool :=
  f <- get ;;
  if id_eqb (identity f) (m_id u) then panic PApplySelf else
  r <- with_ctr (fun k => let '(ms, s, k') := members_apply rnd (mems f) u k in ((ms, s), k')) ;;
  let '(ms, s) := r in
  modify (fun f => set_mems f ms) ;;;
  let update_is_active :=
    match s_conflict s with
    | Lost | FailedCondition => false
    | _ => is_active_now s
    end in
  handle_apply_summary s u do_broadcast ;;;
  ret update_is_active.

(* Foca::change_identity *)
Definition change_identity (new_id : Id) : M unit :=
  f <- get ;;
  if id_eqb (identity f) new_id then fail ESameIdentity else
  let previous_is_down := conn_eqb (conn f) Undead in
  let previous_id := identity f in
  modify (fun f => set_identity f new_id) ;;;
  reset ;;;
  when (negb previous_is_down) (add_update (mkMember previous_id 0 Down)) ;;;
  gossip.

(* Foca::attempt_rejoin *)
Definition attempt_rejoin : M bool :=
  f <- get ;;
  match renew (identity f) with
  | Some new_id =>
      if id_eqb (identity f) new_id then ret false
      else if negb (wins new_id (identity f)) then ret false
      else change_identity new_id ;;; emit (Notify (NRejoin new_id)) ;;; ret true
  | None => ret false
  end.

(* Foca::handle_self_update *)
Definition handle_self_update (inc : N) (state : mstate) : M unit :=
  match state with
  | Suspect =>
      f <- get ;;
      let increase := negb (inc <? incarnation f) in
      let i := N.max inc (incarnation f) in
      if i =? u16_max then
        b <- attempt_rejoin ;; when (negb b) become_undead
      else
        when increase (modify (fun f => set_incarnation f (N.min (i + 1) u16_max))) ;;;
        f1 <- get ;;
        when (negb (conn_eqb (conn f1) Undead)) gossip
  | Alive => ret tt
  | Down => b <- attempt_rejoin ;; when (negb b) become_undead
  end.

(* Foca::apply_many *)
Definition apply_one (do_broadcast : bool) (u : member) : M unit :=
  f <- get ;;
  if id_eqb (m_id u) (identity f) then handle_self_update (m_inc u) (m_state u)
  else if addr_eqb (addr_of (identity f)) (addr_of (m_id u))
       then (apply_update (mkMember (m_id u) 0 Down) do_broadcast ;;; ret tt)
       else (apply_update u do_broadcast ;;; ret tt).

Definition apply_many (l : list member) (do_broadcast : bool) : M unit :=
  forM_ l (apply_one do_broadcast) ;;; adjust_connection_state.

(* Foca::broadcast *)
Fixpoint broadcast_loop (l : list member) : M unit :=
  match l with
  | [] => ret tt
  | m :: t =>
      send_message (m_id m) Broadcast ;;;
      f <- get ;;
      match customs f with [] => ret tt | _ => broadcast_loop t end
  end.

Definition broadcast : M unit :=
  f <- get ;;
  match customs f with
  | [] => ret tt
  | _ =>
      chosen <- choose_active (num_indirect_probes (cfg f)) (fun i => h_should_add (hst f) i) ;;
      broadcast_loop (rev chosen)
  end.

(* Foca::leave_cluster *)
Definition leave_cluster : M unit :=
  f <- get ;;
  add_update (mkMember (identity f) 0 Down) ;;;
  gossip ;;;
  become_undead.

Definition add_custom (key : hkey) (data : bytes) : M unit :=
  modify (fun f => set_customs f (add_or_replace hkey h_inval (customs f) key data (max_tx f))).

(* Foca::add_broadcast *)
Definition add_broadcast (data : bytes) : M bool :=
  f <- get ;;
  match data with
  | [] => fail EMalformedPacket
  | _ =>
      if (max_packet_size (cfg f) <? len data) || (u16_max <? len data) then fail EDataTooBig else
      let '(h', r) := h_recv (hst f) data None in
      modify (fun f => set_hst f h') ;;;
      match r with
      | None => fail ECustomBroadcast
      | Some (Some key) => add_custom key data ;;; ret true
      | Some None => ret false
      end
  end.

(* Foca::handle_custom_broadcasts — the while loop, structurally on fuel = length data *)
Fixpoint custom_loop (fuel : nat) (data : bytes) (sender : option Id) : M unit :=
  match fuel with
  | O => match data with [] => ret tt | _ => fail EMalformedPacket end
  | S fuel' =>
      if 2 <? len data then
        match get_u16 data with
        | None => fail EMalformedPacket
        | Some (pkt_len, rest) =>
            if (pkt_len =? 0) || (len rest <? pkt_len) then fail EMalformedPacket else
            let pkt := firstn (N.to_nat pkt_len) rest in
            f <- get ;;
            let '(h', r) := h_recv (hst f) pkt sender in
            modify (fun f => set_hst f h') ;;;
            match r with
            | None => fail ECustomBroadcast
            | Some (Some key) => add_custom key pkt
            | Some None => ret tt
            end ;;;
            custom_loop fuel' (skipn (N.to_nat pkt_len) rest) sender
        end
      else match data with [] => ret tt | _ => fail EMalformedPacket end
  end.

Definition handle_custom_broadcasts (data : bytes) (sender : option Id) : M unit :=
  match data with
  | [] => ret tt
  | _ => if len data <? 3 then fail EMalformedPacket
         else custom_loop (length data) data sender
  end.

(* Foca::probe_random_member *)
Definition probe_random_member : M unit :=
  f <- get ;;
  if negb (conn_eqb (conn f) Connected) then panic PProbeNotConnected else
  let incomplete := negb (probe_validate (prb f)) in
  when incomplete (modify (fun f => set_prb f (probe_clear (prb f)))) ;;;
  f <- get ;;
  let '(p', failed) := probe_take_failed (prb f) in
  modify (fun f => set_prb f p') ;;;
  match failed with
  | Some fm =>
      let as_suspect := mkMember (m_id fm) (m_inc fm) Suspect in
      f <- get ;;
      match apply_existing_if (mems f) as_suspect (fun _ => true) with
      | Some (ms, s) =>
          modify (fun f => set_mems f ms) ;;;
          handle_apply_summary s as_suspect true ;;;
          f <- get ;;
          when (is_active_now s)
               (emit (Submit (TChangeSuspectToDown (m_id fm) (m_inc fm) (token f))
                             (suspect_to_down_after (cfg f))))
      | None => ret tt
      end
  | None => ret tt
  end ;;;
  f <- get ;;
  r <- with_ctr (fun k => let '(ms, m, k') := members_next rnd (mems f) k in ((ms, m), k')) ;;
  let '(ms, chosen) := r in
  modify (fun f => set_mems f ms) ;;;
  match chosen with
  | Some m =>
      f <- get ;;
      let '(p', n) := probe_start (prb f) m in
      modify (fun f => set_prb f p') ;;;
      send_message (m_id m) (Ping n) ;;;
      f <- get ;;
      emit (Submit (TSendIndirectProbe (m_id m) (token f)) (probe_rtt (cfg f)))
  | None => ret tt
  end ;;;
  f <- get ;;
  emit (Submit (TProbeRandomMember (token f)) (probe_period (cfg f))) ;;;
  if incomplete then fail EIncompleteProbeCycle else ret tt.

(* the `while let Some(chosen) = choice_buf.pop()` loop of SendIndirectProbe *)
Definition indirect_loop (probed : Id) (l : list member) : M unit :=
  forM_ l (fun m =>
    f <- get ;;
    match probe_expect_indirect_ack (prb f) (m_id m) with
    | None => panic PExpectIndirectIsTarget
    | Some p' =>
        modify (fun f => set_prb f p') ;;;
        send_message (m_id m) (PingReq probed (p_number p'))
    end).

Definition periodic_guard (tok : N) (f : foca) : bool :=
  (tok =? token f) && conn_eqb (conn f) Connected.

(* Foca::handle_timer *)
Definition handle_timer (t : timer Id) : M unit :=
  f <- get ;;
  match t with
  | TSendIndirectProbe probed tok =>
      if negb (tok =? token f) then ret tt else
      modify (fun f => set_prb f (probe_mark_reached (prb f))) ;;;
      if negb (probe_is_probing (prb f) probed) then ret tt else
      if probe_succeeded (prb f) then ret tt else
      if negb (is_active_id (mems f) probed) then ret tt else
      chosen <- choose_active (num_indirect_probes (cfg f)) (fun c => negb (id_eqb c probed)) ;;
      indirect_loop probed (rev chosen)
  | TChangeSuspectToDown mid inc tok =>
      if negb (token f =? tok) then ret tt else
      let as_down := mkMember mid inc Down in
      match apply_existing_if (mems f) as_down (fun m => m_inc m =? inc) with
      | Some (ms, s) =>
          modify (fun f => set_mems f ms) ;;;
          handle_apply_summary s as_down true ;;;
          adjust_connection_state ;;;
          when (apply_successful s && notify_down_members (cfg f)) (send_message mid TurnUndead)
      | None => ret tt
      end
  | TRemoveDown down =>
      modify (fun f => set_mems f (fst (remove_if_down (mems f) down)))
  | TProbeRandomMember tok =>
      if tok =? token f then
        if negb (conn_eqb (conn f) Connected) then fail ENotConnected
        else probe_random_member
      else ret tt
  | TPeriodicAnnounce tok =>
      if periodic_guard tok f then
        match periodic_announce (cfg f) with
        | Some (freq, n) =>
            emit (Submit (TPeriodicAnnounce (token f)) freq) ;;;
            choose_and_send n Announce
        | None => ret tt
        end
      else ret tt
  | TPeriodicGossip tok =>
      if periodic_guard tok f then
        match periodic_gossip (cfg f) with
        | Some (freq, n) =>
            emit (Submit (TPeriodicGossip (token f)) freq) ;;;
            match updates f, customs f with
            | [], [] => ret tt
            | _, _ => choose_and_send n Gossip
            end
        | None => ret tt
        end
      else ret tt
  | TPeriodicAnnounceDown tok =>
      if periodic_guard tok f then
        match periodic_announce_down (cfg f) with
        | Some (freq, n) =>
            emit (Submit (TPeriodicAnnounceDown (token f)) freq) ;;;
            announce_to_down n
        | None => ret tt
        end
      else ret tt
  end.

(* Foca::set_config *)
Definition is_some {A} (o : option A) : bool := match o with Some _ => true | None => false end.
Definition set_config (c : config) : M unit :=
  f <- get ;;
  let old := cfg f in
  if negb (probe_period old =? probe_period c)
     || negb (probe_rtt old =? probe_rtt c)
     || (negb (is_some (periodic_announce old)) && is_some (periodic_announce c))
     || (negb (is_some (periodic_announce_down old)) && is_some (periodic_announce_down c))
     || (negb (is_some (periodic_gossip old)) && is_some (periodic_gossip c))
  then fail EInvalidConfig
  else
    when (negb (max_packet_size old =? max_packet_size c))
         (modify (fun f => set_send_cap f (max_packet_size c))) ;;;
    modify (fun f => set_cfg f c).

Definition reuse_down_identity : M unit :=
  f <- get ;;
  if negb (conn_eqb (conn f) Undead) then fail ENotUndead else reset.

(* decode `n` members *)
Fixpoint dec_members (n : nat) (b : bytes) : option (list member * bytes) :=
  match n with
  | O => Some ([], b)
  | S n' => match dec_mem b with
            | Some (m, r) => match dec_members n' r with
                             | Some (l, r') => Some (m :: l, r')
                             | None => None
                             end
            | None => None
            end
  end.

Definition accept_payload (f : foca) (h : header Id) : bool :=
  id_eqb (h_dst h) (identity f)
  || (message_eqb id_eqb (h_msg h) Announce
      && addr_eqb (addr_of (identity f)) (addr_of (h_dst h))).

(* the `match message` at the end of handle_data *)
Definition react (src : Id) (msg : message Id) : M unit :=
  f <- get ;;
  match msg with
  | Ping n => send_message src (Ack n)
  | Ack n =>
      modify (fun f => set_prb f (fst (probe_receive_ack (prb f) src n)))
  | PingReq target n =>
      if id_eqb target (identity f) then fail EIndirectForOurselves
      else send_message target (IndirectPing src n)
  | IndirectPing origin n =>
      if id_eqb origin (identity f) then fail EIndirectForOurselves
      else send_message src (IndirectAck origin n)
  | IndirectAck target n =>
      if id_eqb target (identity f) then fail EIndirectForOurselves
      else send_message target (ForwardedAck src n)
  | ForwardedAck origin n =>
      if id_eqb origin (identity f) then fail EIndirectForOurselves
      else modify (fun f => set_prb f (fst (probe_receive_indirect_ack (prb f) src n)))
  | Announce => send_message src Feed
  | TurnUndead => handle_self_update 0 Down
  | Gossip | Feed | Broadcast => ret tt
  end.

(* Foca::handle_data *)
Definition handle_data (data : bytes) : M unit :=
  f <- get ;;
  if max_packet_size (cfg f) <? len data then fail EDataTooBig else
  match dec_hdr data with
  | None => fail EDecode
  | Some (h, rest) =>
      if id_eqb (h_src h) (identity f)
         || addr_eqb (addr_of (h_src h)) (addr_of (identity f))
      then fail EDataFromOurselves else
      let remaining := len rest in
      if (remaining =? 1)
         || (message_eqb id_eqb (h_msg h) Announce && (0 <? remaining))
      then fail EMalformedPacket else
      if negb (accept_payload f h) then ret tt else
      ups <- (if (2 <=? remaining) && negb (message_eqb id_eqb (h_msg h) Broadcast) then
                match get_u16 rest with
                | None => fail EMalformedPacket
                | Some (n, r) =>
                    match dec_members (N.to_nat n) r with
                    | Some x => ret x
                    | None => fail EDecode
                    end
                end
              else ret ([], rest)) ;;
      let '(ul, tail) := ups in
      let src := h_src h in
      sender_is_active <- apply_update (mkMember src (h_src_inc h) Alive) true ;;
      if negb sender_is_active then
        f0 <- get ;;
        let already_undead := conn_eqb (conn f0) Undead in
        when (message_eqb id_eqb (h_msg h) TurnUndead) (handle_self_update 0 Down) ;;;
        f <- get ;;
        let pointless := already_undead && message_eqb id_eqb (h_msg h) TurnUndead in
        when (notify_down_members (cfg f) && negb pointless) (send_message src TurnUndead)
      else
        apply_many ul true ;;;
        cres <- attempt (handle_custom_broadcasts tail (Some src)) ;;
        f <- get ;;
        if negb (conn_eqb (conn f) Connected) then
          match cres with Some e => fail e | None => ret tt end
        else
          react src (h_msg h) ;;;
          match cres with Some e => fail e | None => ret tt end
  end.

(* ---------- the public API as one step function ---------- *)
Inductive input :=
| IData (b : bytes)
| ITimer (t : timer Id)
| IApplyMany (l : list member) (do_broadcast : bool)
| IAnnounce (dst : Id)
| IGossip
| IBroadcast
| ILeave
| IChangeIdentity (i : Id)
| IReuseDown
| ISetConfig (c : config)
| IAddBroadcast (b : bytes).

Inductive result := Done | DoneBool (b : bool) | Failed (e : error) | Panicked (s : site).

Definition to_result {A} (g : A -> result) (r : res A) : result :=
  match r with ROk a => g a | RErr e => Failed e | RPanic s => Panicked s end.

Definition run_unit (m : M unit) (f : foca) : foca * list effect * result * N :=
  let '(s, r) := m (mkRs f [] 0) in (st s, out s, to_result (fun _ => Done) r, ctr s).
Definition run_bool (m : M bool) (f : foca) : foca * list effect * result * N :=
  let '(s, r) := m (mkRs f [] 0) in (st s, out s, to_result DoneBool r, ctr s).

Definition step (f : foca) (i : input) : foca * list effect * result * N :=
  match i with
  | IData b => run_unit (handle_data b) f
  | ITimer t => run_unit (handle_timer t) f
  | IApplyMany l b => run_unit (apply_many l b) f
  | IAnnounce d => run_unit (send_message d Announce) f
  | IGossip => run_unit gossip f
  | IBroadcast => run_unit broadcast f
  | ILeave => run_unit leave_cluster f
  | IChangeIdentity i => run_unit (change_identity i) f
  | IReuseDown => run_unit reuse_down_identity f
  | ISetConfig c => run_unit (set_config c) f
  | IAddBroadcast b => run_bool (add_broadcast b) f
  end.

End Foca.
