(* Hoare.v — a small Hoare logic for the state/effect/error monad of FocaM.v *)
From Foca Require Import Laws FocaM.

Section Hoare.
Context {Id Addr : Type} {IO : IdOps Id Addr} {CO : CodecOps Id} {HO : HandlerOps Id}.
Variable rnd : oracle.

Notation rs := (@rs Id Addr HO).
Notation M := (@M Id Addr HO).

(* {P} m {R | E | Z}: from a run state satisfying P, a normal exit with value a
   satisfies R a, an error exit satisfies E, a panic implies Z. *)
Definition triple {A} (Z : Prop) (P : rs -> Prop) (m : M A) (R : A -> rs -> Prop) (E : rs -> Prop) : Prop :=
  forall s, P s ->
    match m s with
    | (s', ROk a) => R a s'
    | (s', RErr _) => E s'
    | (_, RPanic _) => Z
    end.

Lemma t_conseq {A} Z (P P' : rs -> Prop) (m : M A) (R R' : A -> rs -> Prop) (E E' : rs -> Prop) :
  triple Z P' m R' E' ->
  (forall s, P s -> P' s) -> (forall a s, R' a s -> R a s) -> (forall s, E' s -> E s) ->
  triple Z P m R E.
Proof.
  intros H HP HR HE s Ps. specialize (H s (HP s Ps)).
  destruct (m s) as [s' [a|e|p]]; auto.
Qed.

Lemma t_ret {A} Z (P : rs -> Prop) (a : A) E : triple Z P (ret a) (fun x s => x = a /\ P s) E.
Proof. intros s Ps. cbn. auto. Qed.

Lemma t_bind {A B} Z P (m : M A) (f : A -> M B) R1 R E :
  triple Z P m R1 E -> (forall a, triple Z (R1 a) (f a) R E) -> triple Z P (bind m f) R E.
Proof.
  intros Hm Hf s Ps. unfold bind. specialize (Hm s Ps).
  destruct (m s) as [s' [a|e|p]]; auto. apply Hf. exact Hm.
Qed.

Lemma t_get Z (P : rs -> Prop) E : triple Z P (@get Id Addr HO) (fun a s => a = st s /\ P s) E.
Proof. intros s Ps. cbn. auto. Qed.

Lemma t_modify Z (P : rs -> Prop) g E :
  triple Z P (@modify Id Addr HO g) (fun _ s' => exists s, P s /\ s' = mkRs (g (st s)) (out s) (ctr s)) E.
Proof. intros s Ps. cbn. eauto. Qed.

Lemma t_emit Z (P : rs -> Prop) e E :
  triple Z P (@emit Id Addr HO e) (fun _ s' => exists s, P s /\ s' = mkRs (st s) (out s ++ [e]) (ctr s)) E.
Proof. intros s Ps. cbn. eauto. Qed.

Lemma t_fail {A} Z (P : rs -> Prop) e R : triple Z P (@fail Id Addr HO A e) R P.
Proof. intros s Ps. cbn. auto. Qed.

Lemma t_panic {A} (Z : Prop) (P : rs -> Prop) p R E : Z -> triple Z P (@panic Id Addr HO A p) R E.
Proof. intros z s Ps. cbn. exact z. Qed.

Lemma t_ask Z (P : rs -> Prop) r E :
  triple Z P (@ask Id Addr HO rnd r)
         (fun a s' => exists s, P s /\ a = rnd (ctr s) r /\ s' = mkRs (st s) (out s) (ctr s + 1)) E.
Proof. intros s Ps. cbn. eauto. Qed.

Lemma t_with_ctr {A} Z (P : rs -> Prop) (g : N -> A * N) E :
  triple Z P (@with_ctr Id Addr HO A g)
         (fun a s' => exists s, P s /\ a = fst (g (ctr s)) /\ s' = mkRs (st s) (out s) (snd (g (ctr s)))) E.
Proof. intros s Ps. unfold with_ctr. destruct (g (ctr s)) eqn:G. cbn. exists s. rewrite G. auto. Qed.

Lemma t_when Z (P : rs -> Prop) (b : bool) (m : M unit) (R : unit -> rs -> Prop) E :
  (b = true -> triple Z P m R E) -> (b = false -> forall s, P s -> R tt s) ->
  triple Z P (when b m) R E.
Proof.
  intros Ht Hf. destruct b; cbn.
  - apply Ht. reflexivity.
  - intros s Ps. cbn. apply Hf; auto.
Qed.

Lemma t_forM {A} Z (Inv : rs -> Prop) (f : A -> M unit) E (l : list A) :
  (forall x, In x l -> triple Z Inv (f x) (fun _ => Inv) E) ->
  triple Z Inv (forM_ l f) (fun _ => Inv) E.
Proof.
  induction l as [|x t IH]; intros H; cbn [forM_].
  - intros s Is. cbn. exact Is.
  - eapply t_bind.
    + apply H. left. reflexivity.
    + intros ?. apply IH. intros y Hy. apply H. right. exact Hy.
Qed.

Lemma t_attempt Z (P : rs -> Prop) (m : M unit) (R : unit -> rs -> Prop) (Em : rs -> Prop) E :
  triple Z P m R Em ->
  triple Z P (attempt m) (fun o s => match o with None => R tt s | Some _ => Em s end) E.
Proof.
  intros H s Ps. unfold attempt. specialize (H s Ps).
  destruct (m s) as [s' [[]|e|p]]; auto.
Qed.

Lemma t_if {A} Z (P : rs -> Prop) (b : bool) (m1 m2 : M A) R E :
  (b = true -> triple Z P m1 R E) -> (b = false -> triple Z P m2 R E) ->
  triple Z P (if b then m1 else m2) R E.
Proof. destruct b; auto. Qed.

(* invariants that ignore the oracle counter *)
Definition ctr_blind (P : rs -> Prop) : Prop :=
  forall f o c c', P (mkRs f o c) -> P (mkRs f o c').

End Hoare.
