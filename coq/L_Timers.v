(* L_Timers.v — timer epochs (C13): what is armed on connect, what a periodic timer
   re-arms, what set_config cannot do. *)
From Foca Require Import Laws L_Lists MembersM ProbeM BcastM FocaM L_Reject.

Section Timers.
Context {Id Addr : Type} {IO : IdOps Id Addr} {CO : CodecOps Id} {HO : HandlerOps Id}.
Variable rnd : oracle.
Notation foca := (@foca Id Addr HO).
Notation rs := (@rs Id Addr HO).

Definition periodic_submits (p : option (N * N)) (t : timer Id) : list (effect Id) :=
  match p with Some (freq, _) => [Submit t freq] | None => [] end.

(* become_connected arms exactly: the probe timer and one timer per enabled periodic task,
   all carrying the current token *)
Lemma become_connected_effects (s : rs) :
  0 < num_active (mems (st s)) ->
  become_connected s =
  (mkRs (set_conn (st s) Connected)
        (out s ++ [Submit (TProbeRandomMember (token (st s))) (probe_period (cfg (st s)))]
             ++ periodic_submits (periodic_announce (cfg (st s))) (TPeriodicAnnounce (token (st s)))
             ++ periodic_submits (periodic_announce_down (cfg (st s))) (TPeriodicAnnounceDown (token (st s)))
             ++ periodic_submits (periodic_gossip (cfg (st s))) (TPeriodicGossip (token (st s)))
             ++ [Notify NActive])
        (ctr s), ROk tt).
Proof.
  intros H. unfold become_connected, bind at 1, get at 1.
  replace (num_active (mems (st s)) =? 0) with false by lia.
  unfold bind, modify, emit, submit_periodic, periodic_submits, ret. cbn [st out ctr cfg set_conn token].
  destruct (periodic_announce (cfg (st s))) as [[f1 n1]|],
           (periodic_announce_down (cfg (st s))) as [[f2 n2]|],
           (periodic_gossip (cfg (st s))) as [[f3 n3]|]; cbn; rewrite <- ?app_assoc; reflexivity.
Qed.

(* set_config, when accepted, keeps probe timing and cannot enable a periodic task *)
Lemma set_config_accepts (f : foca) (c : config) :
  config_refused (cfg f) c = false ->
  probe_period c = probe_period (cfg f) /\ probe_rtt c = probe_rtt (cfg f)
  /\ (periodic_announce (cfg f) = None -> periodic_announce c = None)
  /\ (periodic_announce_down (cfg f) = None -> periodic_announce_down c = None)
  /\ (periodic_gossip (cfg f) = None -> periodic_gossip c = None).
Proof.
  unfold config_refused. intros H.
  repeat (apply orb_false_iff in H; destruct H as [H ?]).
  repeat split; try lia.
  - intros E. rewrite E in *. cbn in *. destruct (periodic_announce c); [discriminate|reflexivity].
  - intros E. rewrite E in *. cbn in *. destruct (periodic_announce_down c); [discriminate|reflexivity].
  - intros E. rewrite E in *. cbn in *. destruct (periodic_gossip c); [discriminate|reflexivity].
Qed.

Lemma set_config_effect (f : foca) (c : config) :
  step rnd f (ISetConfig c) =
  if config_refused (cfg f) c then (f, [], Failed EInvalidConfig, 0)
  else (set_cfg (if negb (max_packet_size (cfg f) =? max_packet_size c)
                 then set_send_cap f (max_packet_size c) else f) c, [], Done, 0).
Proof.
  unfold step, run_unit, set_config, bind at 1, get at 1. cbn [st].
  fold (config_refused (cfg f) c). destruct (config_refused (cfg f) c); [reflexivity|].
  destruct (negb (max_packet_size (cfg f) =? max_packet_size c)); reflexivity.
Qed.

(* a periodic timer of the current epoch, while connected: re-arms itself (and only itself)
   first; when the task has been disabled meanwhile it is dropped without any effect *)
Lemma periodic_disabled_noop (f : foca) (tok : N) :
  (periodic_announce (cfg f) = None -> step rnd f (ITimer (TPeriodicAnnounce tok)) = (f, [], Done, 0))
  /\ (periodic_announce_down (cfg f) = None -> step rnd f (ITimer (TPeriodicAnnounceDown tok)) = (f, [], Done, 0))
  /\ (periodic_gossip (cfg f) = None -> step rnd f (ITimer (TPeriodicGossip tok)) = (f, [], Done, 0)).
Proof.
  repeat split; intros E; unfold step, run_unit, handle_timer, bind at 1, get at 1; cbn [st];
    rewrite E; destruct (periodic_guard tok f); reflexivity.
Qed.

Lemma not_connected_periodic_noop (f : foca) (tok : N) (t : timer Id) :
  conn f <> Connected ->
  t = TPeriodicAnnounce tok \/ t = TPeriodicAnnounceDown tok \/ t = TPeriodicGossip tok ->
  step rnd f (ITimer t) = (f, [], Done, 0).
Proof.
  intros NC [-> | [-> | ->]]; unfold step, run_unit, handle_timer, bind at 1, get at 1; cbn [st];
    unfold periodic_guard; destruct (conn f); try contradiction; cbn; rewrite andb_false_r; reflexivity.
Qed.

End Timers.
