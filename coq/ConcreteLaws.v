(* ConcreteLaws.v — the executable identity satisfies the hypotheses (B2) the
   theorems assume, so none of them is vacuous for the instance the
   correspondence check runs. *)
From Foca Require Import Laws Concrete.

Lemma cid_eqb_eq (x y : cid) : cid_eqb x y = true <-> x = y.
Proof.
  unfold cid_eqb. destruct x, y; cbn. split.
  - intros H. repeat (apply andb_true_iff in H; destruct H as [H ?]).
    f_equal; lia.
  - intros H. inversion H; subst. rewrite !N.eqb_refl. reflexivity.
Qed.

Global Instance cid_laws : IdLaws cid_ops.
Proof.
  constructor.
  - exact cid_eqb_eq.
  - intros a b. cbn. apply N.eqb_eq.
  - intros x. cbn. unfold cid_wins. lia.
  - intros x y. cbn. unfold cid_wins. lia.
  - intros x y z _ _. cbn. unfold cid_wins. lia.
  - intros x y E N. cbn in *. unfold cid_wins.
    assert (H : ~ (cg x = cg y /\ ck x = ck y /\ cpad x = cpad y)).
    { intros (A & B & C). apply N. destruct x, y; cbn in *; subst. reflexivity. }
    lia.
Qed.
