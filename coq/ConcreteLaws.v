(* ConcreteLaws.v — the executable identity satisfies the hypotheses (B2) the
   theorems assume, so none of them is vacuous for the instance the
   correspondence check runs. *)
From Foca Require Import Laws Concrete.

Lemma cid_eqb_eq (x y : cid) : cid_eqb x y = true <-> x = y.
Proof.
  unfold cid_eqb. destruct x, y; cbn. split.
  - intros H. repeat (apply andb_true_iff in H; destruct H as [H ?]).
    f_equal; lia.
  - intros H. inversion H; subst. rewrite !N.eqb_refl. reflexivity.
Qed.

Global Instance cid_laws : IdLaws cid_ops.
Proof.
  constructor.
  - exact cid_eqb_eq.
  - intros a b. cbn. apply N.eqb_eq.
  - intros x. cbn. unfold cid_wins. lia.
  - intros x y. cbn. unfold cid_wins. lia.
  - intros x y z _ _. cbn. unfold cid_wins. lia.
  - intros x y E N. cbn in *. unfold cid_wins.
    assert (H : ~ (cg x = cg y /\ ck x = ck y /\ cpad x = cpad y)).
    { intros (A & B & C). apply N. destruct x, y; cbn in *; subst. reflexivity. }
    lia.
Qed.

(* ---- the extra laws of Inv.v for the executable codec / identity ---- *)
From Foca Require Import L_Lists MembersM L_Members L_MembersInv L_Bcast Hoare Inv.

Lemma Forall_skipn {A} (P : A -> Prop) n (l : list A) : Forall P l -> Forall P (skipn n l).
Proof. revert l. induction n; intros l H; cbn; auto. destruct l; auto. inversion H; auto. Qed.

Lemma dec_id_rest (P : N -> Prop) b i r : Forall P b -> dec_id b = Some (i, r) -> Forall P r.
Proof.
  unfold dec_id. destruct b as [|a1 [|a0 [|g1 [|g0 [|k [|p r0]]]]]]; try discriminate.
  intros F H. destruct (_ && _ && _); [|discriminate]. inversion H; subst.
  apply Forall_skipn. repeat (match goal with F : Forall _ (_ :: _) |- _ => inversion F; clear F; subst end). auto.
Qed.

Lemma c_dec_mem_rest (P : N -> Prop) b m r : Forall P b -> c_dec_mem b = Some (m, r) -> Forall P r.
Proof.
  unfold c_dec_mem. intros F H. destruct (dec_id b) as [[i r0]|] eqn:D; [|discriminate].
  pose proof (dec_id_rest P _ _ _ F D) as F0.
  destruct r0 as [|i1 [|i0 [|s r1]]]; try discriminate.
  destruct (dec_state s); [|discriminate]. inversion H; subst.
  repeat (match goal with F : Forall _ (_ :: _) |- _ => inversion F; clear F; subst end). auto.
Qed.

Ltac inv_forall :=
  repeat (match goal with F : Forall _ (_ :: _) |- _ => inversion F; clear F; subst end).

Lemma dec_msg_rest (P : N -> Prop) b m r : Forall P b -> dec_msg b = Some (m, r) -> Forall P r.
Proof.
  intros F H. unfold dec_msg in H.
  repeat (match type of H with
          | context [match ?x with _ => _ end] => destruct x eqn:?
          end; try discriminate).
  all: inversion H; subst; inv_forall; auto.
  all: match goal with
       | D : dec_id ?x = Some (_, ?y) |- _ =>
           let Fy := fresh in
           assert (Fy : Forall P y) by (eapply dec_id_rest; [|exact D]; auto);
           inversion Fy; subst; auto
       end.
Qed.

Lemma c_dec_hdr_rest (P : N -> Prop) b h r : Forall P b -> c_dec_hdr b = Some (h, r) -> Forall P r.
Proof.
  unfold c_dec_hdr. intros F H. destruct (dec_id b) as [[src r0]|] eqn:D; [|discriminate].
  pose proof (dec_id_rest P _ _ _ F D) as F0.
  destruct r0 as [|i1 [|i0 r1]]; try discriminate.
  destruct (dec_id r1) as [[dst r2]|] eqn:D2; [|discriminate].
  assert (F1 : Forall P r1) by (repeat (match goal with F : Forall _ (_ :: _) |- _ => inversion F; clear F; subst end); auto).
  pose proof (dec_id_rest P _ _ _ F1 D2) as F2.
  destruct (dec_msg r2) as [[m r3]|] eqn:D3; [|discriminate].
  inversion H; subst. eapply dec_msg_rest; eauto.
Qed.

Global Instance cid_extra : @ExtraLaws cid N cid_ops cid_codec.
Proof.
  constructor.
  - intros x y. cbn. unfold cid_renew. destruct (ck x) as [|p]; [discriminate|].
    destruct p as [[p|p|]|[p|p|]|]; try (intros H; inversion H; reflexivity).
    destruct (cg x <? 65535); intros H; inversion H; reflexivity.
  - intros m. unfold enc_mem, cid_codec, c_enc_mem, enc_id, len. rewrite !app_length. cbn [length u16_be]. lia.
  - intros b h r. cbn. apply c_dec_hdr_rest.
  - intros b m r. cbn. apply c_dec_mem_rest.
Qed.
