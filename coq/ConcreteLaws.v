(* ConcreteLaws.v — the executable identity satisfies the hypotheses (B2) the
   theorems assume, so none of them is vacuous for the instance the
   correspondence check runs. *)
From Foca Require Import Laws Concrete.

Lemma cid_eqb_eq (x y : cid) : cid_eqb x y = true <-> x = y.
Proof.
  unfold cid_eqb. destruct x, y; cbn. split.
  - intros H. repeat (apply andb_true_iff in H; destruct H as [H ?]).
    f_equal; lia.
  - intros H. inversion H; subst. rewrite !N.eqb_refl. reflexivity.
Qed.

Global Instance cid_laws : IdLaws cid_ops.
Proof.
  constructor.
  - exact cid_eqb_eq.
  - intros a b. cbn. apply N.eqb_eq.
  - intros x. cbn. unfold cid_wins. lia.
  - intros x y. cbn. unfold cid_wins. lia.
  - intros x y z _ _. cbn. unfold cid_wins. lia.
  - intros x y E N. cbn in *. unfold cid_wins.
    assert (H : ~ (cg x = cg y /\ ck x = ck y /\ cpad x = cpad y)).
    { intros (A & B & C). apply N. destruct x, y; cbn in *; subst. reflexivity. }
    lia.
Qed.

(* ---- the extra laws of Inv.v for the executable codec / identity ---- *)
From Foca Require Import L_Lists MembersM L_Members L_MembersInv L_Bcast Hoare Inv.

Lemma Forall_skipn {A} (P : A -> Prop) n (l : list A) : Forall P l -> Forall P (skipn n l).
Proof. revert l. induction n; intros l H; cbn; auto. destruct l; auto. inversion H; auto. Qed.

Lemma dec_id_rest (P : N -> Prop) b i r : Forall P b -> dec_id b = Some (i, r) -> Forall P r.
Proof.
  unfold dec_id. destruct b as [|a1 [|a0 [|g1 [|g0 [|k [|p r0]]]]]]; try discriminate.
  intros F H. destruct (_ && _ && _); [|discriminate]. inversion H; subst.
  apply Forall_skipn. repeat (match goal with F : Forall _ (_ :: _) |- _ => inversion F; clear F; subst end). auto.
Qed.

Lemma c_dec_mem_rest (P : N -> Prop) b m r : Forall P b -> c_dec_mem b = Some (m, r) -> Forall P r.
Proof.
  unfold c_dec_mem. intros F H. destruct (dec_id b) as [[i r0]|] eqn:D; [|discriminate].
  pose proof (dec_id_rest P _ _ _ F D) as F0.
  destruct r0 as [|i1 [|i0 [|s r1]]]; try discriminate.
  destruct (dec_state s); [|discriminate]. inversion H; subst.
  repeat (match goal with F : Forall _ (_ :: _) |- _ => inversion F; clear F; subst end). auto.
Qed.

Ltac inv_forall :=
  repeat (match goal with F : Forall _ (_ :: _) |- _ => inversion F; clear F; subst end).

Lemma dec_msg_rest (P : N -> Prop) b m r : Forall P b -> dec_msg b = Some (m, r) -> Forall P r.
Proof.
  intros F H. unfold dec_msg in H.
  repeat (match type of H with
          | context [match ?x with _ => _ end] => destruct x eqn:?
          end; try discriminate).
  all: inversion H; subst; inv_forall; auto.
  all: match goal with
       | D : dec_id ?x = Some (_, ?y) |- _ =>
           let Fy := fresh in
           assert (Fy : Forall P y) by (eapply dec_id_rest; [|exact D]; auto);
           inversion Fy; subst; auto
       end.
Qed.

Lemma c_dec_hdr_rest (P : N -> Prop) b h r : Forall P b -> c_dec_hdr b = Some (h, r) -> Forall P r.
Proof.
  unfold c_dec_hdr. intros F H. destruct (dec_id b) as [[src r0]|] eqn:D; [|discriminate].
  pose proof (dec_id_rest P _ _ _ F D) as F0.
  destruct r0 as [|i1 [|i0 r1]]; try discriminate.
  destruct (dec_id r1) as [[dst r2]|] eqn:D2; [|discriminate].
  assert (F1 : Forall P r1) by (repeat (match goal with F : Forall _ (_ :: _) |- _ => inversion F; clear F; subst end); auto).
  pose proof (dec_id_rest P _ _ _ F1 D2) as F2.
  destruct (dec_msg r2) as [[m r3]|] eqn:D3; [|discriminate].
  inversion H; subst. eapply dec_msg_rest; eauto.
Qed.

Global Instance cid_extra : @ExtraLaws cid N cid_ops cid_codec.
Proof.
  constructor.
  - intros x y. cbn. unfold cid_renew. destruct (ck x) as [|p]; [discriminate|].
    destruct p as [[p|p|]|[p|p|]|]; try (intros H; inversion H; reflexivity).
    destruct (cg x <? 65535); intros H; inversion H; reflexivity.
  - intros m. unfold enc_mem, cid_codec, c_enc_mem, enc_id, len. rewrite !app_length. cbn [length u16_be]. lia.
  - intros b h r. cbn. apply c_dec_hdr_rest.
  - intros b m r. cbn. apply c_dec_mem_rest.
Qed.

(* ---- the executable codec round-trips on every value a Rust VId / Member / Header can hold ---- *)
From Coq Require Import ZArith.
Ltac Zify.zify_post_hook ::= Z.div_mod_to_equations.

Definition wf_cid (i : cid) : Prop := ca i < 65536 /\ cg i < 65536 /\ ck i < 4 /\ cpad i < 256.

Lemma all_238_repeat n r : all_238 (firstn n (repeat 238 n ++ r)) = true.
Proof. induction n as [|n IH]; cbn; auto. Qed.

Lemma firstn_repeat_app {A} (x : A) n r : firstn n (repeat x n ++ r) = repeat x n.
Proof. induction n as [|n IH]; cbn; auto. rewrite IH. reflexivity. Qed.

Lemma skipn_repeat_app {A} (x : A) n r : skipn n (repeat x n ++ r) = r.
Proof. induction n as [|n IH]; cbn; auto. Qed.

Lemma dec_enc_id (i : cid) (r : bytes) : wf_cid i -> dec_id (enc_id i ++ r) = Some (i, r).
Proof.
  intros (A & G & K & P). unfold enc_id, u16_be. cbn [app]. unfold dec_id.
  replace (ck i <? 4) with true by lia.
  rewrite all_238_repeat, skipn_repeat_app.
  replace (cpad i <=? len (repeat 238 (N.to_nat (cpad i)) ++ r)) with true.
  2:{ unfold len. rewrite app_length, repeat_length. lia. }
  cbn [andb]. destruct i as [a g k p]; cbn in *. f_equal. f_equal. f_equal; lia.
Qed.

Definition wf_cmember (m : member cid) : Prop := wf_cid (m_id m) /\ m_inc m < 65536.

Lemma c_dec_enc_mem (m : member cid) (r : bytes) :
  wf_cmember m -> c_dec_mem (c_enc_mem m ++ r) = Some (m, r).
Proof.
  intros [Wi Wn]. unfold c_enc_mem, c_dec_mem. rewrite <- !app_assoc. rewrite dec_enc_id by exact Wi.
  unfold u16_be. cbn [app]. destruct m as [i n s]; cbn in *.
  destruct s; cbn; f_equal; f_equal; f_equal; lia.
Qed.

Definition wf_cmsg (m : message cid) : Prop :=
  match m with
  | Ping n | Ack n => n < 256
  | PingReq i n | IndirectPing i n | IndirectAck i n | ForwardedAck i n => wf_cid i /\ n < 256
  | _ => True
  end.

Lemma dec_enc_msg (m : message cid) (r : bytes) : wf_cmsg m -> dec_msg (enc_msg m ++ r) = Some (m, r).
Proof.
  destruct m; cbn [wf_cmsg enc_msg]; intros W; try reflexivity.
  all: destruct W as [Wi Wn]; cbn [app]; unfold dec_msg; cbn [N.leb N.compare andb];
    rewrite <- app_assoc; rewrite dec_enc_id by exact Wi; reflexivity.
Qed.

Definition wf_chdr (h : header cid) : Prop :=
  wf_cid (h_src h) /\ h_src_inc h < 65536 /\ wf_cid (h_dst h) /\ wf_cmsg (h_msg h).

Lemma c_dec_enc_hdr (h : header cid) (r : bytes) :
  wf_chdr h -> c_dec_hdr (c_enc_hdr h ++ r) = Some (h, r).
Proof.
  intros (Ws & Wn & Wd & Wm). unfold c_enc_hdr, c_dec_hdr. rewrite <- !app_assoc.
  rewrite dec_enc_id by exact Ws. unfold u16_be. cbn [app].
  rewrite dec_enc_id by exact Wd. rewrite dec_enc_msg by exact Wm.
  destruct h as [s n d m]; cbn in *. f_equal. f_equal. f_equal. lia.
Qed.
