(* L_Discard.v — datagrams from a sender that is not active after its header
   has been processed (Down, superseded identity) have their payload discarded:
   no update applied, no custom item handed to the handler, message not acted on (C09). *)
From Foca Require Import Laws L_Lists MembersM ProbeM BcastM FocaM L_Members.

Section Discard.
Context {Id Addr : Type} {IO : IdOps Id Addr} {CO : CodecOps Id} {HO : HandlerOps Id}.
Context {IL : IdLaws IO}.
Variable rnd : oracle.
Notation foca := (@foca Id Addr HO).
Notation rs := (@rs Id Addr HO).
Notation "x <- m ;; f" := (bind m (fun x => f)) (at level 61, m at next level, right associativity).
Notation "m ;;; f" := (bind m (fun _ => f)) (at level 61, right associativity).

(* what handle_data does once the datagram has been accepted and parsed *)
Definition after_parse (h : header Id) (ul : list (member Id)) (tail : bytes) : M unit :=
  sender_is_active <- apply_update rnd (mkMember (h_src h) (h_src_inc h) Alive) true ;;
  if negb sender_is_active then
    f0 <- get ;;
    let already_undead := conn_eqb (conn f0) Undead in
    when (message_eqb id_eqb (h_msg h) TurnUndead) (handle_self_update rnd 0 Down) ;;;
    f <- get ;;
    let pointless := already_undead && message_eqb id_eqb (h_msg h) TurnUndead in
    when (notify_down_members (cfg f) && negb pointless) (send_message rnd (h_src h) TurnUndead)
  else
    apply_many rnd ul true ;;;
    cres <- attempt (handle_custom_broadcasts tail (Some (h_src h))) ;;
    f <- get ;;
    if negb (conn_eqb (conn f) Connected) then
      match cres with Some e => fail e | None => ret tt end
    else
      react rnd (h_src h) (h_msg h) ;;;
      match cres with Some e => fail e | None => ret tt end.

(* the update section of a datagram *)
Definition parse_updates (h : header Id) (rest : bytes) : option (list (member Id) * bytes) :=
  if (2 <=? len rest) && negb (message_eqb id_eqb (h_msg h) Broadcast) then
    match get_u16 rest with
    | None => None
    | Some (n, r) => dec_members (N.to_nat n) r
    end
  else Some ([], rest).

Lemma handle_data_parsed (data : bytes) (h : header Id) (rest : bytes) ul tail (s : rs) :
  len data <= max_packet_size (cfg (st s)) ->
  dec_hdr data = Some (h, rest) ->
  id_eqb (h_src h) (identity (st s)) = false ->
  addr_eqb (addr_of (h_src h)) (addr_of (identity (st s))) = false ->
  len rest <> 1 -> (h_msg h = Announce -> len rest = 0) ->
  accept_payload (st s) h = true ->
  parse_updates h rest = Some (ul, tail) ->
  handle_data rnd data s = after_parse h ul tail s.
Proof.
  intros Sz DH S1 S2 L1 LA Acc PU. unfold handle_data, bind at 1, get at 1.
  replace (max_packet_size (cfg (st s)) <? len data) with false by lia.
  rewrite DH, S1, S2. cbn [orb].
  replace ((len rest =? 1) || (message_eqb id_eqb (h_msg h) Announce && (0 <? len rest))) with false.
  2:{ replace (len rest =? 1) with false by lia. cbn [orb].
      destruct (message_eqb id_eqb (h_msg h) Announce) eqn:E; auto.
      assert (h_msg h = Announce) by (destruct (h_msg h); cbn in E; try discriminate; reflexivity).
      specialize (LA H). cbn. lia. }
  rewrite Acc. cbn [negb].
  unfold parse_updates in PU. unfold bind at 1.
  destruct ((2 <=? len rest) && negb (message_eqb id_eqb (h_msg h) Broadcast)).
  - destruct (get_u16 rest) as [[n r]|]; [|discriminate]. rewrite PU. reflexivity.
  - inversion PU; subst. reflexivity.
Qed.

(* the sender's own update is all that is processed when it turns out inactive *)
Theorem inactive_sender_discards (h : header Id) (ul : list (member Id)) (tail : bytes) (s s1 : rs) :
  apply_update rnd (mkMember (h_src h) (h_src_inc h) Alive) true s = (s1, ROk false) ->
  h_msg h <> TurnUndead ->
  after_parse h ul tail s =
  (when (notify_down_members (cfg (st s1))) (send_message rnd (h_src h) TurnUndead)) s1.
Proof.
  intros AU NT. unfold after_parse, bind at 1. rewrite AU. cbn [negb].
  assert (E : message_eqb id_eqb (h_msg h) TurnUndead = false).
  { destruct (h_msg h); cbn; auto. contradiction. }
  unfold bind at 1, get at 1. rewrite E. unfold when at 1. unfold bind at 1, ret at 1.
  unfold bind at 1, get at 1. rewrite andb_false_r. cbn [negb]. rewrite andb_true_r. reflexivity.
Qed.

End Discard.
