(* L_SendFrame.v — what merely sends changes nothing but the two backlogs: after gossip(), announce(),
   broadcast() or a periodic timer the state is the state before with (possibly) other transmission
   counts in the update backlog and the custom-broadcast backlog - identity, incarnation, configuration,
   connection state, epoch, member list (order and cursor), probe bookkeeping, handler state and send
   buffer are exactly the same. *)
From Foca Require Import Laws L_Lists MembersM ProbeM BcastM FocaM Hoare Inv L_Mech.

Section SendFrame.
Context {Id Addr : Type} {IO : IdOps Id Addr} {CO : CodecOps Id} {HO : HandlerOps Id} {IL : IdLaws IO}.
Variable rnd : oracle.
Notation foca := (@foca Id Addr HO).
Notation rs := (@rs Id Addr HO).
Notation M := (@M Id Addr HO).
Notation "x <- m ;; f" := (bind m (fun x => f)) (at level 61, m at next level, right associativity).
Notation "m ;;; f" := (bind m (fun _ => f)) (at level 61, right associativity).

Definition pure_send (i : @input Id) : Prop :=
  match i with
  | IGossip | IAnnounce _ | IBroadcast => True
  | ITimer (TPeriodicAnnounce _) | ITimer (TPeriodicAnnounceDown _) | ITimer (TPeriodicGossip _) => True
  | _ => False
  end.

Lemma frames_get_bind {B} (body : foca -> M B) : (forall f, frames (body f)) -> frames (f <- get ;; body f).
Proof. intros H. apply frames_bind; [apply frames_get|exact H]. Qed.

Lemma frames_broadcast_loop l : frames (broadcast_loop rnd l).
Proof.
  induction l as [|m t IH]; cbn [broadcast_loop]; [apply frames_ret|].
  apply frames_bind; [apply frames_send_message|]. intros _. apply frames_get_bind. intros f.
  destruct (customs f); [apply frames_ret|exact IH].
Qed.
Lemma frames_choose_active wanted picker : frames (choose_active rnd wanted picker : M (list (member Id))).
Proof. unfold choose_active. apply frames_get_bind. intros f. apply frames_with_ctr. Qed.
Lemma frames_broadcast : frames (broadcast rnd).
Proof.
  unfold broadcast. apply frames_get_bind. intros f. destruct (customs f); [apply frames_ret|].
  apply frames_bind; [apply frames_choose_active|]. intros chosen. apply frames_broadcast_loop.
Qed.
Lemma frames_announce_to_down n : frames (announce_to_down rnd n).
Proof.
  unfold announce_to_down. apply frames_get_bind. intros f.
  apply frames_bind; [apply frames_with_ctr|]. intros chosen.
  intros s. apply frames_forM. intros m s0. apply (frames_send_message rnd).
Qed.
Lemma frames_cas n msg : frames (choose_and_send rnd n msg).
Proof. intros s. apply frames_choose_and_send. Qed.
Lemma frames_periodic t :
  match t with TPeriodicAnnounce _ | TPeriodicAnnounceDown _ | TPeriodicGossip _ => True | _ => False end ->
  frames (handle_timer rnd t).
Proof.
  intros S. unfold handle_timer. apply frames_get_bind. intros f.
  destruct t as [tok|probed tok|mid inc tok|tok|tok|tok|down]; try contradiction.
  - destruct (periodic_guard _ _); [|apply frames_ret].
    destruct (periodic_announce _) as [[freq n]|]; [|apply frames_ret].
    apply frames_bind; [apply frames_emit|]. intros _. apply frames_cas.
  - destruct (periodic_guard _ _); [|apply frames_ret].
    destruct (periodic_announce_down _) as [[freq n]|]; [|apply frames_ret].
    apply frames_bind; [apply frames_emit|]. intros _. apply frames_announce_to_down.
  - destruct (periodic_guard _ _); [|apply frames_ret].
    destruct (periodic_gossip _) as [[freq n]|]; [|apply frames_ret].
    apply frames_bind; [apply frames_emit|]. intros _.
    destruct (updates f), (customs f); try apply frames_ret; apply frames_cas.
Qed.

Theorem sending_changes_only_backlogs (f : foca) (i : @input Id) :
  pure_send i ->
  exists u c, fst (fst (fst (step rnd f i))) = set_customs (set_updates f u) c.
Proof.
  intros S.
  assert (RU : forall (m : M unit), frames m -> exists u c, fst (fst (fst (run_unit m f))) = set_customs (set_updates f u) c).
  { intros m Hm. specialize (Hm (mkRs f [] 0)). unfold run_unit. destruct (m (mkRs f [] 0)) as [s' r]. exact Hm. }
  destruct i; try contradiction; cbn [step].
  - apply RU, frames_periodic. destruct t; try contradiction; exact I.
  - apply RU, frames_send_message.
  - apply RU. intros s. apply frames_gossip.
  - apply RU, frames_broadcast.
Qed.

End SendFrame.
