(* L_RoundEnd.v — C12: what the ProbeRandomMember timer does with the round that just ended:
   the suspicion timeouts scheduled by the call are exactly: one, for the round's target with the
   incarnation it was probed at and the current token, iff the round failed and the target is
   still an active record that the Suspect update may touch; none otherwise. *)
From Foca Require Import Laws L_Lists MembersM ProbeM FocaM L_Members L_MembersInv Hoare Inv L_Mech L_Mirror L_Footprint.

Section RoundEnd.
Context {Id Addr : Type} {IO : IdOps Id Addr} {CO : CodecOps Id} {HO : HandlerOps Id} {IL : IdLaws IO}.
Variable rnd : oracle.
Notation member := (member Id).
Notation foca := (@foca Id Addr HO).
Notation rs := (@rs Id Addr HO).
Notation M := (@M Id Addr HO).
Notation effect := (effect Id).
Notation "x <- m ;; f" := (bind m (fun x => f)) (at level 61, m at next level, right associativity).
Notation "m ;;; f" := (bind m (fun _ => f)) (at level 61, right associativity).

Definition is_cstd (e : effect) : bool :=
  match e with Submit (TChangeSuspectToDown _ _ _) _ => true | _ => false end.
Definition cstd_of (es : list effect) : list effect := filter is_cstd es.
Definition no_cstd (e : effect) : Prop := is_cstd e = false.

Lemma cstd_of_app a b : cstd_of (a ++ b) = cstd_of a ++ cstd_of b.
Proof. unfold cstd_of. apply filter_app. Qed.
Lemma cstd_of_none es : Forall no_cstd es -> cstd_of es = [].
Proof.
  induction 1 as [|e es He _ IH]; [reflexivity|]. unfold cstd_of in *. cbn [filter]. rewrite He. exact IH.
Qed.

(* what the round that ended asks for *)
Definition round_suspicion (f : foca) : list effect :=
  let prb1 := if negb (probe_validate (prb f)) then probe_clear (prb f) else prb f in
  match snd (probe_take_failed prb1) with
  | Some fm =>
      match apply_existing_if (mems f) (mkMember (m_id fm) (m_inc fm) Suspect) (fun _ => true) with
      | Some (_, sm) =>
          if is_active_now sm
          then [Submit (TChangeSuspectToDown (m_id fm) (m_inc fm) (token f)) (suspect_to_down_after (cfg f))]
          else []
      | None => []
      end
  | None => []
  end.

Lemma hsum_out_no_cstd sm u (f : foca) : Forall no_cstd (hsum_out sm u f).
Proof.
  unfold hsum_out. apply Forall_app; split.
  - destruct (_ && _); constructor; [reflexivity|constructor].
  - apply Forall_app; split.
    + destruct (s_conflict sm); constructor; [reflexivity|constructor].
    + destruct (changed_active_set sm); constructor; [destruct (is_active_now sm); reflexivity|constructor].
Qed.

Theorem probe_round_end (s : rs) :
  conn (st s) = Connected ->
  exists new, out (fst (probe_random_member rnd s)) = out s ++ new
              /\ cstd_of new = round_suspicion (st s).
Proof.
  intros Cn. unfold probe_random_member, bind at 1, get at 1. cbv beta iota. rewrite Cn. cbn [conn_eqb negb].
  set (f := st s).
  (* the state after the bookkeeping on the probe record *)
  set (inc := negb (probe_validate (prb f))).
  set (f1 := if inc then set_prb f (probe_clear (prb f)) else f).
  assert (E1 : when inc (modify (fun f0 => set_prb f0 (probe_clear (prb f0)))) s = (mkRs f1 (out s) (ctr s), ROk tt)).
  { subst f1. unfold when, modify, ret. destruct inc; [reflexivity|destruct s; reflexivity]. }
  unfold bind at 1. rewrite E1. cbv beta iota.
  unfold bind at 1, get at 1. cbv beta iota. cbn [st].
  assert (P1 : prb f1 = if inc then probe_clear (prb f) else prb f) by (subst f1; destruct inc; reflexivity).
  unfold round_suspicion. fold f inc. rewrite <- P1.
  destruct (probe_take_failed (prb f1)) as [p' failed] eqn:TF. cbn [snd].
  unfold bind at 1, modify at 1. cbv beta iota. cbn [st out ctr].
  set (f2 := set_prb f1 p').
  assert (M2 : mems f2 = mems f /\ token f2 = token f /\ cfg f2 = cfg f).
  { subst f2 f1. destruct inc; repeat split; reflexivity. }
  destruct M2 as (Mm & Mt & Mc).
  (* the tail after the suspicion part never schedules a suspicion timeout *)
  set (tail := (f3 <- get ;;
      r <- with_ctr (fun k => let '(ms, m, k') := members_next rnd (mems f3) k in ((ms, m), k')) ;;
      let '(ms, chosen) := r in
      modify (fun f4 => set_mems f4 ms) ;;;
      match chosen with
      | Some m =>
          f4 <- get ;;
          let '(p'0, n) := probe_start (prb f4) m in
          modify (fun f5 => set_prb f5 p'0) ;;;
          send_message rnd (m_id m) (Ping n) ;;;
          f5 <- get ;;
          emit (Submit (TSendIndirectProbe (m_id m) (token f5)) (probe_rtt (cfg f5)))
      | None => ret tt
      end ;;;
      f4 <- get ;;
      emit (Submit (TProbeRandomMember (token f4)) (probe_period (cfg f4))) ;;;
      (if inc then fail EIncompleteProbeCycle else ret tt)) : M unit).
  assert (TL : emits no_cstd tail).
  { subst tail. apply emits_get_bind. intros f3.
    apply emits_bind; [apply emits_with_ctr|]. intros [ms chosen].
    apply emits_bind; [apply emits_modify|]. intros _.
    apply emits_bind.
    { destruct chosen as [m|]; [|apply emits_ret]. apply emits_get_bind. intros f4.
      destruct (probe_start (prb f4) m) as [p'0 n].
      apply emits_bind; [apply emits_modify|]. intros _.
      apply emits_bind; [apply (emits_weaken only_send); [intros [? ?|? ?|?]; cbn; intros H; try contradiction; reflexivity|apply fp_send_message]|]. intros _.
      apply emits_get_bind. intros f5. apply emits_emit. reflexivity. }
    intros _. apply emits_get_bind. intros f4.
    apply emits_bind; [apply emits_emit; reflexivity|]. intros _.
    destruct inc; [apply emits_fail|apply emits_ret]. }
  destruct failed as [fm|].
  - unfold bind at 1. unfold bind at 1. unfold get at 1. cbv beta iota. cbn [st]. rewrite Mm.
    destruct (apply_existing_if (mems f) (mkMember (m_id fm) (m_inc fm) Suspect) (fun _ => true)) as [[ms sm]|] eqn:AE.
    + unfold bind at 1, modify at 1. cbv beta iota. cbn [st out ctr].
      unfold bind at 1. rewrite hsum_eq. cbv beta iota. cbn [st out ctr].
      unfold bind at 1, get at 1. cbv beta iota. cbn [st].
      set (f3 := hsum_state sm (mkMember (m_id fm) (m_inc fm) Suspect) true (set_mems f2 ms)).
      assert (T3 : token f3 = token f /\ cfg f3 = cfg f).
      { subst f3. unfold hsum_state. destruct (_ && _); cbn; rewrite ?Mt, ?Mc; auto. }
      destruct T3 as [T3 C3].
      destruct (is_active_now sm) eqn:AN; cbn [when].
      * unfold emit at 1. cbv beta iota. cbn [st out ctr].
        match goal with |- exists new, out (fst (tail ?x)) = _ /\ _ => destruct (TL x) as [nt [Ot Ft]] end.
        exists (hsum_out sm (mkMember (m_id fm) (m_inc fm) Suspect) (set_mems f2 ms)
                ++ [Submit (TChangeSuspectToDown (m_id fm) (m_inc fm) (token f3)) (suspect_to_down_after (cfg f3))] ++ nt).
        split; [rewrite Ot; cbn [out]; rewrite <- !app_assoc; reflexivity|].
        rewrite !cstd_of_app, (cstd_of_none _ (hsum_out_no_cstd _ _ _)), (cstd_of_none _ Ft), T3, C3.
        reflexivity.
      * unfold ret at 1. cbv beta iota.
        match goal with |- exists new, out (fst (tail ?x)) = _ /\ _ => destruct (TL x) as [nt [Ot Ft]] end.
        exists (hsum_out sm (mkMember (m_id fm) (m_inc fm) Suspect) (set_mems f2 ms) ++ nt).
        split; [rewrite Ot; cbn [out]; rewrite <- !app_assoc; reflexivity|].
        rewrite !cstd_of_app, (cstd_of_none _ (hsum_out_no_cstd _ _ _)), (cstd_of_none _ Ft). reflexivity.
    + unfold ret at 1. cbv beta iota.
      match goal with |- exists new, out (fst (tail ?x)) = _ /\ _ => destruct (TL x) as [nt [Ot Ft]] end.
      exists nt. split; [rewrite Ot; reflexivity|apply cstd_of_none; exact Ft].
  - unfold bind at 1, ret at 1. cbv beta iota.
    match goal with |- exists new, out (fst (tail ?x)) = _ /\ _ => destruct (TL x) as [nt [Ot Ft]] end.
    exists nt. split; [rewrite Ot; reflexivity|apply cstd_of_none; exact Ft].
Qed.

End RoundEnd.
