(* L_RoundPing.v — C14 as one call: a live ProbeRandomMember timer pings exactly the member that
   Members::next yields on the list left by the suspicion part of the round - whatever the state of the
   previous round (complete, or incomplete: the recovery path) - and nothing else is sent. *)
From Coq Require Import Permutation.
From Foca Require Import Laws L_Lists MembersM ProbeM BcastM FocaM Hoare Inv L_Mech L_Mirror L_ConnCons L_Acct L_Footprint L_RoundEnd L_RoundSuspect L_IndirectStage.

Section RoundPing.
Context {Id Addr : Type} {IO : IdOps Id Addr} {CO : CodecOps Id} {HO : HandlerOps Id} {IL : IdLaws IO}.
Variable rnd : oracle.
Notation member := (member Id).
Notation foca := (@foca Id Addr HO).
Notation rs := (@rs Id Addr HO).
Notation M := (@M Id Addr HO).
Notation effect := (effect Id).
Notation "x <- m ;; f" := (bind m (fun x => f)) (at level 61, m at next level, right associativity).
Notation "m ;;; f" := (bind m (fun _ => f)) (at level 61, right associativity).

(* the destinations of the datagrams among the effects, in order *)
Definition dsts (es : list effect) : list Id :=
  flat_map (fun e => match e with Send d _ => [d] | _ => [] end) es.
Lemma dsts_app a b : dsts (a ++ b) = dsts a ++ dsts b.
Proof. unfold dsts. apply flat_map_app. Qed.
Lemma dsts_hsum sm u (f : foca) : dsts (hsum_out sm u f) = [].
Proof.
  unfold hsum_out. rewrite !dsts_app.
  destruct (apply_successful sm && negb (is_active_now sm)), (s_conflict sm), (changed_active_set sm); reflexivity.
Qed.

(* a datagram is a Ping addressed to its destination *)
Definition is_ping_to (e : effect) : Prop :=
  match e with
  | Send d b => exists id inc n rest, b = enc_hdr (mkHeader id inc d (Ping n)) ++ rest
  | _ => True
  end.

(* send_message: on success exactly one datagram, to dst, with the header of msg; otherwise none *)
Lemma send_message_exact (s : rs) dst msg :
  match send_message rnd dst msg s with
  | (s', ROk _) => exists rest, out s' = out s ++ [Send dst (enc_hdr (mkHeader (identity (st s)) (incarnation (st s)) dst msg) ++ rest)]
  | (s', _) => out s' = out s
  end.
Proof.
  unfold send_message, bind at 1, get at 1. cbv beta iota.
  destruct (negb (send_cap (st s) =? max_packet_size (cfg (st s)))); [reflexivity|].
  destruct (max_packet_size (cfg (st s)) <? len (enc_hdr _)); [reflexivity|].
  unfold bind at 1, num_sends at 1. cbv beta iota. unfold bind at 1.
  pose proof (noemit_send_body rnd dst msg (max_packet_size (cfg (st s)))
                (max_packet_size (cfg (st s)) - len (enc_hdr (mkHeader (identity (st s)) (incarnation (st s)) dst msg)))
                (len (filter is_send (out s))) s) as N1.
  destruct (send_body rnd dst msg _ _ _ s) as [s1 [[body room3]|e|p]]; cbn [fst] in N1; try exact N1.
  unfold bind at 1.
  pose proof (noemit_send_customs rnd dst msg room3 (len (filter is_send (out s))) s1) as N2.
  destruct (send_customs rnd dst msg room3 _ s1) as [s2 [cust|e|p]]; cbn [fst] in N2; try (rewrite N2; exact N1).
  unfold emit. cbn [out]. exists (body ++ cust). rewrite N2, N1. reflexivity.
Qed.

Definition live {A} (r : res A) : Prop :=
  match r with RErr EEncode => False | RPanic _ => False | _ => True end.
Definition expect (c : option member) : list Id := match c with Some m => [m_id m] | None => [] end.

Definition prm_tail (inc : bool) : M unit :=
  f3 <- get ;;
  r <- with_ctr (fun k => let '(ms, m, k') := members_next rnd (mems f3) k in ((ms, m), k')) ;;
  let '(ms, chosen) := r in
  modify (fun f4 => set_mems f4 ms) ;;;
  match chosen with
  | Some m =>
      f4 <- get ;;
      let '(p'0, n) := probe_start (prb f4) m in
      modify (fun f5 => set_prb f5 p'0) ;;;
      send_message rnd (m_id m) (Ping n) ;;;
      f5 <- get ;;
      emit (Submit (TSendIndirectProbe (m_id m) (token f5)) (probe_rtt (cfg f5)))
  | None => ret tt
  end ;;;
  f4 <- get ;;
  emit (Submit (TProbeRandomMember (token f4)) (probe_period (cfg f4))) ;;;
  (if inc then fail EIncompleteProbeCycle else ret tt).

Lemma tail_pings inc (s0 : rs) :
  match prm_tail inc s0 with
  | (s', r) => exists new, out s' = out s0 ++ new
                 /\ (live r -> dsts new = expect (snd (fst (members_next rnd (mems (st s0)) (ctr s0)))) /\ Forall is_ping_to new)
  end.
Proof.
  unfold prm_tail, bind at 1, get at 1. cbv beta iota.
  unfold bind at 1, with_ctr at 1. cbv beta iota.
  destruct (members_next rnd (mems (st s0)) (ctr s0)) as [[ms chosen] k']. cbn [fst snd]. cbv beta iota.
  unfold bind at 1, modify at 1. cbv beta iota. cbn [st out ctr].
  destruct chosen as [m|].
  - destruct (probe_start (prb (set_mems (st s0) ms)) m) as [p'0 n] eqn:PS.
    set (SM := send_message rnd (m_id m) (Ping n)).
    unfold bind, get, modify, emit, ret, fail. cbv beta iota. cbn [st out ctr]. rewrite PS. cbv beta iota. cbn [st out ctr].
    set (s3 := {| st := set_prb (set_mems (st s0) ms) p'0; out := out s0; ctr := k' |}).
    pose proof (send_message_exact s3 (m_id m) (Ping n)) as SE.
    pose proof (oee_send_message rnd (m_id m) (Ping n) s3) as OE.
    destruct (send_message rnd (m_id m) (Ping n) s3) as [s4 [[]|e|p]].
    + destruct SE as (rest & O4). cbn [out] in O4.
      destruct inc; cbn [out]; eexists; (split; [rewrite O4, <- !app_assoc; reflexivity|]); intros _;
        (split; [reflexivity|]); repeat constructor; cbn; eauto.
    + subst e. exists []. split; [rewrite app_nil_r; exact SE|]. intros L. destruct L.
    + exists []. split; [rewrite app_nil_r; exact SE|]. intros L. destruct L.
  - unfold bind, get, modify, emit, ret, fail. cbv beta iota. cbn [st out ctr].
    destruct inc; cbn [out]; eexists; (split; [reflexivity|]); intros _; (split; [reflexivity|]); repeat constructor.
Qed.

Theorem probe_round_pings (s : rs) :
  conn (st s) = Connected ->
  match probe_random_member rnd s with
  | (s', r) => exists new, out s' = out s ++ new
                 /\ (live r -> dsts new = expect (snd (fst (members_next rnd (round_members (st s)) (ctr s))))
                               /\ Forall is_ping_to new)
  end.
Proof.
  intros Cn. unfold probe_random_member, bind at 1, get at 1. cbv beta iota. rewrite Cn. cbn [conn_eqb negb].
  set (f := st s).
  set (inc := negb (probe_validate (prb f))).
  set (f1 := if inc then set_prb f (probe_clear (prb f)) else f).
  assert (E1 : when inc (modify (fun f0 => set_prb f0 (probe_clear (prb f0)))) s = (mkRs f1 (out s) (ctr s), ROk tt)).
  { subst f1. unfold when, modify, ret. destruct inc; [reflexivity|destruct s; reflexivity]. }
  unfold bind at 1. rewrite E1. cbv beta iota.
  unfold bind at 1, get at 1. cbv beta iota. cbn [st].
  assert (P1 : prb f1 = if inc then probe_clear (prb f) else prb f) by (subst f1; destruct inc; reflexivity).
  unfold round_members. fold f inc. rewrite <- P1.
  destruct (probe_take_failed (prb f1)) as [p' failed] eqn:TF. cbn [snd].
  unfold bind at 1, modify at 1. cbv beta iota. cbn [st out ctr].
  set (f2 := set_prb f1 p').
  assert (Mm : mems f2 = mems f) by (subst f2 f1; destruct inc; reflexivity).
  change (f3 <- get ;;
      r <- with_ctr (fun k => let '(ms, m, k') := members_next rnd (mems f3) k in ((ms, m), k')) ;;
      let '(ms, chosen) := r in
      modify (fun f4 => set_mems f4 ms) ;;;
      match chosen with
      | Some m =>
          f4 <- get ;;
          let '(p'0, n) := probe_start (prb f4) m in
          modify (fun f5 => set_prb f5 p'0) ;;;
          send_message rnd (m_id m) (Ping n) ;;;
          f5 <- get ;;
          emit (Submit (TSendIndirectProbe (m_id m) (token f5)) (probe_rtt (cfg f5)))
      | None => ret tt
      end ;;;
      f4 <- get ;;
      emit (Submit (TProbeRandomMember (token f4)) (probe_period (cfg f4))) ;;;
      (if inc then fail EIncompleteProbeCycle else ret tt)) with (prm_tail inc).
  destruct failed as [fm|].
  - unfold bind at 1. unfold bind at 1. unfold get at 1. cbv beta iota. cbn [st]. rewrite Mm.
    destruct (apply_existing_if (mems f) (mkMember (m_id fm) (m_inc fm) Suspect) (fun _ => true)) as [[ms sm]|] eqn:AE.
    + unfold bind at 1, modify at 1. cbv beta iota. cbn [st out ctr].
      unfold bind at 1. rewrite hsum_eq. cbv beta iota. cbn [st out ctr].
      unfold bind at 1, get at 1. cbv beta iota. cbn [st].
      set (f3 := hsum_state sm (mkMember (m_id fm) (m_inc fm) Suspect) true (set_mems f2 ms)).
      assert (M3 : mems f3 = ms) by (subst f3; unfold hsum_state; destruct (_ && _); reflexivity).
      destruct (is_active_now sm); cbn [when].
      * unfold emit at 1. cbv beta iota. cbn [st out ctr].
        match goal with |- match prm_tail inc ?x with _ => _ end => pose proof (tail_pings inc x) as TL; destruct (prm_tail inc x) as [s' r] end.
        cbn [st out ctr] in TL. rewrite M3 in TL. destruct TL as (new & O & L).
        eexists. split; [rewrite O, <- !app_assoc; reflexivity|]. intros Lr. destruct (L Lr) as [D Fp].
        split; [rewrite !dsts_app, dsts_hsum; exact D|].
        apply Forall_app; split; [|apply Forall_app; split; [repeat constructor|exact Fp]].
        unfold hsum_out. repeat (apply Forall_app; split);
          [destruct (_ && _); repeat constructor|destruct (s_conflict sm); repeat constructor|destruct (changed_active_set sm); repeat constructor].
      * unfold ret at 1. cbv beta iota.
        match goal with |- match prm_tail inc ?x with _ => _ end => pose proof (tail_pings inc x) as TL; destruct (prm_tail inc x) as [s' r] end.
        cbn [st out ctr] in TL. rewrite M3 in TL. destruct TL as (new & O & L).
        eexists. split; [rewrite O, <- !app_assoc; reflexivity|]. intros Lr. destruct (L Lr) as [D Fp].
        split; [rewrite !dsts_app, dsts_hsum; exact D|].
        apply Forall_app; split; [|exact Fp].
        unfold hsum_out. repeat (apply Forall_app; split);
          [destruct (_ && _); repeat constructor|destruct (s_conflict sm); repeat constructor|destruct (changed_active_set sm); repeat constructor].
    + unfold ret at 1. cbv beta iota.
      match goal with |- match prm_tail inc ?x with _ => _ end => pose proof (tail_pings inc x) as TL; destruct (prm_tail inc x) as [s' r] end.
      cbn [st out ctr] in TL. rewrite Mm in TL. exact TL.
  - unfold bind at 1, ret at 1. cbv beta iota.
    match goal with |- match prm_tail inc ?x with _ => _ end => pose proof (tail_pings inc x) as TL; destruct (prm_tail inc x) as [s' r] end.
    cbn [st out ctr] in TL. rewrite Mm in TL. exact TL.
Qed.

(* as one call *)
Theorem step_round_pings_next (f : foca) :
  conn f = Connected ->
  let '(f', es, r, _) := step rnd f (ITimer (TProbeRandomMember (token f))) in
  match r with
  | Failed EEncode => True
  | Panicked _ => True
  | _ => dsts es = expect (snd (fst (members_next rnd (round_members f) 0))) /\ Forall is_ping_to es
  end.
Proof.
  intros Cn. cbn [step]. unfold run_unit, handle_timer, bind at 1, get at 1. cbv beta iota. cbn [st].
  rewrite N.eqb_refl, Cn. cbn [conn_eqb negb].
  pose proof (probe_round_pings (mkRs f [] 0) Cn) as H.
  destruct (probe_random_member rnd (mkRs f [] 0)) as [s' r]. cbn [st out ctr app] in H.
  destruct H as (new & O & L). rewrite O.
  destruct r as [[]|e|p]; cbn [to_result]; [apply L; exact I| |exact I].
  destruct e; try exact I; apply L; exact I.
Qed.

End RoundPing.
