(* L_IncHist.v — C10 over whole call histories: as long as the user does not call change_identity /
   reuse_down_identity, the own incarnation never decreases while the identity is in use, and the
   identity only ever moves to a same-address identity that wins against every earlier one. *)
From Foca Require Import Laws L_Lists MembersM ProbeM BcastM FocaM Hoare Inv L_IncMono L_Evidence.

Section IncHist.
Context {Id Addr : Type} {IO : IdOps Id Addr} {CO : CodecOps Id} {HO : HandlerOps Id} {IL : IdLaws IO} {EL : @ExtraLaws Id Addr IO CO}.
Variable rnd : oracle.
Notation foca := (@foca Id Addr HO).

Fixpoint no_identity_api (l : list (@input Id)) : Prop :=
  match l with
  | [] => True
  | IChangeIdentity _ :: _ => False
  | IReuseDown :: _ => False
  | _ :: t => no_identity_api t
  end.

Definition fwd (f f' : foca) : Prop :=
  (identity f' = identity f /\ incarnation f <= incarnation f')
  \/ (addr_of (identity f') = addr_of (identity f) /\ wins (identity f') (identity f) = true).

Lemma fwd_trans f1 f2 f3 : fwd f1 f2 -> fwd f2 f3 -> fwd f1 f3.
Proof.
  intros [[A1 B1]|[A1 B1]] [[A2 B2]|[A2 B2]].
  - left. split; [congruence|lia].
  - right. rewrite <- A1. split; assumption.
  - right. rewrite A2. split; assumption.
  - right. split; [congruence|]. apply (wins_trans _ (identity f2) _); congruence.
Qed.

Theorem history_inc_mono (l : list (@input Id)) : forall f,
  no_identity_api l -> incarnation f <= u16_max ->
  incarnation (run_calls rnd f l) <= u16_max /\ fwd f (run_calls rnd f l).
Proof.
  induction l as [|i t IH]; intros f NA K; cbn [run_calls].
  - split; [exact K|left; split; [reflexivity|lia]].
  - pose proof (step_inc_mono rnd f i K) as S.
    assert (X : no_identity_api t /\ (incarnation (fst (fst (fst (step rnd f i)))) <= u16_max /\ fwd f (fst (fst (fst (step rnd f i)))))).
    { destruct i; cbn in NA; try contradiction; split; auto. }
    destruct X as [NA' [K1 F1]]. destruct (IH _ NA' K1) as [K2 F2]. split; [exact K2|eapply fwd_trans; eauto].
Qed.

End IncHist.
