(* SerdeInst.v — the bundled-codec wire models as instances of the model's Codec class, so
   that the generic theorems (C07 shape, C15/C16 accounting, no-panic) apply to Foca running
   with BincodeCodec / PostcardCodec.

   The model's integers are unbounded N while a Rust u16/u32/u64 is not, and CodecLaws asks for
   a round-trip on EVERY model value.  The instances therefore extend the real formats to
   out-of-range integers with an escape that no real byte string can contain: the single
   list element 256+v.  On every representable value and on every string of real bytes
   (elements < 256) the extended codec IS the real format (tot_enc_in_range, tot_dec_bytes);
   the extension only makes the unreachable part of the model's domain total. *)
From Foca Require Import Laws SerdeM L_Serde Inv.
From Coq Require Import ZArith.

Definition tot_enc (bound : N) (enc : N -> bytes) (v : N) : bytes :=
  if v <? bound then enc v else [256 + v].
Definition tot_dec (p : P N) : P N :=
  fun b => match b with
           | x :: r => if 256 <=? x then Some (x - 256, r) else p b
           | [] => p []
           end.
Definition tot_fmt (F : fmt) : fmt :=
  mkFmt (tot_enc B16 (f_u16 F)) (tot_dec (f_p_u16 F))
        (tot_enc B32 (f_u32 F)) (tot_dec (f_p_u32 F))
        (tot_enc B64 (f_u64 F)) (tot_dec (f_p_u64 F)).

Lemma tot_enc_in_range bound enc v : v < bound -> tot_enc bound enc v = enc v.
Proof. unfold tot_enc. intros H. destruct (v <? bound) eqn:E; [reflexivity|lia]. Qed.

Lemma tot_dec_bytes p b : Forall (fun x => x < 256) b -> tot_dec p b = p b.
Proof.
  intros H. destruct b as [|x r]; [reflexivity|]. cbn [tot_dec]. inversion H; subst.
  destruct (256 <=? x) eqn:E; [lia|reflexivity].
Qed.

Lemma tot_rt bound enc p :
  (forall v r, v < bound -> p (enc v ++ r) = Some (v, r)) ->
  (forall v, v < bound -> Forall (fun x => x < 256) (enc v) /\ 1 <= len (enc v)) ->
  forall v r, tot_dec p (tot_enc bound enc v ++ r) = Some (v, r).
Proof.
  intros RT BY v r. unfold tot_enc. destruct (v <? bound) eqn:E.
  - assert (Hv : v < bound) by lia. destruct (BY v Hv) as (B & L).
    destruct (enc v) as [|x t] eqn:EV; [unfold len in L; cbn [length] in L; lia|]. cbn [app tot_dec].
    inversion B; subst. destruct (256 <=? x) eqn:E2; [lia|].
    specialize (RT v r Hv). rewrite EV in RT. exact RT.
  - cbn [app tot_dec]. destruct (256 <=? 256 + v) eqn:E2; [|lia]. f_equal. f_equal. lia.
Qed.

Lemma loc_tot p : p [] = None -> loc p -> loc (tot_dec p).
Proof.
  intros E0 L b a r H. destruct b as [|x t].
  - cbn [tot_dec] in H. congruence.
  - cbn [tot_dec] in H. destruct (256 <=? x) eqn:E.
    + inversion H; subst. exists [x]. split; [reflexivity|]. intros r'. cbn [app tot_dec]. rewrite E. reflexivity.
    + destruct (L _ _ _ H) as (pre & EQ & I). destruct pre as [|y pre'].
      * specialize (I []). cbn [app] in I. congruence.
      * cbn [app] in EQ. inversion EQ; subst. exists (y :: pre'). split; [reflexivity|].
        intros r'. cbn [app tot_dec]. rewrite E. apply (I r').
Qed.

Lemma p_u8_nil : p_u8 [] = None. Proof. reflexivity. Qed.
Lemma b_p_varint_nil w : b_p_varint w [] = None. Proof. reflexivity. Qed.
Lemma p_leb_nil k last : p_leb k last [] = None. Proof. destruct k; reflexivity. Qed.

Definition univ (v : N) : Prop := True.

Lemma tot_fmt_rt F :
  fmt_rt F in16 in32 in64 -> fmt_by F ->
  f_p_u16 F [] = None -> f_p_u32 F [] = None -> f_p_u64 F [] = None ->
  fmt_rt (tot_fmt F) univ univ univ.
Proof.
  intros RT BY E16 E32 E64. constructor; cbn [tot_fmt f_u16 f_p_u16 f_u32 f_p_u32 f_u64 f_p_u64].
  - intros v r _. apply tot_rt; [apply (ok16 _ _ _ _ RT)|]. intros w Hw. split; [apply (by16 _ BY); auto|apply (ln16 _ BY); auto].
  - intros v r _. apply tot_rt; [apply (ok32 _ _ _ _ RT)|]. intros w Hw. split; [apply (by32 _ BY); auto|apply (ln32 _ BY); auto].
  - intros v r _. apply tot_rt; [apply (ok64 _ _ _ _ RT)|]. intros w Hw. split; [apply (by64 _ BY); auto|apply (ln64 _ BY); auto].
  - apply loc_tot; [exact E16|apply (lc16 _ _ _ _ RT)].
  - apply loc_tot; [exact E32|apply (lc32 _ _ _ _ RT)].
  - apply loc_tot; [exact E64|apply (lc64 _ _ _ _ RT)].
Qed.

Lemma bincode_tot_rt : fmt_rt (tot_fmt bincode_fmt) univ univ univ.
Proof. apply tot_fmt_rt; try reflexivity; [apply bincode_rt|apply bincode_by]. Qed.
Lemma postcard_tot_rt : fmt_rt (tot_fmt postcard_fmt) univ univ univ.
Proof. apply tot_fmt_rt; try reflexivity; [apply postcard_rt|apply postcard_by]. Qed.

(* on representable values the extended encoders are the real ones *)
Lemma tot_enc_sid F i : sid_ok i -> enc_sid (tot_fmt F) i = enc_sid F i.
Proof.
  intros (H8 & H16 & H32 & H64). unfold enc_sid. cbn [tot_fmt f_u16 f_u32 f_u64].
  rewrite !tot_enc_in_range; auto.
Qed.
Lemma tot_enc_mem F m : smem_ok m -> s_enc_mem (tot_fmt F) m = s_enc_mem F m.
Proof.
  intros (Hi & Hn). unfold s_enc_mem, enc_state. rewrite tot_enc_sid by exact Hi. cbn [tot_fmt f_u16 f_u32 f_u64].
  rewrite !tot_enc_in_range; auto. destruct (m_state m); cbn; unfold B32; lia.
Qed.
Lemma tot_enc_msg F m : smsg_ok m -> enc_message (tot_fmt F) m = enc_message F m.
Proof.
  assert (I : forall k, k <= 10 -> f_u32 (tot_fmt F) k = f_u32 F k).
  { intros k Hk. cbn [tot_fmt f_u32]. apply tot_enc_in_range. unfold B32. lia. }
  intros H. destruct m; cbn [enc_message smsg_ok] in *; rewrite I by lia; try reflexivity;
    rewrite tot_enc_sid by tauto; reflexivity.
Qed.
Lemma tot_enc_hdr F h : shdr_ok h -> s_enc_hdr (tot_fmt F) h = s_enc_hdr F h.
Proof.
  intros (Hs & Hn & Hd & Hm). unfold s_enc_hdr. rewrite !tot_enc_sid, tot_enc_msg by assumption.
  cbn [tot_fmt f_u16]. rewrite tot_enc_in_range by exact Hn. reflexivity.
Qed.

(* on strings of real bytes the extended decoders are the real ones *)
Lemma pbind_ext {A B} (p p' : P A) (f f' : A -> P B) b :
  p b = p' b -> (forall a r, p b = Some (a, r) -> f a r = f' a r) -> pbind p f b = pbind p' f' b.
Proof. intros E H. unfold pbind. rewrite <- E. destruct (p b) as [[a r]|]; auto. Qed.

Definition bytes_ok (b : bytes) : Prop := Forall (fun x => x < 256) b.

Lemma loc_rest {A} (p : P A) b a r : loc p -> bytes_ok b -> p b = Some (a, r) -> bytes_ok r.
Proof.
  intros L B H. destruct (L _ _ _ H) as (pre & -> & _). unfold bytes_ok in *. apply Forall_app in B. tauto.
Qed.

Section TotDec.
Variable F : fmt.
Hypothesis RT : fmt_rt F in16 in32 in64.

Lemma tot_p_sid b : bytes_ok b -> p_sid (tot_fmt F) b = p_sid F b.
Proof.
  intros B. unfold p_sid. apply pbind_ext; [reflexivity|]. intros a r1 H1.
  pose proof (loc_rest _ _ _ _ loc_u8 B H1) as B1.
  apply pbind_ext; [apply tot_dec_bytes; exact B1|]. intros c r2 H2.
  cbn [tot_fmt f_p_u16] in H2. rewrite tot_dec_bytes in H2 by exact B1.
  pose proof (loc_rest _ _ _ _ (lc16 _ _ _ _ RT) B1 H2) as B2.
  apply pbind_ext; [apply tot_dec_bytes; exact B2|]. intros d r3 H3.
  cbn [tot_fmt f_p_u32] in H3. rewrite tot_dec_bytes in H3 by exact B2.
  pose proof (loc_rest _ _ _ _ (lc32 _ _ _ _ RT) B2 H3) as B3.
  apply pbind_ext; [apply tot_dec_bytes; exact B3|]. reflexivity.
Qed.

Lemma tot_p_state b : bytes_ok b -> p_state (tot_fmt F) b = p_state F b.
Proof. intros B. unfold p_state. apply pbind_ext; [apply tot_dec_bytes; exact B|]. reflexivity. Qed.

Lemma tot_p_mem b : bytes_ok b -> s_p_mem (tot_fmt F) b = s_p_mem F b.
Proof.
  intros B. unfold s_p_mem. apply pbind_ext; [apply tot_p_sid; exact B|]. intros i r1 H1.
  rewrite tot_p_sid in H1 by exact B.
  pose proof (loc_rest _ _ _ _ (loc_sid F _ _ _ RT) B H1) as B1.
  apply pbind_ext; [apply tot_dec_bytes; exact B1|]. intros n r2 H2.
  cbn [tot_fmt f_p_u16] in H2. rewrite tot_dec_bytes in H2 by exact B1.
  pose proof (loc_rest _ _ _ _ (lc16 _ _ _ _ RT) B1 H2) as B2.
  apply pbind_ext; [apply tot_p_state; exact B2|]. reflexivity.
Qed.

Lemma tot_p_message b : bytes_ok b -> p_message (tot_fmt F) b = p_message F b.
Proof.
  intros B. unfold p_message. apply pbind_ext; [apply tot_dec_bytes; exact B|]. intros v r1 H1.
  cbn [tot_fmt f_p_u32] in H1. rewrite tot_dec_bytes in H1 by exact B.
  pose proof (loc_rest _ _ _ _ (lc32 _ _ _ _ RT) B H1) as B1.
  assert (S : forall c : sid -> N -> message sid,
             (i <~ p_sid (tot_fmt F) ;; n <~ p_u8 ;; pret (c i n)) r1 = (i <~ p_sid F ;; n <~ p_u8 ;; pret (c i n)) r1).
  { intros c. apply pbind_ext; [apply tot_p_sid; exact B1|]. reflexivity. }
  destruct v as [|p]; [reflexivity|].
  repeat (match goal with
          | |- (match ?x with _ => _ end) _ = _ => destruct x
          end); try reflexivity; apply S.
Qed.

Lemma tot_p_hdr b : bytes_ok b -> s_p_hdr (tot_fmt F) b = s_p_hdr F b.
Proof.
  intros B. unfold s_p_hdr. apply pbind_ext; [apply tot_p_sid; exact B|]. intros s r1 H1.
  rewrite tot_p_sid in H1 by exact B.
  pose proof (loc_rest _ _ _ _ (loc_sid F _ _ _ RT) B H1) as B1.
  apply pbind_ext; [apply tot_dec_bytes; exact B1|]. intros n r2 H2.
  cbn [tot_fmt f_p_u16] in H2. rewrite tot_dec_bytes in H2 by exact B1.
  pose proof (loc_rest _ _ _ _ (lc16 _ _ _ _ RT) B1 H2) as B2.
  apply pbind_ext; [apply tot_p_sid; exact B2|]. intros d r3 H3.
  rewrite tot_p_sid in H3 by exact B2.
  pose proof (loc_rest _ _ _ _ (loc_sid F _ _ _ RT) B2 H3) as B3.
  apply pbind_ext; [apply tot_p_message; exact B3|]. reflexivity.
Qed.
End TotDec.

(* ---------- identity: struct SId, address = x64, conflicts won by the larger (x32, x16, x8) ---------- *)
Definition sid_eqb (a b : sid) : bool :=
  (x8 a =? x8 b) && (x16 a =? x16 b) && (x32 a =? x32 b) && (x64 a =? x64 b).
Definition sid_wins (a b : sid) : bool :=
  (x32 b <? x32 a) || ((x32 a =? x32 b) && ((x16 b <? x16 a) || ((x16 a =? x16 b) && (x8 b <? x8 a)))).

Global Instance sid_ops : IdOps sid N :=
  {| id_eqb := sid_eqb; addr_of := x64; addr_eqb := N.eqb; wins := sid_wins; renew := fun _ => None |}.

Global Instance sid_laws : IdLaws sid_ops.
Proof.
  constructor; cbn.
  - intros [a b c d] [a' b' c' d']; unfold sid_eqb; cbn. split.
    + intros H. assert (a = a' /\ b = b' /\ c = c' /\ d = d') by lia. intuition congruence.
    + intros H. inversion H; subst. lia.
  - intros a b. apply N.eqb_eq.
  - intros x. unfold sid_wins. lia.
  - intros x y. unfold sid_wins. lia.
  - intros x y z _ _. unfold sid_wins. lia.
  - intros [a b c d] [a' b' c' d']; unfold sid_wins; cbn. intros -> NE.
    assert (a <> a' \/ b <> b' \/ c <> c') by (destruct (N.eq_dec a a'), (N.eq_dec b b'), (N.eq_dec c c'); subst; auto; congruence).
    lia.
Qed.

Definition serde_codec (F : fmt) (partial : member sid -> N -> N) : CodecOps sid :=
  {| enc_hdr := s_enc_hdr (tot_fmt F); dec_hdr := s_p_hdr (tot_fmt F);
     enc_mem := s_enc_mem (tot_fmt F); dec_mem := s_p_mem (tot_fmt F);
     enc_mem_partial := partial |}.

(* BincodeCodec writes through write_all: a failing encode fills the buffer;
   PostcardCodec pushes whole primitives and stops at the first that does not fit *)
Definition bincode_codec : CodecOps sid := serde_codec bincode_fmt (fun _ room => room).
Definition postcard_codec : CodecOps sid :=
  serde_codec postcard_fmt (fun m room => postcard_written (mem_chunks postcard_fmt m) room).

Lemma small_univ (v : N) : v <= 10 -> univ v. Proof. intros _. exact I. Qed.

Lemma serde_codec_laws F partial :
  fmt_rt (tot_fmt F) univ univ univ -> CodecLaws (serde_codec F partial).
Proof.
  intros RT. constructor; cbn [serde_codec enc_hdr dec_hdr enc_mem dec_mem].
  - intros h r. apply (hdr_rt _ _ _ _ RT small_univ). unfold shdr_r, smsg_r, sid_r, univ. destruct (h_msg h); tauto.
  - intros m r. apply (mem_rt _ _ _ _ RT small_univ). unfold smem_r, sid_r, univ. tauto.
  - intros m. unfold s_enc_mem, enc_sid. cbn [app]. discriminate.
Qed.

Lemma serde_codec_extra F partial :
  fmt_rt (tot_fmt F) univ univ univ -> @ExtraLaws sid N sid_ops (serde_codec F partial).
Proof.
  intros RT. constructor; cbn [serde_codec enc_hdr dec_hdr enc_mem dec_mem].
  - intros x y. cbn. discriminate.
  - intros m. unfold s_enc_mem, enc_sid, len. cbn [app length]. lia.
  - intros b h r B H. exact (loc_rest _ _ _ _ (loc_hdr _ _ _ _ RT) B H).
  - intros b m r B H. exact (loc_rest _ _ _ _ (loc_mem _ _ _ _ RT) B H).
Qed.

Global Instance bincode_laws : CodecLaws bincode_codec := serde_codec_laws _ _ bincode_tot_rt.
Global Instance postcard_laws : CodecLaws postcard_codec := serde_codec_laws _ _ postcard_tot_rt.
Global Instance bincode_extra : @ExtraLaws sid N sid_ops bincode_codec := serde_codec_extra _ _ bincode_tot_rt.
Global Instance postcard_extra : @ExtraLaws sid N sid_ops postcard_codec := serde_codec_extra _ _ postcard_tot_rt.
