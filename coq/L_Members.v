(* L_Members.v — the SWIM precedence order and the semilattice structure of
   Members::apply (member.rs).  Used by C01, C09, C11. *)
From Foca Require Import Laws L_Lists MembersM.

Section ML.
Context {Id Addr : Type} {IO : IdOps Id Addr} {IL : IdLaws IO}.
Notation member := (member Id).
Implicit Types (m k u : member) (l : list member).

Definition maddr m : Addr := addr_of (m_id m).
Definition lookup l (a : Addr) : option member := find (fun m => addr_eqb (maddr m) a) l.
Definition uniq l : Prop := NoDup (map maddr l).

Arguments lookup : simpl never.
Arguments uniq : simpl never.

(* ---------- the precedence key ---------- *)
Definition key_of (inc : N) (s : mstate) : option N :=
  match s with Alive => Some (2 * inc) | Suspect => Some (2 * inc + 1) | Down => None end.
Definition key m := key_of (m_inc m) (m_state m).
Definition key_lt (a b : option N) : Prop :=
  match a, b with
  | Some x, Some y => x < y
  | Some _, None => True
  | None, _ => False
  end.

Lemma can_change_key m i s : can_change m i s = true <-> key_lt (key m) (key_of i s).
Proof.
  unfold can_change, key, key_of, key_lt.
  destruct (m_state m), s; split; intros H; try lia; try discriminate; auto.
Qed.

Lemma key_lt_irrefl a : ~ key_lt a a.
Proof. destruct a; cbn; lia. Qed.

Lemma key_lt_trans a b c : key_lt a b -> key_lt b c -> key_lt a c.
Proof. destruct a, b, c; cbn; try lia; auto. Qed.

Lemma key_lt_negtrans a b c : key_lt a c -> key_lt a b \/ key_lt b c.
Proof. destruct a, b, c; cbn; try lia; auto. Qed.

(* ---------- the order on records of one address ---------- *)
Definition mltb (a b : member) : bool :=
  wins (m_id b) (m_id a)
  || (id_eqb (m_id a) (m_id b) && can_change a (m_inc b) (m_state b)).

Definition mlt (a b : member) : Prop :=
  wins (m_id b) (m_id a) = true \/ (m_id a = m_id b /\ key_lt (key a) (key b)).

Lemma mltb_mlt a b : mltb a b = true <-> mlt a b.
Proof.
  unfold mltb, mlt. rewrite orb_true_iff, andb_true_iff, id_eqb_eq, can_change_key.
  reflexivity.
Qed.

Lemma mltb_false a b : mltb a b = false <-> ~ mlt a b.
Proof. rewrite <- mltb_mlt. destruct (mltb a b); split; congruence. Qed.

Lemma mlt_irrefl a : ~ mlt a a.
Proof.
  intros [H|[_ H]].
  - rewrite wins_irrefl in H. discriminate.
  - exact (key_lt_irrefl _ H).
Qed.

Lemma mlt_trans a b c :
  maddr a = maddr b -> maddr b = maddr c -> mlt a b -> mlt b c -> mlt a c.
Proof.
  unfold maddr. intros Eab Ebc [W1|[E1 K1]] [W2|[E2 K2]].
  - left. apply (wins_trans (m_id c) (m_id b) (m_id a)); congruence.
  - left. rewrite <- E2. exact W1.
  - left. rewrite E1. exact W2.
  - right. split; [congruence|]. eapply key_lt_trans; eauto.
Qed.

Lemma mlt_negtrans a b c :
  maddr a = maddr b -> maddr b = maddr c -> mlt a c -> mlt a b \/ mlt b c.
Proof.
  unfold maddr. intros Eab Ebc [W|[E K]].
  - (* c wins a *)
    destruct (id_eq_dec (m_id b) (m_id a)) as [Eba|Nba].
    + right. left. rewrite Eba. exact W.
    + assert (T : wins (m_id b) (m_id a) = true \/ wins (m_id a) (m_id b) = true)
        by (apply wins_total; congruence).
      destruct T as [H|H].
      * left. left. exact H.
      * right. left. apply (wins_trans (m_id c) (m_id a) (m_id b)); congruence.
  - destruct (id_eq_dec (m_id b) (m_id a)) as [Eba|Nba].
    + destruct (key_lt_negtrans (key a) (key b) (key c) K) as [H|H].
      * left. right. split; [congruence|exact H].
      * right. right. split; [congruence|exact H].
    + assert (T : wins (m_id b) (m_id a) = true \/ wins (m_id a) (m_id b) = true)
        by (apply wins_total; congruence).
      destruct T as [H|H].
      * left. left. exact H.
      * right. left. rewrite <- E. exact H.
Qed.

Definition mle (a b : member) : Prop := ~ mlt b a.

Lemma mle_refl a : mle a a.
Proof. apply mlt_irrefl. Qed.

Lemma mle_trans a b c :
  maddr a = maddr b -> maddr b = maddr c -> mle a b -> mle b c -> mle a c.
Proof.
  intros Eab Ebc H1 H2 H. destruct (mlt_negtrans c b a) as [X|X]; auto; congruence.
Qed.

Lemma mlt_mle a b : mlt a b -> mle a b.
Proof.
  intros H H'. unfold mlt in *.
  destruct H as [W1|[E1 K1]], H' as [W2|[E2 K2]].
  - rewrite (wins_asym _ _ W1) in W2. discriminate.
  - rewrite E2, wins_irrefl in W1. discriminate.
  - rewrite E1, wins_irrefl in W2. discriminate.
  - exact (key_lt_irrefl _ (key_lt_trans _ _ _ K1 K2)).
Qed.

(* equality up to the incarnation remembered next to Down *)
Definition meq (a b : member) : Prop :=
  m_id a = m_id b /\ m_state a = m_state b /\ (m_state a <> Down -> m_inc a = m_inc b).

Lemma meq_refl a : meq a a.
Proof. repeat split; auto. Qed.

Lemma mle_antisym a b : maddr a = maddr b -> mle a b -> mle b a -> meq a b.
Proof.
  unfold maddr, mle, mlt. intros E H1 H2.
  destruct (id_eq_dec (m_id a) (m_id b)) as [Eid|Nid].
  - assert (K1 : ~ key_lt (key b) (key a)) by (intros K; apply H1; right; split; [congruence|exact K]).
    assert (K2 : ~ key_lt (key a) (key b)) by (intros K; apply H2; right; split; [congruence|exact K]).
    unfold key, key_of, key_lt in K1, K2.
    repeat split; auto;
      destruct (m_state a), (m_state b); try congruence; try lia; try (exfalso; apply K1; exact I);
        try (exfalso; apply K2; exact I).
  - exfalso. destruct (wins_total _ _ E Nid) as [W|W]; [apply H1|apply H2]; left; exact W.
Qed.

(* ---------- join ---------- *)
Definition rjoin k u : member := if mltb k u then u else k.
Definition ojoin (r : option member) u : option member :=
  Some (match r with Some k => rjoin k u | None => u end).

Arguments rjoin : simpl never.

Lemma rjoin_ge_l k u : mle k (rjoin k u).
Proof.
  unfold rjoin. destruct (mltb k u) eqn:E.
  - apply mlt_mle. apply mltb_mlt. exact E.
  - apply mle_refl.
Qed.

Lemma rjoin_ge_r k u : mle u (rjoin k u).
Proof.
  unfold rjoin. destruct (mltb k u) eqn:E.
  - apply mle_refl.
  - apply mltb_false in E. exact E.
Qed.

Lemma rjoin_cases k u : rjoin k u = k \/ rjoin k u = u.
Proof. unfold rjoin. destruct (mltb k u); auto. Qed.

Lemma rjoin_addr k u : maddr k = maddr u -> maddr (rjoin k u) = maddr u.
Proof. intros E. destruct (rjoin_cases k u) as [->| ->]; auto. Qed.

(* ---------- lookup under uniqueness ---------- *)
Lemma lookup_Some_In l a m : lookup l a = Some m -> In m l /\ maddr m = a.
Proof.
  unfold lookup. intros H. apply find_some in H. destruct H as [H1 H2].
  apply addr_eqb_eq in H2. auto.
Qed.

Lemma lookup_In l a m : uniq l -> In m l -> maddr m = a -> lookup l a = Some m.
Proof.
  unfold uniq, lookup. induction l as [|x l IH]; intros U Hin Ha; [contradiction|].
  cbn in *. inversion U as [|? ? Hnot U']; subst.
  destruct Hin as [->|Hin].
  - rewrite addr_eqb_refl. reflexivity.
  - destruct (addr_eqb (maddr x) (maddr m)) eqn:E.
    + apply addr_eqb_eq in E. exfalso. apply Hnot. rewrite E. apply in_map. exact Hin.
    + apply IH; auto.
Qed.

Lemma lookup_None l a : lookup l a = None <-> forall m, In m l -> maddr m <> a.
Proof.
  unfold lookup. split.
  - intros H m Hin E. eapply find_none in H; eauto. rewrite E, addr_eqb_refl in H. discriminate.
  - intros H. destruct (find _ l) eqn:F; auto.
    apply find_some in F. destruct F as [F1 F2]. apply addr_eqb_eq in F2.
    exfalso. eapply H; eauto.
Qed.

Lemma lookup_app l1 l2 a :
  lookup (l1 ++ l2) a = match lookup l1 a with Some x => Some x | None => lookup l2 a end.
Proof. unfold lookup. apply find_app'. Qed.

Lemma lookup_one u a : lookup [u] a = if addr_eqb (maddr u) a then Some u else None.
Proof. reflexivity. Qed.

Lemma uniq_perm l l' : Permutation l l' -> uniq l -> uniq l'.
Proof.
  unfold uniq. intros P U. eapply Permutation_NoDup; [|exact U]. apply Permutation_map. exact P.
Qed.

Lemma lookup_perm l l' a : uniq l -> Permutation l l' -> lookup l a = lookup l' a.
Proof.
  intros U P. destruct (lookup l a) as [m|] eqn:E.
  - apply lookup_Some_In in E. destruct E as [Hin Ha]. symmetry.
    apply lookup_In; auto. eapply uniq_perm; eauto. eapply Permutation_in; eauto.
  - symmetry. apply lookup_None. intros m Hin. eapply lookup_None in E; eauto.
    eapply Permutation_in; [symmetry|]; eauto.
Qed.

Lemma find_index_lookup l a p :
  find_index (fun m => addr_eqb (maddr m) a) l = Some p ->
  exists m, nth_error l p = Some m /\ lookup l a = Some m.
Proof.
  unfold lookup. revert p. induction l as [|x l IH]; intros p H; cbn in *; [discriminate|].
  destruct (addr_eqb (maddr x) a).
  - inversion H; subst. exists x. auto.
  - destruct (find_index _ l) eqn:F; cbn in H; [|discriminate].
    inversion H; subst. apply IH. reflexivity.
Qed.

Lemma find_index_lookup_None l a :
  find_index (fun m => addr_eqb (maddr m) a) l = None -> lookup l a = None.
Proof.
  intros H. apply lookup_None. intros m Hin E.
  eapply find_index_None in H; eauto. cbn in H. rewrite E, addr_eqb_refl in H. discriminate.
Qed.

Lemma map_set_nth_same l p x y :
  nth_error l p = Some y -> maddr x = maddr y -> map maddr (set_nth p x l) = map maddr l.
Proof.
  intros H E. destruct (set_nth_split p x l y H) as (l1 & l2 & -> & -> & _).
  rewrite !map_app. cbn. rewrite E. reflexivity.
Qed.

Lemma lookup_set_nth l p x y a :
  uniq l -> nth_error l p = Some y -> maddr x = maddr y ->
  lookup (set_nth p x l) a = if addr_eqb (maddr x) a then Some x else lookup l a.
Proof.
  intros U H E.
  assert (U' : uniq (set_nth p x l)) by (unfold uniq; erewrite map_set_nth_same; eauto).
  destruct (set_nth_split p x l y H) as (l1 & l2 & El & Es & _).
  destruct (addr_eqb (maddr x) a) eqn:Ea.
  - apply addr_eqb_eq in Ea. apply lookup_In; auto. rewrite Es. apply in_elt.
  - apply addr_eqb_neq in Ea.
    destruct (lookup l a) as [m|] eqn:L.
    + apply lookup_Some_In in L. destruct L as [Hin Hm].
      apply lookup_In; auto. rewrite Es. rewrite El in Hin.
      apply in_app_or in Hin. apply in_or_app. destruct Hin as [Hin|[<-|Hin]]; auto.
      * exfalso. congruence.
      * right. right. exact Hin.
    + apply lookup_None. intros m Hin Hm. rewrite Es in Hin.
      eapply lookup_None in L; [apply L; exact Hm|].
      rewrite El. apply in_app_or in Hin. apply in_or_app.
      destruct Hin as [Hin|[<-|Hin]]; auto.
      * exfalso. apply Ea. exact Hm.
      * right. right. exact Hin.
Qed.

(* ---------- apply_existing_if / apply ---------- *)
Variable rnd : oracle.

Definition inner_of (ms : @members Id) := inner ms.

Lemma apply_existing_if_true_spec (ms : @members Id) u :
  uniq (inner ms) ->
  match apply_existing_if ms u (fun _ => true) with
  | None => lookup (inner ms) (maddr u) = None
  | Some (ms', s) =>
      exists k, lookup (inner ms) (maddr u) = Some k /\
                uniq (inner ms') /\
                (forall a, lookup (inner ms') a =
                           if addr_eqb (maddr u) a then Some (rjoin k u) else lookup (inner ms) a) /\
                map maddr (inner ms') = map maddr (inner ms)
  end.
Proof.
  intros U. unfold apply_existing_if.
  destruct (find_index _ (inner ms)) as [p|] eqn:F.
  2:{ apply find_index_lookup_None. exact F. }
  destruct (find_index_lookup _ _ _ F) as (k & Hp & Hk). fold (maddr u) in *.
  rewrite Hp.
  assert (Ek : maddr k = maddr u) by (apply lookup_Some_In in Hk; tauto).
  destruct (negb (id_eqb (m_id k) (m_id u))) eqn:Conf; cbn [andb].
  - (* identity conflict *)
    apply negb_true_iff, id_eqb_neq in Conf.
    destruct (wins (m_id k) (m_id u)) eqn:W.
    + (* lost *)
      exists k. repeat split; auto. intros a.
      assert (R : rjoin k u = k).
      { unfold rjoin, mltb. rewrite (wins_asym _ _ W). cbn.
        assert (id_eqb (m_id k) (m_id u) = false) by (apply id_eqb_neq; exact Conf).
        rewrite H. reflexivity. }
      rewrite R. destruct (addr_eqb (maddr u) a) eqn:Ea; auto.
      apply addr_eqb_eq in Ea. subst a. exact Hk.
    + (* replaced *)
      cbn [negb]. cbn.
      assert (Wu : wins (m_id u) (m_id k) = true).
      { destruct (wins_total (m_id k) (m_id u) Ek Conf) as [H|H]; auto. congruence. }
      assert (R : rjoin k u = u) by (unfold rjoin, mltb; rewrite Wu; reflexivity).
      exists k. split; [exact Hk|].
      assert (Em : maddr (mkMember (m_id u) (m_inc u) (m_state u)) = maddr k) by (symmetry; exact Ek).
      assert (Eu : mkMember (m_id u) (m_inc u) (m_state u) = u) by (destruct u; reflexivity).
      split; [|split].
      * unfold uniq. erewrite map_set_nth_same; eauto.
      * intros a. rewrite (lookup_set_nth _ _ _ k a U Hp Em). rewrite R, Eu. reflexivity.
      * eapply map_set_nth_same; eauto.
  - (* same identity *)
    apply negb_false_iff, id_eqb_eq in Conf. cbn [negb]. cbn.
    unfold change_state.
    assert (R : rjoin k u = if can_change k (m_inc u) (m_state u)
                            then mkMember (m_id k) (m_inc u) (m_state u) else k).
    { unfold rjoin, mltb. rewrite Conf, wins_irrefl, id_eqb_refl. cbn.
      destruct (can_change k (m_inc u) (m_state u)); auto.
      destruct u; cbn in *. congruence. }
    destruct (can_change k (m_inc u) (m_state u)) eqn:CC; cbn; (exists k; split; [exact Hk|]).
    + assert (Em : maddr (mkMember (m_id k) (m_inc u) (m_state u)) = maddr k) by reflexivity.
      split; [|split].
      * unfold uniq. erewrite map_set_nth_same; eauto.
      * intros a. rewrite (lookup_set_nth _ _ _ k a U Hp Em). rewrite R.
        unfold maddr at 1. cbn [m_id]. fold (maddr k). rewrite Ek. reflexivity.
      * eapply map_set_nth_same; eauto.
    + assert (Es : set_nth p k (inner ms) = inner ms).
      { destruct (set_nth_split p k _ k Hp) as (l1 & l2 & E1 & E2 & _). congruence. }
      cbn. rewrite Es. split; [exact U|]. split; auto.
      intros a. rewrite R. destruct (addr_eqb (maddr u) a) eqn:Ea; auto.
      apply addr_eqb_eq in Ea. subst a. exact Hk.
Qed.

Definition view (ms : @members Id) (a : Addr) := lookup (inner ms) a.

Lemma members_apply_spec (ms : @members Id) u (n : N) :
  uniq (inner ms) ->
  let ms' := fst (fst (members_apply rnd ms u n)) in
  uniq (inner ms') /\
  forall a, view ms' a = if addr_eqb (maddr u) a then ojoin (view ms (maddr u)) u else view ms a.
Proof.
  intros U. unfold members_apply.
  pose proof (apply_existing_if_true_spec ms u U) as S.
  destruct (apply_existing_if ms u (fun _ => true)) as [[ms' s]|].
  - cbn. destruct S as (k0 & Hk & U' & Hl & _). split; auto.
    intros a. unfold view. rewrite Hl, Hk. reflexivity.
  - cbn.
    set (l := inner ms ++ [u]).
    set (l' := swap l _ _).
    assert (P : Permutation l' l) by apply swap_perm.
    assert (Ul : uniq l).
    { unfold uniq, l. rewrite map_app. cbn. apply NoDup_app_one; auto.
      intros Hin. apply in_map_iff in Hin. destruct Hin as (m & Em & Hin).
      eapply lookup_None in S; eauto. }
    split.
    + eapply uniq_perm; [symmetry; exact P|exact Ul].
    + intros a. unfold view. cbn [inner]. rewrite (lookup_perm l' l a); auto.
      2:{ eapply uniq_perm; [symmetry; exact P|exact Ul]. }
      unfold l. rewrite lookup_app, lookup_one.
      destruct (addr_eqb (maddr u) a) eqn:Ea.
      * apply addr_eqb_eq in Ea. subst a. rewrite S. reflexivity.
      * destruct (lookup (inner ms) a); reflexivity.
Qed.

End ML.
