(* L_Lists.v — facts about the list helpers of Base.v *)
From Foca Require Import Laws.

Section Lists.
Context {A : Type}.
Implicit Types (l : list A) (p : A -> bool).

Lemma find_index_Some p l i :
  find_index p l = Some i ->
  exists x, nth_error l i = Some x /\ p x = true /\
            forall j y, (j < i)%nat -> nth_error l j = Some y -> p y = false.
Proof.
  revert i. induction l as [|a l IH]; intros i H; cbn in H; [discriminate|].
  destruct (p a) eqn:Pa.
  - inversion H; subst. exists a. repeat split; auto. intros j y Hj. inversion Hj.
  - destruct (find_index p l) as [k|] eqn:F; cbn in H; [|discriminate].
    inversion H; subst. destruct (IH k eq_refl) as (x & Hx & Px & Hlt).
    exists x. repeat split; auto.
    intros [|j] y Hj Hy; cbn in Hy.
    + inversion Hy; subst; auto.
    + apply (Hlt j); auto. lia.
Qed.

Lemma find_index_None p l :
  find_index p l = None <-> forall x, In x l -> p x = false.
Proof.
  induction l as [|a l IH]; cbn.
  - split; auto. intros _ x [].
  - destruct (p a) eqn:Pa.
    + split; [discriminate|]. intros H. rewrite (H a) in Pa; auto. discriminate.
    + destruct (find_index p l) eqn:F; cbn.
      * split; [discriminate|]. intros H. assert (E : Some n = None) by (apply IH; intros; apply H; auto). discriminate E.
      * split; auto. intros _ x [->|Hx]; auto. apply IH; auto.
Qed.

Lemma find_index_lt p l i : find_index p l = Some i -> (i < length l)%nat.
Proof.
  intros H. destruct (find_index_Some _ _ _ H) as (x & Hx & _).
  apply nth_error_Some. congruence.
Qed.

Lemma set_nth_length n (x : A) l : length (set_nth n x l) = length l.
Proof. revert n; induction l; intros [|n]; cbn; auto. Qed.

Lemma nth_error_set_nth n (x : A) l j :
  nth_error (set_nth n x l) j =
  if Nat.eqb j n then (if Nat.ltb n (length l) then Some x else None) else nth_error l j.
Proof.
  revert n j; induction l as [|a l IH]; intros n j.
  - destruct n, j; cbn; try reflexivity. destruct (Nat.eqb j n); reflexivity.
  - destruct n, j; cbn; auto. rewrite IH. destruct (Nat.eqb j n); auto.
Qed.

Lemma In_set_nth n (x y : A) l : In y (set_nth n x l) -> y = x \/ In y l.
Proof.
  revert n; induction l as [|a l IH]; intros [|n]; cbn; auto.
  - intros [->|H]; auto.
  - intros [->|H]; auto. destruct (IH _ H); auto.
Qed.

Lemma set_nth_split n (x : A) l a :
  nth_error l n = Some a ->
  exists l1 l2, l = l1 ++ a :: l2 /\ set_nth n x l = l1 ++ x :: l2 /\ length l1 = n.
Proof.
  revert n; induction l as [|b l IH]; intros [|n] H; cbn in H; try discriminate.
  - inversion H; subst. exists [], l. auto.
  - destruct (IH _ H) as (l1 & l2 & -> & E & L).
    exists (b :: l1), l2. cbn. rewrite E, L. auto.
Qed.

Lemma swap_perm l i j : Permutation (swap l i j) l.
Proof.
  unfold swap.
  destruct (nth_error l i) as [a|] eqn:Hi; [|reflexivity].
  destruct (nth_error l j) as [b|] eqn:Hj; [|reflexivity].
  destruct (Nat.eq_dec i j) as [->|Hij].
  - assert (a = b) by congruence. subst.
    destruct (set_nth_split j b l b Hj) as (l1 & l2 & E & E2 & L).
    assert (Hs : set_nth j b l = l) by (rewrite E2; symmetry; exact E).
    rewrite Hs, Hs. reflexivity.
  - destruct (set_nth_split i b l a Hi) as (l1 & l2 & E & E2 & L).
    assert (Hj' : nth_error (set_nth i b l) j = Some b).
    { rewrite nth_error_set_nth. destruct (Nat.eqb_spec j i); [congruence|exact Hj]. }
    destruct (set_nth_split j a _ b Hj') as (k1 & k2 & F & F2 & L2).
    rewrite F2. rewrite E2 in F. rewrite E.
    transitivity (a :: k1 ++ k2); [symmetry; apply Permutation_middle|].
    transitivity (a :: l1 ++ l2); [|apply Permutation_middle].
    constructor.
    apply Permutation_cons_inv with (a := b).
    transitivity (k1 ++ b :: k2); [apply Permutation_middle|].
    rewrite <- F. symmetry. apply Permutation_middle.
Qed.

Lemma removelast_app_one l (x : A) : removelast (l ++ [x]) = l.
Proof. apply removelast_last. Qed.

Lemma swap_remove_perm l i a :
  nth_error l i = Some a -> Permutation (a :: swap_remove l i) l.
Proof.
  intros Hi. unfold swap_remove. rewrite Hi.
  destruct (rev l) as [|z r] eqn:R.
  - apply (f_equal (@rev A)) in R. rewrite rev_involutive in R. subst. destruct i; discriminate.
  - assert (E : l = rev r ++ [z]).
    { apply (f_equal (@rev A)) in R. rewrite rev_involutive in R. exact R. }
    set (l0 := rev r) in *. clearbody l0. subst l. clear R.
    destruct (Nat.lt_ge_cases i (length l0)) as [Hlt|Hge].
    + rewrite nth_error_app1 in Hi by exact Hlt.
      destruct (set_nth_split i z l0 a Hi) as (l1 & l2 & E & E2 & L).
      assert (S : set_nth i z (l0 ++ [z]) = set_nth i z l0 ++ [z]).
      { clear -Hlt. revert i Hlt. induction l0 as [|b l0 IH]; intros [|i] H; cbn in *; try lia; auto.
        f_equal. apply IH. lia. }
      rewrite S, removelast_app_one, E2, E.
      transitivity (a :: z :: l1 ++ l2).
      * constructor. symmetry. apply Permutation_middle.
      * rewrite <- app_assoc. cbn.
        transitivity (z :: a :: l1 ++ l2); [constructor|].
        transitivity (z :: l1 ++ a :: l2); [constructor; apply Permutation_middle|].
        transitivity ((l1 ++ a :: l2) ++ [z]); [apply Permutation_cons_append|].
        rewrite <- app_assoc. reflexivity.
    + assert (i = length l0).
      { assert (i < length (l0 ++ [z]))%nat by (apply nth_error_Some; congruence).
        rewrite app_length in H. cbn in H. lia. }
      subst i. rewrite nth_error_app2 in Hi by lia. rewrite Nat.sub_diag in Hi. cbn in Hi.
      inversion Hi; subst a.
      assert (S : set_nth (length l0) z (l0 ++ [z]) = l0 ++ [z]).
      { clear. induction l0; cbn; auto. f_equal. exact IHl0. }
      rewrite S, removelast_app_one. apply Permutation_cons_append.
Qed.

Lemma NoDup_app_one l (x : A) : NoDup l -> ~ In x l -> NoDup (l ++ [x]).
Proof.
  intros H1 H2. eapply Permutation_NoDup; [apply Permutation_cons_append|]. constructor; auto.
Qed.

Lemma find_app' p l1 l2 :
  find p (l1 ++ l2) = match find p l1 with Some x => Some x | None => find p l2 end.
Proof. induction l1 as [|a l1 IH]; cbn; auto. destruct (p a); auto. Qed.

Lemma nth_error_skipn' (c : nat) l (i : nat) : nth_error (skipn c l) i = nth_error l (c + i).
Proof. revert l. induction c as [|c IH]; intros l; cbn; auto. destruct l; cbn; auto. destruct i; reflexivity. Qed.

Lemma nth_error_firstn' (c : nat) l (i : nat) : (i < c)%nat -> nth_error (firstn c l) i = nth_error l i.
Proof.
  revert l i. induction c as [|c IH]; intros l i H; [lia|].
  destruct l; cbn; auto. destruct i; cbn; auto. apply IH. lia.
Qed.

Lemma NoDup_app_intro l1 l2 :
  NoDup l1 -> NoDup l2 -> (forall x : A, In x l1 -> In x l2 -> False) -> NoDup (l1 ++ l2).
Proof.
  induction l1 as [|a l1 IH]; intros N1 N2 D; cbn; auto.
  inversion N1 as [|? ? Hn N1']; subst. constructor.
  - intros Hin. apply in_app_or in Hin. destruct Hin as [Hin|Hin]; [contradiction|].
    apply (D a); [left; reflexivity|exact Hin].
  - apply IH; auto. intros x H1 H2. apply (D x); [right; exact H1|exact H2].
Qed.

Lemma len_app l1 l2 : len (l1 ++ l2) = len l1 + len l2.
Proof. unfold len. rewrite app_length. lia. Qed.

Lemma len_nil : len (@nil A) = 0.
Proof. reflexivity. Qed.

Lemma len_cons (x : A) l : len (x :: l) = len l + 1.
Proof. unfold len. cbn [length]. lia. Qed.

End Lists.
