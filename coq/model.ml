
type __ = Obj.t

(** val negb : bool -> bool **)

let negb = function
| true -> false
| false -> true

type nat =
| O
| S of nat

(** val option_map : ('a1 -> 'a2) -> 'a1 option -> 'a2 option **)

let option_map f = function
| Some a -> Some (f a)
| None -> None

(** val fst : ('a1 * 'a2) -> 'a1 **)

let fst = function
| (x, _) -> x

(** val snd : ('a1 * 'a2) -> 'a2 **)

let snd = function
| (_, y) -> y

(** val length : 'a1 list -> nat **)

let rec length = function
| [] -> O
| _ :: l' -> S (length l')

(** val app : 'a1 list -> 'a1 list -> 'a1 list **)

let rec app l m0 =
  match l with
  | [] -> m0
  | a :: l1 -> a :: (app l1 m0)

type comparison =
| Eq
| Lt
| Gt

module Coq__1 = struct
 (** val add : nat -> nat -> nat **)
 let rec add n0 m0 =
   match n0 with
   | O -> m0
   | S p0 -> S (add p0 m0)
end
include Coq__1

(** val sub : nat -> nat -> nat **)

let rec sub n0 m0 =
  match n0 with
  | O -> n0
  | S k -> (match m0 with
            | O -> n0
            | S l -> sub k l)

(** val eqb : nat -> nat -> bool **)

let rec eqb n0 m0 =
  match n0 with
  | O -> (match m0 with
          | O -> true
          | S _ -> false)
  | S n' -> (match m0 with
             | O -> false
             | S m' -> eqb n' m')

(** val leb : nat -> nat -> bool **)

let rec leb n0 m0 =
  match n0 with
  | O -> true
  | S n' -> (match m0 with
             | O -> false
             | S m' -> leb n' m')

(** val ltb : nat -> nat -> bool **)

let ltb n0 m0 =
  leb (S n0) m0

(** val eqb0 : bool -> bool -> bool **)

let eqb0 b1 b2 =
  if b1 then b2 else if b2 then false else true

(** val nth_error : 'a1 list -> nat -> 'a1 option **)

let rec nth_error l = function
| O -> (match l with
        | [] -> None
        | x :: _ -> Some x)
| S n1 -> (match l with
           | [] -> None
           | _ :: l0 -> nth_error l0 n1)

(** val removelast : 'a1 list -> 'a1 list **)

let rec removelast = function
| [] -> []
| a :: l0 -> (match l0 with
              | [] -> []
              | _ :: _ -> a :: (removelast l0))

(** val rev : 'a1 list -> 'a1 list **)

let rec rev = function
| [] -> []
| x :: l' -> app (rev l') (x :: [])

(** val flat_map : ('a1 -> 'a2 list) -> 'a1 list -> 'a2 list **)

let rec flat_map f = function
| [] -> []
| x :: t -> app (f x) (flat_map f t)

(** val fold_right : ('a2 -> 'a1 -> 'a1) -> 'a1 -> 'a2 list -> 'a1 **)

let rec fold_right f a0 = function
| [] -> a0
| b :: t -> f b (fold_right f a0 t)

(** val existsb : ('a1 -> bool) -> 'a1 list -> bool **)

let rec existsb f = function
| [] -> false
| a :: l0 -> (||) (f a) (existsb f l0)

(** val forallb : ('a1 -> bool) -> 'a1 list -> bool **)

let rec forallb f = function
| [] -> true
| a :: l0 -> (&&) (f a) (forallb f l0)

(** val filter : ('a1 -> bool) -> 'a1 list -> 'a1 list **)

let rec filter f = function
| [] -> []
| x :: l0 -> if f x then x :: (filter f l0) else filter f l0

(** val firstn : nat -> 'a1 list -> 'a1 list **)

let rec firstn n0 l =
  match n0 with
  | O -> []
  | S n1 -> (match l with
             | [] -> []
             | a :: l0 -> a :: (firstn n1 l0))

(** val skipn : nat -> 'a1 list -> 'a1 list **)

let rec skipn n0 l =
  match n0 with
  | O -> l
  | S n1 -> (match l with
             | [] -> []
             | _ :: l0 -> skipn n1 l0)

(** val repeat : 'a1 -> nat -> 'a1 list **)

let rec repeat x = function
| O -> []
| S k -> x :: (repeat x k)

type positive =
| XI of positive
| XO of positive
| XH

type n =
| N0
| Npos of positive

module Pos =
 struct
  type mask =
  | IsNul
  | IsPos of positive
  | IsNeg
 end

module Coq_Pos =
 struct
  (** val succ : positive -> positive **)

  let rec succ = function
  | XI p0 -> XO (succ p0)
  | XO p0 -> XI p0
  | XH -> XO XH

  (** val add : positive -> positive -> positive **)

  let rec add x y =
    match x with
    | XI p0 ->
      (match y with
       | XI q -> XO (add_carry p0 q)
       | XO q -> XI (add p0 q)
       | XH -> XO (succ p0))
    | XO p0 ->
      (match y with
       | XI q -> XI (add p0 q)
       | XO q -> XO (add p0 q)
       | XH -> XI p0)
    | XH -> (match y with
             | XI q -> XO (succ q)
             | XO q -> XI q
             | XH -> XO XH)

  (** val add_carry : positive -> positive -> positive **)

  and add_carry x y =
    match x with
    | XI p0 ->
      (match y with
       | XI q -> XI (add_carry p0 q)
       | XO q -> XO (add_carry p0 q)
       | XH -> XI (succ p0))
    | XO p0 ->
      (match y with
       | XI q -> XO (add_carry p0 q)
       | XO q -> XI (add p0 q)
       | XH -> XO (succ p0))
    | XH ->
      (match y with
       | XI q -> XI (succ q)
       | XO q -> XO (succ q)
       | XH -> XI XH)

  (** val pred_double : positive -> positive **)

  let rec pred_double = function
  | XI p0 -> XI (XO p0)
  | XO p0 -> XI (pred_double p0)
  | XH -> XH

  (** val pred_N : positive -> n **)

  let pred_N = function
  | XI p0 -> Npos (XO p0)
  | XO p0 -> Npos (pred_double p0)
  | XH -> N0

  type mask = Pos.mask =
  | IsNul
  | IsPos of positive
  | IsNeg

  (** val succ_double_mask : mask -> mask **)

  let succ_double_mask = function
  | IsNul -> IsPos XH
  | IsPos p0 -> IsPos (XI p0)
  | IsNeg -> IsNeg

  (** val double_mask : mask -> mask **)

  let double_mask = function
  | IsPos p0 -> IsPos (XO p0)
  | x0 -> x0

  (** val double_pred_mask : positive -> mask **)

  let double_pred_mask = function
  | XI p0 -> IsPos (XO (XO p0))
  | XO p0 -> IsPos (XO (pred_double p0))
  | XH -> IsNul

  (** val sub_mask : positive -> positive -> mask **)

  let rec sub_mask x y =
    match x with
    | XI p0 ->
      (match y with
       | XI q -> double_mask (sub_mask p0 q)
       | XO q -> succ_double_mask (sub_mask p0 q)
       | XH -> IsPos (XO p0))
    | XO p0 ->
      (match y with
       | XI q -> succ_double_mask (sub_mask_carry p0 q)
       | XO q -> double_mask (sub_mask p0 q)
       | XH -> IsPos (pred_double p0))
    | XH -> (match y with
             | XH -> IsNul
             | _ -> IsNeg)

  (** val sub_mask_carry : positive -> positive -> mask **)

  and sub_mask_carry x y =
    match x with
    | XI p0 ->
      (match y with
       | XI q -> succ_double_mask (sub_mask_carry p0 q)
       | XO q -> double_mask (sub_mask p0 q)
       | XH -> IsPos (pred_double p0))
    | XO p0 ->
      (match y with
       | XI q -> double_mask (sub_mask_carry p0 q)
       | XO q -> succ_double_mask (sub_mask_carry p0 q)
       | XH -> double_pred_mask p0)
    | XH -> IsNeg

  (** val mul : positive -> positive -> positive **)

  let rec mul x y =
    match x with
    | XI p0 -> add y (XO (mul p0 y))
    | XO p0 -> XO (mul p0 y)
    | XH -> y

  (** val compare_cont : comparison -> positive -> positive -> comparison **)

  let rec compare_cont r x y =
    match x with
    | XI p0 ->
      (match y with
       | XI q -> compare_cont r p0 q
       | XO q -> compare_cont Gt p0 q
       | XH -> Gt)
    | XO p0 ->
      (match y with
       | XI q -> compare_cont Lt p0 q
       | XO q -> compare_cont r p0 q
       | XH -> Gt)
    | XH -> (match y with
             | XH -> r
             | _ -> Lt)

  (** val compare : positive -> positive -> comparison **)

  let compare =
    compare_cont Eq

  (** val eqb : positive -> positive -> bool **)

  let rec eqb p0 q =
    match p0 with
    | XI p1 -> (match q with
                | XI q0 -> eqb p1 q0
                | _ -> false)
    | XO p1 -> (match q with
                | XO q0 -> eqb p1 q0
                | _ -> false)
    | XH -> (match q with
             | XH -> true
             | _ -> false)

  (** val testbit : positive -> n -> bool **)

  let rec testbit p0 n0 =
    match p0 with
    | XI p1 -> (match n0 with
                | N0 -> true
                | Npos n1 -> testbit p1 (pred_N n1))
    | XO p1 -> (match n0 with
                | N0 -> false
                | Npos n1 -> testbit p1 (pred_N n1))
    | XH -> (match n0 with
             | N0 -> true
             | Npos _ -> false)

  (** val iter_op : ('a1 -> 'a1 -> 'a1) -> positive -> 'a1 -> 'a1 **)

  let rec iter_op op p0 a =
    match p0 with
    | XI p1 -> op a (iter_op op p1 (op a a))
    | XO p1 -> iter_op op p1 (op a a)
    | XH -> a

  (** val to_nat : positive -> nat **)

  let to_nat x =
    iter_op Coq__1.add x (S O)

  (** val of_succ_nat : nat -> positive **)

  let rec of_succ_nat = function
  | O -> XH
  | S x -> succ (of_succ_nat x)
 end

module N =
 struct
  (** val succ_double : n -> n **)

  let succ_double = function
  | N0 -> Npos XH
  | Npos p0 -> Npos (XI p0)

  (** val double : n -> n **)

  let double = function
  | N0 -> N0
  | Npos p0 -> Npos (XO p0)

  (** val add : n -> n -> n **)

  let add n0 m0 =
    match n0 with
    | N0 -> m0
    | Npos p0 -> (match m0 with
                  | N0 -> n0
                  | Npos q -> Npos (Coq_Pos.add p0 q))

  (** val sub : n -> n -> n **)

  let sub n0 m0 =
    match n0 with
    | N0 -> N0
    | Npos n' ->
      (match m0 with
       | N0 -> n0
       | Npos m' ->
         (match Coq_Pos.sub_mask n' m' with
          | Coq_Pos.IsPos p0 -> Npos p0
          | _ -> N0))

  (** val mul : n -> n -> n **)

  let mul n0 m0 =
    match n0 with
    | N0 -> N0
    | Npos p0 -> (match m0 with
                  | N0 -> N0
                  | Npos q -> Npos (Coq_Pos.mul p0 q))

  (** val compare : n -> n -> comparison **)

  let compare n0 m0 =
    match n0 with
    | N0 -> (match m0 with
             | N0 -> Eq
             | Npos _ -> Lt)
    | Npos n' -> (match m0 with
                  | N0 -> Gt
                  | Npos m' -> Coq_Pos.compare n' m')

  (** val eqb : n -> n -> bool **)

  let eqb n0 m0 =
    match n0 with
    | N0 -> (match m0 with
             | N0 -> true
             | Npos _ -> false)
    | Npos p0 -> (match m0 with
                  | N0 -> false
                  | Npos q -> Coq_Pos.eqb p0 q)

  (** val leb : n -> n -> bool **)

  let leb x y =
    match compare x y with
    | Gt -> false
    | _ -> true

  (** val ltb : n -> n -> bool **)

  let ltb x y =
    match compare x y with
    | Lt -> true
    | _ -> false

  (** val min : n -> n -> n **)

  let min n0 n' =
    match compare n0 n' with
    | Gt -> n'
    | _ -> n0

  (** val max : n -> n -> n **)

  let max n0 n' =
    match compare n0 n' with
    | Gt -> n0
    | _ -> n'

  (** val pos_div_eucl : positive -> n -> n * n **)

  let rec pos_div_eucl a b =
    match a with
    | XI a' ->
      let (q, r) = pos_div_eucl a' b in
      let r' = succ_double r in
      if leb b r' then ((succ_double q), (sub r' b)) else ((double q), r')
    | XO a' ->
      let (q, r) = pos_div_eucl a' b in
      let r' = double r in
      if leb b r' then ((succ_double q), (sub r' b)) else ((double q), r')
    | XH ->
      (match b with
       | N0 -> (N0, (Npos XH))
       | Npos p0 ->
         (match p0 with
          | XH -> ((Npos XH), N0)
          | _ -> (N0, (Npos XH))))

  (** val div_eucl : n -> n -> n * n **)

  let div_eucl a b =
    match a with
    | N0 -> (N0, N0)
    | Npos na -> (match b with
                  | N0 -> (N0, a)
                  | Npos _ -> pos_div_eucl na b)

  (** val div : n -> n -> n **)

  let div a b =
    fst (div_eucl a b)

  (** val modulo : n -> n -> n **)

  let modulo a b =
    snd (div_eucl a b)

  (** val testbit : n -> n -> bool **)

  let testbit a n0 =
    match a with
    | N0 -> false
    | Npos p0 -> Coq_Pos.testbit p0 n0

  (** val to_nat : n -> nat **)

  let to_nat = function
  | N0 -> O
  | Npos p0 -> Coq_Pos.to_nat p0

  (** val of_nat : nat -> n **)

  let of_nat = function
  | O -> N0
  | S n' -> Npos (Coq_Pos.of_succ_nat n')
 end

type bytes = n list

(** val u16_max : n **)

let u16_max =
  Npos (XI (XI (XI (XI (XI (XI (XI (XI (XI (XI (XI (XI (XI (XI (XI
    XH)))))))))))))))

(** val usize_max : n **)

let usize_max =
  Npos (XI (XI (XI (XI (XI (XI (XI (XI (XI (XI (XI (XI (XI (XI (XI (XI (XI
    (XI (XI (XI (XI (XI (XI (XI (XI (XI (XI (XI (XI (XI (XI (XI (XI (XI (XI
    (XI (XI (XI (XI (XI (XI (XI (XI (XI (XI (XI (XI (XI (XI (XI (XI (XI (XI
    (XI (XI (XI (XI (XI (XI (XI (XI (XI (XI
    XH)))))))))))))))))))))))))))))))))))))))))))))))))))))))))))))))

(** val wrap8 : n -> n **)

let wrap8 x =
  N.modulo x (Npos (XO (XO (XO (XO (XO (XO (XO (XO XH)))))))))

(** val sat_add_usize : n -> n -> n **)

let sat_add_usize x y =
  N.min (N.add x y) usize_max

(** val len : 'a1 list -> n **)

let len l =
  N.of_nat (length l)

(** val u16_be : n -> bytes **)

let u16_be x =
  (N.modulo (N.div x (Npos (XO (XO (XO (XO (XO (XO (XO (XO XH)))))))))) (Npos
    (XO (XO (XO (XO (XO (XO (XO (XO XH)))))))))) :: ((N.modulo x (Npos (XO
                                                       (XO (XO (XO (XO (XO
                                                       (XO (XO XH)))))))))) :: [])

(** val get_u16 : bytes -> (n * bytes) option **)

let get_u16 = function
| [] -> None
| hi :: l ->
  (match l with
   | [] -> None
   | lo :: r ->
     Some
       ((N.add (N.mul hi (Npos (XO (XO (XO (XO (XO (XO (XO (XO XH))))))))))
          lo), r))

(** val nthN : 'a1 list -> n -> 'a1 option **)

let nthN l i =
  nth_error l (N.to_nat i)

(** val set_nth : nat -> 'a1 -> 'a1 list -> 'a1 list **)

let rec set_nth n0 x = function
| [] -> []
| h :: t -> (match n0 with
             | O -> x :: t
             | S n' -> h :: (set_nth n' x t))

(** val swap : 'a1 list -> nat -> nat -> 'a1 list **)

let swap l i j =
  match nth_error l i with
  | Some a ->
    (match nth_error l j with
     | Some b -> set_nth j a (set_nth i b l)
     | None -> l)
  | None -> l

(** val swap_remove : 'a1 list -> nat -> 'a1 list **)

let swap_remove l i =
  match nth_error l i with
  | Some _ ->
    (match rev l with
     | [] -> l
     | last :: _ -> removelast (set_nth i last l))
  | None -> l

(** val find_index : ('a1 -> bool) -> 'a1 list -> nat option **)

let rec find_index p0 = function
| [] -> None
| x :: t ->
  if p0 x then Some O else option_map (fun x0 -> S x0) (find_index p0 t)

(** val list_eqb : ('a1 -> 'a1 -> bool) -> 'a1 list -> 'a1 list -> bool **)

let rec list_eqb eqb1 a b =
  match a with
  | [] -> (match b with
           | [] -> true
           | _ :: _ -> false)
  | x :: a' ->
    (match b with
     | [] -> false
     | y :: b' -> (&&) (eqb1 x y) (list_eqb eqb1 a' b'))

(** val bytes_eqb : bytes -> bytes -> bool **)

let bytes_eqb =
  list_eqb N.eqb

(** val memN : n -> n list -> bool **)

let rec memN x = function
| [] -> false
| y :: t -> (||) (N.eqb x y) (memN x t)

(** val nodupN : n list -> bool **)

let rec nodupN = function
| [] -> true
| x :: t -> (&&) (negb (memN x t)) (nodupN t)

(** val is_perm : nat -> n list -> bool **)

let is_perm n0 p0 =
  (&&)
    ((&&) (eqb (length p0) n0) (forallb (fun i -> N.ltb i (N.of_nat n0)) p0))
    (nodupN p0)

(** val apply_perm : n list -> 'a1 list -> 'a1 list **)

let apply_perm p0 l =
  if is_perm (length l) p0
  then flat_map (fun i -> match nthN l i with
                          | Some x -> x :: []
                          | None -> []) p0
  else l

type request =
| RShuffle of n
| RChoose of n
| RRange of n
| RTie of bool * n

type oracle = n -> request -> n list

(** val below : n -> n list -> n **)

let below n0 = function
| [] -> N0
| x :: _ -> if N.eqb n0 N0 then N0 else N.modulo x n0

type error =
| EDataTooBig
| ENotUndead
| ESameIdentity
| ENotConnected
| EIncompleteProbeCycle
| EDataFromOurselves
| EIndirectForOurselves
| EMalformedPacket
| EEncode
| EDecode
| ECustomBroadcast
| EInvalidConfig

type site =
| PSendBufCapacity
| PFeedCountOverflow
| PItemTooLong
| PApplySelf
| PProbeNotConnected
| PExpectIndirectIsTarget
| PDisconnectedWithMembers
| PConnectedNoMembers
| PFlopNotEmpty
| PZeroTx
| PAckCountOverflow
| PInsertIndex
| PDivZero

type 'a res =
| ROk of 'a
| RErr of error
| RPanic of site

type ('id, 'addr) idOps = { id_eqb : ('id -> 'id -> bool);
                            addr_of : ('id -> 'addr);
                            addr_eqb : ('addr -> 'addr -> bool);
                            wins : ('id -> 'id -> bool);
                            renew : ('id -> 'id option) }

type mstate =
| Alive
| Suspect
| Down

(** val mstate_eqb : mstate -> mstate -> bool **)

let mstate_eqb a b =
  match a with
  | Alive -> (match b with
              | Alive -> true
              | _ -> false)
  | Suspect -> (match b with
                | Suspect -> true
                | _ -> false)
  | Down -> (match b with
             | Down -> true
             | _ -> false)

type 'id member = { m_id : 'id; m_inc : n; m_state : mstate }

type 'id message =
| Ping of n
| Ack of n
| PingReq of 'id * n
| IndirectPing of 'id * n
| IndirectAck of 'id * n
| ForwardedAck of 'id * n
| Announce
| Feed
| Gossip
| Broadcast
| TurnUndead

type 'id header = { h_src : 'id; h_src_inc : n; h_dst : 'id;
                    h_msg : 'id message }

type 'id timer =
| TProbeRandomMember of n
| TSendIndirectProbe of 'id * n
| TChangeSuspectToDown of 'id * n * n
| TPeriodicAnnounce of n
| TPeriodicAnnounceDown of n
| TPeriodicGossip of n
| TRemoveDown of 'id

type 'id notification =
| NMemberUp of 'id
| NMemberDown of 'id
| NRename of 'id * 'id
| NActive
| NIdle
| NDefunct
| NRejoin of 'id

type 'id effect =
| Send of 'id * bytes
| Submit of 'id timer * n
| Notify of 'id notification

type config = { probe_period : n; probe_rtt : n; num_indirect_probes : 
                n; max_transmissions : n; suspect_to_down_after : n;
                remove_down_after : n; max_packet_size : n;
                notify_down_members : bool;
                periodic_announce : (n * n) option;
                periodic_announce_down : (n * n) option;
                periodic_gossip : (n * n) option }

type 'id codecOps = { enc_hdr : ('id header -> bytes);
                      dec_hdr : (bytes -> ('id header * bytes) option);
                      enc_mem : ('id member -> bytes);
                      dec_mem : (bytes -> ('id member * bytes) option) }

type 'id handlerOps = { h_recv : (__ -> bytes -> 'id option -> __ * __ option
                                 option); h_should_add : (__ -> 'id -> bool);
                        h_inval : (__ -> __ -> bool) }

type 'id hstate = __

type 'id hkey = __

(** val is_active_state : mstate -> bool **)

let is_active_state = function
| Down -> false
| _ -> true

(** val m_active : 'a1 member -> bool **)

let m_active m0 =
  is_active_state m0.m_state

(** val message_eqb :
    ('a1 -> 'a1 -> bool) -> 'a1 message -> 'a1 message -> bool **)

let message_eqb eqb1 a b =
  match a with
  | Ping x -> (match b with
               | Ping y -> N.eqb x y
               | _ -> false)
  | Ack x -> (match b with
              | Ack y -> N.eqb x y
              | _ -> false)
  | PingReq (i, x) ->
    (match b with
     | PingReq (j, y) -> (&&) (eqb1 i j) (N.eqb x y)
     | _ -> false)
  | IndirectPing (i, x) ->
    (match b with
     | IndirectPing (j, y) -> (&&) (eqb1 i j) (N.eqb x y)
     | _ -> false)
  | IndirectAck (i, x) ->
    (match b with
     | IndirectAck (j, y) -> (&&) (eqb1 i j) (N.eqb x y)
     | _ -> false)
  | ForwardedAck (i, x) ->
    (match b with
     | ForwardedAck (j, y) -> (&&) (eqb1 i j) (N.eqb x y)
     | _ -> false)
  | Announce -> (match b with
                 | Announce -> true
                 | _ -> false)
  | Feed -> (match b with
             | Feed -> true
             | _ -> false)
  | Gossip -> (match b with
               | Gossip -> true
               | _ -> false)
  | Broadcast -> (match b with
                  | Broadcast -> true
                  | _ -> false)
  | TurnUndead -> (match b with
                   | TurnUndead -> true
                   | _ -> false)

(** val allow_custom_broadcasts : 'a1 message -> bool **)

let allow_custom_broadcasts = function
| Announce -> false
| TurnUndead -> false
| _ -> true

(** val needs_piggyback : 'a1 message -> bool **)

let needs_piggyback = function
| Announce -> false
| Broadcast -> false
| TurnUndead -> false
| _ -> true

(** val piggyback_only_active : 'a1 message -> bool **)

let piggyback_only_active = function
| Feed -> true
| _ -> false

(** val can_change : 'a1 member -> n -> mstate -> bool **)

let can_change m0 oinc other =
  match m0.m_state with
  | Alive ->
    (match other with
     | Alive -> N.ltb m0.m_inc oinc
     | Suspect -> N.leb m0.m_inc oinc
     | Down -> true)
  | Suspect -> (match other with
                | Down -> true
                | _ -> N.ltb m0.m_inc oinc)
  | Down -> false

(** val change_state : 'a1 member -> n -> mstate -> 'a1 member * bool **)

let change_state m0 inc s =
  if can_change m0 inc s
  then ({ m_id = m0.m_id; m_inc = inc; m_state = s }, true)
  else (m0, false)

type 'id members = { inner : 'id member list; cursor : n; num_active : n }

(** val members_next :
    oracle -> 'a1 members -> n -> ('a1 members * 'a1 member option) * n **)

let members_next rnd ms k =
  if N.leb (len ms.inner) ms.cursor
  then let p0 = ((apply_perm (rnd k (RShuffle (len ms.inner))) ms.inner), N0)
       in
       let k1 = N.add k (Npos XH) in
       let (inn, cur) = p0 in
       let c = N.to_nat cur in
       let pos =
         match find_index m_active (skipn c inn) with
         | Some p1 -> Some (add p1 c)
         | None -> find_index m_active (firstn c inn)
       in
       (match pos with
        | Some p1 ->
          let cur' =
            if ltb p1 c
            then usize_max
            else sat_add_usize (N.of_nat p1) (Npos XH)
          in
          (({ inner = inn; cursor = cur'; num_active = ms.num_active },
          (nth_error inn p1)), k1)
        | None ->
          (({ inner = inn; cursor = cur; num_active = ms.num_active }, None),
            k1))
  else let p0 = (ms.inner, ms.cursor) in
       let (inn, cur) = p0 in
       let c = N.to_nat cur in
       let pos =
         match find_index m_active (skipn c inn) with
         | Some p1 -> Some (add p1 c)
         | None -> find_index m_active (firstn c inn)
       in
       (match pos with
        | Some p1 ->
          let cur' =
            if ltb p1 c
            then usize_max
            else sat_add_usize (N.of_nat p1) (Npos XH)
          in
          (({ inner = inn; cursor = cur'; num_active = ms.num_active },
          (nth_error inn p1)), k)
        | None ->
          (({ inner = inn; cursor = cur; num_active = ms.num_active }, None),
            k))

(** val choose_loop :
    oracle -> ('a1 member -> bool) -> n -> 'a1 member list -> 'a1 member list
    -> n -> n -> 'a1 member list * n **)

let rec choose_loop rnd picker wanted l out0 num_seen k =
  match l with
  | [] -> (out0, k)
  | m0 :: t ->
    if picker m0
    then let seen = N.add num_seen (Npos XH) in
         if N.ltb (len out0) wanted
         then choose_loop rnd picker wanted t (app out0 (m0 :: [])) seen k
         else let r = below seen (rnd k (RRange seen)) in
              let out' =
                if N.ltb r wanted then set_nth (N.to_nat r) m0 out0 else out0
              in
              choose_loop rnd picker wanted t out' seen (N.add k (Npos XH))
    else choose_loop rnd picker wanted t out0 num_seen k

(** val choose_members :
    oracle -> 'a1 members -> n -> ('a1 member -> bool) -> n -> 'a1 member
    list * n **)

let choose_members rnd ms wanted picker k =
  choose_loop rnd picker wanted ms.inner [] N0 k

(** val choose_down_members :
    oracle -> 'a1 members -> n -> n -> 'a1 member list * n **)

let choose_down_members rnd ms wanted k =
  choose_members rnd ms wanted (fun m0 -> negb (m_active m0)) k

(** val choose_active_members :
    oracle -> 'a1 members -> n -> ('a1 -> bool) -> n -> 'a1 member list * n **)

let choose_active_members rnd ms wanted picker k =
  choose_members rnd ms wanted (fun m0 ->
    (&&) (m_active m0) (picker m0.m_id)) k

(** val remove_if_down :
    ('a1, 'a2) idOps -> 'a1 members -> 'a1 -> 'a1 members * bool **)

let remove_if_down iO ms id =
  match find_index (fun m0 ->
          (&&) (iO.id_eqb m0.m_id id) (mstate_eqb m0.m_state Down)) ms.inner with
  | Some p0 ->
    ({ inner = (swap_remove ms.inner p0); cursor = ms.cursor; num_active =
      ms.num_active }, true)
  | None -> (ms, false)

(** val is_active_id : ('a1, 'a2) idOps -> 'a1 members -> 'a1 -> bool **)

let is_active_id iO ms id =
  existsb (fun m0 -> (&&) (iO.id_eqb m0.m_id id) (m_active m0)) ms.inner

type 'id conflict =
| NoConflict
| Replaced of 'id
| Lost
| FailedCondition

type 'id summary = { is_active_now : bool; apply_successful : bool;
                     changed_active_set : bool; s_conflict : 'id conflict }

(** val apply_existing_if :
    ('a1, 'a2) idOps -> 'a1 members -> 'a1 member -> ('a1 member -> bool) ->
    ('a1 members * 'a1 summary) option **)

let apply_existing_if iO ms u cond =
  match find_index (fun m0 ->
          iO.addr_eqb (iO.addr_of m0.m_id) (iO.addr_of u.m_id)) ms.inner with
  | Some p0 ->
    (match nth_error ms.inner p0 with
     | Some known ->
       let id_conflict = negb (iO.id_eqb known.m_id u.m_id) in
       if (&&) id_conflict (iO.wins known.m_id u.m_id)
       then Some (ms, { is_active_now = (m_active known); apply_successful =
              false; changed_active_set = false; s_conflict = Lost })
       else if negb (cond known)
            then Some (ms, { is_active_now = (m_active known);
                   apply_successful = false; changed_active_set = false;
                   s_conflict =
                   (if id_conflict then FailedCondition else NoConflict) })
            else let was_active = m_active known in
                 if id_conflict
                 then let p1 = ({ m_id = u.m_id; m_inc = u.m_inc; m_state =
                        u.m_state }, true)
                      in
                      let cf = Replaced known.m_id in
                      let (known', ok) = p1 in
                      let now = m_active known' in
                      let changed = negb (eqb0 now was_active) in
                      let na =
                        if changed
                        then if now
                             then sat_add_usize ms.num_active (Npos XH)
                             else N.sub ms.num_active (Npos XH)
                        else ms.num_active
                      in
                      Some ({ inner = (set_nth p0 known' ms.inner); cursor =
                      ms.cursor; num_active = na }, { is_active_now = now;
                      apply_successful = ok; changed_active_set = changed;
                      s_conflict = cf })
                 else let p1 = change_state known u.m_inc u.m_state in
                      let cf = NoConflict in
                      let (known', ok) = p1 in
                      let now = m_active known' in
                      let changed = negb (eqb0 now was_active) in
                      let na =
                        if changed
                        then if now
                             then sat_add_usize ms.num_active (Npos XH)
                             else N.sub ms.num_active (Npos XH)
                        else ms.num_active
                      in
                      Some ({ inner = (set_nth p0 known' ms.inner); cursor =
                      ms.cursor; num_active = na }, { is_active_now = now;
                      apply_successful = ok; changed_active_set = changed;
                      s_conflict = cf })
     | None -> None)
  | None -> None

(** val members_apply :
    ('a1, 'a2) idOps -> oracle -> 'a1 members -> 'a1 member -> n -> ('a1
    members * 'a1 summary) * n **)

let members_apply iO rnd ms u k =
  match apply_existing_if iO ms u (fun _ -> true) with
  | Some p0 -> (p0, k)
  | None ->
    let now = m_active u in
    let l = app ms.inner (u :: []) in
    let inserted_at = sub (length l) (S O) in
    let idx = N.to_nat (below (len l) (rnd k (RChoose (len l)))) in
    let l' = swap l idx inserted_at in
    let na =
      if now then sat_add_usize ms.num_active (Npos XH) else ms.num_active
    in
    (({ inner = l'; cursor = ms.cursor; num_active = na }, { is_active_now =
    now; apply_successful = true; changed_active_set = now; s_conflict =
    NoConflict }), (N.add k (Npos XH)))

type 'id probe = { p_direct : 'id member option; p_indirect : 'id list;
                   p_number : n; p_direct_ack_ok : bool;
                   p_indirect_ack_count : n; p_reached : bool }

(** val probe_clear : 'a1 probe -> 'a1 probe **)

let probe_clear p0 =
  { p_direct = None; p_indirect = []; p_number = p0.p_number;
    p_direct_ack_ok = false; p_indirect_ack_count = N0; p_reached = false }

(** val probe_start : 'a1 probe -> 'a1 member -> 'a1 probe * n **)

let probe_start p0 target =
  let n0 = wrap8 (N.add p0.p_number (Npos XH)) in
  ({ p_direct = (Some target); p_indirect = []; p_number = n0;
  p_direct_ack_ok = false; p_indirect_ack_count = N0; p_reached = false }, n0)

(** val probe_mark_reached : 'a1 probe -> 'a1 probe **)

let probe_mark_reached p0 =
  { p_direct = p0.p_direct; p_indirect = p0.p_indirect; p_number =
    p0.p_number; p_direct_ack_ok = p0.p_direct_ack_ok; p_indirect_ack_count =
    p0.p_indirect_ack_count; p_reached = true }

(** val probe_validate : 'a1 probe -> bool **)

let probe_validate p0 =
  match p0.p_direct with
  | Some _ -> p0.p_reached
  | None -> true

(** val probe_succeeded : 'a1 probe -> bool **)

let probe_succeeded p0 =
  (||) p0.p_direct_ack_ok (N.ltb N0 p0.p_indirect_ack_count)

(** val probe_take_failed : 'a1 probe -> 'a1 probe * 'a1 member option **)

let probe_take_failed p0 =
  if negb (probe_succeeded p0)
  then ({ p_direct = None; p_indirect = p0.p_indirect; p_number =
         p0.p_number; p_direct_ack_ok = p0.p_direct_ack_ok;
         p_indirect_ack_count = p0.p_indirect_ack_count; p_reached =
         p0.p_reached }, p0.p_direct)
  else (p0, None)

(** val probe_is_probing : ('a1, 'a2) idOps -> 'a1 probe -> 'a1 -> bool **)

let probe_is_probing iO p0 id =
  match p0.p_direct with
  | Some m0 -> iO.id_eqb m0.m_id id
  | None -> false

(** val probe_receive_ack :
    ('a1, 'a2) idOps -> 'a1 probe -> 'a1 -> n -> 'a1 probe * bool **)

let probe_receive_ack iO p0 from n0 =
  if (&&) (N.eqb n0 p0.p_number) (probe_is_probing iO p0 from)
  then ({ p_direct = p0.p_direct; p_indirect = p0.p_indirect; p_number =
         p0.p_number; p_direct_ack_ok = true; p_indirect_ack_count =
         p0.p_indirect_ack_count; p_reached = p0.p_reached }, true)
  else (p0, false)

(** val probe_expect_indirect_ack :
    ('a1, 'a2) idOps -> 'a1 probe -> 'a1 -> 'a1 probe option **)

let probe_expect_indirect_ack iO p0 from =
  match p0.p_direct with
  | Some m0 ->
    if iO.id_eqb m0.m_id from
    then None
    else Some { p_direct = p0.p_direct; p_indirect =
           (app p0.p_indirect (from :: [])); p_number = p0.p_number;
           p_direct_ack_ok = p0.p_direct_ack_ok; p_indirect_ack_count =
           p0.p_indirect_ack_count; p_reached = p0.p_reached }
  | None -> None

(** val probe_receive_indirect_ack :
    ('a1, 'a2) idOps -> 'a1 probe -> 'a1 -> n -> 'a1 probe * bool **)

let probe_receive_indirect_ack iO p0 from n0 =
  if negb (N.eqb p0.p_number n0)
  then (p0, false)
  else (match find_index (fun i -> iO.id_eqb i from) p0.p_indirect with
        | Some pos ->
          ({ p_direct = p0.p_direct; p_indirect =
            (swap_remove p0.p_indirect pos); p_number = p0.p_number;
            p_direct_ack_ok = p0.p_direct_ack_ok; p_indirect_ack_count =
            (N.add p0.p_indirect_ack_count (Npos XH)); p_reached =
            p0.p_reached }, true)
        | None -> (p0, false))

type 'k entry = { e_tx : n; e_data : bytes; e_key : 'k }

type 'k backlog = 'k entry list

(** val prio_le : 'a1 entry -> 'a1 entry -> bool **)

let prio_le a b =
  (||) (N.ltb a.e_tx b.e_tx)
    ((&&) (N.eqb a.e_tx b.e_tx) (N.leb (len a.e_data) (len b.e_data)))

(** val insert_desc : 'a1 entry -> 'a1 backlog -> 'a1 backlog **)

let rec insert_desc e = function
| [] -> e :: []
| x :: t -> if prio_le e x then x :: (insert_desc e t) else e :: (x :: t)

(** val sort_desc : 'a1 backlog -> 'a1 backlog **)

let sort_desc l =
  fold_right insert_desc [] l

(** val split_items : nat -> n list -> bytes list **)

let rec split_items fuel h =
  match fuel with
  | O -> []
  | S f ->
    (match h with
     | [] -> []
     | n0 :: r ->
       (firstn (N.to_nat n0) r) :: (split_items f (skipn (N.to_nat n0) r)))

(** val take_first :
    bytes -> 'a1 backlog -> ('a1 entry * 'a1 backlog) option **)

let rec take_first d = function
| [] -> None
| x :: t ->
  if bytes_eqb x.e_data d
  then Some (x, t)
  else (match take_first d t with
        | Some p0 -> let (e, t') = p0 in Some (e, (x :: t'))
        | None -> None)

(** val pull_hinted :
    bytes list -> 'a1 backlog -> 'a1 backlog * 'a1 backlog **)

let rec pull_hinted items l =
  match items with
  | [] -> ([], l)
  | d :: r ->
    (match take_first d l with
     | Some p0 ->
       let (e, l') = p0 in let (a, b) = pull_hinted r l' in ((e :: a), b)
     | None -> pull_hinted r l)

(** val pop_order : n list -> 'a1 backlog -> 'a1 backlog **)

let pop_order hint l =
  let (a, b) = pull_hinted (split_items (length hint) hint) l in
  sort_desc (app a b)

(** val add_or_replace :
    ('a1 -> 'a1 -> bool) -> 'a1 backlog -> 'a1 -> bytes -> n -> 'a1 backlog **)

let add_or_replace inval l item data max_tx0 =
  app (filter (fun e -> negb (inval item e.e_key)) l) ({ e_tx = max_tx0;
    e_data = data; e_key = item } :: [])

(** val fill_loop :
    n -> 'a1 backlog -> n -> n -> ((bytes * n) * 'a1 backlog) * site option **)

let rec fill_loop extra l room remaining =
  match l with
  | [] -> ((([], N0), []), None)
  | e :: t ->
    if (&&) (N.ltb N0 room) (N.ltb N0 remaining)
    then if N.eqb e.e_tx N0
         then ((([], N0), l), (Some PZeroTx))
         else if N.leb (N.add (len e.e_data) extra) room
              then if (&&) (N.eqb extra (Npos (XO XH)))
                        (N.ltb u16_max (len e.e_data))
                   then ((([], N0), l), (Some PItemTooLong))
                   else let (p0, p1) =
                          fill_loop extra t
                            (N.sub room (N.add (len e.e_data) extra))
                            (N.sub remaining (Npos XH))
                        in
                        let (p2, kept) = p0 in
                        let (w, n0) = p2 in
                        let w0 =
                          app
                            (if N.eqb extra N0
                             then []
                             else u16_be (len e.e_data)) e.e_data
                        in
                        ((((app w0 w), (N.add n0 (Npos XH))),
                        (if N.ltb (Npos XH) e.e_tx
                         then { e_tx = (N.sub e.e_tx (Npos XH)); e_data =
                                e.e_data; e_key = e.e_key } :: kept
                         else kept)), p1)
              else let (p0, p1) = fill_loop extra t room remaining in
                   let (p2, kept) = p0 in ((p2, (e :: kept)), p1)
    else ((([], N0), l), None)

(** val fill_gen :
    n -> n list -> 'a1 backlog -> n -> n -> ((bytes * n) * 'a1
    backlog) * site option **)

let fill_gen extra hint l room max_items =
  match l with
  | [] -> ((([], N0), []), None)
  | _ :: _ -> fill_loop extra (pop_order hint l) room max_items

type conn_state =
| Disconnected
| Connected
| Undead

(** val conn_eqb : conn_state -> conn_state -> bool **)

let conn_eqb a b =
  match a with
  | Disconnected -> (match b with
                     | Disconnected -> true
                     | _ -> false)
  | Connected -> (match b with
                  | Connected -> true
                  | _ -> false)
  | Undead -> (match b with
               | Undead -> true
               | _ -> false)

type ('id, 'addr) foca = { identity : 'id; incarnation : n; cfg : config;
                           conn : conn_state; token : n; mems : 'id members;
                           prb : 'id probe; updates : 'addr backlog;
                           customs : 'id hkey backlog; hst : 'id hstate;
                           send_cap : n }

(** val set_identity :
    'a1 handlerOps -> ('a1, 'a2) foca -> 'a1 -> ('a1, 'a2) foca **)

let set_identity _ f v =
  { identity = v; incarnation = f.incarnation; cfg = f.cfg; conn = f.conn;
    token = f.token; mems = f.mems; prb = f.prb; updates = f.updates;
    customs = f.customs; hst = f.hst; send_cap = f.send_cap }

(** val set_incarnation :
    'a1 handlerOps -> ('a1, 'a2) foca -> n -> ('a1, 'a2) foca **)

let set_incarnation _ f v =
  { identity = f.identity; incarnation = v; cfg = f.cfg; conn = f.conn;
    token = f.token; mems = f.mems; prb = f.prb; updates = f.updates;
    customs = f.customs; hst = f.hst; send_cap = f.send_cap }

(** val set_cfg :
    'a1 handlerOps -> ('a1, 'a2) foca -> config -> ('a1, 'a2) foca **)

let set_cfg _ f v =
  { identity = f.identity; incarnation = f.incarnation; cfg = v; conn =
    f.conn; token = f.token; mems = f.mems; prb = f.prb; updates = f.updates;
    customs = f.customs; hst = f.hst; send_cap = f.send_cap }

(** val set_conn :
    'a1 handlerOps -> ('a1, 'a2) foca -> conn_state -> ('a1, 'a2) foca **)

let set_conn _ f v =
  { identity = f.identity; incarnation = f.incarnation; cfg = f.cfg; conn =
    v; token = f.token; mems = f.mems; prb = f.prb; updates = f.updates;
    customs = f.customs; hst = f.hst; send_cap = f.send_cap }

(** val set_token :
    'a1 handlerOps -> ('a1, 'a2) foca -> n -> ('a1, 'a2) foca **)

let set_token _ f v =
  { identity = f.identity; incarnation = f.incarnation; cfg = f.cfg; conn =
    f.conn; token = v; mems = f.mems; prb = f.prb; updates = f.updates;
    customs = f.customs; hst = f.hst; send_cap = f.send_cap }

(** val set_mems :
    'a1 handlerOps -> ('a1, 'a2) foca -> 'a1 members -> ('a1, 'a2) foca **)

let set_mems _ f v =
  { identity = f.identity; incarnation = f.incarnation; cfg = f.cfg; conn =
    f.conn; token = f.token; mems = v; prb = f.prb; updates = f.updates;
    customs = f.customs; hst = f.hst; send_cap = f.send_cap }

(** val set_prb :
    'a1 handlerOps -> ('a1, 'a2) foca -> 'a1 probe -> ('a1, 'a2) foca **)

let set_prb _ f v =
  { identity = f.identity; incarnation = f.incarnation; cfg = f.cfg; conn =
    f.conn; token = f.token; mems = f.mems; prb = v; updates = f.updates;
    customs = f.customs; hst = f.hst; send_cap = f.send_cap }

(** val set_updates :
    'a1 handlerOps -> ('a1, 'a2) foca -> 'a2 backlog -> ('a1, 'a2) foca **)

let set_updates _ f v =
  { identity = f.identity; incarnation = f.incarnation; cfg = f.cfg; conn =
    f.conn; token = f.token; mems = f.mems; prb = f.prb; updates = v;
    customs = f.customs; hst = f.hst; send_cap = f.send_cap }

(** val set_customs :
    'a1 handlerOps -> ('a1, 'a2) foca -> 'a1 hkey backlog -> ('a1, 'a2) foca **)

let set_customs _ f v =
  { identity = f.identity; incarnation = f.incarnation; cfg = f.cfg; conn =
    f.conn; token = f.token; mems = f.mems; prb = f.prb; updates = f.updates;
    customs = v; hst = f.hst; send_cap = f.send_cap }

(** val set_hst :
    'a1 handlerOps -> ('a1, 'a2) foca -> 'a1 hstate -> ('a1, 'a2) foca **)

let set_hst _ f v =
  { identity = f.identity; incarnation = f.incarnation; cfg = f.cfg; conn =
    f.conn; token = f.token; mems = f.mems; prb = f.prb; updates = f.updates;
    customs = f.customs; hst = v; send_cap = f.send_cap }

type ('id, 'addr) rs = { st : ('id, 'addr) foca; out : 'id effect list;
                         ctr : n }

type ('id, 'addr, 'a) m = ('id, 'addr) rs -> ('id, 'addr) rs * 'a res

(** val ret : 'a1 handlerOps -> 'a3 -> ('a1, 'a2, 'a3) m **)

let ret _ a s =
  (s, (ROk a))

(** val bind :
    'a1 handlerOps -> ('a1, 'a2, 'a3) m -> ('a3 -> ('a1, 'a2, 'a4) m) ->
    ('a1, 'a2, 'a4) m **)

let bind _ m0 f s =
  let (s', r) = m0 s in
  (match r with
   | ROk a -> f a s'
   | RErr e -> (s', (RErr e))
   | RPanic p0 -> (s', (RPanic p0)))

(** val get : 'a1 handlerOps -> ('a1, 'a2, ('a1, 'a2) foca) m **)

let get _ s =
  (s, (ROk s.st))

(** val modify :
    'a1 handlerOps -> (('a1, 'a2) foca -> ('a1, 'a2) foca) -> ('a1, 'a2,
    unit) m **)

let modify _ g s =
  ({ st = (g s.st); out = s.out; ctr = s.ctr }, (ROk ()))

(** val emit : 'a1 handlerOps -> 'a1 effect -> ('a1, 'a2, unit) m **)

let emit _ e s =
  ({ st = s.st; out = (app s.out (e :: [])); ctr = s.ctr }, (ROk ()))

(** val fail : 'a1 handlerOps -> error -> ('a1, 'a2, 'a3) m **)

let fail _ e s =
  (s, (RErr e))

(** val panic : 'a1 handlerOps -> site -> ('a1, 'a2, 'a3) m **)

let panic _ p0 s =
  (s, (RPanic p0))

(** val ask : 'a1 handlerOps -> oracle -> request -> ('a1, 'a2, n list) m **)

let ask _ rnd r s =
  ({ st = s.st; out = s.out; ctr = (N.add s.ctr (Npos XH)) }, (ROk
    (rnd s.ctr r)))

(** val with_ctr : 'a1 handlerOps -> (n -> 'a3 * n) -> ('a1, 'a2, 'a3) m **)

let with_ctr _ g s =
  let (a, k) = g s.ctr in ({ st = s.st; out = s.out; ctr = k }, (ROk a))

(** val attempt :
    'a1 handlerOps -> ('a1, 'a2, unit) m -> ('a1, 'a2, error option) m **)

let attempt _ m0 s =
  let (s', r) = m0 s in
  (match r with
   | ROk _ -> (s', (ROk None))
   | RErr e -> (s', (ROk (Some e)))
   | RPanic p0 -> (s', (RPanic p0)))

(** val when0 :
    'a1 handlerOps -> bool -> ('a1, 'a2, unit) m -> ('a1, 'a2, unit) m **)

let when0 hO b m0 =
  if b then m0 else ret hO ()

(** val forM_ :
    'a1 handlerOps -> 'a3 list -> ('a3 -> ('a1, 'a2, unit) m) -> ('a1, 'a2,
    unit) m **)

let rec forM_ hO l f x =
  match l with
  | [] -> ret hO () x
  | x0 :: t -> bind hO (f x0) (fun _ x1 -> forM_ hO t f x1) x

(** val is_send : 'a1 effect -> bool **)

let is_send = function
| Send (_, _) -> true
| _ -> false

(** val num_sends : 'a1 handlerOps -> ('a1, 'a2, n) m **)

let num_sends _ s =
  (s, (ROk (len (filter is_send s.out))))

(** val max_tx : 'a1 handlerOps -> ('a1, 'a2) foca -> n **)

let max_tx _ f =
  f.cfg.max_transmissions

(** val add_update :
    ('a1, 'a2) idOps -> 'a1 codecOps -> 'a1 handlerOps -> 'a1 member -> ('a1,
    'a2, unit) m **)

let add_update iO cO hO m0 =
  modify hO (fun f ->
    set_updates hO f
      (add_or_replace iO.addr_eqb f.updates (iO.addr_of m0.m_id)
        (cO.enc_mem m0) (max_tx hO f)))

(** val choose_active :
    'a1 handlerOps -> oracle -> n -> ('a1 -> bool) -> ('a1, 'a2, 'a1 member
    list) m **)

let choose_active hO rnd wanted picker =
  bind hO (get hO) (fun f ->
    with_ctr hO (choose_active_members rnd f.mems wanted picker))

(** val estimate_feed_capacity :
    'a1 handlerOps -> n -> n -> ('a1, 'a2, n) m **)

let estimate_feed_capacity hO maxp remaining =
  let identity_len = N.div (N.sub maxp remaining) (Npos (XO XH)) in
  if N.eqb identity_len N0
  then panic hO PDivZero
  else ret hO (N.max (N.div remaining identity_len) (Npos (XI (XO XH))))

(** val feed_loop :
    'a1 codecOps -> 'a1 handlerOps -> 'a1 member list -> n -> n -> bytes ->
    ('a1, 'a2, n * bytes) m **)

let rec feed_loop cO hO l room count acc =
  match l with
  | [] -> ret hO (count, acc)
  | m0 :: t ->
    let b = cO.enc_mem m0 in
    if N.ltb room (len b)
    then ret hO (count, acc)
    else if N.eqb count u16_max
         then panic hO PFeedCountOverflow
         else feed_loop cO hO t (N.sub room (len b)) (N.add count (Npos XH))
                (app acc b)

(** val send_message :
    ('a1, 'a2) idOps -> 'a1 codecOps -> 'a1 handlerOps -> oracle -> 'a1 ->
    'a1 message -> ('a1, 'a2, unit) m **)

let send_message iO cO hO rnd dst msg =
  bind hO (get hO) (fun f ->
    let maxp = f.cfg.max_packet_size in
    if negb (N.eqb f.send_cap maxp)
    then panic hO PSendBufCapacity
    else let hb =
           cO.enc_hdr { h_src = f.identity; h_src_inc = f.incarnation;
             h_dst = dst; h_msg = msg }
         in
         if N.ltb maxp (len hb)
         then fail hO EEncode
         else let room = N.sub maxp (len hb) in
              bind hO (num_sends hO) (fun idx ->
                bind hO
                  (if (&&) (needs_piggyback msg) (N.ltb (Npos (XO XH)) room)
                   then let room2 = N.sub room (Npos (XO XH)) in
                        if piggyback_only_active msg
                        then bind hO (estimate_feed_capacity hO maxp room2)
                               (fun cap ->
                               bind hO
                                 (choose_active hO rnd cap (fun i ->
                                   negb (iO.id_eqb i dst))) (fun chosen ->
                                 bind hO
                                   (feed_loop cO hO (rev chosen) room2 N0 [])
                                   (fun cb ->
                                   ret hO (app (u16_be (fst cb)) (snd cb)))))
                        else (match f.updates with
                              | [] -> ret hO (u16_be N0)
                              | _ :: _ ->
                                bind hO (ask hO rnd (RTie (false, idx)))
                                  (fun hint ->
                                  let (p0, p1) =
                                    fill_gen N0 hint f.updates room2 u16_max
                                  in
                                  let (p2, kept) = p0 in
                                  let (w, n0) = p2 in
                                  (match p1 with
                                   | Some s -> panic hO s
                                   | None ->
                                     bind hO
                                       (modify hO (fun f0 ->
                                         set_updates hO f0 kept)) (fun _ ->
                                       ret hO (app (u16_be n0) w)))))
                   else ret hO []) (fun body ->
                  let room3 = N.sub room (len body) in
                  bind hO (get hO) (fun f0 ->
                    bind hO
                      (if (&&)
                            ((&&) (N.ltb N0 room3)
                              (allow_custom_broadcasts msg))
                            (hO.h_should_add f0.hst dst)
                       then (match f0.customs with
                             | [] -> ret hO []
                             | _ :: _ ->
                               bind hO (ask hO rnd (RTie (true, idx)))
                                 (fun hint ->
                                 let (p0, p1) =
                                   fill_gen (Npos (XO XH)) hint f0.customs
                                     room3 usize_max
                                 in
                                 let (p2, kept) = p0 in
                                 let (w, _) = p2 in
                                 (match p1 with
                                  | Some s -> panic hO s
                                  | None ->
                                    bind hO
                                      (modify hO (fun f1 ->
                                        set_customs hO f1 kept)) (fun _ ->
                                      ret hO w))))
                       else ret hO []) (fun cust ->
                      emit hO (Send (dst, (app hb (app body cust)))))))))

(** val choose_and_send :
    ('a1, 'a2) idOps -> 'a1 codecOps -> 'a1 handlerOps -> oracle -> n -> 'a1
    message -> ('a1, 'a2, unit) m **)

let choose_and_send iO cO hO rnd n0 msg =
  bind hO (choose_active hO rnd n0 (fun _ -> true)) (fun chosen ->
    forM_ hO (rev chosen) (fun m0 -> send_message iO cO hO rnd m0.m_id msg))

(** val gossip :
    ('a1, 'a2) idOps -> 'a1 codecOps -> 'a1 handlerOps -> oracle -> ('a1,
    'a2, unit) m **)

let gossip iO cO hO rnd =
  bind hO (get hO) (fun f ->
    choose_and_send iO cO hO rnd f.cfg.num_indirect_probes Gossip)

(** val announce_to_down :
    ('a1, 'a2) idOps -> 'a1 codecOps -> 'a1 handlerOps -> oracle -> n ->
    ('a1, 'a2, unit) m **)

let announce_to_down iO cO hO rnd n0 =
  bind hO (get hO) (fun f ->
    bind hO (with_ctr hO (choose_down_members rnd f.mems n0)) (fun chosen ->
      forM_ hO (rev chosen) (fun m0 ->
        send_message iO cO hO rnd m0.m_id Announce)))

(** val reset : 'a1 handlerOps -> ('a1, 'a2, unit) m **)

let reset hO =
  modify hO (fun f ->
    set_prb hO
      (set_token hO (set_incarnation hO (set_conn hO f Disconnected) N0)
        (wrap8 (N.add f.token (Npos XH)))) (probe_clear f.prb))

(** val become_disconnected : 'a1 handlerOps -> ('a1, 'a2, unit) m **)

let become_disconnected hO =
  bind hO (get hO) (fun f ->
    if negb (N.eqb f.mems.num_active N0)
    then panic hO PDisconnectedWithMembers
    else bind hO
           (modify hO (fun f0 ->
             set_prb hO
               (set_token hO (set_conn hO f0 Disconnected)
                 (wrap8 (N.add f0.token (Npos XH)))) (probe_clear f0.prb)))
           (fun _ -> emit hO (Notify NIdle)))

(** val become_undead : 'a1 handlerOps -> ('a1, 'a2, unit) m **)

let become_undead hO =
  bind hO
    (modify hO (fun f ->
      set_token hO (set_prb hO (set_conn hO f Undead) (probe_clear f.prb))
        (wrap8 (N.add f.token (Npos XH))))) (fun _ ->
    emit hO (Notify NDefunct))

(** val submit_periodic :
    'a1 handlerOps -> (n * n) option -> 'a1 timer -> ('a1, 'a2, unit) m **)

let submit_periodic hO p0 t =
  match p0 with
  | Some p1 -> let (freq, _) = p1 in emit hO (Submit (t, freq))
  | None -> ret hO ()

(** val become_connected : 'a1 handlerOps -> ('a1, 'a2, unit) m **)

let become_connected hO =
  bind hO (get hO) (fun f ->
    if N.eqb f.mems.num_active N0
    then panic hO PConnectedNoMembers
    else bind hO (modify hO (fun f0 -> set_conn hO f0 Connected)) (fun _ ->
           bind hO
             (emit hO (Submit ((TProbeRandomMember f.token),
               f.cfg.probe_period))) (fun _ ->
             bind hO
               (submit_periodic hO f.cfg.periodic_announce (TPeriodicAnnounce
                 f.token)) (fun _ ->
               bind hO
                 (submit_periodic hO f.cfg.periodic_announce_down
                   (TPeriodicAnnounceDown f.token)) (fun _ ->
                 bind hO
                   (submit_periodic hO f.cfg.periodic_gossip (TPeriodicGossip
                     f.token)) (fun _ -> emit hO (Notify NActive)))))))

(** val adjust_connection_state : 'a1 handlerOps -> ('a1, 'a2, unit) m **)

let adjust_connection_state hO =
  bind hO (get hO) (fun f ->
    match f.conn with
    | Disconnected ->
      when0 hO (N.ltb N0 f.mems.num_active) (become_connected hO)
    | Connected ->
      when0 hO (N.eqb f.mems.num_active N0) (become_disconnected hO)
    | Undead -> ret hO ())

(** val handle_apply_summary :
    ('a1, 'a2) idOps -> 'a1 codecOps -> 'a1 handlerOps -> 'a1 summary -> 'a1
    member -> bool -> ('a1, 'a2, unit) m **)

let handle_apply_summary iO cO hO s u do_broadcast =
  let id = u.m_id in
  bind hO
    (when0 hO s.apply_successful
      (bind hO (when0 hO do_broadcast (add_update iO cO hO u)) (fun _ ->
        bind hO (get hO) (fun f ->
          when0 hO (negb s.is_active_now)
            (emit hO (Submit ((TRemoveDown id), f.cfg.remove_down_after)))))))
    (fun _ ->
    bind hO
      (match s.s_conflict with
       | Replaced old -> emit hO (Notify (NRename (old, id)))
       | _ -> ret hO ()) (fun _ ->
      when0 hO s.changed_active_set
        (emit hO (Notify
          (if s.is_active_now then NMemberUp id else NMemberDown id)))))

(** val apply_update :
    ('a1, 'a2) idOps -> 'a1 codecOps -> 'a1 handlerOps -> oracle -> 'a1
    member -> bool -> ('a1, 'a2, bool) m **)

let apply_update iO cO hO rnd u do_broadcast =
  bind hO (get hO) (fun f ->
    if iO.id_eqb f.identity u.m_id
    then panic hO PApplySelf
    else bind hO (with_ctr hO (fun k -> members_apply iO rnd f.mems u k))
           (fun r ->
           let (ms, s) = r in
           bind hO (modify hO (fun f0 -> set_mems hO f0 ms)) (fun _ ->
             let update_is_active =
               match s.s_conflict with
               | NoConflict -> s.is_active_now
               | Replaced _ -> s.is_active_now
               | _ -> false
             in
             bind hO (handle_apply_summary iO cO hO s u do_broadcast)
               (fun _ -> ret hO update_is_active))))

(** val change_identity :
    ('a1, 'a2) idOps -> 'a1 codecOps -> 'a1 handlerOps -> oracle -> 'a1 ->
    ('a1, 'a2, unit) m **)

let change_identity iO cO hO rnd new_id =
  bind hO (get hO) (fun f ->
    if iO.id_eqb f.identity new_id
    then fail hO ESameIdentity
    else let previous_is_down = conn_eqb f.conn Undead in
         let previous_id = f.identity in
         bind hO (modify hO (fun f0 -> set_identity hO f0 new_id)) (fun _ ->
           bind hO (reset hO) (fun _ ->
             bind hO
               (when0 hO (negb previous_is_down)
                 (add_update iO cO hO { m_id = previous_id; m_inc = N0;
                   m_state = Down })) (fun _ -> gossip iO cO hO rnd))))

(** val attempt_rejoin :
    ('a1, 'a2) idOps -> 'a1 codecOps -> 'a1 handlerOps -> oracle -> ('a1,
    'a2, bool) m **)

let attempt_rejoin iO cO hO rnd =
  bind hO (get hO) (fun f ->
    match iO.renew f.identity with
    | Some new_id ->
      if iO.id_eqb f.identity new_id
      then ret hO false
      else if negb (iO.wins new_id f.identity)
           then ret hO false
           else bind hO (change_identity iO cO hO rnd new_id) (fun _ ->
                  bind hO (emit hO (Notify (NRejoin new_id))) (fun _ ->
                    ret hO true))
    | None -> ret hO false)

(** val handle_self_update :
    ('a1, 'a2) idOps -> 'a1 codecOps -> 'a1 handlerOps -> oracle -> n ->
    mstate -> ('a1, 'a2, unit) m **)

let handle_self_update iO cO hO rnd inc = function
| Alive -> ret hO ()
| Suspect ->
  bind hO (get hO) (fun f ->
    let increase = negb (N.ltb inc f.incarnation) in
    let i = N.max inc f.incarnation in
    if N.eqb i u16_max
    then bind hO (attempt_rejoin iO cO hO rnd) (fun b ->
           when0 hO (negb b) (become_undead hO))
    else bind hO
           (when0 hO increase
             (modify hO (fun f0 ->
               set_incarnation hO f0 (N.min (N.add i (Npos XH)) u16_max))))
           (fun _ -> gossip iO cO hO rnd))
| Down ->
  bind hO (attempt_rejoin iO cO hO rnd) (fun b ->
    when0 hO (negb b) (become_undead hO))

(** val apply_one :
    ('a1, 'a2) idOps -> 'a1 codecOps -> 'a1 handlerOps -> oracle -> bool ->
    'a1 member -> ('a1, 'a2, unit) m **)

let apply_one iO cO hO rnd do_broadcast u =
  bind hO (get hO) (fun f ->
    if iO.id_eqb u.m_id f.identity
    then handle_self_update iO cO hO rnd u.m_inc u.m_state
    else if iO.addr_eqb (iO.addr_of f.identity) (iO.addr_of u.m_id)
         then bind hO
                (apply_update iO cO hO rnd { m_id = u.m_id; m_inc = N0;
                  m_state = Down } do_broadcast) (fun _ -> ret hO ())
         else bind hO (apply_update iO cO hO rnd u do_broadcast) (fun _ ->
                ret hO ()))

(** val apply_many :
    ('a1, 'a2) idOps -> 'a1 codecOps -> 'a1 handlerOps -> oracle -> 'a1
    member list -> bool -> ('a1, 'a2, unit) m **)

let apply_many iO cO hO rnd l do_broadcast =
  bind hO (forM_ hO l (apply_one iO cO hO rnd do_broadcast)) (fun _ ->
    adjust_connection_state hO)

(** val broadcast_loop :
    ('a1, 'a2) idOps -> 'a1 codecOps -> 'a1 handlerOps -> oracle -> 'a1
    member list -> ('a1, 'a2, unit) m **)

let rec broadcast_loop iO cO hO rnd = function
| [] -> ret hO ()
| m0 :: t ->
  bind hO (send_message iO cO hO rnd m0.m_id Broadcast) (fun _ ->
    bind hO (get hO) (fun f ->
      match f.customs with
      | [] -> ret hO ()
      | _ :: _ -> broadcast_loop iO cO hO rnd t))

(** val broadcast :
    ('a1, 'a2) idOps -> 'a1 codecOps -> 'a1 handlerOps -> oracle -> ('a1,
    'a2, unit) m **)

let broadcast iO cO hO rnd =
  bind hO (get hO) (fun f ->
    match f.customs with
    | [] -> ret hO ()
    | _ :: _ ->
      bind hO
        (choose_active hO rnd f.cfg.num_indirect_probes (fun i ->
          hO.h_should_add f.hst i)) (fun chosen ->
        broadcast_loop iO cO hO rnd (rev chosen)))

(** val leave_cluster :
    ('a1, 'a2) idOps -> 'a1 codecOps -> 'a1 handlerOps -> oracle -> ('a1,
    'a2, unit) m **)

let leave_cluster iO cO hO rnd =
  bind hO (get hO) (fun f ->
    bind hO
      (add_update iO cO hO { m_id = f.identity; m_inc = N0; m_state = Down })
      (fun _ -> bind hO (gossip iO cO hO rnd) (fun _ -> become_undead hO)))

(** val add_custom :
    'a1 handlerOps -> 'a1 hkey -> bytes -> ('a1, 'a2, unit) m **)

let add_custom hO key data =
  modify hO (fun f ->
    set_customs hO f
      (add_or_replace hO.h_inval f.customs key data (max_tx hO f)))

(** val add_broadcast : 'a1 handlerOps -> bytes -> ('a1, 'a2, bool) m **)

let add_broadcast hO data =
  bind hO (get hO) (fun f ->
    match data with
    | [] -> fail hO EMalformedPacket
    | _ :: _ ->
      if N.ltb f.cfg.max_packet_size (len data)
      then fail hO EDataTooBig
      else let (h', r) = hO.h_recv f.hst data None in
           bind hO (modify hO (fun f0 -> set_hst hO f0 h')) (fun _ ->
             match r with
             | Some o ->
               (match o with
                | Some key ->
                  bind hO (add_custom hO key data) (fun _ -> ret hO true)
                | None -> ret hO false)
             | None -> fail hO ECustomBroadcast))

(** val custom_loop :
    'a1 handlerOps -> nat -> bytes -> 'a1 option -> ('a1, 'a2, unit) m **)

let rec custom_loop hO fuel data sender =
  match fuel with
  | O ->
    (match data with
     | [] -> ret hO ()
     | _ :: _ -> fail hO EMalformedPacket)
  | S fuel' ->
    if N.ltb (Npos (XO XH)) (len data)
    then (match get_u16 data with
          | Some p0 ->
            let (pkt_len, rest) = p0 in
            if (||) (N.eqb pkt_len N0) (N.ltb (len rest) pkt_len)
            then fail hO EMalformedPacket
            else let pkt = firstn (N.to_nat pkt_len) rest in
                 bind hO (get hO) (fun f ->
                   let (h', r) = hO.h_recv f.hst pkt sender in
                   bind hO (modify hO (fun f0 -> set_hst hO f0 h')) (fun _ ->
                     bind hO
                       (match r with
                        | Some o ->
                          (match o with
                           | Some key -> add_custom hO key pkt
                           | None -> ret hO ())
                        | None -> fail hO ECustomBroadcast) (fun _ ->
                       custom_loop hO fuel' (skipn (N.to_nat pkt_len) rest)
                         sender)))
          | None -> fail hO EMalformedPacket)
    else (match data with
          | [] -> ret hO ()
          | _ :: _ -> fail hO EMalformedPacket)

(** val handle_custom_broadcasts :
    'a1 handlerOps -> bytes -> 'a1 option -> ('a1, 'a2, unit) m **)

let handle_custom_broadcasts hO data sender =
  match data with
  | [] -> ret hO ()
  | _ :: _ ->
    if N.ltb (len data) (Npos (XI XH))
    then fail hO EMalformedPacket
    else custom_loop hO (length data) data sender

(** val probe_random_member :
    ('a1, 'a2) idOps -> 'a1 codecOps -> 'a1 handlerOps -> oracle -> ('a1,
    'a2, unit) m **)

let probe_random_member iO cO hO rnd =
  bind hO (get hO) (fun f ->
    if negb (conn_eqb f.conn Connected)
    then panic hO PProbeNotConnected
    else let incomplete = negb (probe_validate f.prb) in
         bind hO
           (when0 hO incomplete
             (modify hO (fun f0 -> set_prb hO f0 (probe_clear f0.prb))))
           (fun _ ->
           bind hO (get hO) (fun f0 ->
             let (p', failed) = probe_take_failed f0.prb in
             bind hO (modify hO (fun f1 -> set_prb hO f1 p')) (fun _ ->
               bind hO
                 (match failed with
                  | Some fm ->
                    let as_suspect = { m_id = fm.m_id; m_inc = fm.m_inc;
                      m_state = Suspect }
                    in
                    bind hO (get hO) (fun f1 ->
                      match apply_existing_if iO f1.mems as_suspect (fun _ ->
                              true) with
                      | Some p0 ->
                        let (ms, s) = p0 in
                        bind hO (modify hO (fun f2 -> set_mems hO f2 ms))
                          (fun _ ->
                          bind hO
                            (handle_apply_summary iO cO hO s as_suspect true)
                            (fun _ ->
                            bind hO (get hO) (fun f2 ->
                              when0 hO s.is_active_now
                                (emit hO (Submit ((TChangeSuspectToDown
                                  (fm.m_id, fm.m_inc, f2.token)),
                                  f2.cfg.suspect_to_down_after))))))
                      | None -> ret hO ())
                  | None -> ret hO ()) (fun _ ->
                 bind hO (get hO) (fun f1 ->
                   bind hO
                     (with_ctr hO (fun k -> members_next rnd f1.mems k))
                     (fun r ->
                     let (ms, chosen) = r in
                     bind hO (modify hO (fun f2 -> set_mems hO f2 ms))
                       (fun _ ->
                       bind hO
                         (match chosen with
                          | Some m0 ->
                            bind hO (get hO) (fun f2 ->
                              let (p'0, n0) = probe_start f2.prb m0 in
                              bind hO
                                (modify hO (fun f3 -> set_prb hO f3 p'0))
                                (fun _ ->
                                bind hO
                                  (send_message iO cO hO rnd m0.m_id (Ping
                                    n0)) (fun _ ->
                                  bind hO (get hO) (fun f3 ->
                                    emit hO (Submit ((TSendIndirectProbe
                                      (m0.m_id, f3.token)), f3.cfg.probe_rtt))))))
                          | None -> ret hO ()) (fun _ ->
                         bind hO (get hO) (fun f2 ->
                           bind hO
                             (emit hO (Submit ((TProbeRandomMember f2.token),
                               f2.cfg.probe_period))) (fun _ ->
                             if incomplete
                             then fail hO EIncompleteProbeCycle
                             else ret hO ())))))))))))

(** val indirect_loop :
    ('a1, 'a2) idOps -> 'a1 codecOps -> 'a1 handlerOps -> oracle -> 'a1 ->
    'a1 member list -> ('a1, 'a2, unit) m **)

let indirect_loop iO cO hO rnd probed l =
  forM_ hO l (fun m0 ->
    bind hO (get hO) (fun f ->
      match probe_expect_indirect_ack iO f.prb m0.m_id with
      | Some p' ->
        bind hO (modify hO (fun f0 -> set_prb hO f0 p')) (fun _ ->
          send_message iO cO hO rnd m0.m_id (PingReq (probed, p'.p_number)))
      | None -> panic hO PExpectIndirectIsTarget))

(** val periodic_guard : 'a1 handlerOps -> n -> ('a1, 'a2) foca -> bool **)

let periodic_guard _ tok f =
  (&&) (N.eqb tok f.token) (conn_eqb f.conn Connected)

(** val handle_timer :
    ('a1, 'a2) idOps -> 'a1 codecOps -> 'a1 handlerOps -> oracle -> 'a1 timer
    -> ('a1, 'a2, unit) m **)

let handle_timer iO cO hO rnd t =
  bind hO (get hO) (fun f ->
    match t with
    | TProbeRandomMember tok ->
      if N.eqb tok f.token
      then if negb (conn_eqb f.conn Connected)
           then fail hO ENotConnected
           else probe_random_member iO cO hO rnd
      else ret hO ()
    | TSendIndirectProbe (probed, tok) ->
      if negb (N.eqb tok f.token)
      then ret hO ()
      else bind hO
             (modify hO (fun f0 -> set_prb hO f0 (probe_mark_reached f0.prb)))
             (fun _ ->
             if negb (probe_is_probing iO f.prb probed)
             then ret hO ()
             else if probe_succeeded f.prb
                  then ret hO ()
                  else if negb (is_active_id iO f.mems probed)
                       then ret hO ()
                       else bind hO
                              (choose_active hO rnd f.cfg.num_indirect_probes
                                (fun c -> negb (iO.id_eqb c probed)))
                              (fun chosen ->
                              indirect_loop iO cO hO rnd probed (rev chosen)))
    | TChangeSuspectToDown (mid, inc, tok) ->
      if negb (N.eqb f.token tok)
      then ret hO ()
      else let as_down = { m_id = mid; m_inc = inc; m_state = Down } in
           (match apply_existing_if iO f.mems as_down (fun m0 ->
                    N.eqb m0.m_inc inc) with
            | Some p0 ->
              let (ms, s) = p0 in
              bind hO (modify hO (fun f0 -> set_mems hO f0 ms)) (fun _ ->
                bind hO (handle_apply_summary iO cO hO s as_down true)
                  (fun _ ->
                  bind hO (adjust_connection_state hO) (fun _ ->
                    when0 hO f.cfg.notify_down_members
                      (send_message iO cO hO rnd mid TurnUndead))))
            | None -> ret hO ())
    | TPeriodicAnnounce tok ->
      if periodic_guard hO tok f
      then (match f.cfg.periodic_announce with
            | Some p0 ->
              let (freq, n0) = p0 in
              bind hO (emit hO (Submit ((TPeriodicAnnounce f.token), freq)))
                (fun _ -> choose_and_send iO cO hO rnd n0 Announce)
            | None -> ret hO ())
      else ret hO ()
    | TPeriodicAnnounceDown tok ->
      if periodic_guard hO tok f
      then (match f.cfg.periodic_announce_down with
            | Some p0 ->
              let (freq, n0) = p0 in
              bind hO
                (emit hO (Submit ((TPeriodicAnnounceDown f.token), freq)))
                (fun _ -> announce_to_down iO cO hO rnd n0)
            | None -> ret hO ())
      else ret hO ()
    | TPeriodicGossip tok ->
      if periodic_guard hO tok f
      then (match f.cfg.periodic_gossip with
            | Some p0 ->
              let (freq, n0) = p0 in
              bind hO (emit hO (Submit ((TPeriodicGossip f.token), freq)))
                (fun _ ->
                match f.updates with
                | [] ->
                  (match f.customs with
                   | [] -> ret hO ()
                   | _ :: _ -> choose_and_send iO cO hO rnd n0 Gossip)
                | _ :: _ -> choose_and_send iO cO hO rnd n0 Gossip)
            | None -> ret hO ())
      else ret hO ()
    | TRemoveDown down ->
      modify hO (fun f0 ->
        set_mems hO f0 (fst (remove_if_down iO f0.mems down))))

(** val is_some : 'a1 option -> bool **)

let is_some = function
| Some _ -> true
| None -> false

(** val set_config : 'a1 handlerOps -> config -> ('a1, 'a2, unit) m **)

let set_config hO c =
  bind hO (get hO) (fun f ->
    let old = f.cfg in
    if (||)
         ((||)
           ((||)
             ((||) (negb (N.eqb old.probe_period c.probe_period))
               (negb (N.eqb old.probe_rtt c.probe_rtt)))
             ((&&) (negb (is_some old.periodic_announce))
               (is_some c.periodic_announce)))
           ((&&) (negb (is_some old.periodic_announce_down))
             (is_some c.periodic_announce_down)))
         ((&&) (negb (is_some old.periodic_gossip))
           (is_some c.periodic_gossip))
    then fail hO EInvalidConfig
    else modify hO (fun f0 -> set_cfg hO f0 c))

(** val reuse_down_identity : 'a1 handlerOps -> ('a1, 'a2, unit) m **)

let reuse_down_identity hO =
  bind hO (get hO) (fun f ->
    if negb (conn_eqb f.conn Undead) then fail hO ENotUndead else reset hO)

(** val dec_members :
    'a1 codecOps -> nat -> bytes -> ('a1 member list * bytes) option **)

let rec dec_members cO n0 b =
  match n0 with
  | O -> Some ([], b)
  | S n' ->
    (match cO.dec_mem b with
     | Some p0 ->
       let (m0, r) = p0 in
       (match dec_members cO n' r with
        | Some p1 -> let (l, r') = p1 in Some ((m0 :: l), r')
        | None -> None)
     | None -> None)

(** val accept_payload :
    ('a1, 'a2) idOps -> 'a1 handlerOps -> ('a1, 'a2) foca -> 'a1 header ->
    bool **)

let accept_payload iO _ f h =
  (||) (iO.id_eqb h.h_dst f.identity)
    ((&&) (message_eqb iO.id_eqb h.h_msg Announce)
      (iO.addr_eqb (iO.addr_of f.identity) (iO.addr_of h.h_dst)))

(** val react :
    ('a1, 'a2) idOps -> 'a1 codecOps -> 'a1 handlerOps -> oracle -> 'a1 ->
    'a1 message -> ('a1, 'a2, unit) m **)

let react iO cO hO rnd src msg =
  bind hO (get hO) (fun f ->
    match msg with
    | Ping n0 -> send_message iO cO hO rnd src (Ack n0)
    | Ack n0 ->
      modify hO (fun f0 ->
        set_prb hO f0 (fst (probe_receive_ack iO f0.prb src n0)))
    | PingReq (target, n0) ->
      if iO.id_eqb target f.identity
      then fail hO EIndirectForOurselves
      else send_message iO cO hO rnd target (IndirectPing (src, n0))
    | IndirectPing (origin, n0) ->
      if iO.id_eqb origin f.identity
      then fail hO EIndirectForOurselves
      else send_message iO cO hO rnd src (IndirectAck (origin, n0))
    | IndirectAck (target, n0) ->
      if iO.id_eqb target f.identity
      then fail hO EIndirectForOurselves
      else send_message iO cO hO rnd target (ForwardedAck (src, n0))
    | ForwardedAck (origin, n0) ->
      if iO.id_eqb origin f.identity
      then fail hO EIndirectForOurselves
      else modify hO (fun f0 ->
             set_prb hO f0 (fst (probe_receive_indirect_ack iO f0.prb src n0)))
    | Announce -> send_message iO cO hO rnd src Feed
    | TurnUndead -> handle_self_update iO cO hO rnd N0 Down
    | _ -> ret hO ())

(** val handle_data :
    ('a1, 'a2) idOps -> 'a1 codecOps -> 'a1 handlerOps -> oracle -> bytes ->
    ('a1, 'a2, unit) m **)

let handle_data iO cO hO rnd data =
  bind hO (get hO) (fun f ->
    if N.ltb f.cfg.max_packet_size (len data)
    then fail hO EDataTooBig
    else (match cO.dec_hdr data with
          | Some p0 ->
            let (h, rest) = p0 in
            if (||) (iO.id_eqb h.h_src f.identity)
                 (iO.addr_eqb (iO.addr_of h.h_src) (iO.addr_of f.identity))
            then fail hO EDataFromOurselves
            else let remaining = len rest in
                 if (||) (N.eqb remaining (Npos XH))
                      ((&&) (message_eqb iO.id_eqb h.h_msg Announce)
                        (N.ltb N0 remaining))
                 then fail hO EMalformedPacket
                 else if negb (accept_payload iO hO f h)
                      then ret hO ()
                      else bind hO
                             (if (&&) (N.leb (Npos (XO XH)) remaining)
                                   (negb
                                     (message_eqb iO.id_eqb h.h_msg Broadcast))
                              then (match get_u16 rest with
                                    | Some p1 ->
                                      let (n0, r) = p1 in
                                      (match dec_members cO (N.to_nat n0) r with
                                       | Some x -> ret hO x
                                       | None -> fail hO EDecode)
                                    | None -> fail hO EMalformedPacket)
                              else ret hO ([], rest)) (fun ups ->
                             let (ul, tail) = ups in
                             let src = h.h_src in
                             bind hO
                               (apply_update iO cO hO rnd { m_id = src;
                                 m_inc = h.h_src_inc; m_state = Alive } true)
                               (fun sender_is_active ->
                               if negb sender_is_active
                               then bind hO
                                      (when0 hO
                                        (message_eqb iO.id_eqb h.h_msg
                                          TurnUndead)
                                        (handle_self_update iO cO hO rnd N0
                                          Down)) (fun _ ->
                                      bind hO (get hO) (fun f0 ->
                                        when0 hO f0.cfg.notify_down_members
                                          (send_message iO cO hO rnd src
                                            TurnUndead)))
                               else bind hO (apply_many iO cO hO rnd ul true)
                                      (fun _ ->
                                      bind hO
                                        (attempt hO
                                          (handle_custom_broadcasts hO tail
                                            (Some src))) (fun cres ->
                                        bind hO (get hO) (fun f0 ->
                                          if negb (conn_eqb f0.conn Connected)
                                          then (match cres with
                                                | Some e -> fail hO e
                                                | None -> ret hO ())
                                          else bind hO
                                                 (react iO cO hO rnd src
                                                   h.h_msg) (fun _ ->
                                                 match cres with
                                                 | Some e -> fail hO e
                                                 | None -> ret hO ()))))))
          | None -> fail hO EDecode))

type 'id input =
| IData of bytes
| ITimer of 'id timer
| IApplyMany of 'id member list * bool
| IAnnounce of 'id
| IGossip
| IBroadcast
| ILeave
| IChangeIdentity of 'id
| IReuseDown
| ISetConfig of config
| IAddBroadcast of bytes

type result =
| Done
| DoneBool of bool
| Failed of error
| Panicked of site

(** val to_result : ('a1 -> result) -> 'a1 res -> result **)

let to_result g = function
| ROk a -> g a
| RErr e -> Failed e
| RPanic s -> Panicked s

(** val run_unit :
    'a1 handlerOps -> ('a1, 'a2, unit) m -> ('a1, 'a2) foca -> ((('a1, 'a2)
    foca * 'a1 effect list) * result) * n **)

let run_unit _ m0 f =
  let (s, r) = m0 { st = f; out = []; ctr = N0 } in
  (((s.st, s.out), (to_result (fun _ -> Done) r)), s.ctr)

(** val run_bool :
    'a1 handlerOps -> ('a1, 'a2, bool) m -> ('a1, 'a2) foca -> ((('a1, 'a2)
    foca * 'a1 effect list) * result) * n **)

let run_bool _ m0 f =
  let (s, r) = m0 { st = f; out = []; ctr = N0 } in
  (((s.st, s.out), (to_result (fun x -> DoneBool x) r)), s.ctr)

(** val step :
    ('a1, 'a2) idOps -> 'a1 codecOps -> 'a1 handlerOps -> oracle -> ('a1,
    'a2) foca -> 'a1 input -> ((('a1, 'a2) foca * 'a1 effect
    list) * result) * n **)

let step iO cO hO rnd f = function
| IData b -> run_unit hO (handle_data iO cO hO rnd b) f
| ITimer t -> run_unit hO (handle_timer iO cO hO rnd t) f
| IApplyMany (l, b) -> run_unit hO (apply_many iO cO hO rnd l b) f
| IAnnounce d -> run_unit hO (send_message iO cO hO rnd d Announce) f
| IGossip -> run_unit hO (gossip iO cO hO rnd) f
| IBroadcast -> run_unit hO (broadcast iO cO hO rnd) f
| ILeave -> run_unit hO (leave_cluster iO cO hO rnd) f
| IChangeIdentity i0 -> run_unit hO (change_identity iO cO hO rnd i0) f
| IReuseDown -> run_unit hO (reuse_down_identity hO) f
| ISetConfig c -> run_unit hO (set_config hO c) f
| IAddBroadcast b -> run_bool hO (add_broadcast hO b) f

type cid = { ca : n; cg : n; ck : n; cpad : n }

(** val cid_eqb : cid -> cid -> bool **)

let cid_eqb x y =
  (&&) ((&&) ((&&) (N.eqb x.ca y.ca) (N.eqb x.cg y.cg)) (N.eqb x.ck y.ck))
    (N.eqb x.cpad y.cpad)

(** val cid_wins : cid -> cid -> bool **)

let cid_wins x y =
  (||) (N.ltb y.cg x.cg)
    ((&&) (N.eqb y.cg x.cg)
      ((||) (N.ltb y.ck x.ck) ((&&) (N.eqb y.ck x.ck) (N.ltb y.cpad x.cpad))))

(** val cid_renew : cid -> cid option **)

let cid_renew x =
  match x.ck with
  | N0 -> None
  | Npos p0 ->
    (match p0 with
     | XI _ ->
       Some { ca = x.ca; cg = (N.sub x.cg (Npos XH)); ck = x.ck; cpad =
         x.cpad }
     | XO p1 ->
       (match p1 with
        | XH -> Some x
        | _ ->
          Some { ca = x.ca; cg = (N.sub x.cg (Npos XH)); ck = x.ck; cpad =
            x.cpad })
     | XH ->
       if N.ltb x.cg (Npos (XI (XI (XI (XI (XI (XI (XI (XI (XI (XI (XI (XI
            (XI (XI (XI XH))))))))))))))))
       then Some { ca = x.ca; cg = (N.add x.cg (Npos XH)); ck = x.ck; cpad =
              x.cpad }
       else None)

(** val cid_ops : (cid, n) idOps **)

let cid_ops =
  { id_eqb = cid_eqb; addr_of = (fun c -> c.ca); addr_eqb = N.eqb; wins =
    cid_wins; renew = cid_renew }

(** val enc_id : cid -> bytes **)

let enc_id i =
  app (u16_be i.ca)
    (app (u16_be i.cg)
      (app (i.ck :: (i.cpad :: []))
        (repeat (Npos (XO (XI (XI (XI (XO (XI (XI XH))))))))
          (N.to_nat i.cpad))))

(** val all_238 : bytes -> bool **)

let rec all_238 = function
| [] -> true
| x :: t ->
  (&&) (N.eqb x (Npos (XO (XI (XI (XI (XO (XI (XI XH))))))))) (all_238 t)

(** val dec_id : bytes -> (cid * bytes) option **)

let dec_id = function
| [] -> None
| a1 :: l ->
  (match l with
   | [] -> None
   | a0 :: l0 ->
     (match l0 with
      | [] -> None
      | g1 :: l1 ->
        (match l1 with
         | [] -> None
         | g0 :: l2 ->
           (match l2 with
            | [] -> None
            | k :: l3 ->
              (match l3 with
               | [] -> None
               | p0 :: r ->
                 if (&&)
                      ((&&) (N.ltb k (Npos (XO (XO XH)))) (N.leb p0 (len r)))
                      (all_238 (firstn (N.to_nat p0) r))
                 then Some ({ ca =
                        (N.add
                          (N.mul a1 (Npos (XO (XO (XO (XO (XO (XO (XO (XO
                            XH)))))))))) a0); cg =
                        (N.add
                          (N.mul g1 (Npos (XO (XO (XO (XO (XO (XO (XO (XO
                            XH)))))))))) g0); ck = k; cpad = p0 },
                        (skipn (N.to_nat p0) r))
                 else None)))))

(** val enc_state : mstate -> n **)

let enc_state = function
| Alive -> N0
| Suspect -> Npos XH
| Down -> Npos (XO XH)

(** val dec_state : n -> mstate option **)

let dec_state = function
| N0 -> Some Alive
| Npos p0 ->
  (match p0 with
   | XI _ -> None
   | XO p1 -> (match p1 with
               | XH -> Some Down
               | _ -> None)
   | XH -> Some Suspect)

(** val c_enc_mem : cid member -> bytes **)

let c_enc_mem m0 =
  app (enc_id m0.m_id) (app (u16_be m0.m_inc) ((enc_state m0.m_state) :: []))

(** val c_dec_mem : bytes -> (cid member * bytes) option **)

let c_dec_mem b =
  match dec_id b with
  | Some p0 ->
    let (i, b0) = p0 in
    (match b0 with
     | [] -> None
     | i1 :: l ->
       (match l with
        | [] -> None
        | i0 :: l0 ->
          (match l0 with
           | [] -> None
           | s :: r ->
             (match dec_state s with
              | Some st0 ->
                Some ({ m_id = i; m_inc =
                  (N.add
                    (N.mul i1 (Npos (XO (XO (XO (XO (XO (XO (XO (XO
                      XH)))))))))) i0); m_state = st0 }, r)
              | None -> None))))
  | None -> None

(** val enc_msg : cid message -> bytes **)

let enc_msg = function
| Ping n0 -> N0 :: (n0 :: [])
| Ack n0 -> (Npos XH) :: (n0 :: [])
| PingReq (i, n0) -> (Npos (XO XH)) :: (app (enc_id i) (n0 :: []))
| IndirectPing (i, n0) -> (Npos (XI XH)) :: (app (enc_id i) (n0 :: []))
| IndirectAck (i, n0) -> (Npos (XO (XO XH))) :: (app (enc_id i) (n0 :: []))
| ForwardedAck (i, n0) -> (Npos (XI (XO XH))) :: (app (enc_id i) (n0 :: []))
| Announce -> (Npos (XO (XI XH))) :: []
| Feed -> (Npos (XI (XI XH))) :: []
| Gossip -> (Npos (XO (XO (XO XH)))) :: []
| Broadcast -> (Npos (XI (XO (XO XH)))) :: []
| TurnUndead -> (Npos (XO (XI (XO XH)))) :: []

(** val dec_msg : bytes -> (cid message * bytes) option **)

let dec_msg = function
| [] -> None
| t :: r ->
  (match t with
   | N0 ->
     (match r with
      | [] ->
        if (&&) (N.leb (Npos (XO XH)) t) (N.leb t (Npos (XI (XO XH))))
        then (match dec_id r with
              | Some p0 ->
                let (i, b0) = p0 in
                (match b0 with
                 | [] -> None
                 | n0 :: r' ->
                   Some
                     ((match t with
                       | N0 -> ForwardedAck (i, n0)
                       | Npos p1 ->
                         (match p1 with
                          | XI p2 ->
                            (match p2 with
                             | XH -> IndirectPing (i, n0)
                             | _ -> ForwardedAck (i, n0))
                          | XO p2 ->
                            (match p2 with
                             | XI _ -> ForwardedAck (i, n0)
                             | XO p3 ->
                               (match p3 with
                                | XH -> IndirectAck (i, n0)
                                | _ -> ForwardedAck (i, n0))
                             | XH -> PingReq (i, n0))
                          | XH -> ForwardedAck (i, n0))), r'))
              | None -> None)
        else None
      | n0 :: r0 -> Some ((Ping n0), r0))
   | Npos p0 ->
     (match p0 with
      | XI p1 ->
        (match p1 with
         | XI p2 ->
           (match p2 with
            | XH -> Some (Feed, r)
            | _ ->
              if (&&) (N.leb (Npos (XO XH)) t) (N.leb t (Npos (XI (XO XH))))
              then (match dec_id r with
                    | Some p3 ->
                      let (i, b0) = p3 in
                      (match b0 with
                       | [] -> None
                       | n0 :: r' ->
                         Some
                           ((match t with
                             | N0 -> ForwardedAck (i, n0)
                             | Npos p4 ->
                               (match p4 with
                                | XI p5 ->
                                  (match p5 with
                                   | XH -> IndirectPing (i, n0)
                                   | _ -> ForwardedAck (i, n0))
                                | XO p5 ->
                                  (match p5 with
                                   | XI _ -> ForwardedAck (i, n0)
                                   | XO p6 ->
                                     (match p6 with
                                      | XH -> IndirectAck (i, n0)
                                      | _ -> ForwardedAck (i, n0))
                                   | XH -> PingReq (i, n0))
                                | XH -> ForwardedAck (i, n0))), r'))
                    | None -> None)
              else None)
         | XO p2 ->
           (match p2 with
            | XO p3 ->
              (match p3 with
               | XH -> Some (Broadcast, r)
               | _ ->
                 if (&&) (N.leb (Npos (XO XH)) t)
                      (N.leb t (Npos (XI (XO XH))))
                 then (match dec_id r with
                       | Some p4 ->
                         let (i, b0) = p4 in
                         (match b0 with
                          | [] -> None
                          | n0 :: r' ->
                            Some
                              ((match t with
                                | N0 -> ForwardedAck (i, n0)
                                | Npos p5 ->
                                  (match p5 with
                                   | XI p6 ->
                                     (match p6 with
                                      | XH -> IndirectPing (i, n0)
                                      | _ -> ForwardedAck (i, n0))
                                   | XO p6 ->
                                     (match p6 with
                                      | XI _ -> ForwardedAck (i, n0)
                                      | XO p7 ->
                                        (match p7 with
                                         | XH -> IndirectAck (i, n0)
                                         | _ -> ForwardedAck (i, n0))
                                      | XH -> PingReq (i, n0))
                                   | XH -> ForwardedAck (i, n0))), r'))
                       | None -> None)
                 else None)
            | _ ->
              if (&&) (N.leb (Npos (XO XH)) t) (N.leb t (Npos (XI (XO XH))))
              then (match dec_id r with
                    | Some p3 ->
                      let (i, b0) = p3 in
                      (match b0 with
                       | [] -> None
                       | n0 :: r' ->
                         Some
                           ((match t with
                             | N0 -> ForwardedAck (i, n0)
                             | Npos p4 ->
                               (match p4 with
                                | XI p5 ->
                                  (match p5 with
                                   | XH -> IndirectPing (i, n0)
                                   | _ -> ForwardedAck (i, n0))
                                | XO p5 ->
                                  (match p5 with
                                   | XI _ -> ForwardedAck (i, n0)
                                   | XO p6 ->
                                     (match p6 with
                                      | XH -> IndirectAck (i, n0)
                                      | _ -> ForwardedAck (i, n0))
                                   | XH -> PingReq (i, n0))
                                | XH -> ForwardedAck (i, n0))), r'))
                    | None -> None)
              else None)
         | XH ->
           if (&&) (N.leb (Npos (XO XH)) t) (N.leb t (Npos (XI (XO XH))))
           then (match dec_id r with
                 | Some p2 ->
                   let (i, b0) = p2 in
                   (match b0 with
                    | [] -> None
                    | n0 :: r' ->
                      Some
                        ((match t with
                          | N0 -> ForwardedAck (i, n0)
                          | Npos p3 ->
                            (match p3 with
                             | XI p4 ->
                               (match p4 with
                                | XH -> IndirectPing (i, n0)
                                | _ -> ForwardedAck (i, n0))
                             | XO p4 ->
                               (match p4 with
                                | XI _ -> ForwardedAck (i, n0)
                                | XO p5 ->
                                  (match p5 with
                                   | XH -> IndirectAck (i, n0)
                                   | _ -> ForwardedAck (i, n0))
                                | XH -> PingReq (i, n0))
                             | XH -> ForwardedAck (i, n0))), r'))
                 | None -> None)
           else None)
      | XO p1 ->
        (match p1 with
         | XI p2 ->
           (match p2 with
            | XI _ ->
              if (&&) (N.leb (Npos (XO XH)) t) (N.leb t (Npos (XI (XO XH))))
              then (match dec_id r with
                    | Some p3 ->
                      let (i, b0) = p3 in
                      (match b0 with
                       | [] -> None
                       | n0 :: r' ->
                         Some
                           ((match t with
                             | N0 -> ForwardedAck (i, n0)
                             | Npos p4 ->
                               (match p4 with
                                | XI p5 ->
                                  (match p5 with
                                   | XH -> IndirectPing (i, n0)
                                   | _ -> ForwardedAck (i, n0))
                                | XO p5 ->
                                  (match p5 with
                                   | XI _ -> ForwardedAck (i, n0)
                                   | XO p6 ->
                                     (match p6 with
                                      | XH -> IndirectAck (i, n0)
                                      | _ -> ForwardedAck (i, n0))
                                   | XH -> PingReq (i, n0))
                                | XH -> ForwardedAck (i, n0))), r'))
                    | None -> None)
              else None
            | XO p3 ->
              (match p3 with
               | XH -> Some (TurnUndead, r)
               | _ ->
                 if (&&) (N.leb (Npos (XO XH)) t)
                      (N.leb t (Npos (XI (XO XH))))
                 then (match dec_id r with
                       | Some p4 ->
                         let (i, b0) = p4 in
                         (match b0 with
                          | [] -> None
                          | n0 :: r' ->
                            Some
                              ((match t with
                                | N0 -> ForwardedAck (i, n0)
                                | Npos p5 ->
                                  (match p5 with
                                   | XI p6 ->
                                     (match p6 with
                                      | XH -> IndirectPing (i, n0)
                                      | _ -> ForwardedAck (i, n0))
                                   | XO p6 ->
                                     (match p6 with
                                      | XI _ -> ForwardedAck (i, n0)
                                      | XO p7 ->
                                        (match p7 with
                                         | XH -> IndirectAck (i, n0)
                                         | _ -> ForwardedAck (i, n0))
                                      | XH -> PingReq (i, n0))
                                   | XH -> ForwardedAck (i, n0))), r'))
                       | None -> None)
                 else None)
            | XH -> Some (Announce, r))
         | XO p2 ->
           (match p2 with
            | XO p3 ->
              (match p3 with
               | XH -> Some (Gossip, r)
               | _ ->
                 if (&&) (N.leb (Npos (XO XH)) t)
                      (N.leb t (Npos (XI (XO XH))))
                 then (match dec_id r with
                       | Some p4 ->
                         let (i, b0) = p4 in
                         (match b0 with
                          | [] -> None
                          | n0 :: r' ->
                            Some
                              ((match t with
                                | N0 -> ForwardedAck (i, n0)
                                | Npos p5 ->
                                  (match p5 with
                                   | XI p6 ->
                                     (match p6 with
                                      | XH -> IndirectPing (i, n0)
                                      | _ -> ForwardedAck (i, n0))
                                   | XO p6 ->
                                     (match p6 with
                                      | XI _ -> ForwardedAck (i, n0)
                                      | XO p7 ->
                                        (match p7 with
                                         | XH -> IndirectAck (i, n0)
                                         | _ -> ForwardedAck (i, n0))
                                      | XH -> PingReq (i, n0))
                                   | XH -> ForwardedAck (i, n0))), r'))
                       | None -> None)
                 else None)
            | _ ->
              if (&&) (N.leb (Npos (XO XH)) t) (N.leb t (Npos (XI (XO XH))))
              then (match dec_id r with
                    | Some p3 ->
                      let (i, b0) = p3 in
                      (match b0 with
                       | [] -> None
                       | n0 :: r' ->
                         Some
                           ((match t with
                             | N0 -> ForwardedAck (i, n0)
                             | Npos p4 ->
                               (match p4 with
                                | XI p5 ->
                                  (match p5 with
                                   | XH -> IndirectPing (i, n0)
                                   | _ -> ForwardedAck (i, n0))
                                | XO p5 ->
                                  (match p5 with
                                   | XI _ -> ForwardedAck (i, n0)
                                   | XO p6 ->
                                     (match p6 with
                                      | XH -> IndirectAck (i, n0)
                                      | _ -> ForwardedAck (i, n0))
                                   | XH -> PingReq (i, n0))
                                | XH -> ForwardedAck (i, n0))), r'))
                    | None -> None)
              else None)
         | XH ->
           if (&&) (N.leb (Npos (XO XH)) t) (N.leb t (Npos (XI (XO XH))))
           then (match dec_id r with
                 | Some p2 ->
                   let (i, b0) = p2 in
                   (match b0 with
                    | [] -> None
                    | n0 :: r' ->
                      Some
                        ((match t with
                          | N0 -> ForwardedAck (i, n0)
                          | Npos p3 ->
                            (match p3 with
                             | XI p4 ->
                               (match p4 with
                                | XH -> IndirectPing (i, n0)
                                | _ -> ForwardedAck (i, n0))
                             | XO p4 ->
                               (match p4 with
                                | XI _ -> ForwardedAck (i, n0)
                                | XO p5 ->
                                  (match p5 with
                                   | XH -> IndirectAck (i, n0)
                                   | _ -> ForwardedAck (i, n0))
                                | XH -> PingReq (i, n0))
                             | XH -> ForwardedAck (i, n0))), r'))
                 | None -> None)
           else None)
      | XH ->
        (match r with
         | [] ->
           if (&&) (N.leb (Npos (XO XH)) t) (N.leb t (Npos (XI (XO XH))))
           then (match dec_id r with
                 | Some p1 ->
                   let (i, b0) = p1 in
                   (match b0 with
                    | [] -> None
                    | n0 :: r' ->
                      Some
                        ((match t with
                          | N0 -> ForwardedAck (i, n0)
                          | Npos p2 ->
                            (match p2 with
                             | XI p3 ->
                               (match p3 with
                                | XH -> IndirectPing (i, n0)
                                | _ -> ForwardedAck (i, n0))
                             | XO p3 ->
                               (match p3 with
                                | XI _ -> ForwardedAck (i, n0)
                                | XO p4 ->
                                  (match p4 with
                                   | XH -> IndirectAck (i, n0)
                                   | _ -> ForwardedAck (i, n0))
                                | XH -> PingReq (i, n0))
                             | XH -> ForwardedAck (i, n0))), r'))
                 | None -> None)
           else None
         | n0 :: r0 -> Some ((Ack n0), r0))))

(** val c_enc_hdr : cid header -> bytes **)

let c_enc_hdr h =
  app (enc_id h.h_src)
    (app (u16_be h.h_src_inc) (app (enc_id h.h_dst) (enc_msg h.h_msg)))

(** val c_dec_hdr : bytes -> (cid header * bytes) option **)

let c_dec_hdr b =
  match dec_id b with
  | Some p0 ->
    let (src, b0) = p0 in
    (match b0 with
     | [] -> None
     | i1 :: l ->
       (match l with
        | [] -> None
        | i0 :: r ->
          (match dec_id r with
           | Some p1 ->
             let (dst, r') = p1 in
             (match dec_msg r' with
              | Some p2 ->
                let (m0, r'') = p2 in
                Some ({ h_src = src; h_src_inc =
                (N.add
                  (N.mul i1 (Npos (XO (XO (XO (XO (XO (XO (XO (XO XH))))))))))
                  i0); h_dst = dst; h_msg = m0 }, r'')
              | None -> None)
           | None -> None)))
  | None -> None

(** val cid_codec : cid codecOps **)

let cid_codec =
  { enc_hdr = c_enc_hdr; dec_hdr = c_dec_hdr; enc_mem = c_enc_mem; dec_mem =
    c_dec_mem }

type chst = { ch_mode : n; ch_mask : n; ch_seen : (n * n) list }

type ckey = (n * n) * n

(** val seen_lookup : n -> (n * n) list -> n option **)

let rec seen_lookup k = function
| [] -> None
| p0 :: t ->
  let (k', v) = p0 in if N.eqb k k' then Some v else seen_lookup k t

(** val seen_set : n -> n -> (n * n) list -> (n * n) list **)

let rec seen_set k v = function
| [] -> (k, v) :: []
| p0 :: t ->
  let (k', v') = p0 in
  if N.eqb k k' then (k, v) :: t else (k', v') :: (seen_set k v t)

(** val c_recv : chst -> bytes -> cid option -> chst * ckey option option **)

let c_recv h data _ =
  match data with
  | [] -> (h, None)
  | k :: r ->
    if N.eqb k (Npos (XI (XI (XI (XI (XI (XI (XI XH))))))))
    then (h, None)
    else let v = match r with
                 | [] -> N0
                 | v :: _ -> v in
         let fresh =
           match seen_lookup k h.ch_seen with
           | Some v' -> N.ltb v' v
           | None -> true
         in
         if fresh
         then ({ ch_mode = h.ch_mode; ch_mask = h.ch_mask; ch_seen =
                (seen_set k v h.ch_seen) }, (Some (Some ((k, v), h.ch_mode))))
         else (h, (Some None))

(** val c_should_add : chst -> cid -> bool **)

let c_should_add h i =
  N.testbit h.ch_mask (N.modulo i.ca (Npos (XO (XO (XO XH)))))

(** val c_inval : ckey -> ckey -> bool **)

let c_inval a b =
  let (p0, m0) = a in
  let (k1, v1) = p0 in
  let (p1, _) = b in
  let (k2, v2) = p1 in
  (match m0 with
   | N0 -> N.eqb k1 k2
   | Npos p2 ->
     (match p2 with
      | XI _ -> true
      | XO p3 -> (match p3 with
                  | XH -> false
                  | _ -> true)
      | XH -> (&&) (N.eqb k1 k2) (N.leb v2 v1)))

(** val cid_handler : cid handlerOps **)

let cid_handler =
  { h_recv = (Obj.magic c_recv); h_should_add = (Obj.magic c_should_add);
    h_inval = (Obj.magic c_inval) }

type cfoca = (cid, n) foca

type cinput = cid input

(** val cstep :
    oracle -> cfoca -> cinput -> (((cid, n) foca * cid effect
    list) * result) * n **)

let cstep rnd f i =
  step cid_ops cid_codec cid_handler rnd f i

type 'a p = n list -> ('a * n list) option

(** val pret : 'a1 -> 'a1 p **)

let pret a l =
  Some (a, l)

(** val pbind : 'a1 p -> ('a1 -> 'a2 p) -> 'a2 p **)

let pbind p0 f l =
  match p0 l with
  | Some p1 -> let (a, r) = p1 in f a r
  | None -> None

(** val pN : n p **)

let pN = function
| [] -> None
| x :: r -> Some (x, r)

(** val pbool : bool p **)

let pbool =
  pbind pN (fun x -> pret (negb (N.eqb x N0)))

(** val prep : nat -> 'a1 p -> 'a1 list p **)

let rec prep n0 p0 =
  match n0 with
  | O -> pret []
  | S n' -> pbind p0 (fun x -> pbind (prep n' p0) (fun xs -> pret (x :: xs)))

(** val plist : 'a1 p -> 'a1 list p **)

let plist p0 =
  pbind pN (fun n0 -> prep (N.to_nat n0) p0)

(** val pbytes : bytes p **)

let pbytes =
  plist pN

(** val popt : 'a1 p -> 'a1 option p **)

let popt p0 =
  pbind pN (fun t ->
    if N.eqb t N0 then pret None else pbind p0 (fun x -> pret (Some x)))

(** val pid : cid p **)

let pid =
  pbind pN (fun a ->
    pbind pN (fun g ->
      pbind pN (fun k ->
        pbind pN (fun p0 -> pret { ca = a; cg = g; ck = k; cpad = p0 }))))

(** val pstate : mstate p **)

let pstate =
  pbind pN (fun s ->
    pret
      (match s with
       | N0 -> Alive
       | Npos p0 -> (match p0 with
                     | XH -> Suspect
                     | _ -> Down)))

(** val pmember : cid member p **)

let pmember =
  pbind pid (fun i ->
    pbind pN (fun inc ->
      pbind pstate (fun s -> pret { m_id = i; m_inc = inc; m_state = s })))

(** val ppair : (n * n) p **)

let ppair =
  pbind pN (fun a -> pbind pN (fun b -> pret (a, b)))

(** val pconfig : config p **)

let pconfig =
  pbind pN (fun a ->
    pbind pN (fun b ->
      pbind pN (fun c ->
        pbind pN (fun d ->
          pbind pN (fun e ->
            pbind pN (fun f ->
              pbind pN (fun g ->
                pbind pbool (fun h ->
                  pbind (popt ppair) (fun i ->
                    pbind (popt ppair) (fun j ->
                      pbind (popt ppair) (fun k ->
                        pret { probe_period = a; probe_rtt = b;
                          num_indirect_probes = c; max_transmissions = d;
                          suspect_to_down_after = e; remove_down_after = f;
                          max_packet_size = g; notify_down_members = h;
                          periodic_announce = i; periodic_announce_down = j;
                          periodic_gossip = k })))))))))))

(** val ptimer : cid timer p **)

let ptimer =
  pbind pN (fun t ->
    match t with
    | N0 -> pbind pN (fun k -> pret (TProbeRandomMember k))
    | Npos p0 ->
      (match p0 with
       | XI p1 ->
         (match p1 with
          | XI _ -> pbind pid (fun i -> pret (TRemoveDown i))
          | XO p2 ->
            (match p2 with
             | XH -> pbind pN (fun k -> pret (TPeriodicGossip k))
             | _ -> pbind pid (fun i -> pret (TRemoveDown i)))
          | XH -> pbind pN (fun k -> pret (TPeriodicAnnounce k)))
       | XO p1 ->
         (match p1 with
          | XI _ -> pbind pid (fun i -> pret (TRemoveDown i))
          | XO p2 ->
            (match p2 with
             | XH -> pbind pN (fun k -> pret (TPeriodicAnnounceDown k))
             | _ -> pbind pid (fun i -> pret (TRemoveDown i)))
          | XH ->
            pbind pid (fun i ->
              pbind pN (fun n0 ->
                pbind pN (fun k -> pret (TChangeSuspectToDown (i, n0, k))))))
       | XH ->
         pbind pid (fun i ->
           pbind pN (fun k -> pret (TSendIndirectProbe (i, k))))))

(** val pconn : conn_state p **)

let pconn =
  pbind pN (fun c ->
    pret
      (match c with
       | N0 -> Disconnected
       | Npos p0 -> (match p0 with
                     | XH -> Connected
                     | _ -> Undead)))

(** val pmembers : cid members p **)

let pmembers =
  pbind (plist pmember) (fun l ->
    pbind pN (fun c ->
      pbind pN (fun n0 -> pret { inner = l; cursor = c; num_active = n0 })))

(** val pprobe : cid probe p **)

let pprobe =
  pbind (popt pmember) (fun d ->
    pbind (plist pid) (fun ind ->
      pbind pN (fun n0 ->
        pbind pbool (fun ok ->
          pbind pN (fun cnt ->
            pbind pbool (fun r ->
              pret { p_direct = d; p_indirect = ind; p_number = n0;
                p_direct_ack_ok = ok; p_indirect_ack_count = cnt; p_reached =
                r }))))))

(** val pupd : n entry p **)

let pupd =
  pbind pN (fun tx ->
    pbind pN (fun a ->
      pbind pbytes (fun d -> pret { e_tx = tx; e_data = d; e_key = a })))

(** val pcust : ckey entry p **)

let pcust =
  pbind pN (fun tx ->
    pbind pN (fun k ->
      pbind pN (fun v ->
        pbind pN (fun m0 ->
          pbind pbytes (fun d ->
            pret { e_tx = tx; e_data = d; e_key = ((k, v), m0) })))))

(** val phst : chst p **)

let phst =
  pbind pN (fun m0 ->
    pbind pN (fun mask0 ->
      pbind (plist ppair) (fun seen ->
        pret { ch_mode = m0; ch_mask = mask0; ch_seen = seen })))

(** val pfoca : cfoca p **)

let pfoca =
  pbind pid (fun i ->
    pbind pN (fun inc ->
      pbind pconfig (fun c ->
        pbind pconn (fun cn ->
          pbind pN (fun tok ->
            pbind pmembers (fun ms ->
              pbind pprobe (fun pr ->
                pbind (plist pupd) (fun us ->
                  pbind (plist (Obj.magic pcust)) (fun cs ->
                    pbind (Obj.magic phst) (fun h ->
                      pbind pN (fun cap ->
                        pret { identity = i; incarnation = inc; cfg = c;
                          conn = cn; token = tok; mems = ms; prb = pr;
                          updates = us; customs = cs; hst = h; send_cap =
                          cap })))))))))))

(** val pinput : cinput p **)

let pinput =
  pbind pN (fun t ->
    match t with
    | N0 -> pbind pbytes (fun b -> pret (IData b))
    | Npos p0 ->
      (match p0 with
       | XI p1 ->
         (match p1 with
          | XI p2 ->
            (match p2 with
             | XH -> pbind pid (fun d -> pret (IChangeIdentity d))
             | _ -> pbind pbytes (fun b -> pret (IAddBroadcast b)))
          | XO p2 ->
            (match p2 with
             | XI _ -> pbind pbytes (fun b -> pret (IAddBroadcast b))
             | XO p3 ->
               (match p3 with
                | XH -> pbind pconfig (fun c -> pret (ISetConfig c))
                | _ -> pbind pbytes (fun b -> pret (IAddBroadcast b)))
             | XH -> pret IBroadcast)
          | XH -> pbind pid (fun d -> pret (IAnnounce d)))
       | XO p1 ->
         (match p1 with
          | XI p2 ->
            (match p2 with
             | XH -> pret ILeave
             | _ -> pbind pbytes (fun b -> pret (IAddBroadcast b)))
          | XO p2 ->
            (match p2 with
             | XI _ -> pbind pbytes (fun b -> pret (IAddBroadcast b))
             | XO p3 ->
               (match p3 with
                | XH -> pret IReuseDown
                | _ -> pbind pbytes (fun b -> pret (IAddBroadcast b)))
             | XH -> pret IGossip)
          | XH ->
            pbind (plist pmember) (fun l ->
              pbind pbool (fun b -> pret (IApplyMany (l, b)))))
       | XH -> pbind ptimer (fun x -> pret (ITimer x))))

(** val sbool : bool -> n list **)

let sbool b =
  (if b then Npos XH else N0) :: []

(** val slist : ('a1 -> n list) -> 'a1 list -> n list **)

let slist s l =
  (len l) :: (flat_map s l)

(** val sbytes : bytes -> n list **)

let sbytes b =
  (len b) :: b

(** val sopt : ('a1 -> n list) -> 'a1 option -> n list **)

let sopt s = function
| Some x -> (Npos XH) :: (s x)
| None -> N0 :: []

(** val sid : cid -> n list **)

let sid i =
  i.ca :: (i.cg :: (i.ck :: (i.cpad :: [])))

(** val smember : cid member -> n list **)

let smember m0 =
  app (sid m0.m_id) (m0.m_inc :: ((enc_state m0.m_state) :: []))

(** val spair : (n * n) -> n list **)

let spair p0 =
  (fst p0) :: ((snd p0) :: [])

(** val sconfig : config -> n list **)

let sconfig c =
  app
    (c.probe_period :: (c.probe_rtt :: (c.num_indirect_probes :: (c.max_transmissions :: (c.suspect_to_down_after :: (c.remove_down_after :: (c.max_packet_size :: [])))))))
    (app (sbool c.notify_down_members)
      (app (sopt spair c.periodic_announce)
        (app (sopt spair c.periodic_announce_down)
          (sopt spair c.periodic_gossip))))

(** val stimer : cid timer -> n list **)

let stimer = function
| TProbeRandomMember k -> N0 :: (k :: [])
| TSendIndirectProbe (i, k) -> (Npos XH) :: (app (sid i) (k :: []))
| TChangeSuspectToDown (i, n0, k) ->
  (Npos (XO XH)) :: (app (sid i) (n0 :: (k :: [])))
| TPeriodicAnnounce k -> (Npos (XI XH)) :: (k :: [])
| TPeriodicAnnounceDown k -> (Npos (XO (XO XH))) :: (k :: [])
| TPeriodicGossip k -> (Npos (XI (XO XH))) :: (k :: [])
| TRemoveDown i -> (Npos (XO (XI XH))) :: (sid i)

(** val sconn : conn_state -> n list **)

let sconn c =
  (match c with
   | Disconnected -> N0
   | Connected -> Npos XH
   | Undead -> Npos (XO XH)) :: []

(** val sfoca : cfoca -> n list **)

let sfoca f =
  app (sid f.identity)
    (app (f.incarnation :: [])
      (app (sconfig f.cfg)
        (app (sconn f.conn)
          (app (f.token :: [])
            (app (slist smember f.mems.inner)
              (app (f.mems.cursor :: (f.mems.num_active :: []))
                (app (sopt smember f.prb.p_direct)
                  (app (slist sid f.prb.p_indirect)
                    (app (f.prb.p_number :: [])
                      (app (sbool f.prb.p_direct_ack_ok)
                        (app (f.prb.p_indirect_ack_count :: [])
                          (app (sbool f.prb.p_reached)
                            (app
                              (slist (fun e ->
                                app (e.e_tx :: (e.e_key :: []))
                                  (sbytes e.e_data)) f.updates)
                              (app
                                (slist (fun e ->
                                  let (y, m0) = (Obj.magic e).e_key in
                                  let (k, v) = y in
                                  app (e.e_tx :: (k :: (v :: (m0 :: []))))
                                    (sbytes e.e_data)) f.customs)
                                (app
                                  ((Obj.magic f.hst).ch_mode :: ((Obj.magic
                                                                   f.hst).ch_mask :: []))
                                  (app
                                    (slist spair (Obj.magic f.hst).ch_seen)
                                    (f.send_cap :: [])))))))))))))))))

(** val snote : cid notification -> n list **)

let snote = function
| NMemberUp i -> N0 :: (sid i)
| NMemberDown i -> (Npos XH) :: (sid i)
| NRename (a, b) -> (Npos (XO XH)) :: (app (sid a) (sid b))
| NActive -> (Npos (XI XH)) :: []
| NIdle -> (Npos (XO (XO XH))) :: []
| NDefunct -> (Npos (XI (XO XH))) :: []
| NRejoin i -> (Npos (XO (XI XH))) :: (sid i)

(** val seffect : cid effect -> n list **)

let seffect = function
| Send (d, b) -> N0 :: (app (sid d) (sbytes b))
| Submit (t, a) -> (Npos XH) :: (app (stimer t) (a :: []))
| Notify n0 -> (Npos (XO XH)) :: (snote n0)

(** val serror : error -> n **)

let serror = function
| EDataTooBig -> N0
| ENotUndead -> Npos XH
| ESameIdentity -> Npos (XO XH)
| ENotConnected -> Npos (XI XH)
| EIncompleteProbeCycle -> Npos (XO (XO XH))
| EDataFromOurselves -> Npos (XI (XO XH))
| EIndirectForOurselves -> Npos (XO (XI XH))
| EMalformedPacket -> Npos (XI (XI XH))
| EEncode -> Npos (XO (XO (XO XH)))
| EDecode -> Npos (XI (XO (XO XH)))
| ECustomBroadcast -> Npos (XO (XI (XO XH)))
| EInvalidConfig -> Npos (XI (XI (XO XH)))

(** val ssite : site -> n **)

let ssite = function
| PSendBufCapacity -> N0
| PFeedCountOverflow -> Npos XH
| PItemTooLong -> Npos (XO XH)
| PApplySelf -> Npos (XI XH)
| PProbeNotConnected -> Npos (XO (XO XH))
| PExpectIndirectIsTarget -> Npos (XI (XO XH))
| PDisconnectedWithMembers -> Npos (XO (XI XH))
| PConnectedNoMembers -> Npos (XI (XI XH))
| PFlopNotEmpty -> Npos (XO (XO (XO XH)))
| PZeroTx -> Npos (XI (XO (XO XH)))
| PAckCountOverflow -> Npos (XO (XI (XO XH)))
| PInsertIndex -> Npos (XI (XI (XO XH)))
| PDivZero -> Npos (XO (XO (XI XH)))

(** val sresult : result -> n list **)

let sresult = function
| Done -> N0 :: []
| DoneBool b -> (Npos XH) :: (sbool b)
| Failed e -> (Npos (XO XH)) :: ((serror e) :: [])
| Panicked s -> (Npos (XI XH)) :: ((ssite s) :: [])

(** val sout : (((cfoca * cid effect list) * result) * n) -> n list **)

let sout = function
| (p0, k) ->
  let (p1, r) = p0 in
  let (f, effs) = p1 in
  app (sresult r) (app (k :: []) (app (slist seffect effs) (sfoca f)))

(** val run_step_ser : oracle -> n list -> n list **)

let run_step_ser rnd l =
  match pbind pfoca (fun f -> pbind pinput (fun i -> pret (f, i))) l with
  | Some p0 ->
    let (p1, l0) = p0 in
    let (f, i) = p1 in
    (match l0 with
     | [] -> sout (cstep rnd f i)
     | _ :: _ -> (Npos (XI (XO (XO (XI (XO (XO (XO (XO (XI XH)))))))))) :: [])
  | None -> (Npos (XI (XO (XO (XI (XO (XO (XO (XO (XI XH)))))))))) :: []
