(* L_Serde.v — facts about the wire models of the bundled codecs (SerdeM.v): prefix
   round-trip on every representable value, locality of decoding (no over-read, the result
   does not depend on what follows), short-buffer behaviour of the encoders. *)
From Foca Require Import Laws SerdeM.
From Coq Require Import ZArith.
Ltac Zify.zify_post_hook ::= Z.div_mod_to_equations.

(* ---------- parser combinator facts ---------- *)
Lemma pbind_some {A B} (p : P A) (f : A -> P B) b a r : p b = Some (a, r) -> pbind p f b = f a r.
Proof. unfold pbind. intros ->. reflexivity. Qed.

(* decoding is local: a success consumed a prefix, leaves the rest untouched and does not
   depend on the rest *)
Definition loc {A} (p : P A) : Prop :=
  forall b a r, p b = Some (a, r) -> exists pre, b = pre ++ r /\ forall r', p (pre ++ r') = Some (a, r').

Lemma loc_ret {A} (a : A) : loc (pret a).
Proof. intros b a' r H. inversion H; subst. exists []. split; auto. Qed.

Lemma loc_fail {A} : loc (@pfail A).
Proof. intros b a r H. discriminate. Qed.

Lemma loc_bind {A B} (p : P A) (f : A -> P B) : loc p -> (forall a, loc (f a)) -> loc (pbind p f).
Proof.
  intros Lp Lf b c r H. unfold pbind in H. destruct (p b) as [[a r1]|] eqn:E; [|discriminate].
  destruct (Lp _ _ _ E) as (pre1 & -> & I1). destruct (Lf a _ _ _ H) as (pre2 & -> & I2).
  exists (pre1 ++ pre2). split; [rewrite app_assoc; reflexivity|].
  intros r'. unfold pbind. rewrite <- app_assoc, I1. apply I2.
Qed.

Lemma loc_u8 : loc p_u8.
Proof. intros [|x b] a r H; inversion H; subst. exists [a]. split; auto. Qed.

Lemma loc_le k : loc (p_le k).
Proof.
  induction k as [|k IH]; cbn [p_le]; [apply loc_ret|].
  apply loc_bind; [apply loc_u8|]. intros lo. apply loc_bind; [exact IH|]. intros hi. apply loc_ret.
Qed.

Lemma loc_if {A} (c : bool) (p q : P A) : loc p -> loc q -> loc (if c then p else q).
Proof. destruct c; auto. Qed.

Lemma loc_b_varint w : loc (b_p_varint w).
Proof.
  unfold b_p_varint. apply loc_bind; [apply loc_u8|]. intros t.
  repeat (apply loc_if); try apply loc_ret; try apply loc_le; try apply loc_fail.
Qed.

Lemma loc_leb maxb last : loc (p_leb maxb last).
Proof.
  induction maxb as [|m IH]; cbn [p_leb]; [apply loc_fail|].
  apply loc_bind; [apply loc_u8|]. intros x. apply loc_if.
  - apply loc_if; [apply loc_fail|apply loc_ret].
  - apply loc_bind; [exact IH|]. intros rest. apply loc_ret.
Qed.

(* ---------- primitive round-trips ---------- *)
Lemma le_rt k : forall v r, v < 256 ^ N.of_nat k -> p_le k (le_bytes k v ++ r) = Some (v, r).
Proof.
  induction k as [|k IH]; intros v r Hv.
  - cbn in *. assert (v = 0) by lia. subst. reflexivity.
  - cbn [le_bytes p_le app]. unfold pbind at 1. cbn [p_u8].
    assert (Hd : v / 256 < 256 ^ N.of_nat k).
    { rewrite Nat2N.inj_succ, N.pow_succ_r' in Hv. apply N.div_lt_upper_bound; lia. }
    unfold pbind at 1. rewrite (IH _ r Hd). unfold pret. f_equal. f_equal.
    pose proof (N.div_mod v 256). lia.
Qed.

Lemma le_len k v : len (le_bytes k v) = N.of_nat k.
Proof. revert v. induction k as [|k IH]; intros v; [reflexivity|]. cbn [le_bytes]. unfold len in *. cbn [length]. rewrite Nat2N.inj_succ, IH. lia. Qed.

Lemma le_bytes_ok k v : Forall (fun x => x < 256) (le_bytes k v).
Proof.
  revert v. induction k as [|k IH]; intros v; cbn [le_bytes]; constructor; auto.
  apply N.mod_lt. lia.
Qed.

Lemma b_varint_rt (w : N) v r :
  (w = 2 \/ w = 4 \/ w = 8) -> v < 256 ^ w -> b_p_varint w (b_varint v ++ r) = Some (v, r).
Proof.
  intros Hw Hv. unfold b_varint, b_p_varint.
  destruct (v <=? 250) eqn:E1.
  { cbn [app]. unfold pbind. cbn [p_u8]. rewrite E1. reflexivity. }
  destruct (v <? 65536) eqn:E2.
  { cbn [app]. unfold pbind at 1. cbn [p_u8]. change (251 <=? 250) with false. change (251 =? 251) with true. cbv iota.
    apply (le_rt 2). change (256 ^ N.of_nat 2) with 65536. lia. }
  destruct (v <? 4294967296) eqn:E3.
  { cbn [app]. unfold pbind at 1. cbn [p_u8]. change (252 <=? 250) with false. change (252 =? 251) with false.
    change (252 =? 252) with true. cbv iota.
    assert (4 <=? w = true) as ->.
    { destruct Hw as [->|[->| ->]]; [|reflexivity|reflexivity]. change (256 ^ 2) with 65536 in Hv. lia. }
    apply (le_rt 4). change (256 ^ N.of_nat 4) with 4294967296. lia. }
  cbn [app]. unfold pbind at 1. cbn [p_u8]. change (253 <=? 250) with false. change (253 =? 251) with false.
  change (253 =? 252) with false. change (253 =? 253) with true. cbv iota.
  assert (8 <=? w = true) as ->.
  { destruct Hw as [->|[->| ->]]; [| |reflexivity].
    - change (256 ^ 2) with 65536 in Hv. lia.
    - change (256 ^ 4) with 4294967296 in Hv. lia. }
  apply (le_rt 8). destruct Hw as [->|[->| ->]].
  - change (256 ^ 2) with 65536 in Hv. lia.
  - change (256 ^ 4) with 4294967296 in Hv. lia.
  - exact Hv.
Qed.

Lemma b_varint_len v : 1 <= len (b_varint v) <= 9.
Proof.
  unfold b_varint. destruct (v <=? 250); [unfold len; cbn [length]; lia|].
  destruct (v <? 65536); [unfold len; cbn [length le_bytes]; lia|].
  destruct (v <? 4294967296); unfold len; cbn [length le_bytes]; lia.
Qed.

Lemma b_varint_ok v : v < 256 ^ 8 -> Forall (fun x => x < 256) (b_varint v).
Proof.
  intros Hv. unfold b_varint. destruct (v <=? 250) eqn:E; [constructor; [lia|constructor]|].
  destruct (v <? 65536); [constructor; [lia|apply le_bytes_ok]|].
  destruct (v <? 4294967296); constructor; try lia; apply le_bytes_ok.
Qed.

(* LEB128: [v < 128^(k-1) * (last+1)] is exactly "fits the integer's width" for the three
   instances (3,3: 2^16; 5,15: 2^32; 10,1: 2^64) *)
Lemma leb_rt k : forall last v r,
  (1 <= k)%nat -> last < 128 -> v < 128 ^ N.of_nat (k - 1) * (last + 1) ->
  p_leb k last (SerdeM.leb k v ++ r) = Some (v, r).
Proof.
  induction k as [|k IH]; intros last v r Hk Hl Hv; [lia|].
  cbn [SerdeM.leb p_leb]. destruct (v <? 128) eqn:E.
  - cbn [app]. unfold pbind. cbn [p_u8]. rewrite E.
    destruct (Nat.eqb k 0) eqn:K; cbn [andb]; [|reflexivity].
    apply Nat.eqb_eq in K. subst k. cbn in Hv. destruct (last <? v) eqn:L; [lia|reflexivity].
  - cbn [app]. unfold pbind at 1. cbn [p_u8].
    assert (v mod 128 + 128 <? 128 = false) as -> by lia.
    destruct k as [|k'].
    { cbn in Hv. lia. }
    assert (Hd : v / 128 < 128 ^ N.of_nat (S k' - 1) * (last + 1)).
    { replace (S (S k') - 1)%nat with (S (S k' - 1)) in Hv by lia.
      rewrite Nat2N.inj_succ, N.pow_succ_r' in Hv. apply N.div_lt_upper_bound; lia. }
    unfold pbind at 1. rewrite (IH last (v / 128) r ltac:(lia) Hl Hd). unfold pret. f_equal. f_equal.
    pose proof (N.div_mod v 128). lia.
Qed.

Lemma leb_len k v : (1 <= k)%nat -> 1 <= len (SerdeM.leb k v) <= N.of_nat k.
Proof.
  revert v. induction k as [|k IH]; intros v Hk; [lia|]. cbn [SerdeM.leb]. destruct (v <? 128); [unfold len; cbn [length]; lia|].
  destruct k as [|k']; [unfold len; cbn [length SerdeM.leb]; lia|]. specialize (IH (v / 128) ltac:(lia)).
  unfold len in *. cbn [length]. lia.
Qed.

Lemma leb_ok k v : Forall (fun x => x < 256) (SerdeM.leb k v).
Proof.
  revert v. induction k as [|k IH]; intros v; cbn [SerdeM.leb]; [constructor|].
  destruct (v <? 128) eqn:E; constructor; auto; lia.
Qed.

(* ---------- the formats ---------- *)
Definition B16 : N := 65536.
Definition B32 : N := 4294967296.
Definition B64 : N := 18446744073709551616.

(* round-trip and locality of the primitive codecs on the values satisfying R16/R32/R64 *)
Record fmt_rt (F : fmt) (R16 R32 R64 : N -> Prop) : Prop := {
  ok16 : forall v r, R16 v -> f_p_u16 F (f_u16 F v ++ r) = Some (v, r);
  ok32 : forall v r, R32 v -> f_p_u32 F (f_u32 F v ++ r) = Some (v, r);
  ok64 : forall v r, R64 v -> f_p_u64 F (f_u64 F v ++ r) = Some (v, r);
  lc16 : loc (f_p_u16 F); lc32 : loc (f_p_u32 F); lc64 : loc (f_p_u64 F)
}.
Definition in16 (v : N) : Prop := v < B16.
Definition in32 (v : N) : Prop := v < B32.
Definition in64 (v : N) : Prop := v < B64.
(* shape of the primitive encodings of representable values *)
Record fmt_by (F : fmt) : Prop := {
  by16 : forall v, v < B16 -> Forall (fun x => x < 256) (f_u16 F v);
  by32 : forall v, v < B32 -> Forall (fun x => x < 256) (f_u32 F v);
  by64 : forall v, v < B64 -> Forall (fun x => x < 256) (f_u64 F v);
  ln16 : forall v, v < B16 -> 1 <= len (f_u16 F v) <= 3;
  ln32 : forall v, v < B32 -> 1 <= len (f_u32 F v) <= 5;
  ln64 : forall v, v < B64 -> 1 <= len (f_u64 F v) <= 10
}.

Lemma b_varint_len16 v : v < B16 -> len (b_varint v) <= 3.
Proof. unfold b_varint, B16. intros H. destruct (v <=? 250); [unfold len; cbn [length]; lia|].
  destruct (v <? 65536) eqn:E; [unfold len; cbn [length le_bytes]; lia|lia]. Qed.
Lemma b_varint_len32 v : v < B32 -> len (b_varint v) <= 5.
Proof. unfold b_varint, B32. intros H. destruct (v <=? 250); [unfold len; cbn [length]; lia|].
  destruct (v <? 65536) eqn:E; [unfold len; cbn [length le_bytes]; lia|].
  destruct (v <? 4294967296) eqn:E2; [unfold len; cbn [length le_bytes]; lia|lia]. Qed.

Lemma bincode_rt : fmt_rt bincode_fmt in16 in32 in64.
Proof.
  constructor; cbn [bincode_fmt f_u16 f_p_u16 f_u32 f_p_u32 f_u64 f_p_u64].
  - intros v r H. apply b_varint_rt; [auto|exact H].
  - intros v r H. apply b_varint_rt; [auto|exact H].
  - intros v r H. apply b_varint_rt; [auto|exact H].
  - apply loc_b_varint. - apply loc_b_varint. - apply loc_b_varint.
Qed.

Lemma bincode_by : fmt_by bincode_fmt.
Proof.
  constructor; cbn [bincode_fmt f_u16 f_p_u16 f_u32 f_p_u32 f_u64 f_p_u64].
  - intros v H. apply b_varint_ok. unfold B16 in H. change (256 ^ 8) with B64. unfold B64. lia.
  - intros v H. apply b_varint_ok. unfold B32 in H. change (256 ^ 8) with B64. unfold B64. lia.
  - intros v H. apply b_varint_ok. exact H.
  - intros v H. pose proof (b_varint_len v). pose proof (b_varint_len16 v H). lia.
  - intros v H. pose proof (b_varint_len v). pose proof (b_varint_len32 v H). lia.
  - intros v H. pose proof (b_varint_len v). lia.
Qed.

Lemma postcard_rt : fmt_rt postcard_fmt in16 in32 in64.
Proof.
  constructor; cbn [postcard_fmt f_u16 f_p_u16 f_u32 f_p_u32 f_u64 f_p_u64];
    unfold pc_u16, pc_p_u16, pc_u32, pc_p_u32, pc_u64, pc_p_u64.
  - intros v r H. apply leb_rt; [lia|lia|]. change (128 ^ N.of_nat (3 - 1) * (3 + 1)) with B16. exact H.
  - intros v r H. apply leb_rt; [lia|lia|]. change (128 ^ N.of_nat (5 - 1) * (15 + 1)) with B32. exact H.
  - intros v r H. apply leb_rt; [lia|lia|]. change (128 ^ N.of_nat (10 - 1) * (1 + 1)) with B64. exact H.
  - apply loc_leb. - apply loc_leb. - apply loc_leb.
Qed.

Lemma postcard_by : fmt_by postcard_fmt.
Proof.
  constructor; cbn [postcard_fmt f_u16 f_p_u16 f_u32 f_p_u32 f_u64 f_p_u64];
    unfold pc_u16, pc_p_u16, pc_u32, pc_p_u32, pc_u64, pc_p_u64.
  - intros v _. apply leb_ok. - intros v _. apply leb_ok. - intros v _. apply leb_ok.
  - intros v _. apply (leb_len 3 v). lia.
  - intros v _. apply (leb_len 5 v). lia.
  - intros v _. apply (leb_len 10 v). lia.
Qed.

(* ---------- the other bincode configurations ---------- *)
Lemma loc_be k : loc (p_be k).
Proof.
  induction k as [|k IH]; cbn [p_be]; [apply loc_ret|].
  apply loc_bind; [apply loc_u8|]. intros hi. apply loc_bind; [exact IH|]. intros lo. apply loc_ret.
Qed.

Lemma be_rt k : forall v r, v < 256 ^ N.of_nat k -> p_be k (be_bytes k v ++ r) = Some (v, r).
Proof.
  induction k as [|k IH]; intros v r Hv.
  - cbn in *. assert (v = 0) by lia. subst. reflexivity.
  - cbn [be_bytes p_be app]. unfold pbind at 1. cbn [p_u8].
    assert (P : 0 < 256 ^ N.of_nat k) by (apply N.neq_0_lt_0, N.pow_nonzero; lia).
    assert (Hm : v mod 256 ^ N.of_nat k < 256 ^ N.of_nat k) by (apply N.mod_lt; lia).
    unfold pbind at 1. rewrite (IH _ r Hm). unfold pret. f_equal. f_equal.
    pose proof (N.div_mod v (256 ^ N.of_nat k) ltac:(lia)). lia.
Qed.

Lemma be_len k v : len (be_bytes k v) = N.of_nat k.
Proof. revert v. induction k as [|k IH]; intros v; [reflexivity|]. cbn [be_bytes]. unfold len in *. cbn [length]. rewrite Nat2N.inj_succ, IH. lia. Qed.

Lemma be_bytes_ok k : forall v, v < 256 ^ N.of_nat k -> Forall (fun x => x < 256) (be_bytes k v).
Proof.
  induction k as [|k IH]; intros v Hv; cbn [be_bytes]; constructor.
  - rewrite Nat2N.inj_succ, N.pow_succ_r' in Hv. apply N.div_lt_upper_bound; [apply N.pow_nonzero; lia|lia].
  - apply IH. apply N.mod_lt. apply N.pow_nonzero. lia.
Qed.

Lemma loc_b_varint_be w : loc (b_p_varint_be w).
Proof.
  unfold b_p_varint_be. apply loc_bind; [apply loc_u8|]. intros t.
  repeat (apply loc_if); try apply loc_ret; try apply loc_be; try apply loc_fail.
Qed.

Lemma b_varint_be_rt (w : N) v r :
  (w = 2 \/ w = 4 \/ w = 8) -> v < 256 ^ w -> b_p_varint_be w (b_varint_be v ++ r) = Some (v, r).
Proof.
  intros Hw Hv. unfold b_varint_be, b_p_varint_be.
  destruct (v <=? 250) eqn:E1.
  { cbn [app]. unfold pbind. cbn [p_u8]. rewrite E1. reflexivity. }
  destruct (v <? 65536) eqn:E2.
  { cbn [app]. unfold pbind at 1. cbn [p_u8]. change (251 <=? 250) with false. change (251 =? 251) with true. cbv iota.
    apply (be_rt 2). change (256 ^ N.of_nat 2) with 65536. lia. }
  destruct (v <? 4294967296) eqn:E3.
  { cbn [app]. unfold pbind at 1. cbn [p_u8]. change (252 <=? 250) with false. change (252 =? 251) with false.
    change (252 =? 252) with true. cbv iota.
    assert (4 <=? w = true) as ->.
    { destruct Hw as [->|[->| ->]]; [|reflexivity|reflexivity]. change (256 ^ 2) with 65536 in Hv. lia. }
    apply (be_rt 4). change (256 ^ N.of_nat 4) with 4294967296. lia. }
  cbn [app]. unfold pbind at 1. cbn [p_u8]. change (253 <=? 250) with false. change (253 =? 251) with false.
  change (253 =? 252) with false. change (253 =? 253) with true. cbv iota.
  assert (8 <=? w = true) as ->.
  { destruct Hw as [->|[->| ->]]; [| |reflexivity].
    - change (256 ^ 2) with 65536 in Hv. lia.
    - change (256 ^ 4) with 4294967296 in Hv. lia. }
  apply (be_rt 8). destruct Hw as [->|[->| ->]].
  - change (256 ^ 2) with 65536 in Hv. change (256 ^ N.of_nat 8) with 18446744073709551616. lia.
  - change (256 ^ 4) with 4294967296 in Hv. change (256 ^ N.of_nat 8) with 18446744073709551616. lia.
  - exact Hv.
Qed.

Lemma b_varint_be_shape v : v < B64 ->
  Forall (fun x => x < 256) (b_varint_be v)
  /\ 1 <= len (b_varint_be v) <= 9 /\ (v < B16 -> len (b_varint_be v) <= 3) /\ (v < B32 -> len (b_varint_be v) <= 5).
Proof.
  unfold b_varint_be, B16, B32, B64. intros Hv.
  destruct (v <=? 250) eqn:E1.
  { split; [constructor; [lia|constructor]|]. unfold len; cbn [length]. lia. }
  destruct (v <? 65536) eqn:E2.
  { split; [constructor; [lia|apply (be_bytes_ok 2); change (256 ^ N.of_nat 2) with 65536; lia]|].
    unfold len; cbn [length be_bytes]. lia. }
  destruct (v <? 4294967296) eqn:E3.
  { split; [constructor; [lia|apply (be_bytes_ok 4); change (256 ^ N.of_nat 4) with 4294967296; lia]|].
    unfold len; cbn [length be_bytes]. lia. }
  split; [constructor; [lia|apply (be_bytes_ok 8); change (256 ^ N.of_nat 8) with 18446744073709551616; lia]|].
  unfold len; cbn [length be_bytes]. lia.
Qed.

Lemma bincode_be_rt : fmt_rt bincode_be_fmt in16 in32 in64.
Proof.
  constructor; cbn [bincode_be_fmt f_u16 f_p_u16 f_u32 f_p_u32 f_u64 f_p_u64].
  - intros v r H. apply b_varint_be_rt; [auto|exact H].
  - intros v r H. apply b_varint_be_rt; [auto|exact H].
  - intros v r H. apply b_varint_be_rt; [auto|exact H].
  - apply loc_b_varint_be. - apply loc_b_varint_be. - apply loc_b_varint_be.
Qed.
Lemma bincode_be_by : fmt_by bincode_be_fmt.
Proof.
  constructor; cbn [bincode_be_fmt f_u16 f_p_u16 f_u32 f_p_u32 f_u64 f_p_u64]; intros v H;
    (assert (H64 : v < B64) by (unfold B16, B32, B64 in *; lia));
    destruct (b_varint_be_shape v H64) as (S1 & S2 & S3 & S4); auto;
    try (specialize (S3 H)); try (specialize (S4 H)); lia.
Qed.

Lemma bincode_fixle_rt : fmt_rt bincode_fixle_fmt in16 in32 in64.
Proof.
  constructor; cbn [bincode_fixle_fmt f_u16 f_p_u16 f_u32 f_p_u32 f_u64 f_p_u64].
  - intros v r H. apply (le_rt 2). exact H.
  - intros v r H. apply (le_rt 4). exact H.
  - intros v r H. apply (le_rt 8). exact H.
  - apply loc_le. - apply loc_le. - apply loc_le.
Qed.
Lemma bincode_fixle_by : fmt_by bincode_fixle_fmt.
Proof.
  constructor; cbn [bincode_fixle_fmt f_u16 f_p_u16 f_u32 f_p_u32 f_u64 f_p_u64]; intros v H;
    try apply le_bytes_ok; rewrite le_len; lia.
Qed.

Lemma bincode_fixbe_rt : fmt_rt bincode_fixbe_fmt in16 in32 in64.
Proof.
  constructor; cbn [bincode_fixbe_fmt f_u16 f_p_u16 f_u32 f_p_u32 f_u64 f_p_u64].
  - intros v r H. apply (be_rt 2). exact H.
  - intros v r H. apply (be_rt 4). exact H.
  - intros v r H. apply (be_rt 8). exact H.
  - apply loc_be. - apply loc_be. - apply loc_be.
Qed.
Lemma bincode_fixbe_by : fmt_by bincode_fixbe_fmt.
Proof.
  constructor; cbn [bincode_fixbe_fmt f_u16 f_p_u16 f_u32 f_p_u32 f_u64 f_p_u64]; intros v H;
    try (apply be_bytes_ok; exact H); rewrite be_len; lia.
Qed.

(* ---------- values a Rust SId / Member / Header can hold ---------- *)
Section Rt.
Variable F : fmt.
Variables R16 R32 R64 : N -> Prop.
Hypothesis FO : fmt_rt F R16 R32 R64.
Hypothesis R32_small : forall v, v <= 10 -> R32 v.

Definition sid_r (i : sid) : Prop := R16 (x16 i) /\ R32 (x32 i) /\ R64 (x64 i).
Definition smem_r (m : member sid) : Prop := sid_r (m_id m) /\ R16 (m_inc m).
Definition smsg_r (m : message sid) : Prop :=
  match m with
  | PingReq i _ | IndirectPing i _ | IndirectAck i _ | ForwardedAck i _ => sid_r i
  | _ => True
  end.
Definition shdr_r (h : header sid) : Prop :=
  sid_r (h_src h) /\ R16 (h_src_inc h) /\ sid_r (h_dst h) /\ smsg_r (h_msg h).

Lemma sid_rt i r : sid_r i -> p_sid F (enc_sid F i ++ r) = Some (i, r).
Proof.
  intros (H16 & H32 & H64). unfold p_sid, enc_sid. cbn [app]. unfold pbind at 1. cbn [p_u8].
  rewrite <- !app_assoc.
  rewrite (pbind_some _ _ _ _ _ (ok16 F _ _ _ FO _ _ H16)).
  rewrite (pbind_some _ _ _ _ _ (ok32 F _ _ _ FO _ _ H32)).
  rewrite (pbind_some _ _ _ _ _ (ok64 F _ _ _ FO _ _ H64)).
  destruct i; reflexivity.
Qed.

Lemma state_rt s r : p_state F (enc_state F s ++ r) = Some (s, r).
Proof.
  unfold p_state, enc_state.
  assert (H : R32 (state_idx s)) by (apply R32_small; destruct s; cbn; lia).
  rewrite (pbind_some _ _ _ _ _ (ok32 F _ _ _ FO _ _ H)). destruct s; reflexivity.
Qed.

Lemma mem_rt m r : smem_r m -> s_p_mem F (s_enc_mem F m ++ r) = Some (m, r).
Proof.
  intros (Hi & Hn). unfold s_p_mem, s_enc_mem. rewrite <- !app_assoc.
  rewrite (pbind_some _ _ _ _ _ (sid_rt _ _ Hi)).
  rewrite (pbind_some _ _ _ _ _ (ok16 F _ _ _ FO _ _ Hn)).
  rewrite (pbind_some _ _ _ _ _ (state_rt _ _)).
  destruct m; reflexivity.
Qed.

Lemma idx_rt (v : N) r : v <= 10 -> f_p_u32 F (f_u32 F v ++ r) = Some (v, r).
Proof. intros H. apply (ok32 F _ _ _ FO). apply R32_small. exact H. Qed.

Lemma msg_rt m r : smsg_r m -> p_message F (enc_message F m ++ r) = Some (m, r).
Proof.
  intros H. unfold p_message.
  destruct m as [n|n|i n|i n|i n|i n| | | | |]; cbn [enc_message smsg_r] in *; rewrite <- ?app_assoc;
    (match goal with |- context [f_u32 F ?k ++ _] => rewrite (pbind_some _ _ _ _ _ (idx_rt k _ ltac:(lia))) end);
    try reflexivity;
    try (rewrite (pbind_some _ _ _ _ _ (sid_rt _ _ H)));
    cbn [app]; unfold pbind; cbn [p_u8]; reflexivity.
Qed.

Lemma hdr_rt h r : shdr_r h -> s_p_hdr F (s_enc_hdr F h ++ r) = Some (h, r).
Proof.
  intros (Hs & Hn & Hd & Hm). unfold s_p_hdr, s_enc_hdr. rewrite <- !app_assoc.
  rewrite (pbind_some _ _ _ _ _ (sid_rt _ _ Hs)).
  rewrite (pbind_some _ _ _ _ _ (ok16 F _ _ _ FO _ _ Hn)).
  rewrite (pbind_some _ _ _ _ _ (sid_rt _ _ Hd)).
  rewrite (pbind_some _ _ _ _ _ (msg_rt _ _ Hm)).
  destruct h; reflexivity.
Qed.

(* locality of the composite decoders *)
Lemma loc_sid : loc (p_sid F).
Proof.
  unfold p_sid. apply loc_bind; [apply loc_u8|]. intros a. apply loc_bind; [apply (lc16 F _ _ _ FO)|]. intros b.
  apply loc_bind; [apply (lc32 F _ _ _ FO)|]. intros c. apply loc_bind; [apply (lc64 F _ _ _ FO)|]. intros d. apply loc_ret.
Qed.

Lemma loc_state : loc (p_state F).
Proof.
  unfold p_state. apply loc_bind; [apply (lc32 F _ _ _ FO)|]. intros v.
  destruct v as [|[[p|p|]|[p|p|]|]]; try apply loc_fail; apply loc_ret.
Qed.

Lemma loc_mem : loc (s_p_mem F).
Proof.
  unfold s_p_mem. apply loc_bind; [apply loc_sid|]. intros i. apply loc_bind; [apply (lc16 F _ _ _ FO)|]. intros n.
  apply loc_bind; [apply loc_state|]. intros s. apply loc_ret.
Qed.

Lemma loc_idn (c : sid -> N -> message sid) : loc (i <~ p_sid F ;; n <~ p_u8 ;; pret (c i n)).
Proof. apply loc_bind; [apply loc_sid|]. intros i. apply loc_bind; [apply loc_u8|]. intros n. apply loc_ret. Qed.

Lemma loc_n (c : N -> message sid) : loc (n <~ p_u8 ;; pret (c n)).
Proof. apply loc_bind; [apply loc_u8|]. intros n. apply loc_ret. Qed.

Lemma loc_message : loc (p_message F).
Proof.
  unfold p_message. apply loc_bind; [apply (lc32 F _ _ _ FO)|]. intros v.
  destruct v as [|p]; [apply loc_n|].
  repeat (match goal with
          | |- loc (match ?x with _ => _ end) => destruct x
          end);
    try apply loc_fail; try apply loc_ret; try apply loc_n; try apply loc_idn.
Qed.

Lemma loc_hdr : loc (s_p_hdr F).
Proof.
  unfold s_p_hdr. apply loc_bind; [apply loc_sid|]. intros s. apply loc_bind; [apply (lc16 F _ _ _ FO)|]. intros n.
  apply loc_bind; [apply loc_sid|]. intros d. apply loc_bind; [apply loc_message|]. intros m. apply loc_ret.
Qed.

End Rt.

Definition sid_ok (i : sid) : Prop := x8 i < 256 /\ x16 i < B16 /\ x32 i < B32 /\ x64 i < B64.
Definition smem_ok (m : member sid) : Prop := sid_ok (m_id m) /\ m_inc m < B16.
Definition smsg_ok (m : message sid) : Prop :=
  match m with
  | Ping n | Ack n => n < 256
  | PingReq i n | IndirectPing i n | IndirectAck i n | ForwardedAck i n => sid_ok i /\ n < 256
  | _ => True
  end.
Definition shdr_ok (h : header sid) : Prop :=
  sid_ok (h_src h) /\ h_src_inc h < B16 /\ sid_ok (h_dst h) /\ smsg_ok (h_msg h).

Lemma sid_ok_r i : sid_ok i -> sid_r in16 in32 in64 i.
Proof. unfold sid_ok, sid_r, in16, in32, in64. tauto. Qed.
Lemma smem_ok_r m : smem_ok m -> smem_r in16 in32 in64 m.
Proof. intros (A & B). split; [apply sid_ok_r; auto|exact B]. Qed.
Lemma smsg_ok_r m : smsg_ok m -> smsg_r in16 in32 in64 m.
Proof. destruct m; cbn; auto; intros (A & _); apply sid_ok_r; auto. Qed.
Lemma shdr_ok_r h : shdr_ok h -> shdr_r in16 in32 in64 h.
Proof. intros (A & B & C & D). repeat split; try apply sid_ok_r; auto. apply smsg_ok_r; auto. Qed.
Lemma in32_small v : v <= 10 -> in32 v.
Proof. unfold in32, B32. lia. Qed.

Section Fmt.
Variable F : fmt.
Hypothesis FO : fmt_by F.

(* encodings of representable values are strings of bytes *)
Lemma Forall_app2 {A} (Q : A -> Prop) l1 l2 : Forall Q l1 -> Forall Q l2 -> Forall Q (l1 ++ l2).
Proof. intros. apply Forall_app; auto. Qed.

Lemma sid_bytes i : sid_ok i -> Forall (fun x => x < 256) (enc_sid F i).
Proof.
  intros (H8 & H16 & H32 & H64). unfold enc_sid. repeat apply Forall_app2.
  - constructor; auto. - apply (by16 F FO); auto. - apply (by32 F FO); auto. - apply (by64 F FO); auto.
Qed.

Lemma mem_bytes m : smem_ok m -> Forall (fun x => x < 256) (s_enc_mem F m).
Proof.
  intros (Hi & Hn). unfold s_enc_mem, enc_state.
  apply Forall_app2; [apply sid_bytes; auto|]. apply Forall_app2; [apply (by16 F FO); auto|].
  apply (by32 F FO). destruct (m_state m); cbn; unfold B32; lia.
Qed.

Lemma msg_bytes m : smsg_ok m -> Forall (fun x => x < 256) (enc_message F m).
Proof.
  intros H.
  assert (I : forall k, k <= 10 -> Forall (fun x => x < 256) (f_u32 F k)) by (intros k Hk; apply (by32 F FO); unfold B32; lia).
  destruct m as [n|n|i n|i n|i n|i n| | | | |]; cbn [enc_message smsg_ok] in *;
    try (apply I; lia);
    try (apply Forall_app2; [apply I; lia|constructor; [exact H|constructor]]);
    (apply Forall_app2; [apply I; lia|]; apply Forall_app2; [apply sid_bytes; tauto|constructor; [tauto|constructor]]).
Qed.

Lemma hdr_bytes h : shdr_ok h -> Forall (fun x => x < 256) (s_enc_hdr F h).
Proof.
  intros (Hs & Hn & Hd & Hm). unfold s_enc_hdr.
  apply Forall_app2; [apply sid_bytes; auto|]. apply Forall_app2; [apply (by16 F FO); auto|].
  apply Forall_app2; [apply sid_bytes; auto|apply msg_bytes; auto].
Qed.

(* sizes *)
Lemma sid_len i : sid_ok i -> 4 <= len (enc_sid F i) <= 19.
Proof.
  intros (H8 & H16 & H32 & H64). unfold enc_sid, len. rewrite !app_length. cbn [length].
  pose proof (ln16 F FO _ H16). pose proof (ln32 F FO _ H32). pose proof (ln64 F FO _ H64). unfold len in *. lia.
Qed.

Lemma mem_len m : smem_ok m -> 6 <= len (s_enc_mem F m) <= 27.
Proof.
  intros (Hi & Hn). unfold s_enc_mem, enc_state, len. rewrite !app_length.
  pose proof (sid_len _ Hi). pose proof (ln16 F FO _ Hn).
  assert (Hs : state_idx (m_state m) < B32) by (destruct (m_state m); cbn; unfold B32; lia).
  pose proof (ln32 F FO _ Hs). unfold len in *. lia.
Qed.

(* chunk decomposition used for the short-buffer model *)
Lemma sid_chunks_concat i : concat (sid_chunks F i) = enc_sid F i.
Proof. unfold sid_chunks, enc_sid. cbn [concat]. rewrite app_nil_r. reflexivity. Qed.

Lemma mem_chunks_concat m : concat (mem_chunks F m) = s_enc_mem F m.
Proof.
  unfold mem_chunks, s_enc_mem. rewrite concat_app, sid_chunks_concat. cbn [concat]. rewrite app_nil_r. reflexivity.
Qed.

Lemma msg_chunks_concat m : concat (msg_chunks F m) = enc_message F m.
Proof.
  destruct m; cbn [msg_chunks enc_message concat]; rewrite ?app_nil_r; try reflexivity;
    rewrite ?concat_app, ?sid_chunks_concat; cbn [concat app]; rewrite ?app_nil_r; reflexivity.
Qed.

Lemma hdr_chunks_concat h : concat (hdr_chunks F h) = s_enc_hdr F h.
Proof.
  unfold hdr_chunks, s_enc_hdr. rewrite !concat_app, !sid_chunks_concat, msg_chunks_concat.
  cbn [concat]. rewrite app_nil_r. reflexivity.
Qed.

End Fmt.

(* what the encoders leave in a buffer of [room] bytes *)
Lemma chunks_fit_le cs room : chunks_fit cs room <= room.
Proof.
  revert room. induction cs as [|c t IH]; intros room; cbn [chunks_fit]; [lia|].
  destruct (len c <=? room) eqn:E; [|lia]. specialize (IH (room - len c)). lia.
Qed.

Lemma chunks_fit_all cs room : len (concat cs) <= room -> chunks_fit cs room = len (concat cs).
Proof.
  revert room. induction cs as [|c t IH]; intros room H; cbn [chunks_fit concat] in *; [reflexivity|].
  unfold len in *. rewrite app_length in *. destruct (N.of_nat (length c) <=? room) eqn:E; [|lia].
  rewrite IH; lia.
Qed.

Lemma chunks_fit_short cs room : room < len (concat cs) -> chunks_fit cs room < len (concat cs).
Proof. intros H. pose proof (chunks_fit_le cs room). lia. Qed.

(* the written part is always a prefix of the full encoding, made of whole chunks *)
Lemma chunks_fit_prefix cs room :
  exists k, chunks_fit cs room = len (concat (firstn k cs)).
Proof.
  revert room. induction cs as [|c t IH]; intros room; cbn [chunks_fit].
  - exists O. reflexivity.
  - destruct (len c <=? room).
    + destruct (IH (room - len c)) as (k & Hk). exists (S k). cbn [firstn concat]. unfold len in *. rewrite app_length. lia.
    + exists O. reflexivity.
Qed.
