(* L_StepWire.v — the invariant pass of Inv.v instantiated with the wire-format property:
   every datagram emitted by any call from a well-formed state has the documented shape. *)
From Foca Require Import Laws L_Lists MembersM ProbeM BcastM FocaM WireM L_Members L_MembersInv L_Bcast L_Fill Hoare Inv L_Wire Reach.

Section StepWire.
Context {Id Addr : Type} {IO : IdOps Id Addr} {CO : CodecOps Id} {HO : HandlerOps Id}.
Context {IL : IdLaws IO} {EL : @ExtraLaws Id Addr IO CO} {CL : CodecLaws CO}.
Notation foca := (@foca Id Addr HO).

(* the datagram was produced by send_message from some well-formed state f0: its header
   carries the identity and incarnation current at that moment *)
Definition wire_ok (e : effect Id) : Prop :=
  match e with
  | Send dst b => exists (f0 : foca) (msg : message Id), WF f0 /\ sent_ok f0 dst msg b
  | _ => True
  end.

Lemma wire_nonsend (e : effect Id) : is_send e = false -> wire_ok e.
Proof. destruct e; cbn; intros H; auto. discriminate. Qed.

Lemma wire_send (rnd : oracle) : forall dst msg (s : @rs Id Addr HO),
  WF (st s) ->
  match send_message rnd dst msg s with
  | (s', ROk _) => forall b, out s' = out s ++ [Send dst b] -> wire_ok (Send dst b)
  | _ => True
  end.
Proof.
  intros dst msg s W. pose proof (send_message_shape rnd dst msg s W) as H.
  destruct (send_message rnd dst msg s) as [s' [a|e|p]]; auto.
  destruct H as (b0 & Eo & Sk). intros b Eb. rewrite Eo in Eb.
  apply app_inv_head in Eb. inversion Eb; subst b0. exists (st s), msg. auto.
Qed.

Theorem step_wire (rnd : oracle) (f : foca) (i : @input Id) :
  WF f -> input_ok (addr_of (identity f)) i ->
  Forall wire_ok (step_effects rnd f i).
Proof.
  intros W I0.
  pose proof (step_preserves rnd wire_ok wire_nonsend (wire_send rnd) f i W I0) as H.
  unfold step_effects. destruct (step rnd f i) as [[[f' effs] r] k]. destruct H as (_ & _ & O & _).
  cbn. eapply Forall_impl; [|exact O]. intros e [_ He]. exact He.
Qed.

(* a datagram of the documented shape parses with the independent grammar *)
Lemma sent_ok_parses (f0 : foca) dst msg b :
  sent_ok f0 dst msg b ->
  exists ms items,
    parse_datagram b = Some (mkDatagram (mkHeader (identity f0) (incarnation f0) dst msg) ms items)
    /\ len b <= max_packet_size (cfg f0)
    /\ Forall item_ok items
    /\ (msg = Feed -> forall l, ms = Some l ->
        Forall (fun m => In m (inner (mems f0)) /\ m_active m = true /\ id_eqb (m_id m) dst = false) l).
Proof.
  intros (ms & items & Eb & Lb & Fi & Lm & K1 & K2 & K3 & Kf).
  exists ms, items. split; [|auto].
  rewrite Eb. apply parse_print; auto.
  - cbn [h_msg]. intros [-> | ->]; (split; [apply K1|apply K2]); reflexivity.
  - cbn [h_msg]. intros ->. apply K1. reflexivity.
Qed.

Lemma parse_shapes (b : bytes) (d : @datagram Id) :
  parse_datagram b = Some d ->
  (h_msg (d_hdr d) = Announce \/ h_msg (d_hdr d) = TurnUndead -> d_members d = None /\ d_items d = [])
  /\ (h_msg (d_hdr d) = Broadcast -> d_members d = None).
Proof.
  unfold parse_datagram. destruct (dec_hdr b) as [[h r]|]; [|discriminate].
  destruct (h_msg h) as [pn|pn|t pn|t pn|t pn|t pn| | | | | ] eqn:M; intros H.
  all: try (destruct r; [|discriminate]; inversion H; subst; cbn; rewrite M; split; [auto|intros; discriminate]).
  all: try (destruct (parse_items (length r) r); [|discriminate]; inversion H; subst; cbn; rewrite M;
            split; [intros [X|X]; discriminate X|auto]).
  all: destruct r; [inversion H; subst; cbn; rewrite M; split; [intros [X|X]; discriminate X|intros X; discriminate X]|];
    destruct (get_u16 _) as [[cnt r1]|]; [|discriminate];
    destruct (dec_members _ _) as [[mems0 r2]|]; [|discriminate];
    destruct (parse_items _ _); [|discriminate];
    inversion H; subst; cbn; rewrite M; split; [intros [X|X]; discriminate X|intros X; discriminate X].
Qed.

End StepWire.
