(* SerdeM.v — wire models of the two bundled codecs (codec/bincode_impl.rs with
   bincode 2 `standard()`, codec/postcard_impl.rs with postcard 1) for Header / Member over
   a test identity made of integers of every width.  Written from the formats' definitions
   and serde-derive's field / variant order.  No proofs here. *)
From Foca Require Export Types.

(* test identity: struct SId { x8: u8, x16: u16, x32: u32, x64: u64 } *)
Record sid := mkSid { x8 : N; x16 : N; x32 : N; x64 : N }.

Definition P (A : Type) := bytes -> option (A * bytes).
Definition pret {A} (a : A) : P A := fun b => Some (a, b).
Definition pbind {A B} (p : P A) (f : A -> P B) : P B :=
  fun b => match p b with Some (a, r) => f a r | None => None end.
Notation "x <~ p ;; f" := (pbind p (fun x => f)) (at level 61, p at next level, right associativity).
Definition pfail {A} : P A := fun _ => None.

Definition p_u8 : P N := fun b => match b with x :: r => Some (x, r) | [] => None end.

(* k little-endian bytes *)
Fixpoint le_bytes (k : nat) (v : N) : bytes :=
  match k with O => [] | S k' => (v mod 256) :: le_bytes k' (v / 256) end.
Fixpoint p_le (k : nat) : P N :=
  match k with
  | O => pret 0
  | S k' => lo <~ p_u8 ;; hi <~ p_le k' ;; pret (lo + 256 * hi)
  end.

(* ---------- bincode 2, standard(): little endian, variable-length integers ---------- *)
Definition b_varint (v : N) : bytes :=
  if v <=? 250 then [v]
  else if v <? 65536 then 251 :: le_bytes 2 v
  else if v <? 4294967296 then 252 :: le_bytes 4 v
  else 253 :: le_bytes 8 v.

(* [w] = width in bytes of the Rust integer being decoded (2, 4 or 8): a wider marker is an error *)
Definition b_p_varint (w : N) : P N :=
  t <~ p_u8 ;;
  if t <=? 250 then pret t
  else if t =? 251 then p_le 2
  else if t =? 252 then (if 4 <=? w then p_le 4 else pfail)
  else if t =? 253 then (if 8 <=? w then p_le 8 else pfail)
  else pfail.

(* ---------- bincode 2, other configurations: big endian and / or fixed-width integers ---------- *)
(* k big-endian bytes (of a value below 256^k) *)
Fixpoint be_bytes (k : nat) (v : N) : bytes :=
  match k with O => [] | S k' => (v / 256 ^ N.of_nat k') :: be_bytes k' (v mod 256 ^ N.of_nat k') end.
Fixpoint p_be (k : nat) : P N :=
  match k with
  | O => pret 0
  | S k' => hi <~ p_u8 ;; lo <~ p_be k' ;; pret (hi * 256 ^ N.of_nat k' + lo)
  end.

(* standard().with_big_endian(): the same markers, the payload big endian *)
Definition b_varint_be (v : N) : bytes :=
  if v <=? 250 then [v]
  else if v <? 65536 then 251 :: be_bytes 2 v
  else if v <? 4294967296 then 252 :: be_bytes 4 v
  else 253 :: be_bytes 8 v.
Definition b_p_varint_be (w : N) : P N :=
  t <~ p_u8 ;;
  if t <=? 250 then pret t
  else if t =? 251 then p_be 2
  else if t =? 252 then (if 4 <=? w then p_be 4 else pfail)
  else if t =? 253 then (if 8 <=? w then p_be 8 else pfail)
  else pfail.

(* ---------- postcard 1: LEB128 with per-width byte limit and last-byte check ---------- *)
Fixpoint leb (fuel : nat) (v : N) : bytes :=
  match fuel with
  | O => []
  | S f => if v <? 128 then [v] else (v mod 128 + 128) :: leb f (v / 128)
  end.

(* [maxb] bytes at most; a terminating byte at the last position must be <= [last];
   [width] = 2^bits: the shifted sum is truncated to the integer's width like `carry << (7*i)` *)
Fixpoint p_leb (maxb : nat) (last : N) : P N :=
  match maxb with
  | O => pfail
  | S m =>
      x <~ p_u8 ;;
      if x <? 128 then (if (Nat.eqb m 0) && (last <? x) then pfail else pret x)
      else (rest <~ p_leb m last ;; pret ((x - 128) + 128 * rest))
  end.

Definition pc_u16 := leb 3.  Definition pc_p_u16 : P N := p_leb 3 3.
Definition pc_u32 := leb 5.  Definition pc_p_u32 : P N := p_leb 5 15.
Definition pc_u64 := leb 10. Definition pc_p_u64 : P N := p_leb 10 1.

(* ---------- the two formats as records of primitive encoders ---------- *)
Record fmt := mkFmt {
  f_u16 : N -> bytes;  f_p_u16 : P N;
  f_u32 : N -> bytes;  f_p_u32 : P N;
  f_u64 : N -> bytes;  f_p_u64 : P N
}.

Definition bincode_fmt : fmt :=
  mkFmt b_varint (b_p_varint 2) b_varint (b_p_varint 4) b_varint (b_p_varint 8).
Definition postcard_fmt : fmt :=
  mkFmt pc_u16 pc_p_u16 pc_u32 pc_p_u32 pc_u64 pc_p_u64.
(* BincodeCodec is generic in the bincode configuration: big-endian varint, fixed-width little endian
   (with_fixed_int_encoding(), legacy()), fixed-width big endian.  Enum variant indices are u32s in
   the configured integer encoding, u8 is always one byte. *)
Definition bincode_be_fmt : fmt :=
  mkFmt b_varint_be (b_p_varint_be 2) b_varint_be (b_p_varint_be 4) b_varint_be (b_p_varint_be 8).
Definition bincode_fixle_fmt : fmt :=
  mkFmt (le_bytes 2) (p_le 2) (le_bytes 4) (p_le 4) (le_bytes 8) (p_le 8).
Definition bincode_fixbe_fmt : fmt :=
  mkFmt (be_bytes 2) (p_be 2) (be_bytes 4) (p_be 4) (be_bytes 8) (p_be 8).
(* codec numbers of the driver protocol *)
Definition fmt_of (c : N) : fmt :=
  match c with
  | 0 => bincode_fmt | 1 => postcard_fmt | 2 => bincode_be_fmt | 3 => bincode_fixle_fmt | _ => bincode_fixbe_fmt
  end.

Section Fmt.
Variable F : fmt.

Definition enc_sid (i : sid) : bytes := [x8 i] ++ f_u16 F (x16 i) ++ f_u32 F (x32 i) ++ f_u64 F (x64 i).
Definition p_sid : P sid :=
  a <~ p_u8 ;; b <~ f_p_u16 F ;; c <~ f_p_u32 F ;; d <~ f_p_u64 F ;; pret (mkSid a b c d).

Definition state_idx (s : mstate) : N := match s with Alive => 0 | Suspect => 1 | Down => 2 end.
Definition enc_state (s : mstate) : bytes := f_u32 F (state_idx s).
Definition p_state : P mstate :=
  v <~ f_p_u32 F ;;
  match v with 0 => pret Alive | 1 => pret Suspect | 2 => pret Down | _ => pfail end.

(* struct Member { id, incarnation: u16, state } *)
Definition s_enc_mem (m : member sid) : bytes :=
  enc_sid (m_id m) ++ f_u16 F (m_inc m) ++ enc_state (m_state m).
Definition s_p_mem : P (member sid) :=
  i <~ p_sid ;; n <~ f_p_u16 F ;; s <~ p_state ;; pret (mkMember i n s).

(* enum Message: variant index (u32) then the fields; ProbeNumber = u8 *)
Definition enc_message (m : message sid) : bytes :=
  match m with
  | Ping n => f_u32 F 0 ++ [n]
  | Ack n => f_u32 F 1 ++ [n]
  | PingReq i n => f_u32 F 2 ++ enc_sid i ++ [n]
  | IndirectPing i n => f_u32 F 3 ++ enc_sid i ++ [n]
  | IndirectAck i n => f_u32 F 4 ++ enc_sid i ++ [n]
  | ForwardedAck i n => f_u32 F 5 ++ enc_sid i ++ [n]
  | Announce => f_u32 F 6
  | Feed => f_u32 F 7
  | Gossip => f_u32 F 8
  | Broadcast => f_u32 F 9
  | TurnUndead => f_u32 F 10
  end.
Definition p_message : P (message sid) :=
  v <~ f_p_u32 F ;;
  match v with
  | 0 => n <~ p_u8 ;; pret (Ping n)
  | 1 => n <~ p_u8 ;; pret (Ack n)
  | 2 => i <~ p_sid ;; n <~ p_u8 ;; pret (PingReq i n)
  | 3 => i <~ p_sid ;; n <~ p_u8 ;; pret (IndirectPing i n)
  | 4 => i <~ p_sid ;; n <~ p_u8 ;; pret (IndirectAck i n)
  | 5 => i <~ p_sid ;; n <~ p_u8 ;; pret (ForwardedAck i n)
  | 6 => pret Announce
  | 7 => pret Feed
  | 8 => pret Gossip
  | 9 => pret Broadcast
  | 10 => pret TurnUndead
  | _ => pfail
  end.

(* struct Header { src, src_incarnation: u16, dst, message } *)
Definition s_enc_hdr (h : header sid) : bytes :=
  enc_sid (h_src h) ++ f_u16 F (h_src_inc h) ++ enc_sid (h_dst h) ++ enc_message (h_msg h).
Definition s_p_hdr : P (header sid) :=
  s <~ p_sid ;; n <~ f_p_u16 F ;; d <~ p_sid ;; m <~ p_message ;; pret (mkHeader s n d m).

End Fmt.

(* what a failing encode leaves in a Limit buffer with [room] < length:
   bincode writes through std::io::Write::write_all on a bytes Writer: it fills the buffer;
   postcard pushes whole chunks (one per primitive) and stops at the first that does not fit *)
Fixpoint chunks_fit (cs : list bytes) (room : N) : N :=
  match cs with
  | [] => 0
  | c :: t => if len c <=? room then len c + chunks_fit t (room - len c) else 0
  end.

Definition sid_chunks (F : fmt) (i : sid) : list bytes := [[x8 i]; f_u16 F (x16 i); f_u32 F (x32 i); f_u64 F (x64 i)].
Definition mem_chunks (F : fmt) (m : member sid) : list bytes :=
  sid_chunks F (m_id m) ++ [f_u16 F (m_inc m); enc_state F (m_state m)].
Definition msg_chunks (F : fmt) (m : message sid) : list bytes :=
  match m with
  | Ping n => [f_u32 F 0; [n]] | Ack n => [f_u32 F 1; [n]]
  | PingReq i n => [f_u32 F 2] ++ sid_chunks F i ++ [[n]]
  | IndirectPing i n => [f_u32 F 3] ++ sid_chunks F i ++ [[n]]
  | IndirectAck i n => [f_u32 F 4] ++ sid_chunks F i ++ [[n]]
  | ForwardedAck i n => [f_u32 F 5] ++ sid_chunks F i ++ [[n]]
  | Announce => [f_u32 F 6] | Feed => [f_u32 F 7] | Gossip => [f_u32 F 8]
  | Broadcast => [f_u32 F 9] | TurnUndead => [f_u32 F 10]
  end.
Definition hdr_chunks (F : fmt) (h : header sid) : list bytes :=
  sid_chunks F (h_src h) ++ [f_u16 F (h_src_inc h)] ++ sid_chunks F (h_dst h) ++ msg_chunks F (h_msg h).

(* bytes written into a buffer with [room] by the bincode / postcard encoders (whether or not they fail) *)
Definition bincode_written (total : bytes) (room : N) : N := N.min (len total) room.
Definition postcard_written (cs : list bytes) (room : N) : N := chunks_fit cs room.

(* ---------- serialisation of test vectors for the differential check ---------- *)
Definition s_sid (i : sid) : list N := [x8 i; x16 i; x32 i; x64 i].
Definition s_msg (m : message sid) : list N :=
  match m with
  | Ping n => [0; n] | Ack n => [1; n]
  | PingReq i n => 2 :: s_sid i ++ [n] | IndirectPing i n => 3 :: s_sid i ++ [n]
  | IndirectAck i n => 4 :: s_sid i ++ [n] | ForwardedAck i n => 5 :: s_sid i ++ [n]
  | Announce => [6] | Feed => [7] | Gossip => [8] | Broadcast => [9] | TurnUndead => [10]
  end.
Definition s_hdr (h : header sid) : list N := s_sid (h_src h) ++ [h_src_inc h] ++ s_sid (h_dst h) ++ s_msg (h_msg h).
Definition s_mem (m : member sid) : list N := s_sid (m_id m) ++ [m_inc m; state_idx (m_state m)].

(* decode request: [codec(0 bincode standard,1 postcard,2 bincode big-endian,3 bincode fixed-int,4 bincode big-endian fixed-int); what(0 header,1 member); bytes...]
   answer: [0] on error, or 1 :: consumed :: value *)
Definition run_decode (l : list N) : list N :=
  match l with
  | c :: w :: b =>
      let F := fmt_of c in
      if w =? 0 then
        match s_p_hdr F b with
        | Some (h, r) => 1 :: (len b - len r) :: s_hdr h
        | None => [0]
        end
      else
        match s_p_mem F b with
        | Some (m, r) => 1 :: (len b - len r) :: s_mem m
        | None => [0]
        end
  | _ => [0]
  end.

(* encode request: [codec; what; room; value...] ; answer: [ok(1)/err(0); written; bytes...] *)
Definition g_sid (l : list N) : option (sid * list N) :=
  match l with a :: b :: c :: d :: r => Some (mkSid a b c d, r) | _ => None end.
Definition g_msg (l : list N) : option (message sid) :=
  match l with
  | [0; n] => Some (Ping n) | [1; n] => Some (Ack n)
  | [6] => Some Announce | [7] => Some Feed | [8] => Some Gossip | [9] => Some Broadcast | [10] => Some TurnUndead
  | t :: r => match g_sid r with
              | Some (i, [n]) => match t with 2 => Some (PingReq i n) | 3 => Some (IndirectPing i n)
                                           | 4 => Some (IndirectAck i n) | 5 => Some (ForwardedAck i n) | _ => None end
              | _ => None
              end
  | _ => None
  end.
Definition run_encode (l : list N) : list N :=
  match l with
  | c :: w :: room :: v =>
      let F := fmt_of c in
      let out (total : bytes) (cs : list bytes) :=
        let written := if c =? 1 then postcard_written cs room else bincode_written total room in
        (if len total <=? room then 1 else 0) :: written :: firstn (N.to_nat written) total in
      if w =? 0 then
        match g_sid v with
        | Some (s, n :: r) =>
            match g_sid r with
            | Some (d, mr) => match g_msg mr with
                              | Some m => let h := mkHeader s n d m in out (s_enc_hdr F h) (hdr_chunks F h)
                              | None => [9]
                              end
            | None => [9]
            end
        | _ => [9]
        end
      else
        match g_sid v with
        | Some (i, [n; s]) =>
            let m := mkMember i n (match s with 0 => Alive | 1 => Suspect | _ => Down end) in
            out (s_enc_mem F m) (mem_chunks F m)
        | _ => [9]
        end
  | _ => [9]
  end.
