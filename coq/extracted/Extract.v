(* Extract.v — extraction of the executable model to OCaml (ExtrOcamlBasic only). *)
From Foca Require Import Ser SerdeM.
Require Extraction.
Require Import ExtrOcamlBasic.
Extraction Language OCaml.
Extraction "model.ml" run_step_ser run_decode run_encode run_timer_seq.
