(* driver.ml — line protocol around the extracted model (untrusted glue).
   stdin:  "S n1 n2 ..."   one step request (state ++ input, see Ser.v)
   stdout: "Q kind a b"    oracle question (kind 0 shuffle n, 1 choose n, 2 range n, 3 tie custom idx)
   stdin:  "A x1 x2 ..."   its answer
   stdout: "R n1 n2 ..."   result (see Ser.sout) *)
open Model

let rec pos_of_int (i : int) : positive =
  if i = 1 then XH
  else if i land 1 = 0 then XO (pos_of_int (i lsr 1))
  else XI (pos_of_int (i lsr 1))

let n_of_int (i : int) : n = if i = 0 then N0 else Npos (pos_of_int i)

(* returns -1 when it does not fit in 62 bits *)
let int_of_n (x : n) : int =
  match x with
  | N0 -> 0
  | Npos p ->
    let rec go p depth =
      if depth > 61 then raise Exit
      else match p with
        | XH -> 1
        | XO q -> (go q (depth + 1)) lsl 1
        | XI q -> ((go q (depth + 1)) lsl 1) lor 1
    in
    (try go p 1 with Exit -> -1)

let ten = n_of_int 10

let n_of_string (s : string) : n =
  if String.length s <= 18 then n_of_int (int_of_string s)
  else begin
    let acc = ref N0 in
    String.iter (fun c ->
        acc := N.add (N.mul !acc ten) (n_of_int (Char.code c - 48))) s;
    !acc
  end

let string_of_n (x : n) : string =
  let i = int_of_n x in
  if i >= 0 then string_of_int i
  else begin
    let buf = Buffer.create 24 in
    let rec go x acc =
      match x with
      | N0 -> acc
      | _ ->
        let (q, r) = N.div_eucl x ten in
        go q (string_of_int (int_of_n r) :: acc)
    in
    List.iter (Buffer.add_string buf) (go x []);
    Buffer.contents buf
  end

let split_ws (s : string) : string list =
  List.filter (fun x -> x <> "") (String.split_on_char ' ' (String.trim s))

let print_list tag (l : n list) =
  let buf = Buffer.create 4096 in
  Buffer.add_string buf tag;
  List.iter (fun x -> Buffer.add_char buf ' '; Buffer.add_string buf (string_of_n x)) l;
  Buffer.add_char buf '\n';
  print_string (Buffer.contents buf);
  flush stdout

let () =
  try
    while true do
      let line = input_line stdin in
      match split_ws line with
      | "S" :: rest ->
        let input = List.map n_of_string rest in
        let cache : (int, n list) Hashtbl.t = Hashtbl.create 16 in
        let next = ref 0 in
        let rnd (k : n) (r : request) : n list =
          let ki = int_of_n k in
          match Hashtbl.find_opt cache ki with
          | Some a -> a
          | None ->
            if ki <> !next then begin
              print_string (Printf.sprintf "E oracle index %d asked, expected %d\n" ki !next);
              flush stdout
            end;
            let q = match r with
              | RShuffle n -> [n_of_int 0; n; N0]
              | RChoose n -> [n_of_int 1; n; N0]
              | RRange n -> [n_of_int 2; n; N0]
              | RTie (c, i) -> [n_of_int 3; (if c then n_of_int 1 else N0); i]
            in
            print_list "Q" q;
            let ans =
              match split_ws (input_line stdin) with
              | "A" :: xs -> List.map n_of_string xs
              | _ -> []
            in
            Hashtbl.replace cache ki ans;
            next := ki + 1;
            ans
        in
        let out = run_step_ser rnd input in
        print_list "R" out
      | "D" :: rest -> print_list "R" (run_decode (List.map n_of_string rest))
      | "N" :: rest -> print_list "R" (run_encode (List.map n_of_string rest))
      | "T" :: rest -> print_list "R" (run_timer_seq (List.map n_of_string rest))
      | [] -> ()
      | _ -> print_string "E bad request\n"; flush stdout
    done
  with End_of_file -> ()
