(* Props_C16.v — C16: custom broadcasts: delivered intact, only where allowed, invalidated promptly. *)
From Foca Require Import Laws BcastM FocaM WireM L_Bcast L_Fill L_Members L_MembersInv Inv Reach L_Wire L_Dissem L_BacklogOps L_BroadcastBound L_TxAccount.
From Coq Require Import Relations.
From Coq Require Import Sorted.

Section C16.
Context {Id Addr : Type} {IO : IdOps Id Addr} {CO : CodecOps Id} {HO : HandlerOps Id}.
Context {IL : IdLaws IO} {EL : @ExtraLaws Id Addr IO CO} {CL : CodecLaws CO}.

(* every reachable state: pending items have a transmission left and are 1..65535 bytes long *)
Theorem C16_backlog_invariant (id0 : Id) (c0 : config) (h0 : hstate) (f : @foca Id Addr HO) :
  cfg_ok c0 -> reach id0 c0 h0 f ->
  Forall (fun e => 1 <= e_tx e /\ 1 <= len (e_data e) <= u16_max) (customs f).
Proof. intros CK R. exact (wf_cus f (proj1 (reach_WF id0 c0 h0 f CK R))). Qed.

(* accepting a key (locally or from the wire): the item enters byte for byte with
   max_transmissions, and nothing the key invalidates is left in the backlog - so it can never
   be transmitted again *)
Theorem C16_accept_and_invalidate (key : hkey) (data : bytes) (s : @rs Id Addr HO) (e : @entry hkey) :
  In e (customs (st (fst (add_custom key data s)))) ->
  e = mkEntry (max_tx (st s)) data key \/ (In e (customs (st s)) /\ h_inval key (e_key e) = false).
Proof. exact (add_custom_invalidates key data s e). Qed.

(* the custom section of a datagram: whole items, each framed with its exact u16 length, taken
   in priority order; each written item loses one transmission and leaves at zero *)
Theorem C16_fill_spec (hint : list N) (l : backlog hkey) (room mx : N) w n kept :
  fill_loop hkey 2 (pop_order hkey hint l) room mx = (w, n, kept, None) ->
  let decs := fill_dec hkey 2 (pop_order hkey hint l) room mx in
  Permutation (map fst decs) l
  /\ StronglySorted (prio_ge hkey) (map fst decs)
  /\ w = flat_map (wr hkey 2) decs
  /\ n = len (filter snd decs)
  /\ kept = flat_map (kp hkey) decs.
Proof.
  intros H decs. unfold decs. rewrite fill_dec_fst.
  destruct (fill_loop_dec hkey 2 _ _ _ _ _ _ H) as (A & B & C).
  exact (conj (pop_order_perm hkey hint l) (conj (pop_order_sorted hkey hint l) (conj A (conj B C)))).
Qed.

(* custom items go only on kinds that may carry them and only to members the handler allows:
   the whole datagram has the documented shape (items empty when the kind forbids them) *)
Theorem C16_send_shape (rnd : oracle) (dst : Id) (msg : message Id) (s : @rs Id Addr HO) :
  WF (st s) ->
  match send_message rnd dst msg s with
  | (s', ROk _) => exists b, out s' = out s ++ [Send dst b] /\ sent_ok (st s) dst msg b
  | (s', RErr e) => e = EEncode /\ s' = s
  | (_, RPanic _) => False
  end.
Proof. exact (send_message_shape rnd dst msg s). Qed.

Theorem C16_gate (rnd : oracle) (dst : Id) (msg : message Id) (room3 idx : N) (s : @rs Id Addr HO) :
  allow_custom_broadcasts msg = false \/ h_should_add (hst (st s)) dst = false ->
  send_customs rnd dst msg room3 idx s = (s, ROk []).
Proof.
  intros [H|H]; unfold send_customs, bind, get; rewrite H; rewrite ?andb_false_r; reflexivity.
Qed.

(* the receiving handler sees exactly the items sent: in order, once each, whole, together with
   the sender's identity (until the first handler error) *)
Theorem C16_receiver_sees_items (items : list bytes) (sender : option Id) (fuel : nat) (s : @rs Id Addr HO) :
  Forall item_ok items -> (length (flat_map fr items) <= fuel)%nat ->
  custom_loop fuel (flat_map fr items) sender s = forM_ items (recv_item sender) s.
Proof. exact (custom_loop_items items sender fuel s). Qed.

(* broadcast() sends nothing when the backlog is empty *)
Theorem C16_broadcast_empty (rnd : oracle) (s : @rs Id Addr HO) :
  customs (st s) = [] -> broadcast rnd s = (s, ROk tt).
Proof. exact (broadcast_empty_noop rnd s). Qed.

(* OVER EVERY CALL (any input, any oracle): the backlog of custom broadcasts changes only through
   accepting an item (add_or_replace with the handler's invalidation relation:
   C16_accept_and_invalidate) and through one fill per datagram that may carry items
   (C16_fill_spec) *)
Theorem C16_backlog_operations (l l' : backlog hkey) :
  cstep l l' <->
  (exists k d tx, l' = add_or_replace hkey h_inval l k d tx)
  \/ (exists hint room w n, fill_gen hkey 2 hint l room usize_max = (w, n, l', None)).
Proof.
  split.
  - intros H. destruct H as [l k d tx|l hint room w n kept FG]; [left; eauto|right; eauto].
  - intros [(k & d & tx & ->)|(hint & room & w & n & FG)]; [constructor|econstructor; exact FG].
Qed.

Theorem C16_backlog_changes_only_so (rnd : oracle) (f : @foca Id Addr HO) (i : @input Id) :
  clos_refl_trans _ cstep (customs f) (customs (fst (fst (fst (step rnd f i))))).
Proof. exact (proj2 (step_backlogs rnd f i)). Qed.

(* broadcast() as one call: only Broadcast datagrams built from the current identity, at most
   num_indirect_probes of them, none when nothing is pending *)
Theorem C16_broadcast_bound (rnd : oracle) (f : @foca Id Addr HO) :
  let es := snd (fst (fst (step rnd f IBroadcast))) in
  Forall (dgram_of (identity f) (incarnation f) Broadcast) es
  /\ len es <= num_indirect_probes (cfg f)
  /\ (customs f = [] -> es = []).
Proof. exact (broadcast_bound rnd f). Qed.

Theorem C16_dgram_of_meaning (id : Id) (inc : N) (msg : message Id) (e : effect Id) :
  dgram_of id inc msg e <->
  match e with Send dst b => exists rest, b = enc_hdr (mkHeader id inc dst msg) ++ rest | _ => False end.
Proof. reflexivity. Qed.

(* the same ledger as for cluster updates (C15): a length-prefixed fill that writes n items lowers the
   transmissions owed by the custom backlog by exactly n; accepting an item raises them by at most
   max_transmissions (and removes whatever the new key invalidates) *)
Theorem C16_fill_costs_one_transmission_each (hint : list N) (l : backlog hkey) (room mx : N) w n kept :
  fill_gen hkey 2 hint l room mx = (w, n, kept, None) -> total kept + n = total l.
Proof. exact (fill_total hkey 2 hint l room mx w n kept). Qed.

Theorem C16_accept_adds_at_most_max_transmissions (l : backlog hkey) (k : hkey) (d : bytes) (mx : N) :
  total (add_or_replace hkey h_inval l k d mx) <= total l + mx.
Proof. exact (add_or_replace_total hkey h_inval l k d mx). Qed.

End C16.

Print Assumptions C16_backlog_operations.
Print Assumptions C16_backlog_changes_only_so.
Print Assumptions C16_backlog_invariant.
Print Assumptions C16_accept_and_invalidate.
Print Assumptions C16_fill_spec.
Print Assumptions C16_send_shape.
Print Assumptions C16_gate.
Print Assumptions C16_receiver_sees_items.
Print Assumptions C16_broadcast_empty.
Print Assumptions C16_broadcast_bound.
Print Assumptions C16_dgram_of_meaning.
Print Assumptions C16_fill_costs_one_transmission_each.
Print Assumptions C16_accept_adds_at_most_max_transmissions.
