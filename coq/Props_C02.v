(* Props_C02.v — C02: fault-free cluster (PARTIAL).  Proved: the single-instance mechanisms the
   cluster statement rests on, for all states / oracles.  The cluster-wide timed composition
   (full discovery within a linear number of periods, zero false suspicion throughout) is decided
   by the discrete-event simulation of real instances with per-step refinement in scope. *)
From Foca Require Import Laws MembersM ProbeM FocaM WireM L_Members L_MembersInv L_Join Inv L_Wire L_Probe L_Mech L_RoundRobin L_RoundEnd L_Evidence.
From Coq Require Import Permutation.

Section C02.
Context {Id Addr : Type} {IO : IdOps Id Addr} {CO : CodecOps Id} {HO : HandlerOps Id}.
Context {IL : IdLaws IO} {EL : @ExtraLaws Id Addr IO CO} {CL : CodecLaws CO}.

(* a Ping is answered, in the same call, by an Ack with the same number to the sender *)
Theorem C02_ping_acked (rnd : oracle) (src : Id) (n : N) (s : @rs Id Addr HO) :
  WF (st s) ->
  match react rnd src (Ping n) s with
  | (s', ROk _) => exists b, out s' = out s ++ [Send src b] /\ sent_ok (st s) src (Ack n) b
  | (s', RErr e) => e = EEncode /\ s' = s
  | (_, RPanic _) => False
  end.
Proof. exact (ping_is_acked rnd src n s). Qed.

(* an Ack from the probed member with the current number makes the round succeed: the member
   is then not handed over for suspicion *)
Theorem C02_acked_round_raises_no_suspicion (p : probe Id) (from : Id) (n : N) :
  n = p_number p -> probe_is_probing p from = true ->
  snd (probe_take_failed (fst (probe_receive_ack p from n))) = None.
Proof. exact (acked_round_no_suspicion p from n). Qed.

(* every accepted datagram makes an unknown sender an active member at once *)
Theorem C02_sender_is_learned (rnd : oracle) (ms : @members Id) (src : Id) (inc : N) (n : N) :
  uniq (inner ms) -> view ms (addr_of src) = None ->
  view (fst (fst (members_apply rnd ms (mkMember src inc Alive) n))) (addr_of src) = Some (mkMember src inc Alive).
Proof. exact (unknown_sender_learned rnd ms src inc n). Qed.

(* suspicion is never fabricated by applying knowledge: a record is what it was or what it was told *)
Theorem C02_no_spontaneous_suspicion (rnd : oracle) (ms : @members Id) (u : member Id) (n : N) (a : Addr) (k' : member Id) :
  uniq (inner ms) -> view (fst (fst (members_apply rnd ms u n))) a = Some k' ->
  view ms a = Some k' \/ k' = u.
Proof. exact (no_spontaneous_state rnd ms u n a k'). Qed.

(* every active member is probed within 2n-1 rounds (C14) *)
Theorem C02_everyone_is_probed (rnd : oracle) (ms : @members Id) (n : N) (x : member Id) (j : nat) :
  len (inner ms) <= usize_max -> In x (inner ms) -> m_active x = true ->
  In x (iter_next rnd (2 * na (inner ms) - 1) (fst (state_after rnd j ms n)) (snd (state_after rnd j ms n))).
Proof. exact (next_sliding_window rnd ms n x j). Qed.

(* ZERO FALSE SUSPICION, one instance, any interleaving: if the Ack of the member being probed (current
   number) has been handled at any moment of the round, then whatever calls follow - datagrams, other
   timers, API calls, in any order and number, none of them the live ProbeRandomMember timer - the
   ProbeRandomMember timer that ends the round schedules no suspicion timeout and leaves the member
   list alone *)
Theorem C02_answered_round_never_suspects (rnd : oracle) (l : list (@input Id)) (f : @foca Id Addr HO) :
  ev (prb f) -> no_live_probe rnd f l -> conn (run_calls rnd f l) = Connected ->
  let g := run_calls rnd f l in
  let '(f', es, _, _) := step rnd g (ITimer (TProbeRandomMember (token g))) in
  cstd_of es = [] /\ Permutation (inner (mems f')) (inner (mems g)).
Proof.
  intros H NL Cn. cbv zeta.
  exact (round_with_evidence_ends_quietly rnd (run_calls rnd f l) Cn (history_keeps_evidence rnd l f NL H)).
Qed.

End C02.

Print Assumptions C02_ping_acked.
Print Assumptions C02_acked_round_raises_no_suspicion.
Print Assumptions C02_sender_is_learned.
Print Assumptions C02_no_spontaneous_suspicion.
Print Assumptions C02_everyone_is_probed.
Print Assumptions C02_answered_round_never_suspects.
