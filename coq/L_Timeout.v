(* L_Timeout.v — the suspicion timeout (Timer::ChangeSuspectToDown): takes
   effect iff the record still shows the same identity at the same incarnation
   and is active; otherwise nothing at all happens (C11). *)
From Foca Require Import Laws L_Lists MembersM ProbeM BcastM FocaM L_Members L_MembersInv.

Section Timeout.
Context {Id Addr : Type} {IO : IdOps Id Addr} {CO : CodecOps Id} {HO : HandlerOps Id}.
Context {IL : IdLaws IO}.
Variable rnd : oracle.
Notation foca := (@foca Id Addr HO).
Notation member := (member Id).

Lemma lookup_find_index (l : list member) a k :
  lookup l a = Some k ->
  exists p, find_index (fun m => addr_eqb (maddr m) a) l = Some p /\ nth_error l p = Some k.
Proof.
  unfold lookup. induction l as [|x l IH]; cbn; [discriminate|].
  destruct (addr_eqb (maddr x) a).
  - intros E. inversion E; subst. exists 0%nat. auto.
  - intros E. destruct (IH E) as (p & F & N). exists (S p). rewrite F. auto.
Qed.

(* adjust_connection_state does nothing when connection state and member count agree *)
Definition conn_consistent (f : foca) : Prop :=
  match conn f with
  | Disconnected => num_active (mems f) = 0
  | Connected => 0 < num_active (mems f)
  | Undead => True
  end.

Lemma adjust_noop (s : @rs Id Addr HO) :
  conn_consistent (st s) -> adjust_connection_state s = (s, ROk tt).
Proof.
  unfold conn_consistent, adjust_connection_state, bind, get. destruct (conn (st s)); intros H.
  - replace (0 <? num_active (mems (st s))) with false by lia. reflexivity.
  - replace (num_active (mems (st s)) =? 0) with false by lia. reflexivity.
  - reflexivity.
Qed.

Definition timeout (x : Id) (inc tok : N) : @input Id := ITimer (TChangeSuspectToDown x inc tok).

(* the timeout is cancelled: unknown address, superseded identity, different
   incarnation, or already Down *)
Definition cancelled (f : foca) (x : Id) (inc : N) : Prop :=
  match lookup (inner (mems f)) (addr_of x) with
  | None => True
  | Some k =>
      (m_id k <> x /\ wins (m_id k) x = true)
      \/ m_inc k <> inc
      \/ (m_id k = x /\ m_state k = Down)
  end.

Notation "x <- m ;; f" := (bind m (fun x => f)) (at level 61, m at next level, right associativity).
Notation "m ;;; f" := (bind m (fun _ => f)) (at level 61, right associativity).

Lemma failed_summary_tail (f : foca) (sm : @summary Id) (u : member) (b : bool) (m : M unit) :
  apply_successful sm = false -> changed_active_set sm = false ->
  (forall o, s_conflict sm <> Replaced o) ->
  conn_consistent f ->
  (handle_apply_summary sm u true ;;; adjust_connection_state ;;;
   when (apply_successful sm && b) m) (mkRs f [] 0) = (mkRs f [] 0, ROk tt).
Proof.
  intros A C R CC. unfold handle_apply_summary. rewrite A, C.
  destruct (s_conflict sm) eqn:SC; try (exfalso; eapply R; reflexivity).
  all: unfold bind, when, ret; cbn [andb]; rewrite (adjust_noop (mkRs f [] 0) CC); reflexivity.
Qed.

Theorem timeout_cancelled_noop (f : foca) (x : Id) (inc tok : N) :
  conn_consistent f -> cancelled f x inc ->
  step rnd f (timeout x inc tok) = (f, [], Done, 0).
Proof.
  intros CC C. unfold timeout, step, run_unit, handle_timer, bind at 1, get at 1. cbn [st].
  destruct (negb (token f =? tok)); [reflexivity|].
  unfold cancelled in C. unfold apply_existing_if. cbn [m_id].
  destruct (lookup (inner (mems f)) (addr_of x)) as [k|] eqn:L.
  2:{ assert (F : find_index (fun m => addr_eqb (maddr m) (addr_of x)) (inner (mems f)) = None).
      { apply find_index_None. intros m Hm. cbn. eapply lookup_None in L; eauto. apply addr_eqb_neq. exact L. }
      unfold maddr in F. rewrite F. reflexivity. }
  destruct (lookup_find_index _ _ _ L) as (p & F & Np). unfold maddr in F. rewrite F, Np.
  assert (S : set_mems f (mems f) = f) by (destruct f; reflexivity).
  assert (Tail : forall sm,
             apply_successful sm = false -> changed_active_set sm = false ->
             (forall o, s_conflict sm <> Replaced o) ->
             (let '(s, r) :=
                (modify (fun f0 => set_mems f0 (mems f)) ;;;
                 handle_apply_summary sm (mkMember x inc Down) true ;;; adjust_connection_state ;;;
                 when (apply_successful sm && notify_down_members (cfg f)) (send_message rnd x TurnUndead))
                  (mkRs f [] 0) in
              (st s, out s, to_result (fun _ : unit => Done) r, ctr s)) = (f, [], Done, 0)).
  { intros sm A1 A2 A3. unfold bind at 1, modify at 1. cbn [st out ctr]. rewrite S.
    rewrite failed_summary_tail; auto. }
  destruct C as [[Nid W]|[Ninc|[Eid Dn]]].
  - assert (E : id_eqb (m_id k) x = false) by (apply id_eqb_neq; exact Nid).
    rewrite E, W. cbn [negb andb]. apply Tail; cbn; auto. discriminate.
  - destruct (negb (id_eqb (m_id k) x) && wins (m_id k) x) eqn:LW.
    + apply Tail; cbn; auto. discriminate.
    + replace (m_inc k =? inc) with false by lia. cbn [negb].
      apply Tail; cbn; auto. intros o. destruct (negb (id_eqb (m_id k) x)); discriminate.
  - rewrite Eid, id_eqb_refl. cbn [negb andb].
    destruct (negb (m_inc k =? inc)) eqn:Ci.
    + apply Tail; cbn; auto. discriminate.
    + unfold change_state, can_change. rewrite Dn. cbn [m_active m_state is_active_state Bool.eqb negb].
      unfold m_active. rewrite Dn. cbn [is_active_state Bool.eqb negb].
      assert (Sn : set_nth p k (inner (mems f)) = inner (mems f)).
      { destruct (set_nth_split p k _ k Np) as (l1 & l2 & E1 & E2 & _). congruence. }
      rewrite Sn.
      assert (S2 : mkMembers (inner (mems f)) (cursor (mems f)) (num_active (mems f)) = mems f)
        by (destruct (mems f); reflexivity).
      rewrite S2. apply Tail; cbn; auto. discriminate.
Qed.

(* header-only datagrams (Announce, TurnUndead) *)
Definition header_fits (f : foca) : Prop :=
  forall dst msg, len (enc_hdr (mkHeader (identity f) (incarnation f) dst msg)) <= max_packet_size (cfg f).

Lemma send_message_header_only (s : @rs Id Addr HO) dst msg :
  needs_piggyback msg = false -> allow_custom_broadcasts msg = false ->
  send_cap (st s) = max_packet_size (cfg (st s)) ->
  len (enc_hdr (mkHeader (identity (st s)) (incarnation (st s)) dst msg)) <= max_packet_size (cfg (st s)) ->
  send_message rnd dst msg s =
  (mkRs (st s) (out s ++ [Send dst (enc_hdr (mkHeader (identity (st s)) (incarnation (st s)) dst msg))]) (ctr s), ROk tt).
Proof.
  intros NP AC Cap Fit. unfold send_message, bind at 1, get at 1.
  rewrite Cap, N.eqb_refl. cbn [negb].
  replace (max_packet_size (cfg (st s)) <? len (enc_hdr _)) with false by lia.
  unfold bind at 1, num_sends at 1. unfold send_body. rewrite NP. cbn [andb].
  unfold bind at 1, ret at 1. unfold send_customs. unfold bind at 1. unfold bind at 1, get at 1. cbn [st].
  rewrite AC. rewrite andb_false_r. cbn [andb].
  unfold ret, emit. cbn. rewrite !app_nil_r. reflexivity.
Qed.

Lemma bind_ok {A B} (m : M A) (g : A -> M B) (s s' : @rs Id Addr HO) (a : A) :
  m s = (s', ROk a) -> bind m g s = g a s'.
Proof. intros E. unfold bind. rewrite E. reflexivity. Qed.

Lemma handle_apply_summary_down (s : @rs Id Addr HO) (x : Id) (inc : N) :
  handle_apply_summary (mkSummary false true true NoConflict) (mkMember x inc Down) true s =
  (mkRs (set_updates (st s)
           (add_or_replace Addr addr_eqb (updates (st s)) (addr_of x) (enc_mem (mkMember x inc Down))
                           (max_transmissions (cfg (st s)))))
        (out s ++ [Submit (TRemoveDown x) (remove_down_after (cfg (st s)))] ++ [Notify (NMemberDown x)])
        (ctr s), ROk tt).
Proof.
  unfold handle_apply_summary, when, bind, add_update, modify, get, emit, ret, max_tx. cbn.
  rewrite <- app_assoc. reflexivity.
Qed.

(* the timeout takes effect *)
Theorem timeout_effective (f : foca) (x : Id) (inc : N) (k : member) :
  lookup (inner (mems f)) (addr_of x) = Some k ->
  m_id k = x -> m_inc k = inc -> m_active k = true ->
  conn f = Connected -> 1 < num_active (mems f) ->
  send_cap f = max_packet_size (cfg f) -> header_fits f ->
  exists ms',
    step rnd f (timeout x inc (token f)) =
    (set_updates (set_mems f ms')
       (add_or_replace Addr addr_eqb (updates f) (addr_of x) (enc_mem (mkMember x inc Down)) (max_transmissions (cfg f))),
     [Submit (TRemoveDown x) (remove_down_after (cfg f)); Notify (NMemberDown x)]
       ++ (if notify_down_members (cfg f)
           then [Send x (enc_hdr (mkHeader (identity f) (incarnation f) x TurnUndead))] else []),
     Done, 0)
    /\ num_active ms' = num_active (mems f) - 1
    /\ exists p, nth_error (inner (mems f)) p = Some k /\
                 inner ms' = set_nth p (mkMember x inc Down) (inner (mems f)).
Proof.
  intros L Eid Einc Act Conn Many Cap HF.
  destruct (lookup_find_index _ _ _ L) as (p & F & Np).
  exists (mkMembers (set_nth p (mkMember x inc Down) (inner (mems f))) (cursor (mems f)) (num_active (mems f) - 1)).
  split; [|split; [reflexivity|exists p; auto]].
  unfold timeout, step, run_unit, handle_timer, bind at 1, get at 1. cbn [st].
  rewrite N.eqb_refl. cbn [negb].
  assert (AE : apply_existing_if (mems f) (mkMember x inc Down) (fun m => m_inc m =? inc) =
               Some (mkMembers (set_nth p (mkMember x inc Down) (inner (mems f))) (cursor (mems f))
                               (num_active (mems f) - 1),
                     mkSummary false true true NoConflict)).
  { unfold apply_existing_if. cbn [m_id]. unfold maddr in F. rewrite F, Np.
    rewrite Eid, id_eqb_refl. cbn [negb andb]. rewrite Einc, N.eqb_refl. cbn [negb].
    unfold change_state, can_change. cbn [m_state m_inc].
    unfold m_active in Act. unfold m_active.
    destruct (m_state k); cbn in Act; try discriminate; cbn; rewrite Eid; reflexivity. }
  rewrite AE.
  erewrite bind_ok by (unfold modify; reflexivity). cbn [st out ctr].
  erewrite bind_ok by (apply handle_apply_summary_down). cbn [st out ctr].
  erewrite bind_ok.
  2:{ apply adjust_noop. unfold conn_consistent. cbn. rewrite Conn. lia. }
  cbn [apply_successful andb].
  destruct (notify_down_members (cfg f)) eqn:ND; cbn [when]; cbn [cfg set_updates set_mems].
  - rewrite send_message_header_only; cbn [st out ctr identity incarnation cfg send_cap set_updates set_mems]; auto.
  - cbn [ret]. reflexivity.
Qed.

End Timeout.
