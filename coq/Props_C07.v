(* Props_C07.v — C07: every emitted datagram is well-formed, bounded and accepted by its peer. *)
From Foca Require Import Laws FocaM WireM L_Members L_MembersInv Inv Reach L_Wire L_StepWire L_Accept Concrete ConcreteLaws.

Section C07.
Context {Id Addr : Type} {IO : IdOps Id Addr} {CO : CodecOps Id} {HO : HandlerOps Id}.
Context {IL : IdLaws IO} {EL : @ExtraLaws Id Addr IO CO} {CL : CodecLaws CO}.

(* every datagram handed to the runtime by any call from a well-formed state (any input, any
   oracle) was produced from a well-formed state f0 and: parses with the independent grammar of
   WireM.v into exactly (header with f0's identity and incarnation as source and the destination
   it is handed over for; optional member section; non-empty length-prefixed items; nothing
   else); is at most max_packet_size long; a Feed lists only active members other than the
   receiver (the sender is never an active member, C09) *)
Theorem C07_wellformed (rnd : oracle) (f : @foca Id Addr HO) (i : @input Id) :
  WF f -> input_ok (addr_of (identity f)) i ->
  Forall (fun e => match e with
                   | Send dst b =>
                       exists (f0 : @foca Id Addr HO) (msg : message Id) ms items,
                         WF f0
                         /\ parse_datagram b = Some (mkDatagram (mkHeader (identity f0) (incarnation f0) dst msg) ms items)
                         /\ len b <= max_packet_size (cfg f0)
                         /\ Forall item_ok items
                         /\ (msg = Feed -> forall l, ms = Some l ->
                             Forall (fun m => In m (inner (mems f0)) /\ m_active m = true /\ id_eqb (m_id m) dst = false) l)
                   | _ => True
                   end) (step_effects rnd f i).
Proof.
  intros W I0. eapply Forall_impl; [|exact (step_wire rnd f i W I0)].
  intros [dst b| |]; cbn; auto. intros (f0 & msg & W0 & S).
  destruct (sent_ok_parses f0 dst msg b S) as (ms & items & H). exists f0, msg, ms, items. tauto.
Qed.

(* the grammar itself enforces the kind-specific shapes: Announce / TurnUndead carry nothing,
   Broadcast no member section, items are non-empty *)
Theorem C07_grammar_shapes (b : bytes) (d : @datagram Id) :
  parse_datagram b = Some d ->
  (h_msg (d_hdr d) = Announce \/ h_msg (d_hdr d) = TurnUndead -> d_members d = None /\ d_items d = [])
  /\ (h_msg (d_hdr d) = Broadcast -> d_members d = None).
Proof. exact (parse_shapes b d). Qed.

(* a peer with the same codec whose packet size admits the datagram never answers it with a
   Decode, MalformedPacket or DataTooBig error *)
Theorem C07_peer_accepts (rnd : oracle) (f2 : @foca Id Addr HO) (src dst : Id) (inc : N) (msg : message Id)
        (ms : option (list (member Id))) (items : list bytes) :
  let h := mkHeader src inc dst msg in
  let b := enc_hdr h
           ++ (match ms with Some l => u16_be (len l) ++ flat_map enc_mem l | None => [] end)
           ++ flat_map fr items in
  len b <= max_packet_size (cfg f2) ->
  Forall item_ok items ->
  (match ms with Some l => len l <= u16_max | None => True end) ->
  (needs_piggyback msg = false -> ms = None) ->
  (allow_custom_broadcasts msg = false -> items = []) ->
  (needs_piggyback msg = true -> ms = None -> items = []) ->
  match step_result_of (step rnd f2 (IData b)) with
  | Failed e => e <> EDecode /\ e <> EMalformedPacket /\ e <> EDataTooBig
  | _ => True
  end.
Proof.
  intros h b A B C D E F. pose proof (peer_accepts rnd f2 src dst inc msg ms items A B C D E F) as H.
  cbv zeta in H. fold h in H. fold b in H.
  destruct (step_result_of (step rnd f2 (IData b))); auto. unfold bad in H. tauto.
Qed.

End C07.

Print Assumptions C07_wellformed.
Print Assumptions C07_grammar_shapes.
Print Assumptions C07_peer_accepts.
