(* L_CfgFrame.v — the configuration changes only through set_config (so the set of enabled
   periodic tasks, the timing and the packet size are constant across every other call). *)
From Foca Require Import Laws L_Lists MembersM ProbeM BcastM FocaM Hoare Inv.

Section CfgFrame.
Context {Id Addr : Type} {IO : IdOps Id Addr} {CO : CodecOps Id} {HO : HandlerOps Id}.
Variable rnd : oracle.
Notation foca := (@foca Id Addr HO).
Notation M := (@M Id Addr HO).
Notation "x <- m ;; f" := (bind m (fun x => f)) (at level 61, m at next level, right associativity).
Notation "m ;;; f" := (bind m (fun _ => f)) (at level 61, right associativity).

Definition kc {A} (m : M A) : Prop := forall s, cfg (st (fst (m s))) = cfg (st s).

Lemma kc_bind {A B} (m : M A) (f : A -> M B) : kc m -> (forall a, kc (f a)) -> kc (bind m f).
Proof.
  intros Hm Hf s. specialize (Hm s). unfold bind. destruct (m s) as [s1 [a|e|p]]; cbn [fst] in *; auto.
  rewrite (Hf a s1). exact Hm.
Qed.
Lemma kc_const {A} (r : res A) : kc (fun s => (s, r)). Proof. intros s. reflexivity. Qed.
Lemma kc_ret {A} (x : A) : kc (@ret Id Addr HO A x). Proof. apply kc_const. Qed.
Lemma kc_fail {A} e : kc (@fail Id Addr HO A e). Proof. apply kc_const. Qed.
Lemma kc_panic {A} p : kc (@panic Id Addr HO A p). Proof. apply kc_const. Qed.
Lemma kc_get : kc (@get Id Addr HO). Proof. intros s. reflexivity. Qed.
Lemma kc_num_sends : kc (@num_sends Id Addr HO). Proof. intros s. reflexivity. Qed.
Lemma kc_emit e : kc (@emit Id Addr HO e). Proof. intros s. reflexivity. Qed.
Lemma kc_ask r : kc (ask rnd r). Proof. intros s. reflexivity. Qed.
Lemma kc_with_ctr {A} (g : N -> A * N) : kc (with_ctr g).
Proof. intros s. unfold with_ctr. destruct (g (ctr s)). reflexivity. Qed.
Lemma kc_modify g : (forall f, cfg (g f) = cfg f) -> kc (@modify Id Addr HO g).
Proof. intros H s. cbn. apply H. Qed.
Lemma kc_when b (m : M unit) : kc m -> kc (when b m).
Proof. destruct b; cbn; auto. intros _. apply kc_ret. Qed.
Lemma kc_forM {A} (l : list A) (f : A -> M unit) : (forall x, kc (f x)) -> kc (forM_ l f).
Proof. intros H. induction l as [|x t IH]; cbn [forM_]; [apply kc_ret|]. apply kc_bind; auto. Qed.
Lemma kc_attempt (m : M unit) : kc m -> kc (attempt m).
Proof. intros H s. specialize (H s). unfold attempt. destruct (m s) as [s1 [x|e|p]]; auto. Qed.

Ltac kc_step :=
  first
    [ apply kc_ret | apply kc_fail | apply kc_panic | apply kc_get | apply kc_num_sends
    | apply kc_emit | apply kc_ask | apply kc_with_ctr
    | apply kc_modify; intros ?; reflexivity
    | apply kc_when | apply kc_attempt
    | apply kc_forM; intros ?; cbv beta
    | apply kc_bind; [|intros ?]
    | progress cbv zeta
    | progress unfold send_message, send_body, send_customs, estimate_feed_capacity, choose_active, choose_and_send,
        gossip, announce_to_down, add_update, add_custom, handle_apply_summary, apply_update, submit_periodic,
        become_connected, become_disconnected, become_undead, adjust_connection_state, indirect_loop,
        handle_custom_broadcasts, probe_random_member, reset, change_identity, attempt_rejoin, handle_self_update,
        apply_one, apply_many, leave_cluster, broadcast, react, reuse_down_identity, add_broadcast, periodic_guard
    | match goal with
      | |- kc (match ?x with _ => _ end) => destruct x
      | |- kc (if ?c then _ else _) => destruct c
      | |- kc (let '(_, _) := ?x in _) => destruct x
      end ].
Ltac kc_auto := repeat kc_step.

Lemma kc_feed_loop l : forall room count acc0, kc (@feed_loop Id Addr CO HO l room count acc0).
Proof. induction l as [|m t IH]; intros room count acc0; cbn [feed_loop]; kc_auto. apply IH. Qed.
Lemma kc_custom_loop sender fuel : forall data, kc (@custom_loop Id Addr HO fuel data sender).
Proof. induction fuel as [|fuel IH]; intros data; cbn [custom_loop]; kc_auto. apply IH. Qed.
Lemma kc_broadcast_loop l : kc (broadcast_loop rnd l).
Proof. induction l as [|m t IH]; cbn [broadcast_loop]; kc_auto; first [apply kc_feed_loop|apply IH]. Qed.

Theorem step_cfg_frame (f : foca) (i : @input Id) :
  match i with ISetConfig _ => True | _ => cfg (fst (fst (fst (step rnd f i)))) = cfg f end.
Proof.
  assert (RU : forall (m : M unit), kc m -> cfg (fst (fst (fst (run_unit m f)))) = cfg f).
  { intros m H. specialize (H (mkRs f [] 0)). unfold run_unit. destruct (m (mkRs f [] 0)) as [s' r]. exact H. }
  destruct i; cbn [step]; auto.
  - apply RU. unfold handle_data. kc_auto; first [apply kc_feed_loop|apply kc_custom_loop].
  - apply RU. unfold handle_timer. kc_auto; apply kc_feed_loop.
  - apply RU. kc_auto; apply kc_feed_loop.
  - apply RU. kc_auto; apply kc_feed_loop.
  - apply RU. kc_auto; apply kc_feed_loop.
  - apply RU. kc_auto; first [apply kc_broadcast_loop|apply kc_feed_loop].
  - apply RU. kc_auto; apply kc_feed_loop.
  - apply RU. kc_auto; apply kc_feed_loop.
  - apply RU. kc_auto.
  - assert (G : kc (@add_broadcast Id Addr HO b)) by kc_auto.
    specialize (G (mkRs f [] 0)). unfold run_bool. destruct (add_broadcast b (mkRs f [] 0)) as [s' r]. exact G.
Qed.

End CfgFrame.
