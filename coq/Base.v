(* Base.v — numbers, bytes, list helpers, result type, oracle.  No proofs here. *)
From Coq Require Export List NArith Bool.
Export ListNotations.
Open Scope N_scope.

Definition bytes := list N.            (* each element < 256 on well-formed data *)

Definition u8_max : N := 255.
Definition u16_max : N := 65535.
Definition usize_max : N := 18446744073709551615.

Definition wrap8 (x : N) : N := x mod 256.
Definition sat_add_usize (x y : N) : N := N.min (x + y) usize_max.

Definition len {A} (l : list A) : N := N.of_nat (length l).

(* big-endian u16 *)
Definition u16_be (x : N) : bytes := [ (x / 256) mod 256 ; x mod 256 ].
Definition get_u16 (b : bytes) : option (N * bytes) :=
  match b with
  | hi :: lo :: r => Some (hi * 256 + lo, r)
  | _ => None
  end.

Definition nthN {A} (l : list A) (i : N) : option A := nth_error l (N.to_nat i).

Fixpoint set_nth {A} (n : nat) (x : A) (l : list A) : list A :=
  match l, n with
  | [], _ => []
  | _ :: t, O => x :: t
  | h :: t, S n' => h :: set_nth n' x t
  end.

(* Vec::swap *)
Definition swap {A} (l : list A) (i j : nat) : list A :=
  match nth_error l i, nth_error l j with
  | Some a, Some b => set_nth j a (set_nth i b l)
  | _, _ => l
  end.

(* Vec::swap_remove (index known valid by the callers) *)
Definition swap_remove {A} (l : list A) (i : nat) : list A :=
  match nth_error l i, rev l with
  | Some _, last :: _ => removelast (set_nth i last l)
  | _, _ => l
  end.

Fixpoint find_index {A} (p : A -> bool) (l : list A) : option nat :=
  match l with
  | [] => None
  | x :: t => if p x then Some O else option_map S (find_index p t)
  end.

Fixpoint list_eqb {A} (eqb : A -> A -> bool) (a b : list A) : bool :=
  match a, b with
  | [], [] => true
  | x :: a', y :: b' => eqb x y && list_eqb eqb a' b'
  | _, _ => false
  end.

Definition bytes_eqb : bytes -> bytes -> bool := list_eqb N.eqb.

Fixpoint memN (x : N) (l : list N) : bool :=
  match l with [] => false | y :: t => N.eqb x y || memN x t end.

Fixpoint nodupN (l : list N) : bool :=
  match l with [] => true | x :: t => negb (memN x t) && nodupN t end.

(* [p] is a permutation of 0..n-1 *)
Definition is_perm (n : nat) (p : list N) : bool :=
  Nat.eqb (length p) n && forallb (fun i => N.ltb i (N.of_nat n)) p && nodupN p.

(* new[i] = old[p[i]]; an answer that is not a permutation means "identity" *)
Definition apply_perm {A} (p : list N) (l : list A) : list A :=
  if is_perm (length l) p
  then flat_map (fun i => match nthN l i with Some x => [x] | None => [] end) p
  else l.

(* ---- randomness / heap tie-break oracle ---- *)
Inductive request :=
| RShuffle (n : N)                 (* SliceRandom::shuffle on n elements: permutation *)
| RChoose (n : N)                  (* (0..n).choose(rng): index < n *)
| RRange (n : N)                   (* rng.random_range(0..n): index < n *)
| RTie (custom : bool) (send_idx : N).  (* pop order of equal-priority entries: item list *)

Definition oracle := N -> request -> list N.

(* normalised "index below n" answer *)
Definition below (n : N) (ans : list N) : N :=
  match ans with
  | x :: _ => if n =? 0 then 0 else x mod n
  | [] => 0
  end.

(* ---- results ---- *)
Inductive error :=
| EDataTooBig | ENotUndead | ESameIdentity | ENotConnected | EIncompleteProbeCycle
| EDataFromOurselves | EIndirectForOurselves | EMalformedPacket
| EEncode | EDecode | ECustomBroadcast | EInvalidConfig.

Inductive site :=
| PSendBufCapacity        (* debug_assert_eq!(capacity, max_packet_size) in send_message *)
| PFeedCountOverflow      (* num_items += 1 on u16 *)
| PItemTooLong            (* debug_assert!(u16::try_from(len).is_ok()) in fill_with_len_prefix *)
| PApplySelf              (* debug_assert_ne!(identity, update.id) in apply_update *)
| PProbeNotConnected      (* debug_assert_eq!(Connected) in probe_random_member *)
| PExpectIndirectIsTarget (* debug_assert in expect_indirect_ack *)
| PDisconnectedWithMembers(* debug_assert_eq!(0, num_members) in become_disconnected *)
| PConnectedNoMembers     (* debug_assert_ne!(0, num_members) in become_connected *)
| PFlopNotEmpty           (* debug_assert!(flop.is_empty()) in fill *)
| PZeroTx                 (* debug_assert!(remaining_tx > 0) / max_tx > 0 *)
| PAckCountOverflow       (* indirect_ack_count += 1 *)
| PInsertIndex            (* self.inner.len() - 1 on empty vec (unreachable) *)
| PDivZero.               (* remaining / identity_len in estimate_feed_capacity *)

Inductive res (A : Type) :=
| ROk (a : A)
| RErr (e : error)
| RPanic (s : site).
Arguments ROk {A} a.
Arguments RErr {A} e.
Arguments RPanic {A} s.
