(* L_Forward.v — identities stored for an address only move forward (C09). *)
From Foca Require Import Laws L_Lists MembersM L_Members L_Join.

Section Fwd.
Context {Id Addr : Type} {IO : IdOps Id Addr} {IL : IdLaws IO}.
Notation member := (member Id).

Lemma rjoin_id_forward (k u : member) :
  m_id (rjoin k u) <> m_id k -> rjoin k u = u /\ wins (m_id u) (m_id k) = true.
Proof.
  unfold rjoin. destruct (mltb k u) eqn:E.
  - intros N. split; [reflexivity|]. apply mltb_mlt in E.
    destruct E as [W|[Eq _]]; [exact W|exfalso; apply N; symmetry; exact Eq].
  - intros N. congruence.
Qed.

(* one update: if the identity stored for an address changes, the new one wins the conflict *)
Theorem apply_identity_forward (rnd : oracle) (ms : @members Id) (u : member) (n : N) (a : Addr) (k k' : member) :
  uniq (inner ms) ->
  view ms a = Some k ->
  view (fst (fst (members_apply rnd ms u n))) a = Some k' ->
  m_id k' <> m_id k ->
  k' = u /\ wins (m_id k') (m_id k) = true.
Proof.
  intros U Hk Hk' N.
  destruct (members_apply_spec rnd ms u n U) as [_ V]. cbn zeta in V. rewrite V in Hk'.
  destruct (addr_eqb (maddr u) a) eqn:Ea.
  - apply addr_eqb_eq in Ea. subst a. rewrite Hk in Hk'. cbn in Hk'. inversion Hk'; subst k'.
    destruct (rjoin_id_forward k u N) as [E W]. rewrite E. split; [reflexivity|exact W].
  - congruence.
Qed.

(* along any list of updates identities form a chain in the winning order: no fallback *)
Theorem apply_list_identity_forward (rnd : oracle) (l : list member) : forall (ms : @members Id) (n : N) (a : Addr) (k k' : member),
  uniq (inner ms) ->
  view ms a = Some k ->
  view (fst (apply_list rnd ms l n)) a = Some k' ->
  m_id k' = m_id k \/ wins (m_id k') (m_id k) = true.
Proof.
  induction l as [|u t IH]; intros ms n a k k' U Hk Hk'; cbn [apply_list] in Hk'.
  - cbn [fst] in Hk'. left. congruence.
  - pose proof (members_apply_spec rnd ms u n U) as S. cbn zeta in S.
    destruct (members_apply rnd ms u n) as [[ms1 s1] n1] eqn:E. cbn [fst] in S. destruct S as [U1 V1].
    destruct (apply_monotone rnd ms u n a k U Hk) as (k1 & Hk1 & _). rewrite E in Hk1. cbn [fst] in Hk1.
    destruct (IH ms1 n1 a k1 k' U1 Hk1 Hk') as [Eq|W].
    + destruct (id_eq_dec (m_id k1) (m_id k)) as [E1|N1]; [left; congruence|].
      right. rewrite Eq.
      pose proof (apply_identity_forward rnd ms u n a k k1 U Hk) as F. rewrite E in F. cbn [fst] in F.
      destruct (F Hk1 N1) as [_ W1]. exact W1.
    + destruct (id_eq_dec (m_id k1) (m_id k)) as [E1|N1]; [right; congruence|].
      right.
      pose proof (apply_identity_forward rnd ms u n a k k1 U Hk) as F. rewrite E in F. cbn [fst] in F.
      destruct (F Hk1 N1) as [_ W1].
      assert (A1 : addr_of (m_id k1) = a) by (apply lookup_Some_In in Hk1; tauto).
      assert (A0 : addr_of (m_id k) = a) by (apply lookup_Some_In in Hk; tauto).
      assert (A2 : addr_of (m_id k') = a).
      { destruct (apply_list_view rnd ms1 t n1 U1) as [U2 _].
        apply lookup_Some_In in Hk'. tauto. }
      apply (wins_trans (m_id k') (m_id k1) (m_id k)); congruence.
Qed.

End Fwd.

Section Down.
Context {Id Addr : Type} {IO : IdOps Id Addr} {IL : IdLaws IO}.
Notation member := (member Id).

Lemma apply_list_monotone (rnd : oracle) (l : list member) : forall (ms : @members Id) (n : N) (a : Addr) (k : member),
  uniq (inner ms) -> view ms a = Some k ->
  exists k', view (fst (apply_list rnd ms l n)) a = Some k' /\ mle k k'.
Proof.
  induction l as [|u t IH]; intros ms n a k U Hk; cbn [apply_list].
  - exists k. split; auto. apply mle_refl.
  - pose proof (members_apply_spec rnd ms u n U) as S. cbn zeta in S.
    destruct (apply_monotone rnd ms u n a k U Hk) as (k1 & Hk1 & L1).
    destruct (members_apply rnd ms u n) as [[ms1 s1] n1] eqn:E. cbn [fst] in *. destruct S as [U1 _].
    destruct (IH ms1 n1 a k1 U1 Hk1) as (k' & Hk' & L2). exists k'. split; auto.
    assert (A0 : maddr k = a) by (apply lookup_Some_In in Hk; tauto).
    assert (A1 : maddr k1 = a) by (apply lookup_Some_In in Hk1; tauto).
    assert (A2 : maddr k' = a) by (apply lookup_Some_In in Hk'; tauto).
    apply (mle_trans k k1 k'); congruence.
Qed.

Theorem down_final (rnd : oracle) (l : list member) (ms : @members Id) (n : N) (a : Addr) (k k' : member) :
  uniq (inner ms) -> view ms a = Some k -> m_state k = Down ->
  view (fst (apply_list rnd ms l n)) a = Some k' ->
  (m_id k' = m_id k /\ m_state k' = Down) \/ wins (m_id k') (m_id k) = true.
Proof.
  intros U Hk D Hk'.
  destruct (apply_list_identity_forward rnd l ms n a k k' U Hk Hk') as [E|W]; [|right; exact W].
  left. split; auto.
  destruct (apply_list_monotone rnd l ms n a k U Hk) as (k2 & Hk2 & L). rewrite Hk' in Hk2. inversion Hk2; subst k2.
  unfold mle, mlt in L.
  destruct (m_state k') eqn:S'; auto; exfalso; apply L; right; split; auto;
    unfold key, key_of, key_lt; rewrite D, S'; exact I.
Qed.

End Down.
