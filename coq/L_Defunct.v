(* L_Defunct.v — C03 / C08: a defunct instance stays defunct.  Along every call other than
   change_identity / reuse_down_identity an instance that is Undead stays Undead, unless the call
   notifies Rejoin (the automatic renewal, which C10 shows to adopt a new, winning identity): no
   datagram, timer or other API call revives a dead identity, and Active is never notified for it. *)
From Foca Require Import Laws L_Lists MembersM ProbeM BcastM FocaM Hoare Inv L_Mech L_Mirror L_ConnCons L_Footprint L_RoundEnd L_Evidence.

Section Defunct.
Context {Id Addr : Type} {IO : IdOps Id Addr} {CO : CodecOps Id} {HO : HandlerOps Id} {IL : IdLaws IO}.
Variable rnd : oracle.
Notation member := (member Id).
Notation foca := (@foca Id Addr HO).
Notation rs := (@rs Id Addr HO).
Notation M := (@M Id Addr HO).
Notation effect := (effect Id).
Notation "x <- m ;; f" := (bind m (fun x => f)) (at level 61, m at next level, right associativity).
Notation "m ;;; f" := (bind m (fun _ => f)) (at level 61, right associativity).

Definition is_rejoin (e : effect) : bool := match e with Notify (NRejoin _) => true | _ => false end.
Definition is_active_note (e : effect) : bool := match e with Notify NActive => true | _ => false end.
Definition rejoined (es : list effect) : Prop := existsb is_rejoin es = true.

(* a call that neither panicked (C06) nor was aborted by an Encode error *)
Definition okr {X} (r : res X) : Prop := match r with RErr EEncode => False | RPanic _ => False | _ => True end.

(* from Undead: still Undead and no Active notified, or a Rejoin was notified *)
Definition urP {X} (m : M X) (s : rs) : Prop :=
  exists new, out (fst (m s)) = out s ++ new
    /\ (conn (st s) = Undead -> okr (snd (m s)) ->
        (conn (st (fst (m s))) = Undead /\ existsb is_active_note new = false) \/ rejoined new).
Definition ur {X} (m : M X) : Prop := forall s, urP m s.

Lemma rejoined_app_l a b : rejoined a -> rejoined (a ++ b).
Proof. unfold rejoined. rewrite existsb_app. intros ->. reflexivity. Qed.
Lemma rejoined_app_r a b : rejoined b -> rejoined (a ++ b).
Proof. unfold rejoined. rewrite existsb_app. intros ->. apply orb_true_r. Qed.

Lemma ur_bind {X Y} (m : M X) (k : X -> M Y) : ur m -> (forall a, ur (k a)) -> ur (bind m k).
Proof.
  intros Hm Hk s. destruct (Hm s) as (n1 & O1 & D1). unfold urP, bind.
  destruct (m s) as [s1 [a|e|p]]; cbn [fst snd] in *; try (exists n1; split; [exact O1|exact D1]).
  destruct (Hk a s1) as (n2 & O2 & D2). exists (n1 ++ n2). split; [rewrite O2, O1, app_assoc; reflexivity|].
  intros U OK. destruct (D1 U I) as [[U1 A1]|R1]; [|right; apply rejoined_app_l; exact R1].
  destruct (D2 U1 OK) as [[U2 A2]|R2]; [left|right; apply rejoined_app_r; exact R2].
  split; [exact U2|]. rewrite existsb_app, A1, A2. reflexivity.
Qed.
Lemma ur_quiet {X} (m : M X) : (forall s, conn (st (fst (m s))) = conn (st s) /\ out (fst (m s)) = out s) -> ur m.
Proof.
  intros H s. destruct (H s) as [C O]. exists []. split; [rewrite O, app_nil_r; reflexivity|]. intros U _. left. split; [congruence|reflexivity].
Qed.
Lemma ur_ret {X} (x : X) : ur (@ret Id Addr HO X x). Proof. apply ur_quiet. intros; cbn; auto. Qed.
Lemma ur_fail {X} e : ur (@fail Id Addr HO X e). Proof. apply ur_quiet. intros; cbn; auto. Qed.
Lemma ur_panic {X} p : ur (@panic Id Addr HO X p). Proof. apply ur_quiet. intros; cbn; auto. Qed.
Lemma ur_get : ur (@get Id Addr HO). Proof. apply ur_quiet. intros; cbn; auto. Qed.
Lemma ur_num_sends : ur (@num_sends Id Addr HO). Proof. apply ur_quiet. intros; cbn; auto. Qed.
Lemma ur_ask r : ur (ask rnd r). Proof. apply ur_quiet. intros; cbn; auto. Qed.
Lemma ur_with_ctr {X} (g : N -> X * N) : ur (with_ctr g).
Proof. apply ur_quiet. intros s. unfold with_ctr. destruct (g (ctr s)). cbn. auto. Qed.
Lemma ur_modify g : (forall f, conn (g f) = conn f) -> ur (@modify Id Addr HO g).
Proof. intros H. apply ur_quiet. intros s. cbn. auto. Qed.
Lemma ur_emit e : is_active_note e = false -> ur (@emit Id Addr HO e).
Proof.
  intros H s. exists [e]. split; [reflexivity|]. intros U _. left. split; [exact U|]. cbn. rewrite H. reflexivity.
Qed.
Lemma ur_when b (m : M unit) : ur m -> ur (when b m).
Proof. destruct b; cbn; auto. intros _. apply ur_ret. Qed.
(* attempt swallows errors, so what runs under it must keep the connection state and emit nothing
   whatever its result: true of the custom-broadcast parser, the only thing run under attempt *)
Definition cq {X} (m : M X) : Prop := forall s, conn (st (fst (m s))) = conn (st s) /\ out (fst (m s)) = out s.
Lemma cq_bind {X Y} (m : M X) (k : X -> M Y) : cq m -> (forall a, cq (k a)) -> cq (bind m k).
Proof.
  intros Hm Hk s. destruct (Hm s) as [C O]. unfold bind. destruct (m s) as [s1 [a|e|p]]; cbn [fst] in *; auto.
  destruct (Hk a s1) as [C2 O2]. split; congruence.
Qed.
Lemma cq_same {X} (m : M X) : (forall s, st (fst (m s)) = st s /\ out (fst (m s)) = out s) -> cq m.
Proof. intros H s. destruct (H s) as [A B]. rewrite A, B. auto. Qed.
Lemma cq_modify g : (forall f, conn (g f) = conn f) -> cq (@modify Id Addr HO g).
Proof. intros H s. cbn. auto. Qed.
Lemma cq_custom_loop sender fuel : forall data, cq (@custom_loop Id Addr HO fuel data sender).
Proof.
  induction fuel as [|fuel IH]; intros data; cbn [custom_loop].
  - destruct data; apply cq_same; intros; cbn; auto.
  - destruct (2 <? len data); [|destruct data; apply cq_same; intros; cbn; auto].
    destruct (get_u16 data) as [[pl rest]|]; [|apply cq_same; intros; cbn; auto].
    destruct (_ || _); [apply cq_same; intros; cbn; auto|]. cbv zeta.
    apply cq_bind; [apply cq_same; intros; cbn; auto|]. intros f. destruct (h_recv _ _ _) as [h' r].
    apply cq_bind; [apply cq_modify; intros ?; reflexivity|]. intros _.
    apply cq_bind; [|intros _; apply IH].
    destruct r as [[key|]|]; [unfold add_custom; apply cq_modify; intros ?; reflexivity|apply cq_same; intros; cbn; auto|apply cq_same; intros; cbn; auto].
Qed.
Lemma cq_handle_custom_broadcasts data sender : cq (@handle_custom_broadcasts Id Addr HO data sender).
Proof.
  unfold handle_custom_broadcasts. destruct data; [apply cq_same; intros; cbn; auto|].
  destruct (_ <? 3); [apply cq_same; intros; cbn; auto|apply cq_custom_loop].
Qed.
Lemma ur_attempt_cq (m : M unit) : cq m -> ur (attempt m).
Proof.
  intros H s. destruct (H s) as [C O]. exists []. unfold attempt. destruct (m s) as [s1 [x|e|p]]; cbn [fst snd] in *;
    (split; [rewrite O, app_nil_r; reflexivity|]); intros U _; left; (split; [congruence|reflexivity]).
Qed.
Lemma ur_forM {X} (l : list X) (k : X -> M unit) : (forall x, ur (k x)) -> ur (forM_ l k).
Proof. intros H. induction l as [|x t IH]; cbn [forM_]; [apply ur_ret|]. apply ur_bind; auto. Qed.

(* the places that touch the connection state *)
Lemma ur_become_undead : ur (@become_undead Id Addr HO).
Proof.
  intros s. unfold urP, become_undead, bind, modify, emit. cbn [fst snd st out]. eexists. split; [reflexivity|].
  intros _ _. left. split; reflexivity.
Qed.
Lemma ur_adjust : ur (@adjust_connection_state Id Addr HO).
Proof.
  intros s. unfold urP. destruct (conn (st s)) eqn:Cn.
  - pose proof (fp_adjust s) as (new & O & _). exists new. split; [exact O|discriminate].
  - pose proof (fp_adjust s) as (new & O & _). exists new. split; [exact O|discriminate].
  - unfold adjust_connection_state, bind, get, ret. cbv beta iota. rewrite Cn. cbn. exists []. split; [symmetry; apply app_nil_r|].
    intros _ _. left. split; [exact Cn|reflexivity].
Qed.

Ltac ur_step :=
  first
    [ apply ur_ret | apply ur_fail | apply ur_panic | apply ur_get | apply ur_num_sends | apply ur_ask | apply ur_with_ctr
    | apply ur_modify; intros ?; reflexivity
    | apply ur_emit; reflexivity
    | apply ur_emit; match goal with |- is_active_note (Notify (if ?c then _ else _)) = _ => destruct c; reflexivity end
    | apply ur_become_undead | apply ur_adjust
    | apply ur_when
    | apply ur_attempt_cq; apply cq_handle_custom_broadcasts
    | apply ur_forM; intros ?; cbv beta
    | apply ur_bind; [|intros ?]
    | progress cbv zeta
    | progress unfold send_message, send_body, send_customs, estimate_feed_capacity, choose_active, choose_and_send,
        gossip, announce_to_down, add_update, add_custom, handle_apply_summary, apply_update, submit_periodic,
        apply_one, apply_many, leave_cluster, broadcast, add_broadcast, periodic_guard
    | match goal with
      | |- ur (match ?x with _ => _ end) => destruct x
      | |- ur (if ?c then _ else _) => destruct c
      | |- ur (let '(_, _) := ?x in _) => destruct x
      end ].
Ltac ur_auto := repeat ur_step.

Lemma ur_feed_loop l : forall room count acc0, ur (@feed_loop Id Addr CO HO l room count acc0).
Proof. induction l as [|m t IH]; intros room count acc0; cbn [feed_loop]; ur_auto. apply IH. Qed.
Lemma ur_broadcast_loop l : ur (broadcast_loop rnd l).
Proof. induction l as [|m t IH]; cbn [broadcast_loop]; ur_auto; first [apply ur_feed_loop|apply IH]. Qed.
Lemma ur_gossip : ur (gossip rnd).
Proof. ur_auto; apply ur_feed_loop. Qed.
Lemma ur_send_message dst msg : ur (send_message rnd dst msg).
Proof. ur_auto; apply ur_feed_loop. Qed.

(* the automatic renewal: nothing happens, or the call is aborted by an Encode error, or Rejoin is notified *)
Lemma ur_attempt_rejoin : ur (attempt_rejoin rnd).
Proof.
  intros s. unfold urP.
  assert (NOP : forall b : bool, exists new, out (fst (@ret Id Addr HO bool b s)) = out s ++ new
            /\ (conn (st s) = Undead -> okr (snd (@ret Id Addr HO bool b s)) ->
                (conn (st (fst (@ret Id Addr HO bool b s))) = Undead /\ existsb is_active_note new = false) \/ rejoined new)).
  { intros b. exists []. cbn. split; [symmetry; apply app_nil_r|]. intros U _. left. auto. }
  remember (attempt_rejoin rnd s) as x eqn:Ex. revert Ex.
  unfold attempt_rejoin, bind at 1, get at 1. cbv beta iota.
  destruct (renew (identity (st s))) as [new_id|]; [|intros ->; apply NOP].
  destruct (id_eqb (identity (st s)) new_id) eqn:E; [intros ->; apply NOP|].
  destruct (negb _); [intros ->; apply NOP|].
  pose proof (fp_change_identity rnd new_id s) as (n1 & O1 & _).
  pose proof (change_identity_oee_at rnd s new_id E) as OE.
  unfold bind at 1. destruct (change_identity rnd new_id s) as [s1 [[]|e|p]]; cbn [fst] in O1; intros ->; cbn [fst snd].
  - unfold bind, emit, ret. cbn [fst snd st out]. exists (n1 ++ [Notify (NRejoin new_id)]).
    split; [rewrite O1, app_assoc; reflexivity|]. intros _ _. right. apply rejoined_app_r. reflexivity.
  - subst e. exists n1. split; [exact O1|]. intros _ F. contradiction.
  - exists n1. split; [exact O1|]. intros _ F. contradiction.
Qed.

Lemma ur_handle_self_update inc st0 : ur (handle_self_update rnd inc st0).
Proof.
  unfold handle_self_update. destruct st0.
  - apply ur_ret.
  - apply ur_bind; [apply ur_get|]. intros f. cbv zeta. destruct (_ =? u16_max).
    + apply ur_bind; [apply ur_attempt_rejoin|]. intros b. apply ur_when, ur_become_undead.
    + apply ur_bind; [apply ur_when, ur_modify; intros ?; reflexivity|]. intros _.
      apply ur_bind; [apply ur_get|]. intros f1. apply ur_when, ur_gossip.
  - apply ur_bind; [apply ur_attempt_rejoin|]. intros b. apply ur_when, ur_become_undead.
Qed.

Lemma ur_apply_one b u : ur (apply_one rnd b u).
Proof.
  unfold apply_one. apply ur_bind; [apply ur_get|]. intros f.
  destruct (id_eqb _ _); [apply ur_handle_self_update|]. destruct (addr_eqb _ _); ur_auto.
Qed.
Lemma ur_apply_many l b : ur (apply_many rnd l b).
Proof. unfold apply_many. apply ur_bind; [apply ur_forM; intros u; apply ur_apply_one|]. intros _. apply ur_adjust. Qed.

Lemma ur_react src msg : ur (react rnd src msg).
Proof.
  unfold react. apply ur_bind; [apply ur_get|]. intros f.
  destruct msg; try apply ur_send_message; try apply ur_handle_self_update; ur_auto; apply ur_feed_loop.
Qed.

Lemma ur_handle_data data : ur (handle_data rnd data).
Proof.
  unfold handle_data. apply ur_bind; [apply ur_get|]. intros f.
  destruct (_ <? _); [apply ur_fail|].
  destruct (dec_hdr data) as [[h rest]|]; [|apply ur_fail].
  destruct (_ || _); [apply ur_fail|]. cbv zeta.
  destruct (_ || _); [apply ur_fail|].
  destruct (negb (accept_payload f h)); [apply ur_ret|].
  apply ur_bind.
  { destruct (_ && _); [|apply ur_ret]. destruct (get_u16 rest) as [[n r]|]; [|apply ur_fail].
    destruct (dec_members _ _); [apply ur_ret|apply ur_fail]. }
  intros [ul tail].
  apply ur_bind; [ur_auto|]. intros active.
  destruct (negb active).
  - apply ur_bind; [apply ur_get|]. intros f0. cbv zeta.
    apply ur_bind; [apply ur_when, ur_handle_self_update|]. intros _.
    apply ur_bind; [apply ur_get|]. intros f1. apply ur_when, ur_send_message.
  - apply ur_bind; [apply ur_apply_many|]. intros _.
    apply ur_bind; [apply ur_attempt_cq, cq_handle_custom_broadcasts|].
    intros cres. apply ur_bind; [apply ur_get|]. intros f1.
    destruct (negb _); [destruct cres; [apply ur_fail|apply ur_ret]|].
    apply ur_bind; [apply ur_react|]. intros _. destruct cres; [apply ur_fail|apply ur_ret].
Qed.

Lemma ur_indirect_loop probed l : ur (indirect_loop rnd probed l).
Proof.
  unfold indirect_loop. apply ur_forM. intros m. apply ur_bind; [apply ur_get|]. intros f.
  destruct (probe_expect_indirect_ack _ _); [|apply ur_panic].
  apply ur_bind; [apply ur_modify; intros ?; reflexivity|]. intros _. apply ur_send_message.
Qed.

Lemma ur_handle_timer t : ur (handle_timer rnd t).
Proof.
  unfold handle_timer.
  destruct t as [tok|probed tok|mid inc tok|tok|tok|tok|down].
  - (* the probe timer: while Undead it fails with NotConnected or is stale; while Connected the premise is false *)
    intros s. unfold urP. match goal with |- exists new, out (fst ?m) = _ /\ _ => remember m as x eqn:Ex end. revert Ex.
    unfold bind at 1, get at 1. cbv beta iota.
    assert (Q : forall (r : res unit), exists new, out (fst (s, r)) = out s ++ new
              /\ (conn (st s) = Undead -> okr (snd (s, r)) ->
                  (conn (st (fst (s, r))) = Undead /\ existsb is_active_note new = false) \/ rejoined new)).
    { intros r. exists []. cbn. split; [symmetry; apply app_nil_r|]. intros U _. left. auto. }
    destruct (tok =? token (st s)); [|intros ->; unfold ret; apply Q].
    destruct (conn (st s)) eqn:Cn; cbn [conn_eqb negb]; try (intros ->; unfold fail; apply Q).
    intros ->. destruct (probe_round_end rnd s Cn) as (new & O & _). exists new. split; [exact O|discriminate].
  - apply ur_bind; [apply ur_get|]. intros f. destruct (negb (tok =? token f)); [apply ur_ret|].
    apply ur_bind; [apply ur_modify; intros ?; reflexivity|]. intros _.
    destruct (negb (probe_is_probing _ _)); [apply ur_ret|].
    destruct (probe_succeeded _); [apply ur_ret|].
    destruct (negb (is_active_id _ _)); [apply ur_ret|].
    apply ur_bind; [ur_auto|intros chosen; apply ur_indirect_loop].
  - apply ur_bind; [apply ur_get|]. intros f. ur_auto; apply ur_feed_loop.
  - apply ur_bind; [apply ur_get|]. intros f. ur_auto; apply ur_feed_loop.
  - apply ur_bind; [apply ur_get|]. intros f. ur_auto; apply ur_feed_loop.
  - apply ur_bind; [apply ur_get|]. intros f. ur_auto; apply ur_feed_loop.
  - apply ur_bind; [apply ur_get|]. intros f. ur_auto.
Qed.

(* ONE CALL other than change_identity / reuse_down_identity, not aborted by an Encode error or a panic:
   a defunct instance stays defunct and notifies no Active, or the call notified Rejoin *)
Theorem step_defunct_stays (f : foca) (i : @input Id) :
  match i with IChangeIdentity _ | IReuseDown => False | _ => True end ->
  conn f = Undead ->
  let '(f', es, r, _) := step rnd f i in
  match r with Failed EEncode => True | Panicked _ => True | _ =>
    (conn f' = Undead /\ existsb is_active_note es = false) \/ rejoined es
  end.
Proof.
  intros NI U.
  assert (RU : forall (m : M unit), ur m ->
            let '(f', es, r, _) := run_unit m f in
            match r with Failed EEncode => True | Panicked _ => True | _ =>
              (conn f' = Undead /\ existsb is_active_note es = false) \/ rejoined es end).
  { intros m H. destruct (H (mkRs f [] 0)) as (new & O & D). unfold run_unit.
    destruct (m (mkRs f [] 0)) as [s' [u|e|p]]; cbn [fst snd st out app to_result] in *; subst.
    - apply D; [exact U|exact I].
    - destruct e; try (apply D; [exact U|exact I]). exact I.
    - exact I. }
  destruct i; cbn [step]; try contradiction.
  - apply RU, ur_handle_data.
  - apply RU, ur_handle_timer.
  - apply RU, ur_apply_many.
  - apply RU, ur_send_message.
  - apply RU, ur_gossip.
  - apply RU. ur_auto; first [apply ur_broadcast_loop|apply ur_feed_loop].
  - apply RU. ur_auto; apply ur_feed_loop.
  - apply RU. unfold set_config. ur_auto.
  - assert (G : ur (@add_broadcast Id Addr HO b)) by ur_auto.
    destruct (G (mkRs f [] 0)) as (new & O & D). unfold run_bool.
    destruct (add_broadcast b (mkRs f [] 0)) as [s' [u|e|p]]; cbn [fst snd st out app to_result] in *; subst.
    + apply D; [exact U|exact I].
    + destruct e; try (apply D; [exact U|exact I]). exact I.
    + exact I.
Qed.

End Defunct.
