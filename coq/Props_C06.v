(* Props_C06.v — C06: Foca never panics (debug-assertion build of the model:
   every debug_assert / expect / overflow site is an explicit Panicked result). *)
From Foca Require Import Laws FocaM L_Members L_MembersInv Inv Reach Concrete ConcreteLaws.

Section C06.
Context {Id Addr : Type} {IO : IdOps Id Addr} {CO : CodecOps Id} {HO : HandlerOps Id}.
Context {IL : IdLaws IO} {EL : @ExtraLaws Id Addr IO CO}.

(* one call: any well-formed state, any legal input (arbitrary bytes, any timer with any
   token / identity / incarnation, every API call, any legal config), any random choices *)
Theorem C06_no_panic_step (rnd : oracle) (f : @foca Id Addr HO) (i : @input Id) :
  WF f -> input_ok (addr_of (identity f)) i -> not_panicked (step_result rnd f i).
Proof. exact (fun W I => proj2 (proj2 (proj2 (step_preserves' rnd f i W I)))). Qed.

(* every history *)
Theorem C06_no_panic_history (id0 : Id) (c0 : config) (h0 : hstate) (f : @foca Id Addr HO)
        (rnd : oracle) (i : @input Id) :
  cfg_ok c0 -> reach id0 c0 h0 f -> input_ok (addr_of (identity f)) i ->
  not_panicked (step_result rnd f i).
Proof.
  exact (fun CK R I => proj2 (proj2 (proj2 (step_preserves' rnd f i (proj1 (reach_WF id0 c0 h0 f CK R)) I)))).
Qed.

(* the invariant that carries it *)
Theorem C06_invariant (id0 : Id) (c0 : config) (h0 : hstate) (f : @foca Id Addr HO) :
  cfg_ok c0 -> reach id0 c0 h0 f -> WF f.
Proof. exact (fun CK R => proj1 (reach_WF id0 c0 h0 f CK R)). Qed.

End C06.

(* non-vacuity: the hypotheses hold for the executable instance, and the initial state of a
   legal configuration is well formed *)
Example C06_concrete_laws : @ExtraLaws cid N cid_ops cid_codec.
Proof. exact cid_extra. Qed.

Definition simple_cfg : config := mkConfig 1500000000 500000000 3 10 3000000000 86400000000000 1400 false None None None.

Example C06_simple_config_legal : cfg_ok simple_cfg.
Proof. constructor; cbn; unfold u16_max; lia. Qed.

Example C06_initial_state_wf : WF (foca_init (mkCid 1 0 0 0) simple_cfg (mkChst 0 255 [])).
Proof. exact (WF_init (mkCid 1 0 0 0) simple_cfg (mkChst 0 255 []) C06_simple_config_legal). Qed.

Print Assumptions C06_no_panic_step.
Print Assumptions C06_no_panic_history.
Print Assumptions C06_invariant.
Print Assumptions C06_concrete_laws.
Print Assumptions C06_simple_config_legal.
Print Assumptions C06_initial_state_wf.
