(* L_IndirectStage.v — C12: the SendIndirectProbe timer sends PingReq datagrams only when the
   round is still open (current token, this target, no evidence yet, target still active), to at
   most num_indirect_probes members, each an active record other than the target, each
   registered as an expected helper; otherwise it sends nothing. *)
From Foca Require Import Laws L_Lists MembersM ProbeM BcastM FocaM L_Members L_MembersInv Hoare Inv L_Probe L_Footprint.

Section IS.
Context {Id Addr : Type} {IO : IdOps Id Addr} {CO : CodecOps Id} {HO : HandlerOps Id}.
Variable rnd : oracle.
Notation member := (member Id).
Notation foca := (@foca Id Addr HO).
Notation rs := (@rs Id Addr HO).
Notation M := (@M Id Addr HO).
Notation effect := (effect Id).
Notation "x <- m ;; f" := (bind m (fun x => f)) (at level 61, m at next level, right associativity).
Notation "m ;;; f" := (bind m (fun _ => f)) (at level 61, right associativity).

(* a PingReq(probed, n) datagram to a helper out of [helpers], built by identity id / incarnation inc *)
Definition pingreq_to (helpers : list member) (id : Id) (inc : N) (probed : Id) (e : effect) : Prop :=
  match e with
  | Send dst b => exists n rest hm, In hm helpers /\ m_id hm = dst
                                    /\ b = enc_hdr (mkHeader id inc dst (PingReq probed n)) ++ rest
  | _ => False
  end.

Lemma send_message_one' (s : rs) dst msg :
  exists new, out (fst (send_message rnd dst msg s)) = out s ++ new
              /\ Forall (fun e => exists rest, e = Send dst (enc_hdr (mkHeader (identity (st s)) (incarnation (st s)) dst msg) ++ rest)) new
              /\ (length new <= 1)%nat
              /\ identity (st (fst (send_message rnd dst msg s))) = identity (st s)
              /\ incarnation (st (fst (send_message rnd dst msg s))) = incarnation (st s).
Proof.
  destruct (frames_send_message rnd dst msg s) as (u & c & E).
  destruct (send_message rnd dst msg s) as [s' r] eqn:ES. cbn [fst] in *. revert ES.
  unfold send_message, bind at 1, get at 1. cbv beta iota.
  destruct (negb (send_cap (st s) =? max_packet_size (cfg (st s)))).
  { cbn. intros ES. inversion ES; subst. exists []. rewrite app_nil_r. repeat split; auto. }
  destruct (max_packet_size (cfg (st s)) <? len (enc_hdr _)).
  { cbn. intros ES. inversion ES; subst. exists []. rewrite app_nil_r. repeat split; auto. }
  unfold bind at 1, num_sends at 1. cbv beta iota. unfold bind at 1.
  pose proof (noemit_send_body rnd dst msg (max_packet_size (cfg (st s)))
                (max_packet_size (cfg (st s)) - len (enc_hdr (mkHeader (identity (st s)) (incarnation (st s)) dst msg)))
                (len (filter is_send (out s))) s) as N1.
  destruct (send_body rnd dst msg _ _ _ s) as [s1 [[body room3]|e|p]]; cbn [fst] in N1.
  2,3: intros ES; inversion ES; subst; exists []; rewrite app_nil_r, N1, E; repeat split; auto.
  unfold bind at 1.
  pose proof (noemit_send_customs rnd dst msg room3 (len (filter is_send (out s))) s1) as N2.
  destruct (send_customs rnd dst msg room3 _ s1) as [s2 [cust|e|p]]; cbn [fst] in N2.
  2,3: intros ES; inversion ES; subst; exists []; rewrite app_nil_r, N2, N1, E; repeat split; auto.
  unfold emit. intros ES. inversion ES; subst. cbn [out].
  exists [Send dst (enc_hdr (mkHeader (identity (st s)) (incarnation (st s)) dst msg) ++ body ++ cust)].
  rewrite N2, N1. cbn [st] in E. rewrite E. repeat split; auto. constructor; [|constructor]. eexists. reflexivity.
Qed.

Lemma indirect_loop_spec probed (l : list member) : forall (all : list member) (s : rs),
  incl l all ->
  exists new, out (fst (indirect_loop rnd probed l s)) = out s ++ new
              /\ Forall (pingreq_to all (identity (st s)) (incarnation (st s)) probed) new
              /\ (length new <= length l)%nat.
Proof.
  induction l as [|m t IH]; intros all s Hin; unfold indirect_loop; cbn [forM_].
  - exists []. cbn. rewrite app_nil_r. repeat split; auto.
  - fold (indirect_loop rnd probed t).
    unfold bind at 1. unfold bind at 1, get at 1. cbv beta iota.
    destruct (probe_expect_indirect_ack (prb (st s)) (m_id m)) as [p'|].
    2:{ cbn. exists []. rewrite app_nil_r. repeat split; auto. cbn. lia. }
    unfold bind at 1, modify at 1. cbv beta iota.
    set (s1 := mkRs (set_prb (st s) p') (out s) (ctr s)).
    destruct (send_message_one' s1 (m_id m) (PingReq probed (p_number p'))) as (n1 & O1 & F1 & L1 & I1 & I2).
    destruct (send_message rnd (m_id m) (PingReq probed (p_number p')) s1) as [s2 [[]|e|p]]; cbn [fst] in *.
    2,3: exists n1; split; [exact O1|]; split; [|cbn; lia];
         (eapply Forall_impl; [|exact F1]); intros e0 (rest & ->); cbn; exists (p_number p'), rest, m; repeat split; auto; apply Hin; left; reflexivity.
    destruct (IH all s2 (fun x Hx => Hin x (or_intror Hx))) as (n2 & O2 & F2 & L2).
    exists (n1 ++ n2). split; [rewrite O2, O1, app_assoc; reflexivity|]. split.
    + apply Forall_app. split.
      * eapply Forall_impl; [|exact F1]. intros e0 (rest & ->). cbn. exists (p_number p'), rest, m. repeat split; auto. apply Hin. left. reflexivity.
      * cbn [st identity incarnation set_prb s1] in I1, I2. rewrite <- I1, <- I2. exact F2.
    + rewrite app_length. cbn. lia.
Qed.

Theorem indirect_stage (f : foca) (probed : Id) (tok : N) :
  let es := snd (fst (fst (step rnd f (ITimer (TSendIndirectProbe probed tok))))) in
  (* when anything is sent at all, the round was still open *)
  (es <> [] -> tok = token f /\ probe_is_probing (prb f) probed = true
               /\ probe_succeeded (prb f) = false /\ is_active_id (mems f) probed = true)
  /\ exists helpers,
       Forall (pingreq_to helpers (identity f) (incarnation f) probed) es
       /\ len es <= num_indirect_probes (cfg f)
       /\ forall hm, In hm helpers -> In hm (inner (mems f)) /\ m_active hm = true /\ id_eqb (m_id hm) probed = false.
Proof.
  destruct (step rnd f (ITimer (TSendIndirectProbe probed tok))) as [[[f' es] r] k0] eqn:ES. cbn [fst snd]. revert ES.
  cbn [step]. unfold run_unit, handle_timer, bind at 1, get at 1. cbv beta iota. cbn [st].
  assert (NONE : forall (X : foca * list effect * result * N), X = (f', es, r, k0) -> snd (fst (fst X)) = [] ->
            (es <> [] -> tok = token f /\ probe_is_probing (prb f) probed = true
                         /\ probe_succeeded (prb f) = false /\ is_active_id (mems f) probed = true)
            /\ exists helpers, Forall (pingreq_to helpers (identity f) (incarnation f) probed) es
                 /\ len es <= num_indirect_probes (cfg f)
                 /\ forall hm, In hm helpers -> In hm (inner (mems f)) /\ m_active hm = true /\ id_eqb (m_id hm) probed = false).
  { intros X -> E. cbn in E. subst es. split; [intros H; contradiction|]. exists []. repeat split; auto; try contradiction. apply N.le_0_l. }
  destruct (tok =? token f) eqn:T; cbn [negb]; [|intros ES; apply (NONE _ ES); reflexivity].
  apply N.eqb_eq in T. subst tok.
  unfold bind at 1, modify at 1. cbv beta iota. cbn [st out ctr prb set_prb].
  assert (PM : forall p, probe_is_probing (probe_mark_reached p) probed = probe_is_probing p probed
                         /\ probe_succeeded (probe_mark_reached p) = probe_succeeded p) by (intros p; split; reflexivity).
  destruct (probe_is_probing (prb f) probed) eqn:PP; cbn [negb]; [|intros ES; apply (NONE _ ES); reflexivity].
  destruct (probe_succeeded (prb f)) eqn:PS; [intros ES; apply (NONE _ ES); reflexivity|].
  destruct (is_active_id (mems f) probed) eqn:AC; cbn [negb]; [|intros ES; apply (NONE _ ES); reflexivity].
  unfold bind at 1, choose_active at 1, bind at 1, get at 1. cbv beta iota. unfold with_ctr. cbn [st ctr out mems set_prb].
  pose proof (choose_members_len rnd (mems f) (num_indirect_probes (cfg f))
                (fun m => m_active m && negb (id_eqb (m_id m) probed)) 0) as CL.
  pose proof (choose_members_spec rnd (mems f) (num_indirect_probes (cfg f))
                (fun m => m_active m && negb (id_eqb (m_id m) probed)) 0) as CS.
  unfold choose_active_members. cbn [cfg set_prb].
  destruct (choose_members rnd (mems f) (num_indirect_probes (cfg f)) _ 0) as [chosen k] eqn:CM. cbn [fst] in CL, CS.
  set (s1 := mkRs (set_prb f (probe_mark_reached (prb f))) [] k).
  destruct (indirect_loop_spec probed (rev chosen) chosen s1) as (new & O & F & L).
  { intros x Hx. apply in_rev in Hx. exact Hx. }
  destruct (indirect_loop rnd probed (rev chosen) s1) as [s' r']. subst s1. cbn [fst snd out st identity incarnation set_prb] in *.
  intros ES. inversion ES; subst. cbn [app] in O. rewrite O.
  split; [intros _; repeat split; auto|].
  exists chosen. split; [exact F|]. split.
  - rewrite rev_length in L. unfold len in *. lia.
  - intros hm Hh. destruct (CS hm Hh) as [H1 H2]. apply andb_true_iff in H2. destruct H2 as [H2 H3].
    repeat split; auto. apply negb_true_iff in H3. exact H3.
Qed.

End IS.
