(* Props_C13.v — C13: timer epochs.  Proved here: stale timers have no effect at all;
   connecting arms exactly one probe timer and one timer per enabled periodic task with the
   current token; set_config can neither change probe timing nor enable a task; disabled or
   not-connected periodic timers are dropped without effect.
   History level (L_Acct.v): with a runtime that delivers each scheduled timer exactly once, the
   pending set always holds exactly one timer per enabled loop carrying the current token while
   the instance is connected and none otherwise; handle_timer fails at most with
   IncompleteProbeCycle (or Encode, or NotConnected for a probe timer nobody can have pending).
   The clock (L_Deadline.v, L_TimedRun.v): pending timers carry deadlines; an open probe round always
   has its SendIndirectProbe timer pending, due no later than the pending ProbeRandomMember, so a
   runtime that delivers in deadline order (ties in Timer's Ord, however late) never sees
   IncompleteProbeCycle; over whole timed histories every delivery returns Ok unless the codec
   fails to encode. *)
From Foca Require Import Laws MembersM ProbeM FocaM L_Reject L_Timers L_Acct L_CfgFrame L_Deadline L_TimedRun Concrete ConcreteLaws.

Section C13.
Context {Id Addr : Type} {IO : IdOps Id Addr} {CO : CodecOps Id} {HO : HandlerOps Id}.

Theorem C13_stale_timer_noop (rnd : oracle) (f : @foca Id Addr HO) (t : timer Id) (k : N) :
  timer_token t = Some k -> k <> token f -> step rnd f (ITimer t) = (f, [], Done, 0).
Proof. exact (fun H N => reject_noop rnd f (ITimer t) Done (Rj_stale_timer f t k H N)). Qed.

Theorem C13_connect_arms_every_loop_once (s : @rs Id Addr HO) :
  0 < num_active (mems (st s)) ->
  become_connected s =
  (mkRs (set_conn (st s) Connected)
        (out s ++ [Submit (TProbeRandomMember (token (st s))) (probe_period (cfg (st s)))]
             ++ periodic_submits (periodic_announce (cfg (st s))) (TPeriodicAnnounce (token (st s)))
             ++ periodic_submits (periodic_announce_down (cfg (st s))) (TPeriodicAnnounceDown (token (st s)))
             ++ periodic_submits (periodic_gossip (cfg (st s))) (TPeriodicGossip (token (st s)))
             ++ [Notify NActive])
        (ctr s), ROk tt).
Proof. exact (become_connected_effects s). Qed.

Theorem C13_set_config_cannot_start_loops (f : @foca Id Addr HO) (c : config) :
  config_refused (cfg f) c = false ->
  probe_period c = probe_period (cfg f) /\ probe_rtt c = probe_rtt (cfg f)
  /\ (periodic_announce (cfg f) = None -> periodic_announce c = None)
  /\ (periodic_announce_down (cfg f) = None -> periodic_announce_down c = None)
  /\ (periodic_gossip (cfg f) = None -> periodic_gossip c = None).
Proof. exact (set_config_accepts f c). Qed.

Theorem C13_set_config_emits_nothing (rnd : oracle) (f : @foca Id Addr HO) (c : config) :
  step rnd f (ISetConfig c) =
  if config_refused (cfg f) c then (f, [], Failed EInvalidConfig, 0)
  else (set_cfg (if negb (max_packet_size (cfg f) =? max_packet_size c)
                 then set_send_cap f (max_packet_size c) else f) c, [], Done, 0).
Proof. exact (set_config_effect rnd f c). Qed.

Theorem C13_disabled_task_timer_dropped (rnd : oracle) (f : @foca Id Addr HO) (tok : N) :
  (periodic_announce (cfg f) = None -> step rnd f (ITimer (TPeriodicAnnounce tok)) = (f, [], Done, 0))
  /\ (periodic_announce_down (cfg f) = None -> step rnd f (ITimer (TPeriodicAnnounceDown tok)) = (f, [], Done, 0))
  /\ (periodic_gossip (cfg f) = None -> step rnd f (ITimer (TPeriodicGossip tok)) = (f, [], Done, 0)).
Proof. exact (periodic_disabled_noop rnd f tok). Qed.

Theorem C13_not_connected_periodic_noop (rnd : oracle) (f : @foca Id Addr HO) (tok : N) (t : timer Id) :
  conn f <> Connected ->
  t = TPeriodicAnnounce tok \/ t = TPeriodicAnnounceDown tok \/ t = TPeriodicGossip tok ->
  step rnd f (ITimer t) = (f, [], Done, 0).
Proof. exact (not_connected_periodic_noop rnd f tok t). Qed.

End C13.

Section C13_history.
Context {Id Addr : Type} {IO : IdOps Id Addr} {CO : CodecOps Id} {HO : HandlerOps Id} {IL : IdLaws IO}.

(* the recurring loops and what counts as one of their timers *)
Theorem C13_loop_timers (t : timer Id) :
  loop_of t = match t with
              | TProbeRandomMember k => Some (LProbe, k)
              | TPeriodicAnnounce k => Some (LAnn, k)
              | TPeriodicAnnounceDown k => Some (LAnnDown, k)
              | TPeriodicGossip k => Some (LGossip, k)
              | _ => None
              end.
Proof. reflexivity. Qed.

(* cnt K k P = number of pending timers of loop K carrying token k *)
Theorem C13_cnt_meaning (K : lk) (k : N) (P : list (timer Id)) :
  cnt K k P = length (filter (fun t => match loop_of t with
                                       | Some (K', k') => lk_eqb K K' && (k =? k')
                                       | None => false
                                       end) P).
Proof.
  unfold cnt, cntp, pairs_of. induction P as [|t P IH]; [reflexivity|].
  cbn [flat_map filter]. destruct (loop_of t) as [[K' k']|]; cbn [app filter fst snd].
  - destruct (lk_eqb K K' && (k =? k')); cbn [length]; rewrite IH; reflexivity.
  - exact IH.
Qed.

(* THE INVARIANT: while connected, exactly one pending timer with the current token for the probe
   loop and for each enabled periodic task; while not connected, none (so nothing pending is
   effective: C13_stale_timer_noop) *)
Theorem C13_invariant_meaning (f : @foca Id Addr HO) (P : list (timer Id)) :
  Inv f P <->
  (forall K, (conn f = Connected -> In K (enabled (cfg f)) -> cnt K (token f) P = 1%nat)
          /\ (conn f <> Connected -> cnt K (token f) P = 0%nat)).
Proof. reflexivity. Qed.

Theorem C13_enabled_loops (c : config) :
  enabled c = LProbe :: (if is_some (periodic_announce c) then [LAnn] else [])
                     ++ (if is_some (periodic_announce_down c) then [LAnnDown] else [])
                     ++ (if is_some (periodic_gossip c) then [LGossip] else []).
Proof. reflexivity. Qed.

(* the side conditions of the step theorems, spelled out *)
Theorem C13_side_conditions (f f' : @foca Id Addr HO) (P1 : list (timer Id)) (es : list (effect Id)) (r : result) (t : timer Id) :
  (clean r <-> match r with Failed EEncode => False | Panicked _ => False | _ => True end)
  /\ (epoch_changed f f' es <-> snd (acc es) = true \/ token f' <> token f)
  /\ (no_alias f' P1 es <->
      forall K d, pairs_of (subm es) = d ++ fst (acc es) ->
                  cnt K (token f') P1 = 0%nat /\ cntp K (token f') d = 0%nat)
  /\ live_timer f t =
     match t with
     | TProbeRandomMember k => if (k =? token f) && conn_eqb (conn f) Connected then Some LProbe else None
     | TPeriodicAnnounce k =>
         if (k =? token f) && conn_eqb (conn f) Connected && is_some (periodic_announce (cfg f)) then Some LAnn else None
     | TPeriodicAnnounceDown k =>
         if (k =? token f) && conn_eqb (conn f) Connected && is_some (periodic_announce_down (cfg f)) then Some LAnnDown else None
     | TPeriodicGossip k =>
         if (k =? token f) && conn_eqb (conn f) Connected && is_some (periodic_gossip (cfg f)) then Some LGossip else None
     | _ => None
     end.
Proof. split; [reflexivity|]. split; [reflexivity|]. split; reflexivity. Qed.

(* acc es = (loop timers (kind, token) submitted after the last Idle / Defunct / Rejoin notification
   of es, whether there was such a notification) *)
Theorem C13_acc_meaning (es : list (effect Id)) (e : effect Id) :
  acc (@nil (effect Id)) = ([], false)
  /\ acc (es ++ [e]) =
     match e with
     | Notify n => if epoch_note n then ([], true) else acc es
     | Submit t _ => match loop_of t with Some x => (fst (acc es) ++ [x], snd (acc es)) | None => acc es end
     | Send _ _ => acc es
     end.
Proof. split; [reflexivity|]. rewrite acc_snoc. reflexivity. Qed.

Theorem C13_invariant_initially (id0 : Id) (c0 : config) (h0 : hstate) :
  Inv (@foca_init Id Addr HO id0 c0 h0) [].
Proof. intros K. split; [cbn; discriminate|reflexivity]. Qed.

(* a call that is not the delivery of a live loop timer (any datagram, API call, stale or
   non-loop timer); P is what is pending during the call, P ++ submitted afterwards *)
Theorem C13_invariant_other (rnd : oracle) (f : @foca Id Addr HO) (P : list (timer Id)) (i : @input Id) :
  Inv f P ->
  match i with ITimer t => live_timer f t = None | _ => True end ->
  let '(f', es, r, _) := step rnd f i in
  clean r -> (epoch_changed f f' es -> no_alias f' P es) ->
  Inv f' (P ++ subm es).
Proof. exact (loop_invariant_other rnd f P i). Qed.

(* taking a delivered timer out of the pending set when it is not a live loop timer *)
Theorem C13_invariant_deliver_nonlive (f : @foca Id Addr HO) (P1 P2 : list (timer Id)) (t : timer Id) :
  Inv f (P1 ++ t :: P2) -> live_timer f t = None -> Inv f (P1 ++ P2).
Proof. exact (Inv_remove_nonlive f P1 P2 t). Qed.

(* delivery of the live timer of an enabled loop: exactly one successor is scheduled *)
Theorem C13_invariant_live (rnd : oracle) (f : @foca Id Addr HO) (P1 P2 : list (timer Id)) (t : timer Id) (K : lk) :
  Inv f (P1 ++ t :: P2) -> live_timer f t = Some K ->
  let '(f', es, r, _) := step rnd f (ITimer t) in
  clean r -> Inv f' (P1 ++ P2 ++ subm es).
Proof. exact (loop_invariant_live rnd f P1 P2 t K). Qed.

(* handle_timer: Done, or Encode / IncompleteProbeCycle, or NotConnected for a current-token probe
   timer while not connected (never pending under the invariant) *)
Theorem C13_timer_errors (rnd : oracle) (f : @foca Id Addr HO) (t : timer Id) :
  match snd (fst (step rnd f (ITimer t))) with
  | Failed e => e = EEncode \/ e = EIncompleteProbeCycle
                \/ (e = ENotConnected /\ conn f <> Connected /\ t = TProbeRandomMember (token f))
  | _ => True
  end.
Proof. exact (handle_timer_errors rnd f t). Qed.

End C13_history.

(* ---------- the clock ---------- *)
Section C13_clock.
Context {Id Addr : Type} {IO : IdOps Id Addr} {CO : CodecOps Id} {HO : HandlerOps Id} {IL : IdLaws IO}.

(* the configuration (hence probe timing and the set of enabled periodic tasks) changes only
   through set_config *)
Theorem C13_config_changes_only_by_set_config (rnd : oracle) (f : @foca Id Addr HO) (i : @input Id) :
  match i with ISetConfig _ => True | _ => cfg (fst (fst (fst (step rnd f i)))) = cfg f end.
Proof. exact (step_cfg_frame rnd f i). Qed.

(* the vocabulary: deadline order (ties in the order of Timer's Ord), what the runtime holds after a
   call at time now - its clock may be coarse: a deadline now + after is recorded as rd (now + after)
   for a monotone rounding rd, the identity for an exact clock -, an instance that is not Connected has
   no open round, the open-round invariant *)
Theorem C13_clock_terms (rd : N -> N) (f : @foca Id Addr HO) (P : list (N * timer Id)) (x y : N * timer Id) (now : N) (es : list (effect Id)) :
  (before x y <-> fst x < fst y \/ (fst x = fst y /\ timer_seq (snd x) <= timer_seq (snd y)))
  /\ stamp rd now es = flat_map (fun e => match e with Submit t a => [(rd (now + a), t)] | _ => [] end) es
  /\ (PA f <-> (conn f <> Connected -> probe_validate (prb f) = true))
  /\ (PI f P <->
      PA f /\ (conn f = Connected -> probe_validate (prb f) = false ->
               exists d tgt, In (d, TSendIndirectProbe tgt (token f)) P
                             /\ forall d', In (d', TProbeRandomMember (token f)) P -> d <= d'))
  /\ (probe_validate (prb f) = match p_direct (prb f) with None => true | Some _ => p_reached (prb f) end).
Proof. split; [reflexivity|]. split; [reflexivity|]. split; [reflexivity|]. split; reflexivity. Qed.

Theorem C13_open_round_initially (id0 : Id) (c0 : config) (h0 : hstate) : PI (@foca_init Id Addr HO id0 c0 h0) [].
Proof. exact (PI_initially id0 c0 h0). Qed.

Theorem C13_open_round_other (rnd : oracle) (rd : N -> N) (f : @foca Id Addr HO) (P : list (N * timer Id)) (now : N) (i : @input Id) :
  match i with ITimer _ => False | _ => True end ->
  PI f P -> let '(f', es, _, _) := step rnd f i in PI f' (P ++ stamp rd now es).
Proof. exact (PI_other rnd rd f P now i). Qed.

Theorem C13_open_round_deliver_other (rnd : oracle) (rd : N -> N) (f : @foca Id Addr HO) (P1 P2 : list (N * timer Id)) (d now : N) (t : timer Id) :
  ~ (t = TProbeRandomMember (token f) /\ conn f = Connected) ->
  PI f (P1 ++ (d, t) :: P2) ->
  let '(f', es, _, _) := step rnd f (ITimer t) in PI f' (P1 ++ P2 ++ stamp rd now es).
Proof. exact (PI_deliver_other rnd rd f P1 P2 d now t). Qed.

Theorem C13_open_round_deliver_live (rnd : oracle) (rd : N -> N) (f : @foca Id Addr HO) (P1 P2 : list (N * timer Id)) (d now : N) :
  (forall a b, a <= b -> rd a <= rd b) ->
  conn f = Connected ->
  Inv f (map snd (P1 ++ (d, TProbeRandomMember (token f)) :: P2)) ->
  probe_rtt (cfg f) <= probe_period (cfg f) ->
  let '(f', es, r, _) := step rnd f (ITimer (TProbeRandomMember (token f))) in
  clean r -> PI f' (P1 ++ P2 ++ stamp rd now es).
Proof. intros M. exact (PI_deliver_live rnd rd M f P1 P2 d now). Qed.

(* THE CLOCK THEOREM *)
Theorem C13_deadline_order_no_incomplete_cycle (rnd : oracle) (f : @foca Id Addr HO) (P1 P2 : list (N * timer Id)) (d : N) (t : timer Id) :
  PI f (P1 ++ (d, t) :: P2) ->
  (forall x, In x (P1 ++ P2) -> before (d, t) x) ->
  snd (fst (step rnd f (ITimer t))) <> Failed EIncompleteProbeCycle.
Proof. exact (deadline_order_no_incomplete rnd f P1 P2 d t). Qed.

Theorem C13_deadline_order_errors (rnd : oracle) (f : @foca Id Addr HO) (P1 P2 : list (N * timer Id)) (d : N) (t : timer Id) :
  PI f (P1 ++ (d, t) :: P2) -> Inv f (map snd (P1 ++ (d, t) :: P2)) ->
  (forall x, In x (P1 ++ P2) -> before (d, t) x) ->
  match snd (fst (step rnd f (ITimer t))) with Failed e => e = EEncode | _ => True end.
Proof. exact (deadline_order_errors rnd f P1 P2 d t). Qed.

(* whole timed histories: calls at arbitrary times, timers in deadline order however late *)
Theorem C13_timed_history_terms (rnd : oracle) (rd : N -> N) (f f' : @foca Id Addr HO) (P : list (N * timer Id)) (es : list (effect Id)) (r : result) :
  (side f f' P es r <-> clean r /\ (epoch_changed f f' es -> no_alias f' (map snd P) es))
  /\ (forall id0 c0 h0, probe_rtt c0 <= probe_period c0 -> trun rnd rd (@foca_init Id Addr HO id0 c0 h0) [] 0)
  /\ (forall P0 now now' i es0 r0 k, trun rnd rd f P0 now -> now <= now' ->
        match i with ITimer _ => False | _ => True end ->
        step rnd f i = (f', es0, r0, k) -> side f f' P0 es0 r0 -> trun rnd rd f' (P0 ++ stamp rd now' es0) now')
  /\ (forall P1 d t P2 now now' es0 r0 k, trun rnd rd f (P1 ++ (d, t) :: P2) now -> now <= now' -> d <= now' ->
        (forall x, In x (P1 ++ P2) -> before (d, t) x) ->
        step rnd f (ITimer t) = (f', es0, r0, k) -> side f f' (P1 ++ P2) es0 r0 ->
        trun rnd rd f' (P1 ++ P2 ++ stamp rd now' es0) now').
Proof.
  split; [reflexivity|]. split; [intros; apply tr_init; assumption|].
  split; [intros; eapply tr_call; eauto|intros; eapply tr_timer; eauto].
Qed.

Theorem C13_timed_history_invariants (rnd : oracle) (rd : N -> N) (f : @foca Id Addr HO) (P : list (N * timer Id)) (now : N) :
  (forall a b, a <= b -> rd a <= rd b) ->
  trun rnd rd f P now -> Inv f (map snd P) /\ PI f P /\ probe_rtt (cfg f) <= probe_period (cfg f).
Proof. intros M. exact (trun_invariants rnd rd M f P now). Qed.

Theorem C13_timed_history_timer_results (rnd : oracle) (rd : N -> N) (f : @foca Id Addr HO) (P1 P2 : list (N * timer Id)) (d now : N) (t : timer Id) :
  (forall a b, a <= b -> rd a <= rd b) ->
  trun rnd rd f (P1 ++ (d, t) :: P2) now ->
  (forall x, In x (P1 ++ P2) -> before (d, t) x) ->
  match snd (fst (step rnd f (ITimer t))) with Failed e => e = EEncode | _ => True end.
Proof. intros M. exact (trun_timer_results rnd rd M f P1 d t P2 now). Qed.

End C13_clock.

(* non-vacuity: a concrete timed history (join at t=5; the probe timer delivered 7 late; the
   indirect-probe timer, due before the next probe timer, delivered first) *)
Definition ex_cfg : config := mkConfig 1500000000 500000000 3 10 3000000000 86400000000000 1400 false None None None.
Definition ex_f0 : @foca cid N cid_handler := foca_init (mkCid 1 0 0 0) ex_cfg (mkChst 0 255 []).
Definition ex_o : oracle := fun _ _ => [].
Definition ex_c2 := mkCid 2 0 0 0.
Definition ex_rd (x : N) : N := x.   (* an exact clock *)
Definition ex_r1 := step ex_o ex_f0 (IApplyMany [mkMember ex_c2 0 Alive] false).
Definition ex_f1 := fst (fst (fst ex_r1)).
Definition ex_r2 := step ex_o ex_f1 (ITimer (TProbeRandomMember 0)).
Definition ex_f2 := fst (fst (fst ex_r2)).
Definition ex_r3 := step ex_o ex_f2 (ITimer (TSendIndirectProbe ex_c2 0)).
Definition ex_f3 := fst (fst (fst ex_r3)).

Lemma step_eta {Id Addr} {IO : IdOps Id Addr} {CO : CodecOps Id} {HO : HandlerOps Id} rnd (f : @foca Id Addr HO) i :
  step rnd f i = (fst (fst (fst (step rnd f i))), snd (fst (fst (step rnd f i))), snd (fst (step rnd f i)), snd (step rnd f i)).
Proof. destruct (step rnd f i) as [[[a b] c] d]. reflexivity. Qed.

Example C13_timed_history_exists :
  exists P now, trun ex_o ex_rd ex_f3 P now /\ conn ex_f3 = Connected /\ probe_validate (prb ex_f3) = true /\ length P = 1%nat
                /\ probe_validate (prb ex_f2) = false.
Proof.
  assert (T1 : trun ex_o ex_rd ex_f1 ([] ++ stamp ex_rd 5 (snd (fst (fst ex_r1)))) 5).
  { eapply (tr_call ex_o ex_rd ex_f0 [] 0 5 (IApplyMany [mkMember ex_c2 0 Alive] false)).
    - apply tr_init. vm_compute. discriminate.
    - vm_compute. discriminate.
    - exact I.
    - apply step_eta.
    - split; [vm_compute; exact I|]. intros [H|H]; vm_compute in H; [discriminate|contradiction]. }
  replace ([] ++ stamp ex_rd 5 (snd (fst (fst ex_r1)))) with ([] ++ (1500000005, @TProbeRandomMember cid 0) :: []) in T1 by (vm_compute; reflexivity).
  assert (T2 : trun ex_o ex_rd ex_f2 ([] ++ [] ++ stamp ex_rd 1500000012 (snd (fst (fst ex_r2)))) 1500000012).
  { eapply (tr_timer ex_o ex_rd ex_f1 [] 1500000005 (TProbeRandomMember 0) [] 5 1500000012); [exact T1| | | | |].
    - vm_compute. discriminate.
    - vm_compute. discriminate.
    - intros x [].
    - apply step_eta.
    - split; [vm_compute; exact I|]. intros [H|H]; vm_compute in H; [discriminate|contradiction]. }
  replace ([] ++ [] ++ stamp ex_rd 1500000012 (snd (fst (fst ex_r2))))
    with ([] ++ (2000000012, TSendIndirectProbe ex_c2 0) :: [(3000000012, @TProbeRandomMember cid 0)]) in T2 by (vm_compute; reflexivity).
  assert (T3 : trun ex_o ex_rd ex_f3 ([] ++ [(3000000012, @TProbeRandomMember cid 0)] ++ stamp ex_rd 2000000012 (snd (fst (fst ex_r3)))) 2000000012).
  { eapply (tr_timer ex_o ex_rd ex_f2 [] 2000000012 (TSendIndirectProbe ex_c2 0) _ 1500000012 2000000012); [exact T2| | | | |].
    - vm_compute. discriminate.
    - vm_compute. discriminate.
    - intros x [<-|[]]. left. vm_compute. reflexivity.
    - apply step_eta.
    - split; [vm_compute; exact I|]. intros [H|H]; vm_compute in H; [discriminate|contradiction]. }
  eexists _, _. split; [exact T3|]. vm_compute. auto.
Qed.

Print Assumptions C13_stale_timer_noop.
Print Assumptions C13_connect_arms_every_loop_once.
Print Assumptions C13_set_config_cannot_start_loops.
Print Assumptions C13_set_config_emits_nothing.
Print Assumptions C13_disabled_task_timer_dropped.
Print Assumptions C13_not_connected_periodic_noop.
Print Assumptions C13_loop_timers.
Print Assumptions C13_cnt_meaning.
Print Assumptions C13_invariant_meaning.
Print Assumptions C13_enabled_loops.
Print Assumptions C13_side_conditions.
Print Assumptions C13_acc_meaning.
Print Assumptions C13_invariant_initially.
Print Assumptions C13_invariant_other.
Print Assumptions C13_invariant_deliver_nonlive.
Print Assumptions C13_invariant_live.
Print Assumptions C13_timer_errors.
Print Assumptions C13_config_changes_only_by_set_config.
Print Assumptions C13_clock_terms.
Print Assumptions C13_open_round_initially.
Print Assumptions C13_open_round_other.
Print Assumptions C13_open_round_deliver_other.
Print Assumptions C13_open_round_deliver_live.
Print Assumptions C13_deadline_order_no_incomplete_cycle.
Print Assumptions C13_deadline_order_errors.
Print Assumptions C13_timed_history_terms.
Print Assumptions C13_timed_history_invariants.
Print Assumptions C13_timed_history_timer_results.
Print Assumptions C13_timed_history_exists.
