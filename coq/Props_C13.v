(* Props_C13.v — C13: timer epochs.  Proved here: stale timers have no effect at all;
   connecting arms exactly one probe timer and one timer per enabled periodic task with the
   current token; set_config can neither change probe timing nor enable a task; disabled or
   not-connected periodic timers are dropped without effect.
   History level (L_Acct.v): with a runtime that delivers each scheduled timer exactly once, the
   pending set always holds exactly one timer per enabled loop carrying the current token while
   the instance is connected and none otherwise; handle_timer fails at most with
   IncompleteProbeCycle (or Encode, or NotConnected for a probe timer nobody can have pending).
   PARTIAL: that deadline-order delivery never yields IncompleteProbeCycle needs the clock and is
   decided by the falsifier on the real crate (DESIGN.md). *)
From Foca Require Import Laws MembersM FocaM L_Reject L_Timers L_Acct.

Section C13.
Context {Id Addr : Type} {IO : IdOps Id Addr} {CO : CodecOps Id} {HO : HandlerOps Id}.

Theorem C13_stale_timer_noop (rnd : oracle) (f : @foca Id Addr HO) (t : timer Id) (k : N) :
  timer_token t = Some k -> k <> token f -> step rnd f (ITimer t) = (f, [], Done, 0).
Proof. exact (fun H N => reject_noop rnd f (ITimer t) Done (Rj_stale_timer f t k H N)). Qed.

Theorem C13_connect_arms_every_loop_once (s : @rs Id Addr HO) :
  0 < num_active (mems (st s)) ->
  become_connected s =
  (mkRs (set_conn (st s) Connected)
        (out s ++ [Submit (TProbeRandomMember (token (st s))) (probe_period (cfg (st s)))]
             ++ periodic_submits (periodic_announce (cfg (st s))) (TPeriodicAnnounce (token (st s)))
             ++ periodic_submits (periodic_announce_down (cfg (st s))) (TPeriodicAnnounceDown (token (st s)))
             ++ periodic_submits (periodic_gossip (cfg (st s))) (TPeriodicGossip (token (st s)))
             ++ [Notify NActive])
        (ctr s), ROk tt).
Proof. exact (become_connected_effects s). Qed.

Theorem C13_set_config_cannot_start_loops (f : @foca Id Addr HO) (c : config) :
  config_refused (cfg f) c = false ->
  probe_period c = probe_period (cfg f) /\ probe_rtt c = probe_rtt (cfg f)
  /\ (periodic_announce (cfg f) = None -> periodic_announce c = None)
  /\ (periodic_announce_down (cfg f) = None -> periodic_announce_down c = None)
  /\ (periodic_gossip (cfg f) = None -> periodic_gossip c = None).
Proof. exact (set_config_accepts f c). Qed.

Theorem C13_set_config_emits_nothing (rnd : oracle) (f : @foca Id Addr HO) (c : config) :
  step rnd f (ISetConfig c) =
  if config_refused (cfg f) c then (f, [], Failed EInvalidConfig, 0)
  else (set_cfg (if negb (max_packet_size (cfg f) =? max_packet_size c)
                 then set_send_cap f (max_packet_size c) else f) c, [], Done, 0).
Proof. exact (set_config_effect rnd f c). Qed.

Theorem C13_disabled_task_timer_dropped (rnd : oracle) (f : @foca Id Addr HO) (tok : N) :
  (periodic_announce (cfg f) = None -> step rnd f (ITimer (TPeriodicAnnounce tok)) = (f, [], Done, 0))
  /\ (periodic_announce_down (cfg f) = None -> step rnd f (ITimer (TPeriodicAnnounceDown tok)) = (f, [], Done, 0))
  /\ (periodic_gossip (cfg f) = None -> step rnd f (ITimer (TPeriodicGossip tok)) = (f, [], Done, 0)).
Proof. exact (periodic_disabled_noop rnd f tok). Qed.

Theorem C13_not_connected_periodic_noop (rnd : oracle) (f : @foca Id Addr HO) (tok : N) (t : timer Id) :
  conn f <> Connected ->
  t = TPeriodicAnnounce tok \/ t = TPeriodicAnnounceDown tok \/ t = TPeriodicGossip tok ->
  step rnd f (ITimer t) = (f, [], Done, 0).
Proof. exact (not_connected_periodic_noop rnd f tok t). Qed.

End C13.

Section C13_history.
Context {Id Addr : Type} {IO : IdOps Id Addr} {CO : CodecOps Id} {HO : HandlerOps Id} {IL : IdLaws IO}.

(* the recurring loops and what counts as one of their timers *)
Theorem C13_loop_timers (t : timer Id) :
  loop_of t = match t with
              | TProbeRandomMember k => Some (LProbe, k)
              | TPeriodicAnnounce k => Some (LAnn, k)
              | TPeriodicAnnounceDown k => Some (LAnnDown, k)
              | TPeriodicGossip k => Some (LGossip, k)
              | _ => None
              end.
Proof. reflexivity. Qed.

(* cnt K k P = number of pending timers of loop K carrying token k *)
Theorem C13_cnt_meaning (K : lk) (k : N) (P : list (timer Id)) :
  cnt K k P = length (filter (fun t => match loop_of t with
                                       | Some (K', k') => lk_eqb K K' && (k =? k')
                                       | None => false
                                       end) P).
Proof.
  unfold cnt, cntp, pairs_of. induction P as [|t P IH]; [reflexivity|].
  cbn [flat_map filter]. destruct (loop_of t) as [[K' k']|]; cbn [app filter fst snd].
  - destruct (lk_eqb K K' && (k =? k')); cbn [length]; rewrite IH; reflexivity.
  - exact IH.
Qed.

(* THE INVARIANT: while connected, exactly one pending timer with the current token for the probe
   loop and for each enabled periodic task; while not connected, none (so nothing pending is
   effective: C13_stale_timer_noop) *)
Theorem C13_invariant_meaning (f : @foca Id Addr HO) (P : list (timer Id)) :
  Inv f P <->
  (forall K, (conn f = Connected -> In K (enabled (cfg f)) -> cnt K (token f) P = 1%nat)
          /\ (conn f <> Connected -> cnt K (token f) P = 0%nat)).
Proof. reflexivity. Qed.

Theorem C13_enabled_loops (c : config) :
  enabled c = LProbe :: (if is_some (periodic_announce c) then [LAnn] else [])
                     ++ (if is_some (periodic_announce_down c) then [LAnnDown] else [])
                     ++ (if is_some (periodic_gossip c) then [LGossip] else []).
Proof. reflexivity. Qed.

(* the side conditions of the step theorems, spelled out *)
Theorem C13_side_conditions (f f' : @foca Id Addr HO) (P1 : list (timer Id)) (es : list (effect Id)) (r : result) (t : timer Id) :
  (clean r <-> match r with Failed EEncode => False | Panicked _ => False | _ => True end)
  /\ (epoch_changed f f' es <-> snd (acc es) = true \/ token f' <> token f)
  /\ (no_alias f' P1 es <->
      forall K d, pairs_of (subm es) = d ++ fst (acc es) ->
                  cnt K (token f') P1 = 0%nat /\ cntp K (token f') d = 0%nat)
  /\ live_timer f t =
     match t with
     | TProbeRandomMember k => if (k =? token f) && conn_eqb (conn f) Connected then Some LProbe else None
     | TPeriodicAnnounce k =>
         if (k =? token f) && conn_eqb (conn f) Connected && is_some (periodic_announce (cfg f)) then Some LAnn else None
     | TPeriodicAnnounceDown k =>
         if (k =? token f) && conn_eqb (conn f) Connected && is_some (periodic_announce_down (cfg f)) then Some LAnnDown else None
     | TPeriodicGossip k =>
         if (k =? token f) && conn_eqb (conn f) Connected && is_some (periodic_gossip (cfg f)) then Some LGossip else None
     | _ => None
     end.
Proof. split; [reflexivity|]. split; [reflexivity|]. split; reflexivity. Qed.

(* acc es = (loop timers (kind, token) submitted after the last Idle / Defunct / Rejoin notification
   of es, whether there was such a notification) *)
Theorem C13_acc_meaning (es : list (effect Id)) (e : effect Id) :
  acc (@nil (effect Id)) = ([], false)
  /\ acc (es ++ [e]) =
     match e with
     | Notify n => if epoch_note n then ([], true) else acc es
     | Submit t _ => match loop_of t with Some x => (fst (acc es) ++ [x], snd (acc es)) | None => acc es end
     | Send _ _ => acc es
     end.
Proof. split; [reflexivity|]. rewrite acc_snoc. reflexivity. Qed.

Theorem C13_invariant_initially (id0 : Id) (c0 : config) (h0 : hstate) :
  Inv (@foca_init Id Addr HO id0 c0 h0) [].
Proof. intros K. split; [cbn; discriminate|reflexivity]. Qed.

(* a call that is not the delivery of a live loop timer (any datagram, API call, stale or
   non-loop timer); P is what is pending during the call, P ++ submitted afterwards *)
Theorem C13_invariant_other (rnd : oracle) (f : @foca Id Addr HO) (P : list (timer Id)) (i : @input Id) :
  Inv f P ->
  match i with ITimer t => live_timer f t = None | _ => True end ->
  let '(f', es, r, _) := step rnd f i in
  clean r -> (epoch_changed f f' es -> no_alias f' P es) ->
  Inv f' (P ++ subm es).
Proof. exact (loop_invariant_other rnd f P i). Qed.

(* taking a delivered timer out of the pending set when it is not a live loop timer *)
Theorem C13_invariant_deliver_nonlive (f : @foca Id Addr HO) (P1 P2 : list (timer Id)) (t : timer Id) :
  Inv f (P1 ++ t :: P2) -> live_timer f t = None -> Inv f (P1 ++ P2).
Proof. exact (Inv_remove_nonlive f P1 P2 t). Qed.

(* delivery of the live timer of an enabled loop: exactly one successor is scheduled *)
Theorem C13_invariant_live (rnd : oracle) (f : @foca Id Addr HO) (P1 P2 : list (timer Id)) (t : timer Id) (K : lk) :
  Inv f (P1 ++ t :: P2) -> live_timer f t = Some K ->
  let '(f', es, r, _) := step rnd f (ITimer t) in
  clean r -> Inv f' (P1 ++ P2 ++ subm es).
Proof. exact (loop_invariant_live rnd f P1 P2 t K). Qed.

(* handle_timer: Done, or Encode / IncompleteProbeCycle, or NotConnected for a current-token probe
   timer while not connected (never pending under the invariant) *)
Theorem C13_timer_errors (rnd : oracle) (f : @foca Id Addr HO) (t : timer Id) :
  match snd (fst (step rnd f (ITimer t))) with
  | Failed e => e = EEncode \/ e = EIncompleteProbeCycle
                \/ (e = ENotConnected /\ conn f <> Connected /\ t = TProbeRandomMember (token f))
  | _ => True
  end.
Proof. exact (handle_timer_errors rnd f t). Qed.

End C13_history.

Print Assumptions C13_stale_timer_noop.
Print Assumptions C13_connect_arms_every_loop_once.
Print Assumptions C13_set_config_cannot_start_loops.
Print Assumptions C13_set_config_emits_nothing.
Print Assumptions C13_disabled_task_timer_dropped.
Print Assumptions C13_not_connected_periodic_noop.
Print Assumptions C13_loop_timers.
Print Assumptions C13_cnt_meaning.
Print Assumptions C13_invariant_meaning.
Print Assumptions C13_enabled_loops.
Print Assumptions C13_side_conditions.
Print Assumptions C13_acc_meaning.
Print Assumptions C13_invariant_initially.
Print Assumptions C13_invariant_other.
Print Assumptions C13_invariant_deliver_nonlive.
Print Assumptions C13_invariant_live.
Print Assumptions C13_timer_errors.
