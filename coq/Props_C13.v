(* Props_C13.v — C13: timer epochs.  Proved here: stale timers have no effect at all;
   connecting arms exactly one probe timer and one timer per enabled periodic task with the
   current token; set_config can neither change probe timing nor enable a task; disabled or
   not-connected periodic timers are dropped without effect.
   PARTIAL: the history-level "exactly one outstanding timer per loop" accounting and the
   in-order-delivery clause are decided by the falsifier on the real crate (DESIGN.md). *)
From Foca Require Import Laws FocaM L_Reject L_Timers.

Section C13.
Context {Id Addr : Type} {IO : IdOps Id Addr} {CO : CodecOps Id} {HO : HandlerOps Id}.

Theorem C13_stale_timer_noop (rnd : oracle) (f : @foca Id Addr HO) (t : timer Id) (k : N) :
  timer_token t = Some k -> k <> token f -> step rnd f (ITimer t) = (f, [], Done, 0).
Proof. exact (fun H N => reject_noop rnd f (ITimer t) Done (Rj_stale_timer f t k H N)). Qed.

Theorem C13_connect_arms_every_loop_once (s : @rs Id Addr HO) :
  0 < num_active (mems (st s)) ->
  become_connected s =
  (mkRs (set_conn (st s) Connected)
        (out s ++ [Submit (TProbeRandomMember (token (st s))) (probe_period (cfg (st s)))]
             ++ periodic_submits (periodic_announce (cfg (st s))) (TPeriodicAnnounce (token (st s)))
             ++ periodic_submits (periodic_announce_down (cfg (st s))) (TPeriodicAnnounceDown (token (st s)))
             ++ periodic_submits (periodic_gossip (cfg (st s))) (TPeriodicGossip (token (st s)))
             ++ [Notify NActive])
        (ctr s), ROk tt).
Proof. exact (become_connected_effects s). Qed.

Theorem C13_set_config_cannot_start_loops (f : @foca Id Addr HO) (c : config) :
  config_refused (cfg f) c = false ->
  probe_period c = probe_period (cfg f) /\ probe_rtt c = probe_rtt (cfg f)
  /\ (periodic_announce (cfg f) = None -> periodic_announce c = None)
  /\ (periodic_announce_down (cfg f) = None -> periodic_announce_down c = None)
  /\ (periodic_gossip (cfg f) = None -> periodic_gossip c = None).
Proof. exact (set_config_accepts f c). Qed.

Theorem C13_set_config_emits_nothing (rnd : oracle) (f : @foca Id Addr HO) (c : config) :
  step rnd f (ISetConfig c) =
  if config_refused (cfg f) c then (f, [], Failed EInvalidConfig, 0)
  else (set_cfg (if negb (max_packet_size (cfg f) =? max_packet_size c)
                 then set_send_cap f (max_packet_size c) else f) c, [], Done, 0).
Proof. exact (set_config_effect rnd f c). Qed.

Theorem C13_disabled_task_timer_dropped (rnd : oracle) (f : @foca Id Addr HO) (tok : N) :
  (periodic_announce (cfg f) = None -> step rnd f (ITimer (TPeriodicAnnounce tok)) = (f, [], Done, 0))
  /\ (periodic_announce_down (cfg f) = None -> step rnd f (ITimer (TPeriodicAnnounceDown tok)) = (f, [], Done, 0))
  /\ (periodic_gossip (cfg f) = None -> step rnd f (ITimer (TPeriodicGossip tok)) = (f, [], Done, 0)).
Proof. exact (periodic_disabled_noop rnd f tok). Qed.

Theorem C13_not_connected_periodic_noop (rnd : oracle) (f : @foca Id Addr HO) (tok : N) (t : timer Id) :
  conn f <> Connected ->
  t = TPeriodicAnnounce tok \/ t = TPeriodicAnnounceDown tok \/ t = TPeriodicGossip tok ->
  step rnd f (ITimer t) = (f, [], Done, 0).
Proof. exact (not_connected_periodic_noop rnd f tok t). Qed.

End C13.

Print Assumptions C13_stale_timer_noop.
Print Assumptions C13_connect_arms_every_loop_once.
Print Assumptions C13_set_config_cannot_start_loops.
Print Assumptions C13_set_config_emits_nothing.
Print Assumptions C13_disabled_task_timer_dropped.
Print Assumptions C13_not_connected_periodic_noop.
