(* L_ConnCons.v — at call boundaries a connected instance has at least one active member:
   every call that does not abort with an Encode error (a header that does not fit the packet
   size) re-establishes  conn = Connected -> 0 < num_active.  Together with L_Mirror this is
   "Idle is notified within the call in which the last active member disappears". *)
From Foca Require Import Laws L_Lists MembersM L_Members L_MembersInv FocaM Hoare Inv L_Mech L_Mirror.

Section CC.
Context {Id Addr : Type} {IO : IdOps Id Addr} {CO : CodecOps Id} {HO : HandlerOps Id} {IL : IdLaws IO}.
Variable rnd : oracle.
Notation member := (member Id).
Notation foca := (@foca Id Addr HO).
Notation rs := (@rs Id Addr HO).
Notation M := (@M Id Addr HO).
Notation "x <- m ;; f" := (bind m (fun x => f)) (at level 61, m at next level, right associativity).
Notation "m ;;; f" := (bind m (fun _ => f)) (at level 61, right associativity).

Definition CC (f : foca) : Prop := conn f = Connected -> 0 < num_active (mems f).
Definition CCs (s : rs) : Prop := CC (st s).

Definition ccpost {A} (x : rs * res A) : Prop :=
  match x with
  | (s', ROk _) => CCs s'
  | (s', RErr e) => e = EEncode \/ CCs s'
  | (_, RPanic _) => True
  end.

(* preserves / establishes the boundary condition *)
Definition pres {A} (m : M A) : Prop := forall s, MUs s -> CCs s -> ccpost (m s).
Definition est {A} (m : M A) : Prop := forall s, MUs s -> ccpost (m s).
(* aborts only with Encode *)
Definition oee {A} (m : M A) : Prop := forall s, match m s with (_, RErr e) => e = EEncode | _ => True end.
(* never leaves Connected-ness stronger nor the active count smaller *)
Definition mono {A} (m : M A) : Prop :=
  forall s, (conn (st (fst (m s))) = Connected -> conn (st s) = Connected)
            /\ num_active (mems (st s)) <= num_active (mems (st (fst (m s)))).

Lemma est_pres {A} (m : M A) : est m -> pres m.
Proof. intros H s U _. apply H. exact U. Qed.

Lemma mono_pres {A} (m : M A) : mono m -> pres m.
Proof.
  intros H s U C. destruct (H s) as [H1 H2]. unfold ccpost.
  assert (G : CCs (fst (m s))).
  { intros Cn. specialize (C (H1 Cn)). lia. }
  destruct (m s) as [s' [a|e|p]]; cbn [fst] in G; auto.
Qed.

Lemma pres_bind {A B} (m : M A) (f : A -> M B) : mir m -> pres m -> (forall a, pres (f a)) -> pres (bind m f).
Proof.
  intros Mm Hm Hf s U C. specialize (Hm s U C). destruct (Mm s U) as [U1 _]. unfold bind.
  destruct (m s) as [s1 [a|e|p]]; cbn [fst] in *; auto. apply Hf; auto.
Qed.

Lemma est_bind {A B} (m : M A) (f : A -> M B) : mir m -> oee m -> (forall a, est (f a)) -> est (bind m f).
Proof.
  intros Mm Hm Hf s U. specialize (Hm s). destruct (Mm s U) as [U1 _]. unfold bind.
  destruct (m s) as [s1 [a|e|p]]; cbn [fst] in *; auto.
  - apply Hf; auto.
  - cbn. left. exact Hm.
Qed.

Lemma est_then {A B} (m : M A) (f : A -> M B) : mir m -> est m -> (forall a, pres (f a)) -> est (bind m f).
Proof.
  intros Mm Hm Hf s U. specialize (Hm s U). destruct (Mm s U) as [U1 _]. unfold bind.
  destruct (m s) as [s1 [a|e|p]]; cbn [fst] in *; auto. apply Hf; auto.
Qed.

(* ---- mono: compositional ---- *)
Lemma mono_bind {A B} (m : M A) (f : A -> M B) : mono m -> (forall a, mono (f a)) -> mono (bind m f).
Proof.
  intros Hm Hf s. destruct (Hm s) as [H1 H2]. unfold bind.
  destruct (m s) as [s1 [a|e|p]]; cbn [fst] in *; auto.
  destruct (Hf a s1) as [G1 G2]. split; [auto|lia].
Qed.
Lemma quiet_mono {A} (m : M A) : quiet m -> mono m.
Proof. intros Q s. destruct (Q s) as (E1 & E2 & _). rewrite E1, E2. split; [auto|lia]. Qed.
Lemma mono_ret {A} (a : A) : mono (@ret Id Addr HO A a). Proof. apply quiet_mono, quiet_ret. Qed.
Lemma mono_fail {A} e : mono (@fail Id Addr HO A e). Proof. apply quiet_mono, quiet_fail. Qed.
Lemma mono_panic {A} p : mono (@panic Id Addr HO A p). Proof. apply quiet_mono, quiet_panic. Qed.
Lemma mono_when b (m : M unit) : mono m -> mono (when b m).
Proof. destruct b; cbn; auto. intros _. apply mono_ret. Qed.
Lemma mono_get_bind {B} (body : foca -> M B) : (forall f, mono (body f)) -> mono (f <- get ;; body f).
Proof. intros H. apply mono_bind; [apply quiet_mono, quiet_get|exact H]. Qed.
Lemma mono_modify g :
  (forall f, (conn (g f) = Connected -> conn f = Connected) /\ num_active (mems f) <= num_active (mems (g f))) ->
  mono (@modify Id Addr HO g).
Proof. intros H s. cbn. apply H. Qed.
Lemma mono_attempt (m : M unit) : mono m -> mono (attempt m).
Proof. intros H s. specialize (H s). unfold attempt. destruct (m s) as [s1 [a|e|p]]; cbn [fst] in *; auto. Qed.

Ltac qm := apply quiet_mono.

Lemma mono_emit e : mono (@emit Id Addr HO e).
Proof. intros s. cbn. split; [auto|lia]. Qed.

Lemma mono_become_undead : mono (@become_undead Id Addr HO).
Proof.
  unfold become_undead. apply mono_bind; [|intros; apply mono_emit].
  apply mono_modify. intros f. cbn. split; [discriminate|lia].
Qed.

Lemma mono_reset : mono (@reset Id Addr HO).
Proof. unfold reset. apply mono_modify. intros f. cbn. split; [discriminate|lia]. Qed.

Lemma mono_change_identity new_id : mono (change_identity rnd new_id).
Proof.
  unfold change_identity. apply mono_get_bind. intros f.
  destruct (id_eqb (identity f) new_id); [apply mono_fail|].
  apply mono_bind; [apply mono_modify; intros f0; cbn; split; [auto|lia]|]. intros _.
  apply mono_bind; [apply mono_reset|]. intros _.
  apply mono_bind; [apply mono_when; qm; apply quiet_add_update|]. intros _. qm. apply quiet_gossip.
Qed.

Lemma mono_attempt_rejoin : mono (attempt_rejoin rnd).
Proof.
  unfold attempt_rejoin. apply mono_get_bind. intros f.
  destruct (renew (identity f)) as [new_id|]; [|apply mono_ret].
  destruct (id_eqb (identity f) new_id); [apply mono_ret|].
  destruct (negb (wins new_id (identity f))); [apply mono_ret|].
  apply mono_bind; [apply mono_change_identity|]. intros _.
  apply mono_bind; [apply mono_emit|]. intros _. apply mono_ret.
Qed.

Lemma mono_handle_self_update inc st0 : mono (handle_self_update rnd inc st0).
Proof.
  unfold handle_self_update. destruct st0.
  - apply mono_ret.
  - apply mono_get_bind. intros f. destruct (_ =? u16_max).
    + apply mono_bind; [apply mono_attempt_rejoin|]. intros b. apply mono_when, mono_become_undead.
    + apply mono_bind; [apply mono_when, mono_modify; intros f0; cbn; split; [auto|lia]|]. intros _.
      apply mono_get_bind. intros f1. apply mono_when. qm. apply quiet_gossip.
  - apply mono_bind; [apply mono_attempt_rejoin|]. intros b. apply mono_when, mono_become_undead.
Qed.

Lemma mono_hsum sm u b : mono (@handle_apply_summary Id Addr IO CO HO sm u b).
Proof.
  unfold handle_apply_summary.
  apply mono_bind.
  { apply mono_when. apply mono_bind; [apply mono_when; qm; apply quiet_add_update|]. intros _.
    apply mono_get_bind. intros f. apply mono_when, mono_emit. }
  intros _. apply mono_bind.
  { destruct (s_conflict sm); try apply mono_ret. apply mono_emit. }
  intros _. apply mono_when, mono_emit.
Qed.

(* applying an update whose state is active never lowers the active count *)
Lemma apply_existing_if_active_mono (ms : @members Id) (u : member) cond ms' sm :
  m_active u = true -> apply_existing_if ms u cond = Some (ms', sm) -> num_active ms <= num_active ms'.
Proof.
  intros Au. unfold apply_existing_if.
  destruct (find_index _ (inner ms)) as [p|]; [|discriminate].
  destruct (nth_error (inner ms) p) as [k|]; [|discriminate].
  destruct (negb (id_eqb (m_id k) (m_id u)) && wins (m_id k) (m_id u)); [intros E; inversion E; subst; lia|].
  destruct (negb (cond k)); [intros E; inversion E; subst; lia|].
  destruct (negb (id_eqb (m_id k) (m_id u))).
  - intros E. inversion E; subst.
    assert (A2 : m_active (mkMember (m_id u) (m_inc u) (m_state u)) = true) by exact Au.
    cbn [num_active]. rewrite A2. destruct (m_active k); cbn; lia.
  - unfold change_state. destruct (can_change k (m_inc u) (m_state u)).
    + intros E. inversion E; subst.
      assert (A2 : m_active (mkMember (m_id k) (m_inc u) (m_state u)) = true) by exact Au.
      cbn [num_active]. rewrite A2. destruct (m_active k); cbn; lia.
    + intros E. inversion E; subst. cbn [num_active]. rewrite Bool.eqb_reflx. cbn. lia.
Qed.

Lemma members_apply_active_mono (ms : @members Id) (u : member) n :
  m_active u = true -> num_active ms <= num_active (fst (fst (members_apply rnd ms u n))).
Proof.
  intros Au. unfold members_apply.
  destruct (apply_existing_if ms u (fun _ => true)) as [[ms' sm]|] eqn:E.
  - cbn. eapply apply_existing_if_active_mono; eauto.
  - cbn. rewrite Au. lia.
Qed.

Definition monoP {A} (m : M A) (s : rs) : Prop :=
  (conn (st (fst (m s))) = Connected -> conn (st s) = Connected)
  /\ num_active (mems (st s)) <= num_active (mems (st (fst (m s)))).

Lemma monoP_chain {A} (m m' : M A) s s1 :
  m s = m' s1 -> conn (st s1) = conn (st s) -> num_active (mems (st s)) <= num_active (mems (st s1)) ->
  mono m' -> monoP m s.
Proof.
  intros E C Nn H. unfold monoP. rewrite E. destruct (H s1) as [H1 H2]. rewrite C in H1. split; [exact H1|lia].
Qed.

Lemma mono_apply_update u b : m_active u = true -> mono (apply_update rnd u b).
Proof.
  intros Au s. change (monoP (apply_update rnd u b) s).
  unfold apply_update.
  destruct (id_eqb (identity (st s)) (m_id u)) eqn:E.
  { unfold monoP, bind, get. cbn. rewrite E. cbn. split; [auto|lia]. }
  pose proof (members_apply_active_mono (mems (st s)) u (ctr s) Au) as Hn.
  destruct (members_apply rnd (mems (st s)) u (ctr s)) as [[ms sm] k'] eqn:EX. cbn [fst] in Hn.
  eapply (monoP_chain _ (handle_apply_summary sm u b ;;;
                         ret (match s_conflict sm with Lost | FailedCondition => false | _ => is_active_now sm end))
                      s (mkRs (set_mems (st s) ms) (out s) k')).
  - unfold bind at 1, get at 1. cbv beta iota. rewrite E.
    unfold bind at 1, with_ctr at 1. rewrite EX. reflexivity.
  - reflexivity.
  - exact Hn.
  - apply mono_bind; [apply mono_hsum|]. intros _. apply mono_ret.
Qed.

Lemma mono_existing_active (u : member) cond b (rest : @summary Id -> M unit) :
  m_active u = true -> (forall sm, mono (rest sm)) ->
  mono (f <- get ;;
        match apply_existing_if (mems f) u cond with
        | Some (ms, sm) => modify (fun f => set_mems f ms) ;;; handle_apply_summary sm u b ;;; rest sm
        | None => ret tt
        end).
Proof.
  intros Au Hr s. change (monoP (f <- get ;;
        match apply_existing_if (mems f) u cond with
        | Some (ms, sm) => modify (fun f => set_mems f ms) ;;; handle_apply_summary sm u b ;;; rest sm
        | None => ret tt
        end) s).
  destruct (apply_existing_if (mems (st s)) u cond) as [[ms sm]|] eqn:E.
  - eapply (monoP_chain _ (handle_apply_summary sm u b ;;; rest sm) s (mkRs (set_mems (st s) ms) (out s) (ctr s))).
    + unfold bind at 1, get at 1. cbv beta iota. rewrite E. reflexivity.
    + reflexivity.
    + eapply apply_existing_if_active_mono; eauto.
    + apply mono_bind; [apply mono_hsum|]. intros _. apply Hr.
  - unfold monoP, bind, get. cbn. rewrite E. cbn. split; [auto|lia].
Qed.

Lemma members_next_num_active (ms : @members Id) n : num_active (fst (fst (members_next rnd ms n))) = num_active ms.
Proof.
  unfold members_next. destruct (len (inner ms) <=? cursor ms).
  - destruct (match find_index m_active (skipn (N.to_nat 0) _) with Some p => _ | None => _ end); reflexivity.
  - destruct (match find_index m_active (skipn (N.to_nat (cursor ms)) (inner ms)) with Some p => _ | None => _ end); reflexivity.
Qed.

Lemma mono_probe_random_member : mono (probe_random_member rnd).
Proof.
  unfold probe_random_member. apply mono_get_bind. intros f.
  destruct (negb (conn_eqb (conn f) Connected)); [apply mono_panic|].
  apply mono_bind; [apply mono_when, mono_modify; intros f0; cbn; split; [auto|lia]|]. intros _.
  apply mono_get_bind. intros f1.
  destruct (probe_take_failed (prb f1)) as [p' failed].
  apply mono_bind; [apply mono_modify; intros f0; cbn; split; [auto|lia]|]. intros _.
  apply mono_bind.
  { destruct failed as [fm|]; [|apply mono_ret].
    apply (mono_existing_active (mkMember (m_id fm) (m_inc fm) Suspect) (fun _ => true) true
             (fun sm => f0 <- get ;; when (is_active_now sm)
                          (emit (Submit (TChangeSuspectToDown (m_id fm) (m_inc fm) (token f0)) (suspect_to_down_after (cfg f0))))));
      [reflexivity|].
    intros sm. apply mono_get_bind. intros f2. apply mono_when, mono_emit. }
  intros _. intros s. match goal with |- context [fst (?m s)] => change (monoP m s) end.
  pose proof (members_next_num_active (mems (st s)) (ctr s)) as Hn.
  destruct (members_next rnd (mems (st s)) (ctr s)) as [[ms chosen] k'] eqn:EN. cbn [fst] in Hn.
  eapply (monoP_chain _ _ s (mkRs (set_mems (st s) ms) (out s) k')).
  - unfold bind at 1, get at 1. cbv beta iota. unfold bind at 1, with_ctr at 1. rewrite EN. cbv beta iota.
    unfold bind at 1, modify at 1. cbv beta iota. reflexivity.
  - reflexivity.
  - cbn. lia.
  - apply mono_bind.
    + destruct chosen as [m|]; [|apply mono_ret]. apply mono_get_bind. intros f2.
      destruct (probe_start (prb f2) m) as [p'0 n].
      apply mono_bind; [apply mono_modify; intros f0; cbn; split; [auto|lia]|]. intros _.
      apply mono_bind; [qm; apply quiet_send_message|]. intros _.
      apply mono_get_bind. intros f3. apply mono_emit.
    + intros _. apply mono_get_bind. intros f2. apply mono_bind; [apply mono_emit|]. intros _.
      destruct (negb _); [apply mono_fail|apply mono_ret].
Qed.

(* ---- only Encode errors ---- *)
Lemma oee_bind {A B} (m : M A) (f : A -> M B) : oee m -> (forall a, oee (f a)) -> oee (bind m f).
Proof.
  intros Hm Hf s. specialize (Hm s). unfold bind. destruct (m s) as [s1 [a|e|p]]; auto. apply Hf.
Qed.
Lemma oee_noerr {A} (m : M A) : (forall s, match m s with (_, RErr _) => False | _ => True end) -> oee m.
Proof. intros H s. specialize (H s). destruct (m s) as [s1 [a|e|p]]; auto. contradiction. Qed.
Lemma oee_ret {A} (a : A) : oee (@ret Id Addr HO A a). Proof. intros s. exact I. Qed.
Lemma oee_panic {A} p : oee (@panic Id Addr HO A p). Proof. intros s. exact I. Qed.
Lemma oee_fail_encode {A} : oee (@fail Id Addr HO A EEncode). Proof. intros s. reflexivity. Qed.
Lemma oee_get : oee (@get Id Addr HO). Proof. intros s. exact I. Qed.
Lemma oee_modify g : oee (@modify Id Addr HO g). Proof. intros s. exact I. Qed.
Lemma oee_emit e : oee (@emit Id Addr HO e). Proof. intros s. exact I. Qed.
Lemma oee_ask r : oee (ask rnd r). Proof. intros s. exact I. Qed.
Lemma oee_num_sends : oee (@num_sends Id Addr HO). Proof. intros s. exact I. Qed.
Lemma oee_with_ctr {A} (g : N -> A * N) : oee (with_ctr g).
Proof. intros s. unfold with_ctr. destruct (g (ctr s)). exact I. Qed.
Lemma oee_when b (m : M unit) : oee m -> oee (when b m).
Proof. destruct b; cbn; auto. intros _. apply oee_ret. Qed.
Lemma oee_forM {A} (l : list A) (f : A -> M unit) : (forall x, oee (f x)) -> oee (forM_ l f).
Proof. intros H. induction l as [|x t IH]; cbn [forM_]; [apply oee_ret|]. apply oee_bind; auto. Qed.
Lemma oee_get_bind {B} (body : foca -> M B) : (forall f, oee (body f)) -> oee (f <- get ;; body f).
Proof. intros H. apply oee_bind; [apply oee_get|exact H]. Qed.

Lemma oee_feed_loop l : forall room count acc, oee (@feed_loop Id Addr CO HO l room count acc).
Proof.
  induction l as [|m t IH]; intros room count acc; cbn [feed_loop]; [apply oee_ret|].
  destruct (room <? len (enc_mem m)); [apply oee_ret|].
  destruct (count =? u16_max); [apply oee_panic|apply IH].
Qed.

Lemma oee_send_message dst msg : oee (send_message rnd dst msg).
Proof.
  unfold send_message. apply oee_get_bind. intros f.
  destruct (negb (send_cap f =? max_packet_size (cfg f))); [apply oee_panic|].
  destruct (max_packet_size (cfg f) <? len (enc_hdr _)); [apply oee_fail_encode|].
  apply oee_bind; [apply oee_num_sends|]. intros idx.
  apply oee_bind.
  - unfold send_body. destruct (needs_piggyback msg && _); [|apply oee_ret].
    destruct (piggyback_only_active msg).
    + apply oee_bind.
      { unfold estimate_feed_capacity. destruct (_ =? 0); [apply oee_panic|apply oee_ret]. }
      intros cap. apply oee_bind.
      { unfold choose_active. apply oee_get_bind. intros f1. apply oee_with_ctr. }
      intros chosen. apply oee_bind; [apply oee_feed_loop|]. intros [[c b] l]. apply oee_ret.
    + apply oee_get_bind. intros f0.
      destruct (updates f0); [apply oee_ret|].
      apply oee_bind; [apply oee_ask|]. intros hint.
      destruct (fill_gen Addr 0 hint _ _ _) as [[[w n] kept] p].
      destruct p; [apply oee_panic|].
      apply oee_bind; [apply oee_modify|intros; apply oee_ret].
  - intros [body room3]. apply oee_bind; [|intros; apply oee_emit].
    unfold send_customs. apply oee_get_bind. intros f1.
    destruct (_ && _ && _); [|apply oee_ret].
    destruct (customs f1); [apply oee_ret|].
    apply oee_bind; [apply oee_ask|]. intros hint.
    destruct (fill_gen hkey 2 hint _ _ _) as [[[w n] kept] p].
    destruct p; [apply oee_panic|].
    apply oee_bind; [apply oee_modify|intros; apply oee_ret].
Qed.

Lemma oee_gossip : oee (gossip rnd).
Proof.
  unfold gossip. apply oee_get_bind. intros f. unfold choose_and_send.
  apply oee_bind.
  { unfold choose_active. apply oee_get_bind. intros f1. apply oee_with_ctr. }
  intros chosen. apply oee_forM. intros m. apply oee_send_message.
Qed.

Lemma oee_become_undead : oee (@become_undead Id Addr HO).
Proof. unfold become_undead. apply oee_bind; [apply oee_modify|intros; apply oee_emit]. Qed.

Lemma change_identity_oee_at (s : rs) new_id :
  id_eqb (identity (st s)) new_id = false ->
  match change_identity rnd new_id s with (_, RErr e) => e = EEncode | _ => True end.
Proof.
  intros E. unfold change_identity, bind at 1, get at 1. cbv beta iota. rewrite E.
  assert (H : oee (modify (fun f => set_identity f new_id) ;;; reset ;;;
                   when (negb (conn_eqb (conn (st s)) Undead)) (add_update (mkMember (identity (st s)) 0 Down)) ;;;
                   gossip rnd)).
  { apply oee_bind; [apply oee_modify|]. intros _. apply oee_bind; [apply oee_modify|]. intros _.
    apply oee_bind; [apply oee_when, oee_modify|]. intros _. apply oee_gossip. }
  exact (H s).
Qed.

Lemma oee_attempt_rejoin : oee (attempt_rejoin rnd).
Proof.
  intros s. unfold attempt_rejoin, bind at 1, get at 1. cbv beta iota.
  destruct (renew (identity (st s))) as [new_id|]; [|exact I].
  destruct (id_eqb (identity (st s)) new_id) eqn:E; [exact I|].
  destruct (negb (wins new_id (identity (st s)))); [exact I|].
  pose proof (change_identity_oee_at s new_id E) as H. unfold bind at 1.
  destruct (change_identity rnd new_id s) as [s1 [[]|e|p]]; auto.
Qed.

Lemma oee_handle_self_update inc st0 : oee (handle_self_update rnd inc st0).
Proof.
  unfold handle_self_update. destruct st0.
  - apply oee_ret.
  - apply oee_get_bind. intros f. destruct (_ =? u16_max).
    + apply oee_bind; [apply oee_attempt_rejoin|]. intros b. apply oee_when, oee_become_undead.
    + apply oee_bind; [apply oee_when, oee_modify|]. intros _.
      apply oee_get_bind. intros f1. apply oee_when, oee_gossip.
  - apply oee_bind; [apply oee_attempt_rejoin|]. intros b. apply oee_when, oee_become_undead.
Qed.

Lemma oee_hsum sm u b : oee (@handle_apply_summary Id Addr IO CO HO sm u b).
Proof. apply oee_noerr. intros s. rewrite hsum_eq. exact I. Qed.

Lemma oee_apply_update u b : oee (apply_update rnd u b).
Proof.
  unfold apply_update. apply oee_get_bind. intros f.
  destruct (id_eqb (identity f) (m_id u)); [apply oee_panic|].
  apply oee_bind; [apply oee_with_ctr|]. intros [ms sm].
  apply oee_bind; [apply oee_modify|]. intros _.
  apply oee_bind; [apply oee_hsum|]. intros _. apply oee_ret.
Qed.

Lemma oee_apply_one b u : oee (apply_one rnd b u).
Proof.
  unfold apply_one. apply oee_get_bind. intros f.
  destruct (id_eqb (m_id u) (identity f)); [apply oee_handle_self_update|].
  destruct (addr_eqb _ _); (apply oee_bind; [apply oee_apply_update|intros; apply oee_ret]).
Qed.

(* ---- adjust_connection_state establishes the boundary condition ---- *)
Lemma est_adjust : est (@adjust_connection_state Id Addr HO).
Proof.
  intros s _. unfold adjust_connection_state, bind at 1, get at 1. cbv beta iota.
  destruct (conn (st s)) eqn:Cn.
  - destruct (0 <? num_active (mems (st s))) eqn:Z; cbn [when].
    + unfold become_connected, bind at 1, get at 1. cbv beta iota.
      destruct (num_active (mems (st s)) =? 0) eqn:Z0; [exact I|].
      unfold bind, modify, emit, submit_periodic, ret.
      destruct (periodic_announce (cfg (st s))) as [[? ?]|], (periodic_announce_down (cfg (st s))) as [[? ?]|],
               (periodic_gossip (cfg (st s))) as [[? ?]|]; unfold emit; cbn [ccpost fst st out ctr]; unfold CCs, CC;
        cbn [st conn mems set_conn]; intros _; lia.
    + cbn. unfold CCs, CC. rewrite Cn. discriminate.
  - destruct (num_active (mems (st s)) =? 0) eqn:Z; cbn [when].
    + unfold become_disconnected, bind at 1, get at 1. cbv beta iota. rewrite Z. cbn [negb].
      unfold bind, modify, emit. cbn. unfold CCs, CC. cbn. discriminate.
    + cbn. unfold CCs, CC. intros _. lia.
  - cbn. unfold CCs, CC. rewrite Cn. discriminate.
Qed.

Lemma est_apply_many l b : est (apply_many rnd l b).
Proof.
  unfold apply_many. apply est_bind.
  - apply mir_forM. intros x. apply mir_apply_one.
  - apply oee_forM. intros x. apply oee_apply_one.
  - intros _. apply est_adjust.
Qed.

(* ---- handlers preserve the boundary condition ---- *)
Definition presP {A} (m : M A) (s : rs) : Prop := MUs s -> CCs s -> ccpost (m s).

Lemma presP_get {B} (body : foca -> M B) s : presP (body (st s)) s -> presP (f <- get ;; body f) s.
Proof. unfold presP, bind, get. cbn. auto. Qed.
Lemma pres_get_bind {B} (body : foca -> M B) : (forall f, pres (body f)) -> pres (f <- get ;; body f).
Proof. intros H s. exact (presP_get body s (H (st s) s)). Qed.
Lemma quiet_pres {A} (m : M A) : quiet m -> pres m.
Proof. intros Q. apply mono_pres, quiet_mono, Q. Qed.

Lemma pres_at {A} (m : M A) s : pres m -> presP m s.
Proof. intros H. exact (H s). Qed.

Lemma mono_react src msg : mono (react rnd src msg).
Proof.
  unfold react. apply mono_get_bind. intros f.
  destruct msg; try (qm; apply quiet_send_message); try apply mono_ret;
    try (apply mono_modify; intros f0; cbn; split; [auto|lia]);
    try (destruct (id_eqb _ _); [apply mono_fail|];
         first [qm; apply quiet_send_message|apply mono_modify; intros f0; cbn; split; [auto|lia]]).
  apply mono_handle_self_update.
Qed.

Lemma pres_handle_data data : pres (handle_data rnd data).
Proof.
  unfold handle_data. apply pres_get_bind. intros f.
  destruct (_ <? len data); [apply mono_pres, mono_fail|].
  destruct (dec_hdr data) as [[h rest]|]; [|apply mono_pres, mono_fail].
  destruct (_ || _); [apply mono_pres, mono_fail|].
  destruct (_ || _); [apply mono_pres, mono_fail|].
  destruct (negb (accept_payload _ _)); [apply mono_pres, mono_ret|].
  match goal with |- pres (bind ?m _) => assert (QU : quiet m) end.
  { destruct (_ && _); [|apply quiet_ret].
    destruct (get_u16 rest) as [[n r]|]; [|apply quiet_fail].
    destruct (dec_members _ _); [apply quiet_ret|apply quiet_fail]. }
  apply pres_bind; [apply quiet_mir, QU|apply quiet_pres, QU|]. intros [ul tail].
  apply pres_bind; [apply mir_apply_update|apply mono_pres, mono_apply_update; reflexivity|]. intros sia.
  destruct (negb sia).
  - apply pres_get_bind. intros f0.
    apply pres_bind; [apply mir_when, mir_handle_self_update|apply mono_pres, mono_when, mono_handle_self_update|]. intros _.
    apply pres_get_bind. intros f1. apply mono_pres, mono_when. qm. apply quiet_send_message.
  - apply pres_bind; [apply mir_apply_many|apply est_pres, est_apply_many|]. intros _.
    apply pres_bind; [apply mir_attempt, quiet_mir, quiet_handle_custom_broadcasts
                     |apply mono_pres, mono_attempt; qm; apply quiet_handle_custom_broadcasts|]. intros cres.
    apply pres_get_bind. intros f1.
    destruct (negb (conn_eqb _ _)).
    + destruct cres; [apply mono_pres, mono_fail|apply mono_pres, mono_ret].
    + apply pres_bind; [apply mir_react|apply mono_pres, mono_react|]. intros _.
      destruct cres; [apply mono_pres, mono_fail|apply mono_pres, mono_ret].
Qed.

Lemma presP_existing_down (u : member) cond b (c : bool) dst (s : rs) ms sm :
  apply_existing_if (mems (st s)) u cond = Some (ms, sm) ->
  presP (modify (fun f => set_mems f ms) ;;; handle_apply_summary sm u b ;;;
         adjust_connection_state ;;; when c (send_message rnd dst TurnUndead)) s.
Proof.
  intros E U _.
  pose proof (apply_existing_if_mirror (mems (st s)) u cond ms sm (conn (st s)) (identity (st s)) U E) as HM.
  assert (EQ : (modify (fun f => set_mems f ms) ;;; handle_apply_summary sm u b ;;;
                adjust_connection_state ;;; when c (send_message rnd dst TurnUndead)) s
               = ((modify (fun f => set_mems f ms) ;;; handle_apply_summary sm u b) ;;;
                  (adjust_connection_state ;;; when c (send_message rnd dst TurnUndead))) s)
    by (symmetry; apply bind_assoc).
  rewrite EQ. clear EQ.
  destruct (mirP_store ms sm u b s HM U) as [U1 _].
  assert (OK : exists s1, (modify (fun f => set_mems f ms) ;;; handle_apply_summary sm u b) s = (s1, ROk tt)).
  { unfold bind at 1, modify at 1. rewrite hsum_eq. eexists. reflexivity. }
  destruct OK as (s1 & E1). unfold bind at 1. rewrite E1 in *. cbn [fst] in U1.
  assert (H : est (adjust_connection_state ;;; when c (send_message rnd dst TurnUndead))).
  { apply est_then; [apply mir_adjust|apply est_adjust|]. intros _.
    apply mono_pres, mono_when. qm. apply quiet_send_message. }
  apply H. exact U1.
Qed.

Lemma pres_handle_timer t : pres (handle_timer rnd t).
Proof.
  unfold handle_timer. intros s.
  match goal with |- MUs s -> CCs s -> ccpost (?m s) => change (presP m s) end. refine (presP_get _ s _).
  destruct t as [tok|probed tok|mid inc tok|tok|tok|tok|down].
  - destruct (tok =? token (st s)); [|apply pres_at, mono_pres, mono_ret].
    destruct (negb (conn_eqb _ _)); [apply pres_at, mono_pres, mono_fail|apply pres_at, mono_pres, mono_probe_random_member].
  - apply pres_at, mono_pres. destruct (negb (tok =? token (st s))); [apply mono_ret|].
    apply mono_bind; [apply mono_modify; intros f0; cbn; split; [auto|lia]|]. intros _.
    destruct (negb (probe_is_probing _ _)); [apply mono_ret|].
    destruct (probe_succeeded _); [apply mono_ret|].
    destruct (negb (is_active_id _ _)); [apply mono_ret|].
    apply mono_bind; [qm; apply quiet_choose_active|]. intros chosen. qm. apply quiet_indirect_loop.
  - destruct (negb (token (st s) =? tok)); [apply pres_at, mono_pres, mono_ret|].
    destruct (apply_existing_if _ _ _) as [[ms sm]|] eqn:E; [|apply pres_at, mono_pres, mono_ret].
    eapply presP_existing_down. exact E.
  - apply pres_at, mono_pres. destruct (periodic_guard _ _); [|apply mono_ret].
    destruct (periodic_announce _) as [[freq n]|]; [|apply mono_ret].
    apply mono_bind; [apply mono_emit|]. intros _. qm. apply quiet_choose_and_send.
  - apply pres_at, mono_pres. destruct (periodic_guard _ _); [|apply mono_ret].
    destruct (periodic_announce_down _) as [[freq n]|]; [|apply mono_ret].
    apply mono_bind; [apply mono_emit|]. intros _. qm. apply quiet_announce_to_down.
  - apply pres_at, mono_pres. destruct (periodic_guard _ _); [|apply mono_ret].
    destruct (periodic_gossip _) as [[freq n]|]; [|apply mono_ret].
    apply mono_bind; [apply mono_emit|]. intros _.
    destruct (updates (st s)), (customs (st s)); try apply mono_ret; qm; apply quiet_choose_and_send.
  - apply pres_at, mono_pres. apply mono_modify. intros f0. cbn. split; [auto|].
    unfold remove_if_down. destruct (find_index _ _); cbn; lia.
Qed.

Lemma run_unit_cc (m : M unit) (f : foca) :
  pres m -> MU (mems f) -> CC f ->
  let '(f', _, r, _) := run_unit m f in
  match r with Panicked _ => True | Failed e => e = EEncode \/ CC f' | _ => CC f' end.
Proof.
  intros H U C. unfold run_unit. specialize (H (mkRs f [] 0) U C).
  destruct (m (mkRs f [] 0)) as [s' [a|e|p]]; cbn in *; auto.
Qed.

(* every call that neither panics (C06) nor aborts with an Encode error ends with
   Connected -> at least one active member *)
Theorem step_cc (f : foca) (i : @input Id) :
  MU (mems f) -> CC f ->
  let '(f', _, r, _) := step rnd f i in
  match r with Panicked _ => True | Failed e => e = EEncode \/ CC f' | _ => CC f' end.
Proof.
  intros U C. destruct i; cbn [step].
  - apply run_unit_cc; auto. apply pres_handle_data.
  - apply run_unit_cc; auto. apply pres_handle_timer.
  - apply run_unit_cc; auto. apply est_pres, est_apply_many.
  - apply run_unit_cc; auto. apply quiet_pres, quiet_send_message.
  - apply run_unit_cc; auto. apply quiet_pres, quiet_gossip.
  - apply run_unit_cc; auto. apply quiet_pres, quiet_broadcast.
  - apply run_unit_cc; auto. apply mono_pres. unfold leave_cluster. apply mono_get_bind. intros f0.
    apply mono_bind; [qm; apply quiet_add_update|]. intros _.
    apply mono_bind; [qm; apply quiet_gossip|]. intros _. apply mono_become_undead.
  - apply run_unit_cc; auto. apply mono_pres, mono_change_identity.
  - apply run_unit_cc; auto. apply mono_pres. unfold reuse_down_identity. apply mono_get_bind. intros f0.
    destruct (negb _); [apply mono_fail|apply mono_reset].
  - apply run_unit_cc; auto. apply quiet_pres, quiet_set_config.
  - unfold run_bool. pose proof (quiet_pres _ (quiet_add_broadcast b) (mkRs f [] 0) U C) as H.
    destruct (add_broadcast b (mkRs f [] 0)) as [s' [a|e|p]]; cbn in *; auto.
Qed.


(* histories in which no call panicked (C06: none does on legal input) or aborted with Encode *)
Definition clean_result (r : result) : Prop :=
  match r with Panicked _ => False | Failed EEncode => False | _ => True end.

Inductive ghist (id0 : Id) (c0 : config) (h0 : hstate) : foca -> Prop :=
| G_init : ghist id0 c0 h0 (foca_init id0 c0 h0)
| G_step f i rnd' :
    ghist id0 c0 h0 f -> clean_result (snd (fst (step rnd' f i))) ->
    ghist id0 c0 h0 (fst (fst (fst (step rnd' f i)))).

End CC.

Section CCHist.
Context {Id Addr : Type} {IO : IdOps Id Addr} {CO : CodecOps Id} {HO : HandlerOps Id} {IL : IdLaws IO}.

Theorem ghist_cc id0 c0 h0 (f : @foca Id Addr HO) :
  ghist id0 c0 h0 f -> MU (mems f) /\ CC f.
Proof.
  induction 1 as [|f i rnd' _ [U C] Cl].
  - split; [split; [constructor|reflexivity]|]. intros Cn. cbn in Cn. discriminate.
  - pose proof (step_mirror rnd' f i U) as HM. pose proof (step_cc rnd' f i U C) as HC.
    destruct (step rnd' f i) as [[[f' es] r] k]. cbn [fst snd] in *. destruct HM as [U' _].
    split; [exact U'|]. destruct r as [| |e|p]; auto.
    + destruct HC as [->|HC]; [contradiction|exact HC].
    + contradiction.
Qed.
End CCHist.
