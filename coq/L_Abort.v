(* L_Abort.v — C12: "unless the round was aborted by going idle or changing identity".
   Q f: an instance that is not Connected has no open round without evidence.  Q holds initially and is
   kept by EVERY call other than a live ProbeRandomMember timer; a live ProbeRandomMember timer that is
   not aborted by an Encode error or a panic ends Connected.  An identity change leaves no open round
   whatever the state before.  With L_Evidence (ev is kept by every other call; a round that starts
   from ev raises no suspicion) the first round after reconnecting raises no suspicion. *)
From Coq Require Import Permutation.
From Foca Require Import Laws L_Lists MembersM ProbeM BcastM FocaM Hoare Inv L_Mech L_Mirror L_ConnCons L_Acct L_Footprint L_RoundEnd L_RoundSuspect L_Evidence L_CfgFrame L_Deadline.

Section Abort.
Context {Id Addr : Type} {IO : IdOps Id Addr} {CO : CodecOps Id} {HO : HandlerOps Id} {IL : IdLaws IO}.
Variable rnd : oracle.
Notation member := (member Id).
Notation foca := (@foca Id Addr HO).
Notation rs := (@rs Id Addr HO).
Notation M := (@M Id Addr HO).
Notation effect := (effect Id).
Notation "x <- m ;; f" := (bind m (fun x => f)) (at level 61, m at next level, right associativity).
Notation "m ;;; f" := (bind m (fun _ => f)) (at level 61, right associativity).

Definition Qab (f : foca) : Prop := conn f <> Connected -> ev (prb f).

Definition abP {X} (m : M X) (s : rs) : Prop := Qab (st s) -> Qab (st (fst (m s))).
Definition abk {X} (m : M X) : Prop := forall s, abP m s.

Lemma abP_bind {X Y} (m : M X) (k : X -> M Y) (s : rs) : abP m s -> (forall a, abk (k a)) -> abP (bind m k) s.
Proof.
  intros Hm Hk H. unfold bind. specialize (Hm H). destruct (m s) as [s1 [a|e|p]]; cbn [fst] in *; auto.
  apply Hk. exact Hm.
Qed.
Lemma abk_bind {X Y} (m : M X) (k : X -> M Y) : abk m -> (forall a, abk (k a)) -> abk (bind m k).
Proof. intros Hm Hk s. apply abP_bind; auto. Qed.
Lemma abk_same {X} (m : M X) : (forall s, prb (st (fst (m s))) = prb (st s) /\ conn (st (fst (m s))) = conn (st s)) -> abk m.
Proof. intros E s H NC. destruct (E s) as [E1 E2]. rewrite E1. apply H. rewrite <- E2. exact NC. Qed.
Lemma abk_ret {X} (x : X) : abk (@ret Id Addr HO X x). Proof. apply abk_same. intros ?; split; reflexivity. Qed.
Lemma abk_fail {X} e : abk (@fail Id Addr HO X e). Proof. apply abk_same. intros ?; split; reflexivity. Qed.
Lemma abk_panic {X} p : abk (@panic Id Addr HO X p). Proof. apply abk_same. intros ?; split; reflexivity. Qed.
Lemma abk_get : abk (@get Id Addr HO). Proof. apply abk_same. intros ?; split; reflexivity. Qed.
Lemma abk_num_sends : abk (@num_sends Id Addr HO). Proof. apply abk_same. intros ?; split; reflexivity. Qed.
Lemma abk_emit e : abk (@emit Id Addr HO e). Proof. apply abk_same. intros ?; split; reflexivity. Qed.
Lemma abk_ask r : abk (ask rnd r). Proof. apply abk_same. intros ?; split; reflexivity. Qed.
Lemma abk_with_ctr {X} (g : N -> X * N) : abk (with_ctr g).
Proof. apply abk_same. intros s. unfold with_ctr. destruct (g (ctr s)). split; reflexivity. Qed.
Lemma abP_modify g (s : rs) : (Qab (st s) -> Qab (g (st s))) -> abP (@modify Id Addr HO g) s.
Proof. intros G H. exact (G H). Qed.
Lemma abk_modify g : (forall f, Qab f -> Qab (g f)) -> abk (@modify Id Addr HO g).
Proof. intros G s. apply abP_modify. apply G. Qed.
Lemma abk_when b (m : M unit) : abk m -> abk (when b m).
Proof. intros H. destruct b; [exact H|apply abk_ret]. Qed.
Lemma abk_forM {X} (l : list X) (k : X -> M unit) : (forall x, abk (k x)) -> abk (forM_ l k).
Proof. intros H. induction l as [|x t IH]; cbn [forM_]; [apply abk_ret|]. apply abk_bind; [apply H|intros _; exact IH]. Qed.
Lemma abk_attempt (m : M unit) : abk m -> abk (attempt m).
Proof. intros H s Q0. unfold attempt. specialize (H s Q0). destruct (m s) as [s1 [a|e|p]]; exact H. Qed.
Lemma abk_get_bind {X} (k : foca -> M X) : (forall s, abP (k (st s)) s) -> abk (f <- get ;; k f).
Proof. intros H s. unfold bind, get. cbv beta iota. apply H. Qed.

(* the three ways of leaving the connected state, and the way into it *)
Lemma Qab_clear (f g : foca) : ev (prb g) -> Qab g. Proof. intros E _. exact E. Qed.
Lemma Qab_connected (g : foca) : conn g = Connected -> Qab g. Proof. intros C NC. exfalso. exact (NC C). Qed.
Lemma Qab_keep (f g : foca) : conn g = conn f -> (ev (prb f) -> ev (prb g)) -> Qab f -> Qab g.
Proof. intros C E H NC. apply E, H. rewrite <- C. exact NC. Qed.

Ltac ab_mod :=
  apply abk_modify; intros f0 Q0;
  first [ apply Qab_clear; [exact f0|apply ev_clear]
        | apply Qab_connected; reflexivity
        | apply (Qab_keep f0); [reflexivity|intros E0; first [exact E0|apply ev_mark; exact E0|apply ev_receive_ack; exact E0|apply ev_receive_indirect_ack; exact E0]|exact Q0] ].

Ltac ab_step :=
  first
    [ apply abk_ret | apply abk_fail | apply abk_panic | apply abk_get | apply abk_num_sends
    | apply abk_emit | apply abk_ask | apply abk_with_ctr
    | apply abk_same; intros ?; split; reflexivity
    | ab_mod
    | apply abk_when | apply abk_attempt
    | apply abk_forM; intros ?; cbv beta
    | apply abk_bind; [|intros ?]
    | progress cbv zeta
    | progress unfold send_message, send_body, send_customs, estimate_feed_capacity, choose_active, choose_and_send,
        gossip, announce_to_down, add_update, add_custom, handle_apply_summary, apply_update, submit_periodic,
        become_connected, become_disconnected, become_undead, adjust_connection_state, reset,
        handle_custom_broadcasts, change_identity, attempt_rejoin, handle_self_update,
        apply_one, apply_many, leave_cluster, broadcast, react, reuse_down_identity, add_broadcast, periodic_guard
    | match goal with
      | |- abk (match ?x with _ => _ end) => destruct x
      | |- abk (if ?c then _ else _) => destruct c
      | |- abk (let '(_, _) := ?x in _) => destruct x
      end ].
Ltac ab_auto := repeat ab_step.

Lemma abk_feed_loop l : forall room count acc0, abk (@feed_loop Id Addr CO HO l room count acc0).
Proof. induction l as [|m t IH]; intros room count acc0; cbn [feed_loop]; ab_auto. apply IH. Qed.
Lemma abk_custom_loop sender fuel : forall data, abk (@custom_loop Id Addr HO fuel data sender).
Proof. induction fuel as [|fuel IH]; intros data; cbn [custom_loop]; ab_auto. apply IH. Qed.
Lemma abk_broadcast_loop l : abk (broadcast_loop rnd l).
Proof. induction l as [|m t IH]; cbn [broadcast_loop]; ab_auto; first [apply abk_feed_loop|apply IH]. Qed.
Lemma abk_send_message dst msg : abk (send_message rnd dst msg).
Proof. ab_auto; apply abk_feed_loop. Qed.

Lemma abk_indirect_loop probed l : abk (indirect_loop rnd probed l).
Proof.
  unfold indirect_loop. apply abk_forM. intros m. apply abk_get_bind. intros s.
  destruct (probe_expect_indirect_ack (prb (st s)) (m_id m)) as [p'|] eqn:E; [|apply abk_panic].
  assert (V : ev (prb (st s)) -> ev p').
  { unfold probe_expect_indirect_ack in E. destruct (p_direct (prb (st s))) as [d|] eqn:D; [|discriminate].
    destruct (id_eqb (m_id d) (m_id m)); [discriminate|]. inversion E; subst p'.
    intros [H|H]; [left; exact H|rewrite D in H; discriminate]. }
  apply abP_bind; [apply abP_modify; apply (Qab_keep (st s)); [reflexivity|exact V]|]. intros _. apply abk_send_message.
Qed.

Lemma abk_handle_data data : abk (handle_data rnd data).
Proof. unfold handle_data. ab_auto; first [apply abk_feed_loop|apply abk_custom_loop]. Qed.

Lemma abk_handle_timer_nonprm t : (forall k, t <> TProbeRandomMember k) -> abk (handle_timer rnd t).
Proof.
  intros NP. unfold handle_timer. apply abk_bind; [apply abk_get|]. intros f.
  destruct t as [tok|probed tok|mid inc tok|tok|tok|tok|down].
  - exfalso. exact (NP tok eq_refl).
  - destruct (negb (tok =? token f)); [apply abk_ret|].
    apply abk_bind; [ab_mod|]. intros _.
    destruct (negb (probe_is_probing _ _)); [apply abk_ret|].
    destruct (probe_succeeded _); [apply abk_ret|].
    destruct (negb (is_active_id _ _)); [apply abk_ret|].
    apply abk_bind; [ab_auto|intros chosen; apply abk_indirect_loop].
  - ab_auto; apply abk_feed_loop.
  - ab_auto; apply abk_feed_loop.
  - ab_auto; apply abk_feed_loop.
  - ab_auto; apply abk_feed_loop.
  - ab_auto.
Qed.

(* every call other than the live ProbeRandomMember timer keeps Q *)
Theorem step_keeps_no_round_when_idle (f : foca) (i : @input Id) :
  not_live_probe f i -> Qab f -> Qab (fst (fst (fst (step rnd f i)))).
Proof.
  intros NL H.
  assert (RU : forall (m : M unit), abk m -> Qab (fst (fst (fst (run_unit m f))))).
  { intros m Hm. specialize (Hm (mkRs f [] 0) H). unfold run_unit. destruct (m (mkRs f [] 0)) as [s' r]. exact Hm. }
  destruct i; cbn [step].
  - apply RU, abk_handle_data.
  - destruct t as [tok|probed tok|mid inc tok|tok|tok|tok|down]; try (apply RU, abk_handle_timer_nonprm; intros k; discriminate).
    unfold run_unit, handle_timer, bind, get. cbv beta iota. cbn [st].
    destruct (tok =? token f) eqn:T; [|exact H].
    destruct (conn_eqb (conn f) Connected) eqn:CE; cbn [negb]; [|exact H].
    exfalso. apply NL. split; [apply N.eqb_eq; exact T|destruct (conn f); try discriminate; reflexivity].
  - apply RU. ab_auto; apply abk_feed_loop.
  - apply RU, abk_send_message.
  - apply RU. ab_auto; apply abk_feed_loop.
  - apply RU. ab_auto; first [apply abk_broadcast_loop|apply abk_feed_loop].
  - apply RU. ab_auto; apply abk_feed_loop.
  - apply RU. ab_auto; apply abk_feed_loop.
  - apply RU. ab_auto.
  - apply RU. unfold set_config. ab_auto.
  - assert (G : abk (@add_broadcast Id Addr HO b)) by ab_auto.
    specialize (G (mkRs f [] 0) H). unfold run_bool. destruct (add_broadcast b (mkRs f [] 0)) as [s' r]. exact G.
Qed.

(* the live ProbeRandomMember timer: unless aborted by an Encode error or a panic it ends Connected *)
Theorem live_round_keeps_no_round_when_idle (f : foca) :
  conn f = Connected ->
  let '(f', _, r, _) := step rnd f (ITimer (TProbeRandomMember (token f))) in
  match r with Failed EEncode => True | Panicked _ => True | _ => Qab f' end.
Proof.
  intros Cn. pose proof (step_probe_live rnd f Cn) as H.
  destruct (step rnd f (ITimer (TProbeRandomMember (token f)))) as [[[f' es] r] k].
  destruct r as [|b|e|p]; auto.
  - apply Qab_connected. apply H.
  - apply Qab_connected. apply H.
  - destruct e; auto; apply Qab_connected; apply H.
Qed.

Lemma live_dec (f : foca) (i : @input Id) :
  (i = ITimer (TProbeRandomMember (token f)) /\ conn f = Connected) \/ not_live_probe f i.
Proof.
  destruct i; try (right; exact I). destruct t as [tok|probed tok|mid inc tok|tok|tok|tok|down]; try (right; exact I).
  destruct (N.eq_dec tok (token f)) as [E|NE]; [|right; unfold not_live_probe; intros [E _]; exact (NE E)].
  destruct (conn f) eqn:C; try (right; unfold not_live_probe; rewrite C; intros [_ X]; discriminate). left. subst tok. split; reflexivity.
Qed.

(* along every call *)
Definition aborted (r : result) : bool :=
  match r with Failed EEncode => true | Panicked _ => true | _ => false end.

Theorem step_no_round_when_idle (f : foca) (i : @input Id) :
  Qab f ->
  let '(f', _, r, _) := step rnd f i in
  aborted r = false -> Qab f'.
Proof.
  intros H.
  destruct (live_dec f i) as [L|NL].
  - destruct L as (-> & Cn). pose proof (live_round_keeps_no_round_when_idle f Cn) as P.
    destruct (step rnd f (ITimer (TProbeRandomMember (token f)))) as [[[f' es] r] k].
    intros A. destruct r as [|b|e|p]; cbn in A; try discriminate; auto. destruct e; try discriminate; exact P.
  - pose proof (step_keeps_no_round_when_idle f i NL H) as P.
    destruct (step rnd f i) as [[[f' es] r] k]. intros _. exact P.
Qed.

(* histories: no call aborted by an Encode error or a panic *)
Fixpoint no_abort (f : foca) (l : list (@input Id)) : Prop :=
  match l with
  | [] => True
  | i :: t => aborted (snd (fst (step rnd f i))) = false /\ no_abort (fst (fst (fst (step rnd f i)))) t
  end.

Theorem history_no_round_when_idle (l : list (@input Id)) : forall f,
  Qab f -> no_abort f l -> Qab (run_calls rnd f l).
Proof.
  induction l as [|i t IH]; intros f H NA; [exact H|]. cbn [run_calls]. destruct NA as [A1 A2].
  apply IH; [|exact A2]. pose proof (step_no_round_when_idle f i H) as P.
  destruct (step rnd f i) as [[[f' es] r] k]. cbn [fst snd] in *. exact (P A1).
Qed.

Theorem fresh_no_round (id0 : Id) (c0 : config) (h0 : hstate) : Qab (@foca_init Id Addr HO id0 c0 h0).
Proof. intros _. right. reflexivity. Qed.

Ltac ev_step :=
  first
    [ apply evk_send_message | apply evk_ret | apply evk_fail | apply evk_panic | apply evk_get | apply evk_num_sends
    | apply evk_emit | apply evk_ask | apply evk_with_ctr
    | apply evk_same; intros ?; reflexivity
    | apply evk_when | apply evk_attempt
    | apply evk_forM; intros ?; cbv beta
    | apply evk_bind; [|intros ?]
    | progress cbv zeta
    | progress unfold choose_active, choose_and_send, gossip, add_update
    | apply evk_send_message
    | match goal with
      | |- evk (match ?x with _ => _ end) => destruct x
      | |- evk (if ?c then _ else _) => destruct c
      | |- evk (let '(_, _) := ?x in _) => destruct x
      end ].

(* an identity change leaves no open round, whatever the state before *)
Theorem identity_change_abandons_round (f : foca) (new : Id) :
  let '(f', _, r, _) := step rnd f (IChangeIdentity new) in
  r <> Failed ESameIdentity -> ev (prb f') /\ conn f' <> Connected.
Proof.
  cbn [step]. unfold run_unit.
  assert (G : forall s : rs, id_eqb (identity (st s)) new = false ->
             match change_identity rnd new s with (s', _) => ev (prb (st s')) /\ conn (st s') <> Connected end).
  { intros s NE. unfold change_identity, bind at 1, get at 1. cbv beta iota. rewrite NE.
    unfold bind at 1, modify at 1. cbv beta iota. unfold bind at 1, reset at 1, modify at 1. cbv beta iota.
    match goal with |- match ?m ?s1 with _ => _ end => set (s2 := s1); set (rest := m) end.
    assert (E2 : ev (prb (st s2))) by (right; reflexivity).
    assert (C2 : conn (st s2) = Disconnected) by reflexivity.
    assert (K1 : evk rest). { unfold rest; repeat ev_step. }
    assert (K2 : still rest).
    { unfold rest. apply still_bind; [apply still_when, still_add_update|intros _; apply still_gossip]. }
    destruct (K2 s2) as (K2c & _). specialize (K1 s2 E2). unfold evP in K1.
    destruct (rest s2) as [s' r]. cbn [fst] in *. split; [exact K1|]. rewrite K2c, C2. discriminate. }
  destruct (id_eqb (identity f) new) eqn:NE.
  - unfold change_identity, bind, get. cbv beta iota. cbn [st]. rewrite NE. cbn. intros X. exfalso. apply X. reflexivity.
  - specialize (G (mkRs f [] 0) NE). destruct (change_identity rnd new (mkRs f [] 0)) as [s' r]. intros _. exact G.
Qed.

End Abort.
