(* Props_C17.v — C17: deterministic, and rejected input leaves no trace. *)
From Foca Require Import Laws FocaM L_Reject.

Section C17.
Context {Id Addr : Type} {IO : IdOps Id Addr} {CO : CodecOps Id} {HO : HandlerOps Id}.

(* every class of rejected input (datagram too big / undecodable header / own identity or
   address as source / bad framing right after the header / not addressed to us /
   undecodable member list; stale-epoch timer; NotUndead; SameIdentity; InvalidConfig;
   empty or oversize add_broadcast): the whole state is unchanged, nothing is emitted, the
   documented result is returned and the oracle (RNG) is not consulted *)
Theorem C17_reject_noop (rnd : oracle) (f : @foca Id Addr HO) (i : @input Id) (r : result) :
  rejected f i r -> step rnd f i = (f, [], r, 0).
Proof. exact (reject_noop rnd f i r). Qed.

(* inserting any number of rejected inputs at any point of any history: the sends, timers,
   notifications and results of the rest of the history, and the final state, are those of
   the history without them *)
Theorem C17_insertion_invisible (f0 : @foca Id Addr HO) (h1 h2 : list (oracle * @input Id))
        (X : list (oracle * @input Id * result)) :
  Forall (fun x => rejected (fst (run f0 h1)) (snd (fst x)) (snd x)) X ->
  let '(fa, oa) := run f0 (h1 ++ map fst X ++ h2) in
  let '(fb, ob) := run f0 (h1 ++ h2) in
  let '(_, o1) := run f0 h1 in
  let '(_, o2) := run (fst (run f0 h1)) h2 in
  fa = fb /\ oa = o1 ++ map (fun x => ([], snd x)) X ++ o2 /\ ob = o1 ++ o2.
Proof. exact (insertion_invisible f0 h1 h2 X). Qed.

(* the model is a function of (state, input, random choices): determinism of the
   implementation as a function of history and seed is what the refinement check compares *)
Theorem C17_model_deterministic (f0 : @foca Id Addr HO) (h h' : list (oracle * @input Id)) :
  h = h' -> run f0 h = run f0 h'.
Proof. exact (fun E => f_equal (run f0) E). Qed.

End C17.

Print Assumptions C17_reject_noop.
Print Assumptions C17_insertion_invisible.
Print Assumptions C17_model_deterministic.
