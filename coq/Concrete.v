(* Concrete.v — the executable instance: identity, byte codec, table-driven handler.
   Mirrored byte for byte by /verif/harness (VId, VCodec, VHandler). No proofs. *)
From Foca Require Export FocaM.

Record cid := mkCid { ca : N; cg : N; ck : N; cpad : N }.

Definition cid_eqb (x y : cid) : bool :=
  (ca x =? ca y) && (cg x =? cg y) && (ck x =? ck y) && (cpad x =? cpad y).

(* strict lexicographic order on (gen, kind, pad): x wins against y *)
Definition cid_wins (x y : cid) : bool :=
  (cg y <? cg x)
  || ((cg y =? cg x) && ((ck y <? ck x) || ((ck y =? ck x) && (cpad y <? cpad x)))).

(* renew kinds: 0 none, 1 bump generation, 2 same identity, 3 losing identity *)
Definition cid_renew (x : cid) : option cid :=
  match ck x with
  | 0 => None
  | 1 => if cg x <? 65535 then Some (mkCid (ca x) (cg x + 1) (ck x) (cpad x)) else None
  | 2 => Some x
  | _ => Some (mkCid (ca x) (cg x - 1) (ck x) (cpad x))
  end.

Global Instance cid_ops : IdOps cid N :=
  {| id_eqb := cid_eqb; addr_of := ca; addr_eqb := N.eqb; wins := cid_wins; renew := cid_renew |}.

(* ---- codec ---- *)
Definition enc_id (i : cid) : bytes :=
  u16_be (ca i) ++ u16_be (cg i) ++ [ck i; cpad i] ++ repeat 238 (N.to_nat (cpad i)).

Fixpoint all_238 (l : bytes) : bool :=
  match l with [] => true | x :: t => (x =? 238) && all_238 t end.

Definition dec_id (b : bytes) : option (cid * bytes) :=
  match b with
  | a1 :: a0 :: g1 :: g0 :: k :: p :: r =>
      if (k <? 4) && (p <=? len r) && all_238 (firstn (N.to_nat p) r)
      then Some (mkCid (a1 * 256 + a0) (g1 * 256 + g0) k p, skipn (N.to_nat p) r)
      else None
  | _ => None
  end.

Definition enc_state (s : mstate) : N := match s with Alive => 0 | Suspect => 1 | Down => 2 end.
Definition dec_state (n : N) : option mstate :=
  match n with 0 => Some Alive | 1 => Some Suspect | 2 => Some Down | _ => None end.

Definition c_enc_mem (m : member cid) : bytes :=
  enc_id (m_id m) ++ u16_be (m_inc m) ++ [enc_state (m_state m)].

Definition c_dec_mem (b : bytes) : option (member cid * bytes) :=
  match dec_id b with
  | Some (i, i1 :: i0 :: s :: r) =>
      match dec_state s with
      | Some st => Some (mkMember i (i1 * 256 + i0) st, r)
      | None => None
      end
  | _ => None
  end.

Definition enc_msg (m : message cid) : bytes :=
  match m with
  | Ping n => [0; n]
  | Ack n => [1; n]
  | PingReq i n => 2 :: enc_id i ++ [n]
  | IndirectPing i n => 3 :: enc_id i ++ [n]
  | IndirectAck i n => 4 :: enc_id i ++ [n]
  | ForwardedAck i n => 5 :: enc_id i ++ [n]
  | Announce => [6]
  | Feed => [7]
  | Gossip => [8]
  | Broadcast => [9]
  | TurnUndead => [10]
  end.

Definition dec_msg (b : bytes) : option (message cid * bytes) :=
  match b with
  | 0 :: n :: r => Some (Ping n, r)
  | 1 :: n :: r => Some (Ack n, r)
  | 6 :: r => Some (Announce, r)
  | 7 :: r => Some (Feed, r)
  | 8 :: r => Some (Gossip, r)
  | 9 :: r => Some (Broadcast, r)
  | 10 :: r => Some (TurnUndead, r)
  | t :: r =>
      if (2 <=? t) && (t <=? 5) then
        match dec_id r with
        | Some (i, n :: r') =>
            Some (match t with
                  | 2 => PingReq i n | 3 => IndirectPing i n
                  | 4 => IndirectAck i n | _ => ForwardedAck i n end, r')
        | _ => None
        end
      else None
  | [] => None
  end.

Definition c_enc_hdr (h : header cid) : bytes :=
  enc_id (h_src h) ++ u16_be (h_src_inc h) ++ enc_id (h_dst h) ++ enc_msg (h_msg h).

Definition c_dec_hdr (b : bytes) : option (header cid * bytes) :=
  match dec_id b with
  | Some (src, i1 :: i0 :: r) =>
      match dec_id r with
      | Some (dst, r') =>
          match dec_msg r' with
          | Some (m, r'') => Some (mkHeader src (i1 * 256 + i0) dst m, r'')
          | None => None
          end
      | None => None
      end
  | _ => None
  end.

Global Instance cid_codec : CodecOps cid :=
  {| enc_hdr := c_enc_hdr; dec_hdr := c_dec_hdr; enc_mem := c_enc_mem; dec_mem := c_dec_mem;
     enc_mem_partial := fun _ room => room (* byte-at-a-time writer: fills the buffer *) |}.

(* ---- broadcast handler ---- *)
Record chst := mkChst { ch_mode : N; ch_mask : N; ch_seen : list (N * N) }.
Definition ckey := (N * N * N)%type.    (* key, version, invalidation mode *)

Fixpoint seen_lookup (k : N) (l : list (N * N)) : option N :=
  match l with
  | [] => None
  | (k', v) :: t => if k =? k' then Some v else seen_lookup k t
  end.
Fixpoint seen_set (k v : N) (l : list (N * N)) : list (N * N) :=
  match l with
  | [] => [(k, v)]
  | (k', v') :: t => if k =? k' then (k, v) :: t else (k', v') :: seen_set k v t
  end.

Definition c_recv (h : chst) (data : bytes) (sender : option cid) : chst * option (option ckey) :=
  match data with
  | [] => (h, None)
  | k :: r =>
      if k =? 255 then (h, None) else
      let v := match r with v :: _ => v | [] => 0 end in
      let fresh := match seen_lookup k (ch_seen h) with
                   | None => true
                   | Some v' => v' <? v
                   end in
      if fresh
      then (mkChst (ch_mode h) (ch_mask h) (seen_set k v (ch_seen h)), Some (Some (k, v, ch_mode h)))
      else (h, Some None)
  end.

Definition c_should_add (h : chst) (i : cid) : bool := N.testbit (ch_mask h) (ca i mod 8).

Definition c_inval (a b : ckey) : bool :=
  let '(k1, v1, m) := a in
  let '(k2, v2, _) := b in
  match m with
  | 0 => k1 =? k2
  | 1 => (k1 =? k2) && (v2 <=? v1)
  | 2 => false
  | 3 => true
  | 4 => k2 <=? k1                       (* a snapshot: supersedes every lower key *)
  | _ => (k1 mod 2) =? (k2 mod 2)        (* one key clears its whole group *)
  end.

Global Instance cid_handler : HandlerOps cid :=
  {| hstate := chst; hkey := ckey; h_recv := c_recv; h_should_add := c_should_add; h_inval := c_inval |}.

Definition cfoca := @foca cid N cid_handler.
Definition cinput := @input cid.
Definition cstep (rnd : oracle) (f : cfoca) (i : cinput) := step rnd f i.
