(* L_FanOutSharp.v — C18, the sharp per-delivery bound: a delivered datagram causes at most
   F * (k_own + [it is a TurnUndead]) + 1 new datagrams, F = num_indirect_probes and k_own the number
   of member updates it carries about the receiver's OWN ADDRESS.  In particular a datagram that says
   nothing about the receiver's address and is not a TurnUndead is answered by at most ONE datagram. *)
From Foca Require Import Laws L_Lists MembersM ProbeM BcastM FocaM L_Members L_MembersInv Hoare Inv L_Probe.

Section FanOutSharp.
Context {Id Addr : Type} {IO : IdOps Id Addr} {CO : CodecOps Id} {HO : HandlerOps Id} {IL : IdLaws IO} {EL : @ExtraLaws Id Addr IO CO}.
Variable rnd : oracle.
Variable F : N.   (* the fan-out in force: num_indirect_probes *)
Variable a0 : Addr.   (* the instance's own address *)
Notation member := (member Id).
Notation foca := (@foca Id Addr HO).
Notation rs := (@rs Id Addr HO).
Notation M := (@M Id Addr HO).
Notation effect := (effect Id).
Notation "x <- m ;; f" := (bind m (fun x => f)) (at level 61, m at next level, right associativity).
Notation "m ;;; f" := (bind m (fun _ => f)) (at level 61, right associativity).

Definition nsends (es : list effect) : N := len (filter is_send es).
Lemma nsends_app a b : nsends (a ++ b) = nsends a + nsends b.
Proof. unfold nsends. rewrite filter_app. apply len_app. Qed.

Lemma nsends_nil : nsends (@nil effect) = 0. Proof. reflexivity. Qed.
Lemma nsends_one_send d b : nsends [Send d b : effect] = 1. Proof. reflexivity. Qed.

Definition fan (s : rs) : Prop := num_indirect_probes (cfg (st s)) = F /\ addr_of (identity (st s)) = a0.

(* from a state with fan-out F: the fan-out is kept and at most n datagrams are emitted *)
Definition sle {A} (n : N) (m : M A) : Prop :=
  forall s, fan s -> fan (fst (m s)) /\ exists new, out (fst (m s)) = out s ++ new /\ nsends new <= n.

Lemma sle_weaken {A} n n' (m : M A) : n <= n' -> sle n m -> sle n' m.
Proof. intros Hn H s Fs. destruct (H s Fs) as (F1 & new & O & L). split; [exact F1|]. exists new. split; [exact O|lia]. Qed.
Lemma sle_bind {A B} n1 n2 (m : M A) (f : A -> M B) : sle n1 m -> (forall a, sle n2 (f a)) -> sle (n1 + n2) (bind m f).
Proof.
  intros Hm Hf s Fs. destruct (Hm s Fs) as (F1 & new1 & O1 & L1). unfold bind.
  destruct (m s) as [s1 [a|e|p]]; cbn [fst] in *; try (split; [exact F1|]; exists new1; split; [exact O1|lia]).
  destruct (Hf a s1 F1) as (F2 & new2 & O2 & L2). split; [exact F2|]. exists (new1 ++ new2). split.
  - rewrite O2, O1, app_assoc. reflexivity.
  - rewrite nsends_app. lia.
Qed.
Lemma sle_bind0 {A B} n (m : M A) (f : A -> M B) : sle 0 m -> (forall a, sle n (f a)) -> sle n (bind m f).
Proof. intros Hm Hf. replace n with (0 + n) by lia. apply sle_bind; auto. Qed.
Lemma sle_quiet {A} (m : M A) :
  (forall s, cfg (st (fst (m s))) = cfg (st s) /\ identity (st (fst (m s))) = identity (st s) /\ out (fst (m s)) = out s) -> sle 0 m.
Proof.
  intros H s Fs. destruct (H s) as (C & I & O). split; [unfold fan; rewrite C, I; exact Fs|].
  exists []. split; [rewrite O, app_nil_r; reflexivity|]. rewrite nsends_nil. lia.
Qed.
Lemma sle_ret {A} (x : A) : sle 0 (@ret Id Addr HO A x). Proof. apply sle_quiet. intros s. cbn. auto. Qed.
Lemma sle_fail {A} e : sle 0 (@fail Id Addr HO A e). Proof. apply sle_quiet. intros s. cbn. auto. Qed.
Lemma sle_panic {A} p : sle 0 (@panic Id Addr HO A p). Proof. apply sle_quiet. intros s. cbn. auto. Qed.
Lemma sle_get : sle 0 (@get Id Addr HO). Proof. apply sle_quiet. intros s. cbn. auto. Qed.
Lemma sle_num_sends : sle 0 (@num_sends Id Addr HO). Proof. apply sle_quiet. intros s. cbn. auto. Qed.
Lemma sle_ask r : sle 0 (ask rnd r). Proof. apply sle_quiet. intros s. cbn. auto. Qed.
Lemma sle_with_ctr {A} (g : N -> A * N) : sle 0 (with_ctr g).
Proof. apply sle_quiet. intros s. unfold with_ctr. destruct (g (ctr s)). cbn. auto. Qed.
Lemma sle_modify g : (forall f, cfg (g f) = cfg f /\ identity (g f) = identity f) -> sle 0 (@modify Id Addr HO g).
Proof. intros H. apply sle_quiet. intros s. cbn. destruct (H (st s)). auto. Qed.
Lemma sle_emit_other e : is_send e = false -> sle 0 (@emit Id Addr HO e).
Proof.
  intros H s Fs. cbn. split; [exact Fs|]. exists [e]. split; [reflexivity|]. unfold nsends. cbn [filter]. rewrite H. unfold len. cbn [length]. lia.
Qed.
Lemma sle_emit_send d b : sle 1 (@emit Id Addr HO (Send d b)).
Proof. intros s Fs. cbn. split; [exact Fs|]. exists [Send d b]. split; [reflexivity|]. rewrite nsends_one_send. lia. Qed.
Lemma sle_when n b (m : M unit) : sle n m -> sle n (when b m).
Proof. destruct b; cbn; auto. intros _. apply (sle_weaken 0); [lia|apply sle_ret]. Qed.
Lemma sle_attempt n (m : M unit) : sle n m -> sle n (attempt m).
Proof. intros H s Fs. specialize (H s Fs). unfold attempt. destruct (m s) as [s1 [x|e|p]]; auto. Qed.
Lemma sle_forM {A} n (l : list A) (f : A -> M unit) : (forall x, sle n (f x)) -> sle (len l * n) (forM_ l f).
Proof.
  intros H. induction l as [|x t IH]; cbn [forM_].
  - apply (sle_weaken 0); [lia|apply sle_ret].
  - replace (len (x :: t) * n) with (n + len t * n) by (rewrite len_cons; lia). apply sle_bind; auto.
Qed.

Ltac sle0_step :=
  first
    [ apply sle_ret | apply sle_fail | apply sle_panic | apply sle_get | apply sle_num_sends | apply sle_ask | apply sle_with_ctr
    | apply sle_modify; intros ?; split; reflexivity
    | apply sle_emit_other; reflexivity
    | apply sle_when | apply sle_attempt
    | apply sle_bind0; [|intros ?]
    | progress cbv zeta
    | progress unfold estimate_feed_capacity, choose_active, add_update, add_custom, handle_apply_summary, apply_update,
        submit_periodic, become_connected, become_disconnected, become_undead, adjust_connection_state,
        handle_custom_broadcasts, reset
    | match goal with
      | |- sle _ (match ?x with _ => _ end) => destruct x
      | |- sle _ (if ?c then _ else _) => destruct c
      | |- sle _ (let '(_, _) := ?x in _) => destruct x
      end ].
Ltac sle0 := repeat sle0_step.

Lemma sle_feed_loop l : forall room count acc0, sle 0 (@feed_loop Id Addr CO HO l room count acc0).
Proof. induction l as [|m t IH]; intros room count acc0; cbn [feed_loop]; sle0. apply IH. Qed.
Lemma sle_custom_loop sender fuel : forall data, sle 0 (@custom_loop Id Addr HO fuel data sender).
Proof. induction fuel as [|fuel IH]; intros data; cbn [custom_loop]; sle0. apply IH. Qed.

Lemma sle_send_message dst msg : sle 1 (send_message rnd dst msg).
Proof.
  unfold send_message. apply sle_bind0; [apply sle_get|]. intros f.
  destruct (negb _); [apply (sle_weaken 0); [lia|apply sle_panic]|].
  destruct (_ <? len (enc_hdr _)); [apply (sle_weaken 0); [lia|apply sle_fail]|].
  apply sle_bind0; [apply sle_num_sends|]. intros idx.
  apply sle_bind0; [unfold send_body; sle0; apply sle_feed_loop|]. intros [body room3].
  apply sle_bind0; [unfold send_customs; sle0|]. intros cust. apply sle_emit_send.
Qed.

(* gossip and friends: at most F datagrams *)
Lemma sle_choose_and_send msg : forall s, fan s ->
  fan (fst (choose_and_send rnd (num_indirect_probes (cfg (st s))) msg s))
  /\ exists new, out (fst (choose_and_send rnd (num_indirect_probes (cfg (st s))) msg s)) = out s ++ new /\ nsends new <= F.
Proof.
  intros s Fs. remember (choose_and_send rnd (num_indirect_probes (cfg (st s))) msg s) as x eqn:Ex. revert Ex.
  unfold choose_and_send, bind at 1, choose_active at 1, bind at 1, get at 1. cbv beta iota. unfold with_ctr.
  pose proof (choose_members_len rnd (mems (st s)) (num_indirect_probes (cfg (st s))) (fun m => m_active m && true) (ctr s)) as CL.
  unfold choose_active_members. cbn [st].
  destruct (choose_members rnd (mems (st s)) (num_indirect_probes (cfg (st s))) _ (ctr s)) as [chosen k]. cbn [fst] in CL.
  intros ->.
  assert (H : sle (len (rev chosen) * 1) (forM_ (rev chosen) (fun m => send_message rnd (m_id m) msg))).
  { apply sle_forM. intros x. apply sle_send_message. }
  specialize (H (mkRs (st s) (out s) k) Fs). cbn [out st] in H. destruct H as (F1 & new & O & L).
  split; [exact F1|]. exists new. split; [exact O|].
  unfold len in *. rewrite rev_length in L. destruct Fs as [Fs _]. lia.
Qed.

Lemma sle_gossip : sle F (gossip rnd).
Proof. intros s Fs. unfold gossip, bind, get. cbn. apply sle_choose_and_send. exact Fs. Qed.

Lemma sle_change_identity new_id : addr_of new_id = a0 -> sle F (change_identity rnd new_id).
Proof.
  intros HA s Fs. remember (change_identity rnd new_id s) as x eqn:Ex. revert Ex.
  unfold change_identity, bind at 1, get at 1. cbv beta iota.
  destruct (id_eqb _ _).
  { intros ->. destruct (@sle_fail unit ESameIdentity s Fs) as (F1 & new & O & L). split; [exact F1|]. exists new. split; [exact O|lia]. }
  cbv zeta. unfold bind at 1, modify at 1. cbv beta iota. intros ->.
  set (s1 := mkRs (set_identity (st s) new_id) (out s) (ctr s)).
  assert (F1 : fan s1) by (destruct Fs as [A B]; split; [exact A|exact HA]).
  match goal with |- fan (fst (?m s1)) /\ _ => assert (H : sle F m) end.
  { apply sle_bind0; [unfold reset; apply sle_modify; intros ?; split; reflexivity|]. intros _.
    apply sle_bind0; [sle0|]. intros _. apply sle_gossip. }
  exact (H s1 F1).
Qed.

Lemma sle_attempt_rejoin : sle F (attempt_rejoin rnd).
Proof.
  intros s Fs.
  assert (Z : forall (m : M bool), sle 0 m -> fan (fst (m s)) /\ exists new, out (fst (m s)) = out s ++ new /\ nsends new <= F).
  { intros m H. destruct (H s Fs) as (F1 & new & O & L). split; [exact F1|]. exists new. split; [exact O|lia]. }
  remember (attempt_rejoin rnd s) as x eqn:Ex. revert Ex.
  unfold attempt_rejoin, bind at 1, get at 1. cbv beta iota.
  destruct (renew (identity (st s))) as [new_id|] eqn:R; [|intros ->; apply Z, sle_ret].
  destruct (id_eqb _ _); [intros ->; apply Z, sle_ret|].
  destruct (negb _); [intros ->; apply Z, sle_ret|].
  assert (HA : addr_of new_id = a0) by (rewrite (renew_addr _ _ R); exact (proj2 Fs)).
  intros ->.
  match goal with |- fan (fst (?m s)) /\ _ => assert (H : sle F m) end.
  { replace F with (F + 0) by lia. apply sle_bind; [apply sle_change_identity; exact HA|intros _; sle0]. }
  exact (H s Fs).
Qed.

Lemma sle_handle_self_update inc st0 : sle F (handle_self_update rnd inc st0).
Proof.
  unfold handle_self_update. destruct st0.
  - apply (sle_weaken 0); [lia|apply sle_ret].
  - apply sle_bind0; [apply sle_get|]. intros f. destruct (_ =? u16_max).
    + replace F with (F + 0) by lia. apply sle_bind; [apply sle_attempt_rejoin|]. intros b. sle0.
    + apply sle_bind0; [sle0|]. intros _. apply sle_bind0; [apply sle_get|]. intros f1. apply sle_when, sle_gossip.
  - replace F with (F + 0) by lia. apply sle_bind; [apply sle_attempt_rejoin|]. intros b. sle0.
Qed.

(* updates about the instance's own address *)
Definition own (u : member) : bool := addr_eqb (addr_of (m_id u)) a0.
Definition kown (l : list member) : N := len (filter own l).

Lemma sle_apply_one b u : sle (if own u then F else 0) (apply_one rnd b u).
Proof.
  intros s Fs. remember (apply_one rnd b u s) as x eqn:Ex. revert Ex.
  unfold apply_one, bind at 1, get at 1. cbv beta iota.
  destruct (id_eqb (m_id u) (identity (st s))) eqn:E; intros ->.
  - apply id_eqb_eq in E. unfold own. rewrite E, (proj2 Fs).
    rewrite (proj2 (addr_eqb_eq a0 a0) eq_refl). exact (sle_handle_self_update (m_inc u) (m_state u) s Fs).
  - assert (H : sle 0 (if addr_eqb (addr_of (identity (st s))) (addr_of (m_id u))
                       then (apply_update rnd (mkMember (m_id u) 0 Down) b ;;; ret tt)
                       else (apply_update rnd u b ;;; ret tt))) by (destruct (addr_eqb _ _); sle0).
    destruct (H s Fs) as (F1 & new & O & L). split; [exact F1|]. exists new. split; [exact O|]. destruct (own u); lia.
Qed.

Lemma sle_forM_own b (l : list member) : sle (kown l * F) (forM_ l (apply_one rnd b)).
Proof.
  induction l as [|x t IH]; cbn [forM_].
  - apply (sle_weaken 0); [lia|apply sle_ret].
  - replace (kown (x :: t) * F) with ((if own x then F else 0) + kown t * F).
    + apply sle_bind; [apply sle_apply_one|intros _; exact IH].
    + unfold kown. cbn [filter]. destruct (own x); [rewrite len_cons|]; lia.
Qed.

Lemma sle_apply_many l b : sle (kown l * F) (apply_many rnd l b).
Proof.
  unfold apply_many. replace (kown l * F) with (kown l * F + 0) by lia.
  apply sle_bind; [apply sle_forM_own|]. intros _. sle0.
Qed.

(* 1 for a TurnUndead, 0 otherwise *)
Definition tu (msg : message Id) : N := if message_eqb id_eqb msg TurnUndead then 1 else 0.

Lemma sle_react src msg : sle (F * tu msg + 1) (react rnd src msg).
Proof.
  assert (S1 : forall d m, sle (F * tu msg + 1) (send_message rnd d m)) by (intros; apply (sle_weaken 1); [lia|apply sle_send_message]).
  assert (Z : forall (m : M unit), sle 0 m -> sle (F * tu msg + 1) m) by (intros m H; apply (sle_weaken 0); [lia|exact H]).
  unfold react. apply sle_bind0; [apply sle_get|]. intros f.
  destruct msg.
  - apply S1.
  - apply Z. sle0.
  - destruct (id_eqb _ _); [apply Z, sle_fail|apply S1].
  - destruct (id_eqb _ _); [apply Z, sle_fail|apply S1].
  - destruct (id_eqb _ _); [apply Z, sle_fail|apply S1].
  - destruct (id_eqb _ _); [apply Z, sle_fail|apply Z; sle0].
  - apply S1.
  - apply Z, sle_ret.
  - apply Z, sle_ret.
  - apply Z, sle_ret.
  - apply (sle_weaken F); [unfold tu; cbn; lia|apply sle_handle_self_update].
Qed.

(* everything after the header and the member list were decoded *)
Lemma sle_after_header (h : header Id) (ul : list member) (tail : bytes) :
  sle (F * (kown ul + tu (h_msg h)) + 1)
      (sender_is_active <- apply_update rnd (mkMember (h_src h) (h_src_inc h) Alive) true ;;
       if negb sender_is_active then
         f0 <- get ;;
         let already_undead := conn_eqb (conn f0) Undead in
         when (message_eqb id_eqb (h_msg h) TurnUndead) (handle_self_update rnd 0 Down) ;;;
         f <- get ;;
         let pointless := already_undead && message_eqb id_eqb (h_msg h) TurnUndead in
         when (notify_down_members (cfg f) && negb pointless) (send_message rnd (h_src h) TurnUndead)
       else
         apply_many rnd ul true ;;;
         cres <- attempt (handle_custom_broadcasts tail (Some (h_src h))) ;;
         f <- get ;;
         if negb (conn_eqb (conn f) Connected) then
           match cres with Some e => fail e | None => ret tt end
         else
           react rnd (h_src h) (h_msg h) ;;;
           match cres with Some e => fail e | None => ret tt end).
Proof.
  apply sle_bind0; [sle0|]. intros sia. destruct (negb sia).
  - apply (sle_weaken (F * tu (h_msg h) + 1)); [lia|].
    apply sle_bind0; [apply sle_get|]. intros f0. cbv zeta.
    apply sle_bind.
    { unfold tu. destruct (message_eqb id_eqb (h_msg h) TurnUndead); cbn [when].
      - replace (F * 1) with F by lia. apply sle_handle_self_update.
      - replace (F * 0) with 0 by lia. apply sle_ret. }
    intros _. apply sle_bind0; [apply sle_get|]. intros f1. apply sle_when, sle_send_message.
  - replace (F * (kown ul + tu (h_msg h)) + 1) with (kown ul * F + (F * tu (h_msg h) + 1)) by lia.
    apply sle_bind; [apply sle_apply_many|]. intros _.
    apply sle_bind0; [apply sle_attempt; unfold handle_custom_broadcasts; sle0; apply sle_custom_loop|]. intros cres.
    apply sle_bind0; [apply sle_get|]. intros f1.
    destruct (negb (conn_eqb _ _)).
    + apply (sle_weaken 0); [lia|]. destruct cres; sle0.
    + replace (F * tu (h_msg h) + 1) with (F * tu (h_msg h) + 1 + 0) by lia. apply sle_bind; [apply sle_react|]. intros _. destruct cres; sle0.
Qed.

(* what a datagram says about the receiver: the number of member updates about the receiver's own
   address (0 when it is rejected before they are read), and whether it is a TurnUndead *)
Definition own_updates_in (data : bytes) : N :=
  match dec_hdr data with
  | Some (h, rest) =>
      (if (2 <=? len rest) && negb (message_eqb id_eqb (h_msg h) Broadcast) then
         match get_u16 rest with
         | Some (n, r) => match dec_members (N.to_nat n) r with Some (ul, _) => kown ul | None => 0 end
         | None => 0
         end
       else 0) + tu (h_msg h)
  | None => 0
  end.

(* one delivered datagram *)
Theorem sle_handle_data (data : bytes) : sle (F * own_updates_in data + 1) (handle_data rnd data).
Proof.
  unfold handle_data, own_updates_in. apply sle_bind0; [apply sle_get|]. intros f.
  destruct (_ <? len data); [apply (sle_weaken 0); [lia|apply sle_fail]|].
  destruct (dec_hdr data) as [[h rest]|]; [|apply (sle_weaken 0); [lia|apply sle_fail]].
  destruct (_ || _); [apply (sle_weaken 0); [lia|apply sle_fail]|].
  destruct (_ || _); [apply (sle_weaken 0); [lia|apply sle_fail]|].
  destruct (negb (accept_payload _ _)); [apply (sle_weaken 0); [lia|apply sle_ret]|].
  destruct ((2 <=? len rest) && negb (message_eqb id_eqb (h_msg h) Broadcast)).
  - destruct (get_u16 rest) as [[n r]|].
    2:{ intros s Fs. unfold bind, fail. cbn. split; [exact Fs|]. exists []. rewrite app_nil_r. split; [reflexivity|rewrite nsends_nil; lia]. }
    destruct (dec_members (N.to_nat n) r) as [[ul tail]|].
    2:{ intros s Fs. unfold bind, fail. cbn. split; [exact Fs|]. exists []. rewrite app_nil_r. split; [reflexivity|rewrite nsends_nil; lia]. }
    intros s. unfold bind at 1, ret at 1. cbv beta iota. revert s. apply sle_after_header.
  - intros s. unfold bind at 1, ret at 1. cbv beta iota. revert s.
    apply (sle_weaken (F * (kown (@nil member) + tu (h_msg h)) + 1)); [unfold kown, len; cbn [filter length]; lia|]. apply sle_after_header.
Qed.

(* as a statement about one call *)
Theorem step_data_fanout_sharp (f : foca) (data : bytes) :
  num_indirect_probes (cfg f) = F -> addr_of (identity f) = a0 ->
  nsends (snd (fst (fst (step rnd f (IData data))))) <= F * own_updates_in data + 1.
Proof.
  intros HF HA. cbn [step]. unfold run_unit.
  destruct (sle_handle_data data (mkRs f [] 0) (conj HF HA)) as (_ & new & O & L).
  destruct (handle_data rnd data (mkRs f [] 0)) as [s' r]. cbn [fst snd out] in *. cbn [app] in O. rewrite O. exact L.
Qed.

(* a datagram that says nothing about the receiver's own address and is not a TurnUndead is
   answered by at most one datagram *)
Corollary step_data_one_reply (f : foca) (data : bytes) :
  num_indirect_probes (cfg f) = F -> addr_of (identity f) = a0 -> own_updates_in data = 0 ->
  nsends (snd (fst (fst (step rnd f (IData data))))) <= 1.
Proof.
  intros HF HA Z. pose proof (step_data_fanout_sharp f data HF HA) as H. rewrite Z in H. lia.
Qed.

End FanOutSharp.
