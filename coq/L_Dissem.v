(* L_Dissem.v — dissemination accounting for both backlogs (C15, C16): per-entry
   transmission bound, which datagrams consume the updates backlog, custom items are
   handed to the handler exactly as framed. *)
From Foca Require Import Laws L_Lists MembersM ProbeM BcastM FocaM WireM L_Members L_MembersInv L_Bcast L_Fill Hoare Inv L_Wire.

Section Keys.
Variable K : Type.
Notation entry := (@entry K).
Notation backlog := (backlog K).

(* one fill, seen from one entry of a backlog with pairwise distinct keys *)
Lemma decs_cases extra (l : backlog) room rem e :
  In e l -> In (e, true) (fill_dec K extra l room rem) \/ In (e, false) (fill_dec K extra l room rem).
Proof.
  intros Hin. rewrite <- (fill_dec_fst K extra l room rem) in Hin.
  apply in_map_iff in Hin. destruct Hin as ([e' b] & E & Hin). cbn in E. subst e'.
  destruct b; auto.
Qed.

Lemma fill_step_entry extra (l : backlog) room rem e :
  NoDup (map e_key l) -> In e l ->
  let decs := fill_dec K extra l room rem in
  let kept := flat_map (kp K) decs in
  (In (e, true) decs /\
   (if 1 <? e_tx e then In (dec_entry K e) kept else forall x, In x kept -> e_key x <> e_key e))
  \/ (In (e, false) decs /\ In e kept).
Proof.
  intros ND Hin decs kept.
  assert (NDd : NoDup (map (fun d => e_key (fst d)) decs)).
  { unfold decs. rewrite <- (map_map fst e_key). rewrite fill_dec_fst. exact ND. }
  destruct (decs_cases extra l room rem e Hin) as [Hw|Hn]; [fold decs in Hw|fold decs in Hn].
  - left. split; auto. destruct (1 <? e_tx e) eqn:T.
    + unfold kept. apply in_flat_map. exists (e, true). split; auto. unfold kp. cbn. rewrite T. left. reflexivity.
    + intros x Hx Ek. unfold kept in Hx. apply in_flat_map in Hx. destruct Hx as (d & Hd & Hx).
      pose proof (kp_keys K d x Hx) as Ek'.
      (* d has the same key as (e,true): by NoDup it is (e,true), whose kp is empty *)
      assert (d = (e, true)).
      { clear -NDd Hw Hd Ek Ek'. induction decs as [|a t IH]; [contradiction|].
        cbn in NDd. inversion NDd as [|? ? Hn Nt]; subst.
        destruct Hw as [->|Hw], Hd as [->|Hd]; auto.
        - exfalso. apply Hn. apply in_map_iff. exists d. split; auto. cbn. congruence.
        - exfalso. apply Hn. apply in_map_iff. exists (e, true). split; auto. cbn. congruence. }
      subst d. unfold kp in Hx. cbn in Hx. rewrite T in Hx. contradiction.
  - right. split; auto. unfold kept. apply in_flat_map. exists (e, false). split; auto. left. reflexivity.
Qed.

(* ---- a whole sequence of fills: every entry goes out at most e_tx times ---- *)
Variable keqb : K -> K -> bool.
Hypothesis keqb_eq : forall a b, keqb a b = true <-> a = b.

Definition fill_step := (N * list N * N * N)%type.   (* extra, hint, room, max items *)

Fixpoint fills (l : backlog) (steps : list fill_step) : list (list (entry * bool)) :=
  match steps with
  | [] => []
  | (extra, hint, room, rem) :: t =>
      let decs := fill_dec K extra (pop_order K hint l) room rem in
      decs :: fills (flat_map (kp K) decs) t
  end.

Definition wrote (k : K) (decs : list (entry * bool)) : bool :=
  existsb (fun d => snd d && keqb (e_key (fst d)) k) decs.

Definition times_written (k : K) (hist : list (list (entry * bool))) : nat :=
  length (filter (wrote k) hist).

Lemma times_written_cons k d h :
  times_written k (d :: h) = ((if wrote k d then 1 else 0) + times_written k h)%nat.
Proof. unfold times_written. cbn [filter]. destruct (wrote k d); reflexivity. Qed.

Lemma wrote_false_if_no_key k decs :
  (forall d, In d decs -> e_key (fst d) <> k) -> wrote k decs = false.
Proof.
  intros H. unfold wrote. destruct (existsb _ decs) eqn:E; auto.
  apply existsb_exists in E. destruct E as (d & Hd & E). apply andb_true_iff in E. destruct E as [_ E].
  apply keqb_eq in E. exfalso. eapply H; eauto.
Qed.

Lemma keys_kept_subset decs x :
  In x (flat_map (kp K) decs) -> exists d, In d decs /\ e_key x = e_key (fst d).
Proof.
  intros H. apply in_flat_map in H. destruct H as (d & Hd & Hx). exists d. split; auto. apply (kp_keys K d x Hx).
Qed.

Lemma times_written_absent steps : forall l k,
  (forall e, In e l -> e_key e <> k) -> times_written k (fills l steps) = 0%nat.
Proof.
  induction steps as [|[[[extra hint] room] rem] t IH]; intros l k Hk; cbn [fills]; [reflexivity|].
  rewrite times_written_cons.
  set (decs := fill_dec K extra (pop_order K hint l) room rem).
  assert (Hd : forall d, In d decs -> e_key (fst d) <> k).
  { intros d Hd. apply Hk. eapply Permutation_in; [apply pop_order_perm|].
    rewrite <- (fill_dec_fst K extra (pop_order K hint l) room rem). apply in_map. exact Hd. }
  rewrite (wrote_false_if_no_key k decs Hd). cbn [Nat.add].
  apply IH. intros e He. destruct (keys_kept_subset decs e He) as (d & Hd' & Ek). rewrite Ek. apply Hd. exact Hd'.
Qed.

Lemma kept_tx_ok (decs : list (entry * bool)) :
  Forall (fun d => 1 <= e_tx (fst d)) decs -> Forall (fun e => 1 <= e_tx e) (flat_map (kp K) decs).
Proof.
  induction decs as [|d t IH]; intros F; cbn; [constructor|].
  inversion F as [|? ? Hd Ft]; subst. apply Forall_app. split; [|apply IH; exact Ft].
  unfold kp. destruct (snd d).
  - destruct (1 <? e_tx (fst d)) eqn:T; [|constructor]. constructor; [|constructor]. cbn. lia.
  - constructor; [exact Hd|constructor].
Qed.

Theorem tx_bound steps : forall l e,
  NoDup (map e_key l) -> Forall (fun e => 1 <= e_tx e) l -> In e l ->
  (times_written (e_key e) (fills l steps) <= N.to_nat (e_tx e))%nat.
Proof.
  induction steps as [|[[[extra hint] room] rem] t IH]; intros l e ND TX Hin; cbn [fills]; [cbn; lia|].
  set (po := pop_order K hint l).
  assert (NDp : NoDup (map e_key po)).
  { eapply Permutation_NoDup; [|exact ND]. apply Permutation_map. symmetry. apply pop_order_perm. }
  assert (Hinp : In e po) by (eapply Permutation_in; [symmetry; apply pop_order_perm|exact Hin]).
  assert (TXp : Forall (fun e => 1 <= e_tx e) po).
  { eapply Permutation_Forall; [symmetry; apply pop_order_perm|exact TX]. }
  assert (TXe : 1 <= e_tx e) by (rewrite Forall_forall in TX; apply TX; exact Hin).
  pose proof (fill_step_entry extra po room rem e NDp Hinp) as S. cbv zeta in S.
  set (decs := fill_dec K extra po room rem) in *.
  assert (NDk : NoDup (map e_key (flat_map (kp K) decs))).
  { apply NoDup_keys_kept. unfold decs. rewrite <- (map_map fst e_key). rewrite fill_dec_fst. exact NDp. }
  assert (TXk : Forall (fun e => 1 <= e_tx e) (flat_map (kp K) decs)).
  { apply kept_tx_ok. unfold decs.
    assert (F0 : Forall (fun e => 1 <= e_tx e) (map fst (fill_dec K extra po room rem))) by (rewrite fill_dec_fst; exact TXp).
    rewrite Forall_map in F0. exact F0. }
  rewrite times_written_cons.
  destruct S as [[Hw Hk]|[Hn Hk]].
  - (* written now *)
    assert (W : wrote (e_key e) decs = true).
    { unfold wrote. apply existsb_exists. exists (e, true). split; auto. cbn. apply keqb_eq. reflexivity. }
    rewrite W.
    destruct (1 <? e_tx e) eqn:T.
    + specialize (IH _ (dec_entry K e) NDk TXk Hk). cbn [dec_entry e_key e_tx] in IH. lia.
    + rewrite (times_written_absent t (flat_map (kp K) decs) (e_key e) Hk). lia.
  - (* not written now: the same entry is still there *)
    destruct (wrote (e_key e) decs) eqn:W.
    + exfalso. unfold wrote in W. apply existsb_exists in W. destruct W as (d & Hd & E).
      apply andb_true_iff in E. destruct E as [Sd Ek]. apply keqb_eq in Ek.
      assert (NDd : NoDup (map (fun d => e_key (fst d)) decs)).
      { unfold decs. rewrite <- (map_map fst e_key). rewrite fill_dec_fst. exact NDp. }
      assert (d = (e, false)).
      { clear -NDd Hn Hd Ek. induction decs as [|a t0 IHd]; [contradiction|].
        cbn in NDd. inversion NDd as [|? ? Hnn Nt]; subst.
        destruct Hn as [->|Hn], Hd as [->|Hd]; auto.
        - exfalso. apply Hnn. apply in_map_iff. exists d. split; [cbn; congruence|exact Hd].
        - exfalso. apply Hnn. apply in_map_iff. exists (e, false). split; [cbn; congruence|exact Hn]. }
      subst d. discriminate Sd.
    + cbn [Nat.add]. apply IH; auto.
Qed.

End Keys.

Section Dissem.
Context {Id Addr : Type} {IO : IdOps Id Addr} {CO : CodecOps Id} {HO : HandlerOps Id}.
Variable rnd : oracle.
Notation member := (member Id).
Notation foca := (@foca Id Addr HO).
Notation rs := (@rs Id Addr HO).
Notation M := (@M Id Addr HO).

(* ---- which sends consume the updates backlog ---- *)
Definition keeps_updates {A} (m : M A) : Prop := forall s, updates (st (fst (m s))) = updates (st s).

Lemma ku_bind {A B} (m : M A) (f : A -> M B) : keeps_updates m -> (forall a, keeps_updates (f a)) -> keeps_updates (bind m f).
Proof.
  intros Hm Hf s. unfold bind. specialize (Hm s). destruct (m s) as [s' [a|e|p]]; cbn in *; auto.
  rewrite Hf. exact Hm.
Qed.
Lemma ku_ret {A} (a : A) : keeps_updates (ret a). Proof. intros s. reflexivity. Qed.
Lemma ku_fail {A} e : keeps_updates (@fail Id Addr HO A e). Proof. intros s. reflexivity. Qed.
Lemma ku_panic {A} p : keeps_updates (@panic Id Addr HO A p). Proof. intros s. reflexivity. Qed.
Lemma ku_get : keeps_updates (@get Id Addr HO). Proof. intros s. reflexivity. Qed.
Lemma ku_emit e : keeps_updates (@emit Id Addr HO e). Proof. intros s. reflexivity. Qed.
Lemma ku_ask r : keeps_updates (ask rnd r). Proof. intros s. reflexivity. Qed.
Lemma ku_with_ctr {A} (g : N -> A * N) : keeps_updates (with_ctr g).
Proof. intros s. unfold with_ctr. destruct (g (ctr s)). reflexivity. Qed.
Lemma ku_feed_loop l : forall room count acc, keeps_updates (feed_loop l room count acc).
Proof.
  induction l as [|m t IH]; intros room count acc; cbn [feed_loop]; [apply ku_ret|].
  destruct (room <? len (enc_mem m)); [apply ku_ret|].
  destruct (count =? u16_max); [apply ku_panic|apply IH].
Qed.

Lemma ku_send_customs dst msg room3 idx : keeps_updates (send_customs rnd dst msg room3 idx).
Proof.
  unfold send_customs. apply ku_bind; [apply ku_get|]. intros f1.
  destruct (_ && _ && _); [|apply ku_ret].
  destruct (customs f1); [apply ku_ret|].
  apply ku_bind; [apply ku_ask|]. intros hint.
  destruct (fill_gen hkey 2 hint _ _ _) as [[[w n] kept] p].
  destruct p; [apply ku_panic|].
  apply ku_bind; [intros s; reflexivity|intros; apply ku_ret].
Qed.

(* Feed, Announce, TurnUndead and Broadcast datagrams consume nothing *)
Theorem non_piggyback_keeps_updates dst msg :
  needs_piggyback msg = false \/ piggyback_only_active msg = true ->
  keeps_updates (send_message rnd dst msg).
Proof.
  intros K. unfold send_message. apply ku_bind; [apply ku_get|]. intros f.
  destruct (negb _); [apply ku_panic|]. destruct (_ <? _); [apply ku_fail|].
  apply ku_bind; [intros s; reflexivity|]. intros idx.
  apply ku_bind.
  - unfold send_body. destruct (needs_piggyback msg) eqn:NP; cbn [andb]; [|apply ku_ret].
    destruct (2 <? _); [|apply ku_ret]. destruct K as [K|K]; [discriminate|]. rewrite K.
    apply ku_bind.
    { unfold estimate_feed_capacity. destruct (_ =? 0); [apply ku_panic|apply ku_ret]. }
    intros cap. apply ku_bind.
    { unfold choose_active. apply ku_bind; [apply ku_get|]. intros f1. apply ku_with_ctr. }
    intros chosen. apply ku_bind; [apply ku_feed_loop|]. intros [[c b] l]. apply ku_ret.
  - intros [body room3]. apply ku_bind; [apply ku_send_customs|intros; apply ku_emit].
Qed.

(* applying with broadcasting disabled leaves the backlog untouched *)
Theorem apply_update_no_broadcast (u : member) : keeps_updates (apply_update rnd u false).
Proof.
  unfold apply_update. apply ku_bind; [apply ku_get|]. intros f.
  destruct (id_eqb _ _); [apply ku_panic|].
  apply ku_bind; [apply ku_with_ctr|]. intros [ms s].
  apply ku_bind; [intros x; reflexivity|]. intros _.
  apply ku_bind; [|intros; apply ku_ret].
  unfold handle_apply_summary. apply ku_bind.
  { unfold when. destruct (apply_successful s); [|apply ku_ret]. cbn [when].
    apply ku_bind; [apply ku_ret|]. intros _. apply ku_bind; [apply ku_get|]. intros f1.
    destruct (negb _); [apply ku_emit|apply ku_ret]. }
  intros _. apply ku_bind.
  { destruct (s_conflict s); try apply ku_ret. apply ku_emit. }
  intros _. unfold when. destruct (changed_active_set s); [apply ku_emit|apply ku_ret].
Qed.

(* ---- the receiving side of custom broadcasts ---- *)
Definition recv_item (sender : option Id) (d : bytes) : M unit :=
  bind get (fun f =>
    let '(h', r) := h_recv (hst f) d sender in
    bind (modify (fun f => set_hst f h')) (fun _ =>
      match r with
      | None => fail ECustomBroadcast
      | Some (Some key) => add_custom key d
      | Some None => ret tt
      end)).

Lemma custom_loop_step fuel (d rest : bytes) sender (s : rs) :
  item_ok d ->
  custom_loop (S fuel) (fr d ++ rest) sender s =
  bind (recv_item sender d) (fun _ => custom_loop fuel rest sender) s.
Proof.
  intros [D1 D2]. cbn [custom_loop].
  assert (Lf : 3 <= len (fr d ++ rest)).
  { rewrite len_app. unfold fr. rewrite len_app. unfold u16_be, len at 1. cbn [length]. lia. }
  replace (2 <? len (fr d ++ rest)) with true by lia.
  unfold fr. rewrite <- app_assoc. rewrite get_u16_u16_be by exact D2.
  replace ((len d =? 0) || (len (d ++ rest) <? len d)) with false by (rewrite len_app; lia).
  rewrite firstn_len_app, skipn_len_app.
  unfold recv_item, bind, get, modify. cbn [st out ctr].
  destruct (h_recv (hst (st s)) d sender) as [h' [[k|]|]]; reflexivity.
Qed.

(* the handler is called on exactly the framed items, in order, once each *)
Theorem custom_loop_items (items : list bytes) sender : forall fuel (s : rs),
  Forall item_ok items -> (length (flat_map fr items) <= fuel)%nat ->
  custom_loop fuel (flat_map fr items) sender s = forM_ items (recv_item sender) s.
Proof.
  induction items as [|d t IH]; intros fuel s F L.
  - cbn [flat_map forM_]. destruct fuel; cbn [custom_loop]; [reflexivity|].
    replace (2 <? len (@nil N)) with false by (unfold len; cbn; lia). reflexivity.
  - inversion F as [|? ? Dok Ft]; subst. cbn [flat_map forM_] in *.
    assert (Lf : (3 <= length (fr d ++ flat_map fr t))%nat).
    { destruct Dok as [D1 D2]. rewrite app_length. unfold fr at 1. rewrite app_length. unfold u16_be. cbn [length]. unfold len in D1. lia. }
    destruct fuel as [|fuel]; [lia|].
    rewrite custom_loop_step by exact Dok.
    unfold bind. destruct (recv_item sender d s) as [s' [[]|e|p]]; auto.
    apply IH; auto.
    rewrite app_length in L. unfold fr at 1 in L. rewrite app_length in L. unfold u16_be in L. cbn [length] in L.
    destruct Dok as [D1 _]. unfold len in D1. lia.
Qed.

(* broadcast() with an empty backlog does nothing *)
Theorem broadcast_empty_noop (s : rs) : customs (st s) = [] -> broadcast rnd s = (s, ROk tt).
Proof. intros E. unfold broadcast, bind, get. rewrite E. reflexivity. Qed.

(* invalidation: after accepting a key nothing it invalidates is left in the backlog *)
Theorem add_custom_invalidates (key : hkey) (data : bytes) (s : rs) :
  forall e, In e (customs (st (fst (add_custom key data s)))) ->
            e = mkEntry (max_tx (st s)) data key \/ (In e (customs (st s)) /\ h_inval key (e_key e) = false).
Proof.
  intros e. unfold add_custom, modify. cbn. unfold add_or_replace. intros H.
  apply in_app_or in H. destruct H as [H|[<-|[]]]; auto.
  apply filter_In in H. destruct H as [H1 H2]. right. split; auto. apply negb_true_iff. exact H2.
Qed.

End Dissem.
