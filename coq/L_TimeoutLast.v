(* L_TimeoutLast.v — C11, the remaining effective case: the suspicion timeout of the LAST active
   member.  The record becomes Down exactly as in the general case and, the instance having no
   active member left, it goes Idle: epoch bumped, probe cleared, Idle notified after MemberDown. *)
From Foca Require Import Laws L_Lists MembersM ProbeM BcastM FocaM L_Members L_MembersInv Hoare Inv L_Timeout.

Section TimeoutLast.
Context {Id Addr : Type} {IO : IdOps Id Addr} {CO : CodecOps Id} {HO : HandlerOps Id} {IL : IdLaws IO}.
Variable rnd : oracle.
Notation member := (member Id).
Notation foca := (@foca Id Addr HO).

Lemma adjust_last (s : @rs Id Addr HO) :
  conn (st s) = Connected -> num_active (mems (st s)) = 0 ->
  adjust_connection_state s =
  (mkRs (set_prb (set_token (set_conn (st s) Disconnected) (wrap8 (token (st s) + 1))) (probe_clear (prb (st s))))
        (out s ++ [Notify NIdle]) (ctr s), ROk tt).
Proof.
  intros C Z. unfold adjust_connection_state, bind at 1, get at 1. cbv beta iota. rewrite C, Z, N.eqb_refl. cbn [when].
  unfold become_disconnected, bind at 1, get at 1. cbv beta iota. rewrite Z, N.eqb_refl. cbn [negb].
  reflexivity.
Qed.

Theorem timeout_effective_last (f : foca) (x : Id) (inc : N) (k : member) :
  lookup (inner (mems f)) (addr_of x) = Some k ->
  m_id k = x -> m_inc k = inc -> m_active k = true ->
  conn f = Connected -> num_active (mems f) = 1 ->
  send_cap f = max_packet_size (cfg f) -> header_fits f ->
  exists ms',
    step rnd f (timeout x inc (token f)) =
    (set_prb (set_token (set_conn
        (set_updates (set_mems f ms')
           (add_or_replace Addr addr_eqb (updates f) (addr_of x) (enc_mem (mkMember x inc Down)) (max_transmissions (cfg f))))
        Disconnected) (wrap8 (token f + 1))) (probe_clear (prb f)),
     [Submit (TRemoveDown x) (remove_down_after (cfg f)); Notify (NMemberDown x); Notify NIdle]
       ++ (if notify_down_members (cfg f)
           then [Send x (enc_hdr (mkHeader (identity f) (incarnation f) x TurnUndead))] else []),
     Done, 0)
    /\ num_active ms' = 0
    /\ exists p, nth_error (inner (mems f)) p = Some k /\
                 inner ms' = set_nth p (mkMember x inc Down) (inner (mems f)).
Proof.
  intros L Eid Einc Act Conn One Cap HF.
  destruct (lookup_find_index _ _ _ L) as (p & F & Np).
  exists (mkMembers (set_nth p (mkMember x inc Down) (inner (mems f))) (cursor (mems f)) (num_active (mems f) - 1)).
  split; [|split; [cbn; rewrite One; reflexivity|exists p; auto]].
  unfold timeout, step, run_unit, handle_timer, bind at 1, get at 1. cbn [st].
  rewrite N.eqb_refl. cbn [negb].
  assert (AE : apply_existing_if (mems f) (mkMember x inc Down) (fun m => m_inc m =? inc) =
               Some (mkMembers (set_nth p (mkMember x inc Down) (inner (mems f))) (cursor (mems f))
                               (num_active (mems f) - 1),
                     mkSummary false true true NoConflict)).
  { unfold apply_existing_if. cbn [m_id]. unfold maddr in F. rewrite F, Np.
    rewrite Eid, id_eqb_refl. cbn [negb andb]. rewrite Einc, N.eqb_refl. cbn [negb].
    unfold change_state, can_change. cbn [m_state m_inc].
    unfold m_active in Act. unfold m_active.
    destruct (m_state k); cbn in Act; try discriminate; cbn; rewrite Eid; reflexivity. }
  rewrite AE.
  erewrite bind_ok by (unfold modify; reflexivity). cbn [st out ctr].
  erewrite bind_ok by (apply handle_apply_summary_down). cbn [st out ctr].
  erewrite bind_ok.
  2:{ apply adjust_last; cbn; [exact Conn|rewrite One; reflexivity]. }
  cbn [apply_successful andb st out ctr].
  destruct (notify_down_members (cfg f)) eqn:ND; cbn [when]; cbn [cfg set_updates set_mems set_prb set_token set_conn].
  - rewrite send_message_header_only; cbn [st out ctr identity incarnation cfg send_cap token prb updates mems conn set_updates set_mems set_prb set_token set_conn]; auto.
  - cbn [ret]. cbn [st out ctr identity incarnation cfg send_cap token prb updates mems conn set_updates set_mems set_prb set_token set_conn].
    rewrite <- !app_assoc, app_nil_r. reflexivity.
Qed.

End TimeoutLast.
